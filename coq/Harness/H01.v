(* H01.v -- Coq side of the C01 correspondence.  One generated procedure gives
   * a library run, statement by statement on one Transaction, ended the way lib/cli/app.go ends
     a run (items + end mode + the directory and the temporary tables afterwards), and
   * a run of the real csvq binary on the same procedure in a fresh copy of the directory
     (directory + exit status afterwards);
   both are compared with Txn.run and with the independent TxnSpec.spec_disk. *)
Require Import Csvq.Model.Base Csvq.Model.Value Csvq.Model.Txn Csvq.Model.TxnSpec Csvq.Harness.HTxn.

Record c01case := mkC01 {
  c1_id : N;
  c1_keys : list key;
  c1_tkeys : list key;
  c1_d0 : list (key * tab);
  c1_items : list item;                 (* library run *)
  c1_mode : mode;                       (* how the procedure ended *)
  c1_lib_files : list (key * tab);      (* directory after the library run *)
  c1_lib_changed : list key;            (* files whose bytes differ from the initial ones / new files *)
  c1_lib_temps : list (key * tab);      (* temporary tables after the end *)
  c1_bin_files : list (key * tab);      (* directory after the binary run *)
  c1_bin_changed : list key;
  c1_bin_extra : N;                     (* other directory entries (lock / temp leftovers) *)
  c1_bin_exit_ok : bool }.

Definition c1_ops (c : c01case) := ops_of (c1_items c).
Definition c1_init (c : c01case) := init (disk_of (c1_d0 c)).

Definition subset (a b : list key) : bool := forallb (fun k => memb k b) a.
Definition temps_match (tkeys : list key) (t : key -> option tab) (obs : list (key * tab)) : bool :=
  forallb (fun k => otab_eqb (t k) (lookup k obs)) tkeys.

(* kind 1: stepping the model through the library run *)
Definition c1_steps_bad (c : c01case) : list N :=
  snd (run_items (c1_keys c) (c1_tkeys c) (c1_items c) 0%N (c1_init c)).
(* kind 2: the end of the library run *)
Definition c1_lib_end_ok (c : c01case) : bool :=
  let s := run (disk_of (c1_d0 c)) (c1_ops c) (c1_mode c) in
  files_match (c1_keys c) (disk s) (c1_lib_files c)
  && subset (c1_lib_changed c) (wlog s)
  && temps_match (c1_tkeys c) (tvisible s) (c1_lib_temps c).
(* kind 3: the end of the binary run *)
Definition c1_bin_end_ok (c : c01case) : bool :=
  let s := run (disk_of (c1_d0 c)) (c1_ops c) (c1_mode c) in
  files_match (c1_keys c) (disk s) (c1_bin_files c)
  && subset (c1_bin_changed c) (wlog s)
  && N.eqb (c1_bin_extra c) 0
  && Bool.eqb (c1_bin_exit_ok c) (exit_ok (c1_mode c)).
(* kind 4: the specification (pending-writes machine, no cache) on the binary's own result *)
Definition c1_spec_ok (c : c01case) : bool :=
  files_match (c1_keys c) (spec_disk (disk_of (c1_d0 c)) (c1_ops c) (c1_mode c)) (c1_bin_files c)
  && subset (c1_bin_changed c) (spec_written (disk_of (c1_d0 c)) (c1_ops c) (c1_mode c))
  && temps_match (c1_tkeys c) (spec_temps (disk_of (c1_d0 c)) (c1_ops c) (c1_mode c)) (c1_lib_temps c).
(* kind 5: fragment; kind 8: a statement that reported 0 affected rows changed its table *)
Definition c1_frag_ok (c : c01case) : bool := forallb op_ok (c1_ops c).
Definition c1_wf_ok (c : c01case) : bool := ops_wfb (c1_ops c) (c1_init c).

Definition check_c01 (cs : list c01case) : list (N * N) :=
  flat_map (fun c =>
    (match c1_steps_bad c with [] => [] | _ => [(1%N, c1_id c)] end) ++
    (if c1_lib_end_ok c then [] else [(2%N, c1_id c)]) ++
    (if c1_bin_end_ok c then [] else [(3%N, c1_id c)]) ++
    (if c1_spec_ok c then [] else [(4%N, c1_id c)]) ++
    (if c1_frag_ok c then [] else [(5%N, c1_id c)]) ++
    (if c1_wf_ok c then [] else [(8%N, c1_id c)])) cs.

(* ---- interrupts ---------------------------------------------------------------------------- *)
(* an observed end state after SIGINT / cancellation: ops = the statements of the uninterrupted
   run, nat_mode = how that run ends *)
Record c01sig := mkSig {
  sg_id : N;
  sg_keys : list key;
  sg_d0 : list (key * tab);
  sg_ops : list op;
  sg_nat_mode : mode;
  sg_files : list (key * tab);
  sg_changed : list key;
  sg_extra : N;
  sg_exit_ok : bool }.

Definition state_matches (keys : list key) (s : st) files changed : bool :=
  files_match keys (disk s) files && subset changed (wlog s).

Fixpoint nat_seq (n : nat) : list nat := match n with O => [O] | S m => nat_seq m ++ [n] end.

(* allowed by the property: the uninterrupted end, or "as at the most recent COMMIT" for some
   prefix of the statements (the interrupt is noticed before the next statement, or makes the
   running statement fail) *)
Definition sig_full (c : c01sig) : bool :=
  state_matches (sg_keys c) (run (disk_of (sg_d0 c)) (sg_ops c) (sg_nat_mode c)) (sg_files c) (sg_changed c).
Definition sig_prefix (c : c01sig) : bool :=
  existsb (fun k => state_matches (sg_keys c) (run (disk_of (sg_d0 c)) (firstn k (sg_ops c)) Interrupt)
                                  (sg_files c) (sg_changed c))
          (nat_seq (length (sg_ops c))).
Definition sig_ok (c : c01sig) : bool :=
  N.eqb (sg_extra c) 0 &&
  (if sg_exit_ok c then exit_ok (sg_nat_mode c) && sig_full c else (sig_prefix c || sig_full c)).

(* the known defect: some COMMIT (an explicit one, or the final automatic one) ran under a
   cancelled context -- every file it wrote is complete or cut down to its header *)
Definition cut_matches (keys : list key) (s : st) (files : list (key * tab)) : bool :=
  let sc := do_rollback (do_commit s) in
  let st := do_rollback (do_commit_cancelled s) in
  forallb (fun k => otab_eqb (disk sc k) (lookup k files) || otab_eqb (disk st k) (lookup k files)) keys.
Definition sig_cut (c : c01sig) : bool :=
  existsb (fun k =>
     let pre := firstn k (sg_ops c) in
     match skipn k (sg_ops c) with
     | SCommit :: _ => cut_matches (sg_keys c) (execs pre (init (disk_of (sg_d0 c)))) (sg_files c)
     | [] => cut_matches (sg_keys c) (execs pre (init (disk_of (sg_d0 c)))) (sg_files c)
     | _ => false
     end) (nat_seq (length (sg_ops c))).

Definition check_c01sig (cs : list c01sig) : list (N * N) :=
  flat_map (fun c =>
    if sig_ok c then []
    else if N.eqb (sg_extra c) 0 && negb (sg_exit_ok c) && sig_cut c then [(7%N, sg_id c)]
    else [(6%N, sg_id c)]) cs.

Definition expected_c01 (c : c01case) :=
  let s := run (disk_of (c1_d0 c)) (c1_ops c) (c1_mode c) in
  (c1_id c, c1_steps_bad c, map (fun k => (k, disk s k)) (c1_keys c), wlog s,
   map (fun k => (k, tvisible s k)) (c1_tkeys c), exit_ok (c1_mode c)).
Definition expected_c01sig (c : c01sig) :=
  (sg_id c,
   map (fun k => let s := run (disk_of (sg_d0 c)) (firstn k (sg_ops c)) Interrupt in
                 map (fun p => (p, disk s p)) (sg_keys c)) (nat_seq (length (sg_ops c))),
   let s := run (disk_of (sg_d0 c)) (sg_ops c) (sg_nat_mode c) in map (fun p => (p, disk s p)) (sg_keys c)).
