(* H02.v -- correspondence and specification checkers for C02 (and the reader half of C19), evaluated
   by vm_compute on what the Go harness observed on the implementation.
   Result pairs (kind, id):
     1 csv-write-mismatch    EncodeView(+ appended line break) bytes differ from Model.Csv.csv_file
     2 csv-read-mismatch     the CSV/TSV loader differs from Model.Csv.csv_load (table, detected line break, EnclosedAll)
     3 roundtrip-broken      what was read back is not the table that was written (spec, on observed data)
     4 not-rectangular       a loaded table has a record whose length differs from the header's (spec, observed)
     5 dialect-mismatch      FileInfo.ExportOptions after a load differs from Model.Csv.export_options
     6 dialect-changed       the dialect a written file is detected with differs from the one written (spec, observed)
     7 ltsv-write-mismatch   encodeLTSV differs from Model.Ltsv.ltsv_file
     8 ltsv-read-mismatch    the LTSV loader differs from Model.Ltsv.ltsv_load
     9 unspellable-written   a value/label LTSV cannot spell was written instead of refused (spec, observed) *)
Require Import Csvq.Model.Base Csvq.Model.Csv Csvq.Model.Ltsv.
Open Scope N_scope.

(* what a load was observed to return: error (any class: all are data-parse errors), or the table
   with the detected line break and EnclosedAll *)
Inductive obs := OErr | OTab (t : table) (lb : option linebreak) (encl : bool).

Definition letter_of (ls : list N) (c : N) : bool := existsb (N.eqb c) ls.

Definition obs_eqb (a b : obs) : bool :=
  match a, b with
  | OErr, OErr => true
  | OTab t1 l1 e1, OTab t2 l2 e2 => table_eqb t1 t2 && olb_eqb l1 l2 && Bool.eqb e1 e2
  | _, _ => false
  end.
Definition obs_of {E} (r : E + loaded) : obs :=
  match r with inl _ => OErr | inr l => OTab (l_table l) (l_lb l) (l_enclosed l) end.
Definition obs_table_is (a : obs) (t : table) : bool :=
  match a with OTab t' _ _ => table_eqb t' t | OErr => false end.
Definition rectangular (t : table) : bool :=
  forallb (fun r => Nat.eqb (length r) (length (t_header t))) (t_rows t).
Definition obs_rectangular (a : obs) : bool := match a with OErr => true | OTab t _ _ => rectangular t end.

Definition ostr_opt_eqb := option_eqb str_eqb.

(* ---- CSV/TSV: a table written through query.EncodeView and loaded back ------------------------- *)
Record wcase := mkW {
  wid : N; wsid : N;                    (* id for model mismatches / id for spec violations (tagged stream) *)
  wo : wopts; wtail : option linebreak;
  wflb : linebreak; wfenc : bool;       (* the session's --line-break / --enclose-all at load time (FileInfo defaults) *)
  whdr : list str; wrows : list (list cell);
  wletters : list N;                    (* code points of the case that unicode.IsLetter accepts *)
  wbytes : option str;                  (* observed bytes; None = nothing written (DataEmpty) *)
  wread : obs;                          (* observed load of these bytes with the same settings *)
  wexp : option (N * linebreak * bool * bool)  (* observed FileInfo.ExportOptions: delimiter, line break, without-header, enclose-all *)
}.

Definition w_model_read (c : wcase) (b : str) := csv_load (ropts_of (wo c)) (letter_of (wletters c)) b.

Definition w_export_model (c : wcase) (b : str) : option (N * linebreak * bool * bool) :=
  match w_model_read c b with
  | inl _ => None
  | inr l =>
    let fi := load_file_info (FI (o_delim (wo c)) 0 (wflb c) (o_noheader (wo c)) (wfenc c)) l in
    let e := export_options (o_repaired (wo c)) fi in
    Some (o_delim e, o_lb e, o_noheader e, o_enclose e)
  end.
Definition exp_eqb (a b : option (N * linebreak * bool * bool)) : bool :=
  match a, b with
  | None, None => true
  | Some (d1, l1, h1, e1), Some (d2, l2, h2, e2) => (d1 =? d2) && lb_eqb l1 l2 && Bool.eqb h1 h2 && Bool.eqb e1 e2
  | _, _ => false
  end.

Definition check_w (cs : list wcase) : list (N * N) :=
  flat_map (fun c =>
    (if ostr_opt_eqb (csv_file (wo c) (wtail c) (whdr c) (wrows c)) (wbytes c) then [] else [(1, wid c)]) ++
    match wbytes c with
    | None => []
    | Some b =>
      (if obs_eqb (obs_of (w_model_read c b)) (wread c) then [] else [(2, wid c)]) ++
      (if exp_eqb (w_export_model c b) (wexp c) then [] else [(5, wid c)]) ++
      (if obs_table_is (wread c) (expected_table (wo c) (whdr c) (wrows c)) then [] else [(3, wsid c)]) ++
      (if obs_rectangular (wread c) then [] else [(4, wsid c)]) ++
      (match wexp c with
       | Some (d, l, h, _) =>
           if (d =? o_delim (wo c)) && lb_eqb l (o_lb (wo c)) && Bool.eqb h (o_noheader (wo c)) then [] else [(6, wsid c)]
       | None => []
       end)
    end) cs.

(* ---- CSV/TSV loader on arbitrary text ------------------------------------------------------------ *)
Record rcase := mkR { rid : N; ro : ropts; rletters : list N; rinput : str; robs : obs }.
Definition check_r (cs : list rcase) : list (N * N) :=
  flat_map (fun c =>
    (if obs_eqb (obs_of (csv_load (ro c) (letter_of (rletters c)) (rinput c))) (robs c) then [] else [(2, rid c)]) ++
    (if obs_rectangular (robs c) then [] else [(4, rid c)])) cs.

(* ---- LTSV ----------------------------------------------------------------------------------------- *)
Record lwcase := mkLW {
  lwid : N; lwsid : N; lwlb : linebreak; lwtail : option linebreak; lwhdr : list str; lwrows : list (list cell);
  lwbytes : option str;                 (* None = refused / nothing written *)
  lwread : obs
}.
Definition ltsv_spellable (hdr : list str) (rows : list (list cell)) : bool :=
  forallb (forallb label_ok) hdr && forallb (forallb (fun c => forallb value_ok (cell_text c))) rows.
Definition opt_of {E A} (r : E + A) : option A := match r with inl _ => None | inr a => Some a end.

Definition check_lw (cs : list lwcase) : list (N * N) :=
  flat_map (fun c =>
    (if ostr_opt_eqb (opt_of (ltsv_file (lwlb c) (lwtail c) (lwhdr c) (lwrows c))) (lwbytes c) then [] else [(7, lwid c)]) ++
    match lwbytes c with
    | None => []
    | Some b =>
      (if obs_eqb (obs_of (ltsv_load false b)) (lwread c) then [] else [(8, lwid c)]) ++
      (if ltsv_spellable (lwhdr c) (lwrows c) then [] else [(9, lwsid c)]) ++
      (if obs_table_is (lwread c) (ltsv_expected (lwhdr c) (lwrows c)) then [] else [(3, lwsid c)]) ++
      (if obs_rectangular (lwread c) then [] else [(4, lwsid c)]) ++
      (match lwread c with
       | OTab _ (Some l) _ => if lb_eqb l (lwlb c) then [] else [(6, lwsid c)]
       | _ => []
       end)
    end) cs.

Record lrcase := mkLR { lrid : N; lrwn : bool; lrinput : str; lrobs : obs }.
Definition check_lr (cs : list lrcase) : list (N * N) :=
  flat_map (fun c =>
    (if obs_eqb (obs_of (ltsv_load (lrwn c) (lrinput c))) (lrobs c) then [] else [(8, lrid c)]) ++
    (if obs_rectangular (lrobs c) then [] else [(4, lrid c)])) cs.

(* ---- end to end with the binary: a decidable same-table checker on before/after ---------------------- *)
(* Unicode White_Space (unicode.IsSpace), what bytes.TrimSpace removes at the edges of a fixed-length field *)
Definition is_space (c : N) : bool :=
  ((9 <=? c) && (c <=? 13)) || (c =? 32) || (c =? 133) || (c =? 160) || (c =? 5760)
  || ((8192 <=? c) && (c <=? 8202)) || (c =? 8232) || (c =? 8233) || (c =? 8239) || (c =? 8287) || (c =? 12288).
Fixpoint drop_space (s : str) : str :=
  match s with c :: r => if is_space c then drop_space r else s | [] => [] end.
Definition trim (s : str) : str := rev (drop_space (rev (drop_space s))).

Inductive format := FCsv | FTsv | FLtsv | FFixed | FJson | FJsonl.
(* the text a cell must come back with under each format: NULL and the empty text coincide where the
   format has one spelling for both; fixed-length drops edge blanks *)
Definition e2e_cell (f : format) (enclose : bool) (c : option str) : option str :=
  match f, c with
  | (FJson | FJsonl), _ => c
  | (FCsv | FTsv), Some [] => if enclose then Some [] else None
  | (FCsv | FTsv | FLtsv), Some (x :: s) => Some (x :: s)
  | FLtsv, Some [] => None
  | FFixed, Some s => match trim s with [] => None | t => Some t end
  | _, None => None
  end.
Definition e2e_expected (f : format) (enclose noheader : bool) (t : table) : table :=
  TB (if noheader then cnames (length (t_header t))
      else match f with FFixed => map trim (t_header t) | _ => t_header t end)
     (map (map (e2e_cell f enclose)) (t_rows t)).

Record ecase := mkE {
  eid : N; esid : N; efmt : format; eenclose : bool; enoheader : bool;
  esrc : table;                         (* the table csvq was asked to write (with the inserted record, if any) *)
  eafter : obs;                         (* what a fresh csvq process reads from the written file *)
  ebytes : option str;                  (* CSV/TSV/LTSV in UTF-8: the file as code points *)
  elb : linebreak; edelim : N;
  estrip : bool;                        (* --strip-ending-line-break *)
  eins : nat;                           (* number of records at the end of esrc that a second process INSERTed and COMMITted *)
  erepaired : bool; eletters : list N;
  ecmp : bool;                          (* the file was read back as UTF-8 text: compare it with the model's bytes *)
  elb2 : linebreak                      (* --line-break of the second (INSERT + COMMIT) process: only a default, the file's own wins *)
}.
Definition e_detected (c : ecase) (b : str) : option linebreak :=
  match efmt c with
  | FCsv | FTsv => match tokenize (edelim c) b with inr (_, d) => d | inl _ => None end
  | FLtsv => match ltsv_read false b with inr (_, _, d) => d | inl _ => None end
  | _ => None
  end.

(* the bytes the models predict for the file: written once by SELECT ... --out / stdout, or written, loaded
   by a second process (dialect from the file), extended by one record and written back at COMMIT *)
Definition cells_of (rows : list (list (option str))) : list (list cell) :=
  map (map (fun c => match c with None => CNull | Some s => CText s end)) rows.
Definition e_tail (c : ecase) : option linebreak := ending_line_break (estrip c) (elb c).   (* SELECT output: the session's line break *)
Definition e_model_bytes (c : ecase) : option (option str) :=       (* None = no model for this format *)
  let n := (length (t_rows (esrc c)) - eins c)%nat in
  let before := firstn n (t_rows (esrc c)) in
  let ins := skipn n (t_rows (esrc c)) in
  match efmt c with
  | FCsv | FTsv =>
      let o := WO (edelim c) (elb c) (eenclose c) (enoheader c) (erepaired c) in
      match eins c with
      | O => Some (csv_file o (e_tail c) (t_header (esrc c)) (cells_of before))
      | _ =>
        match csv_file o (e_tail c) (t_header (esrc c)) (cells_of before) with
        | None => Some None
        | Some b1 =>
          match csv_load (ropts_of o) (letter_of (eletters c)) b1 with
          | inl _ => Some (Some b1)            (* the second process cannot load the file: it stays as it is *)
          | inr l =>
            if negb (forallb (fun r => Nat.eqb (length r) (length (t_header (l_table l)))) ins) then Some (Some b1)
            else
            let o2 := export_options (erepaired c) (load_file_info (FI (edelim c) 0 (elb2 c) (enoheader c) false) l) in
            (* COMMIT ends the file with the file's own line break *)
            Some (csv_file o2 (ending_line_break (estrip c) (o_lb o2)) (t_header (l_table l)) (cells_of (t_rows (l_table l) ++ ins)))
          end
        end
      end
  | FLtsv =>
      match eins c with
      | O => Some (opt_of (ltsv_file (elb c) (e_tail c) (t_header (esrc c)) (cells_of before)))
      | _ =>
        match ltsv_file (elb c) (e_tail c) (t_header (esrc c)) (cells_of before) with
        | inl _ => Some None
        | inr b1 =>
          match ltsv_load false b1 with
          | inl _ => Some (Some b1)
          | inr l =>
            if negb (forallb (fun r => Nat.eqb (length r) (length (t_header (l_table l)))) ins) then Some (Some b1)
            else
            let lb2 := match l_lb l with Some x => x | None => elb2 c end in
            Some (opt_of (ltsv_file lb2 (ending_line_break (estrip c) lb2) (t_header (l_table l)) (cells_of (t_rows (l_table l) ++ ins))))
          end
        end
      end
  | _ => None
  end.

Definition check_e (cs : list ecase) : list (N * N) :=
  flat_map (fun c =>
    (match (if ecmp c then e_model_bytes c else None) with
     | Some mb => if ostr_opt_eqb mb (ebytes c) then [] else [((match efmt c with FLtsv => 7 | _ => 1 end), eid c)]
     | None => []
     end) ++
    (if obs_table_is (eafter c) (e2e_expected (efmt c) (eenclose c) (enoheader c) (esrc c)) then [] else [(3, esid c)]) ++
    (if obs_rectangular (eafter c) then [] else [(4, esid c)]) ++
    match ebytes c with
    | Some b => match e_detected c b with
                | Some l => if lb_eqb l (elb c) then [] else [(6, esid c)]
                | None => []
                end
    | None => []
    end) cs.

(* ---- what the model expects, for replays --------------------------------------------------------------- *)
Definition expected_w (c : wcase) :=
  (wid c, csv_file (wo c) (wtail c) (whdr c) (wrows c),
   match wbytes c with Some b => Some (obs_of (w_model_read c b), w_export_model c b) | None => None end,
   expected_table (wo c) (whdr c) (wrows c)).
Definition expected_r (c : rcase) := (rid c, obs_of (csv_load (ro c) (letter_of (rletters c)) (rinput c))).
Definition expected_lw (c : lwcase) :=
  (lwid c, opt_of (ltsv_file (lwlb c) (lwtail c) (lwhdr c) (lwrows c)),
   match lwbytes c with Some b => Some (obs_of (ltsv_load false b)) | None => None end,
   ltsv_expected (lwhdr c) (lwrows c)).
Definition expected_lr (c : lrcase) := (lrid c, obs_of (ltsv_load (lrwn c) (lrinput c))).
Definition expected_e (c : ecase) := (eid c, e2e_expected (efmt c) (eenclose c) (enoheader c) (esrc c), e_model_bytes c).
