(* H04.v -- comparison keys observed on query.SerializeComparisonKeys against Model.Key *)
From Coq Require Import Floats.
Require Import Csvq.Model.Base Csvq.Model.Value Csvq.Model.Conv Csvq.Model.Key.
Open Scope Z_scope.

(* one batch of key tuples of equal length: the observed key string of every tuple, and the
   decimal text strconv.FormatFloat gave for every float that occurs (oracle) *)
Record kcase := mkK { kid : N; kstrict : bool; ktuples : list (list val); kobs : list str; kffmt : list (float * str) }.

Definition ffmt_of (tbl : list (float * str)) (f : float) : str :=
  match find (fun p => float_same (fst p) f) tbl with Some p => snd p | None => [] end.

Definition k_model_ok (c : kcase) : bool :=
  list_eqb str_eqb (map (fun t => ser_keys (ffmt_of (kffmt c)) (row_key (kstrict c) t)) (ktuples c)) (kobs c).

(* the property itself on the observed strings: two tuples get the same key iff they are equal
   column by column in normal form *)
Definition k_injective_ok (c : kcase) : bool :=
  let ks := map (row_key (kstrict c)) (ktuples c) in
  let pairs := combine ks (kobs c) in
  forallb (fun p => forallb (fun q => Bool.eqb (str_eqb (snd p) (snd q)) (keys_eqb (fst p) (fst q))) pairs) pairs.

Definition k_wf (c : kcase) : bool := forallb (forallb val_wf) (ktuples c).

(* kinds: 1 = key string differs from the model's; 2 = bucket identity broken on the observed keys
   (two different tuples share a key, or equal tuples got different keys); 4 = oracle inconsistent *)
Definition check_keys (cs : list kcase) : list (N * N) :=
  flat_map (fun c =>
    (if k_wf c then [] else [(4%N, kid c)]) ++
    (if k_model_ok c then [] else [(1%N, kid c)]) ++
    (if k_injective_ok c then [] else [(2%N, kid c)])) cs.

Definition expected_keys (c : kcase) := (kid c, map (fun t => ser_keys (ffmt_of (kffmt c)) (row_key (kstrict c) t)) (ktuples c)).
