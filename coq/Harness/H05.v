(* H05.v -- histories of data-changing statements observed on the implementation against Model.Dml *)
From Coq Require Import Floats.
Require Import Csvq.Model.Base Csvq.Model.Value Csvq.Model.Conv Csvq.Model.Compare Csvq.Model.Arith Csvq.Model.Expr
               Csvq.Model.Key Csvq.Model.SortVal Csvq.Model.Query Csvq.Model.Dml Csvq.Harness.HQuery.
Open Scope Z_scope.

(* one step: the statement, what the implementation reported (count or error) and the table it
   showed right after it (SELECT * ) *)
Record dstep := mkDS { ds_stmt : stmt; ds_count : res Z; ds_after : list row }.
Record dcase := mkD { did : N; dstrict : bool; dinit : table; dsteps : list dstep }.

(* first step (1-based) at which model and implementation disagree; 0 = none *)
Fixpoint first_bad (strict : bool) (t : table) (steps : list dstep) (k : N) : N :=
  match steps with
  | [] => 0%N
  | s :: steps' =>
      match exec strict t (ds_stmt s), ds_count s with
      | Ok (t', n), Ok n' =>
          if (n =? n') && rows_same (trows t') (ds_after s) then first_bad strict t' steps' (k + 1)%N else k
      | Err e, Err e' =>
          (* a failed statement must leave the table as it was *)
          if err_class_same e e' && rows_same (trows t) (ds_after s) then first_bad strict t steps' (k + 1)%N else k
      | _, _ => k
      end
  end.

(* the frame part of the property on the implementation's own observations: a statement that
   reported an error left the table unchanged; row counts move by exactly the reported number for
   INSERT / DELETE *)
Fixpoint obs_frame_ok (prev : list row) (steps : list dstep) : bool :=
  match steps with
  | [] => true
  | s :: steps' =>
      (match ds_count s, ds_stmt s with
       | Err _, _ => rows_same prev (ds_after s)
       | Ok n, SInsert _ _ | Ok n, SInsertSel _ _ => (Z.of_nat (length (ds_after s)) =? Z.of_nat (length prev) + n)
                                                      && rows_same (firstn (length prev) (ds_after s)) prev
       | Ok n, SDelete _ => (Z.of_nat (length (ds_after s)) =? Z.of_nat (length prev) - n) && sub_multiset (ds_after s) prev
       | Ok n, SUpdate _ _ => Nat.eqb (length (ds_after s)) (length prev)
       | Ok n, SRename _ => rows_same prev (ds_after s)
       | Ok _, _ => true
       end) && obs_frame_ok (ds_after s) steps'
  end.

Definition d_wf (c : dcase) : bool := forallb (forallb val_wf) (trows (dinit c)).

(* kinds: 1 = model and implementation disagree at some step; 2 = the implementation's own
   observations break the frame condition; 4 = string oracle inconsistent *)
Definition check_dml (cs : list dcase) : list (N * N) :=
  flat_map (fun c =>
    (if d_wf c then [] else [(4%N, did c)]) ++
    (if (first_bad (dstrict c) (dinit c) (dsteps c) 1 =? 0)%N then [] else [(1%N, did c)]) ++
    (if obs_frame_ok (trows (dinit c)) (dsteps c) then [] else [(2%N, did c)])) cs.

Fixpoint model_trace (strict : bool) (t : table) (steps : list dstep) : list (res (list row * Z)) :=
  match steps with
  | [] => []
  | s :: steps' =>
      match exec strict t (ds_stmt s) with
      | Ok (t', n) => Ok (trows t', n) :: model_trace strict t' steps'
      | Err e => Err e :: model_trace strict t steps'
      end
  end.
Definition expected_dml (c : dcase) := (did c, first_bad (dstrict c) (dinit c) (dsteps c) 1, model_trace (dstrict c) (dinit c) (dsteps c)).

(* ---- multi-table DELETE / UPDATE over two joined tables ------------------------------------------- *)
Inductive mstmt :=
| MDelete (tp tc : bool) (on wh : option expr)
| MUpdate (sets : list (nat * expr)) (on wh : option expr)
| MDeleteK (k : jkind) (tp tc : bool) (lw rw : nat) (on wh : option expr).

(* observed: the counts reported for p and c (or the error) and both tables right after *)
Record mstep := mkMS { ms_stmt : mstmt; ms_counts : res (Z * Z); ms_p : list row; ms_c : list row }.
Record mcase := mkM { mid : N; mstrict : bool; mp0 : list row; mc0 : list row; msteps : list mstep }.

Definition mexec (ps cs : list row) (s : mstmt) : res ((list row * Z) * (list row * Z)) :=
  match s with
  | MDelete tp tc on wh => delete_join tp tc on wh ps cs
  | MUpdate sets on wh => do r <- update_join sets on wh ps cs; Ok (r, (cs, 0))
  | MDeleteK k tp tc lw rw on wh => delete_join_k k tp tc lw rw on wh ps cs
  end.

Fixpoint m_first_bad (ps cs : list row) (steps : list mstep) (k : N) : N :=
  match steps with
  | [] => 0%N
  | s :: steps' =>
      match mexec ps cs (ms_stmt s), ms_counts s with
      | Ok ((ps', np), (cs', nc)), Ok (np', nc') =>
          if (np =? np') && (nc =? nc') && rows_same ps' (ms_p s) && rows_same cs' (ms_c s)
          then m_first_bad ps' cs' steps' (k + 1)%N else k
      | Err e, Err e' =>
          if err_class_same e e' && rows_same ps (ms_p s) && rows_same cs (ms_c s) then m_first_bad ps cs steps' (k + 1)%N else k
      | _, _ => k
      end
  end.

(* on the observations alone: the row count of each table drops by exactly the reported number, the
   remaining rows are old rows, and an error changes nothing *)
Fixpoint m_obs_ok (ps cs : list row) (steps : list mstep) : bool :=
  match steps with
  | [] => true
  | s :: steps' =>
      (match ms_counts s, ms_stmt s with
       | Err _, _ => rows_same ps (ms_p s) && rows_same cs (ms_c s)
       | Ok (np, nc), MDelete _ _ _ _ =>
           (Z.of_nat (length (ms_p s)) =? Z.of_nat (length ps) - np) && (Z.of_nat (length (ms_c s)) =? Z.of_nat (length cs) - nc)
           && sub_multiset (ms_p s) ps && sub_multiset (ms_c s) cs
       | Ok (np, nc), MUpdate _ _ _ => Nat.eqb (length (ms_p s)) (length ps) && rows_same cs (ms_c s)
       | Ok (np, nc), MDeleteK _ _ _ _ _ _ _ =>
           (Z.of_nat (length (ms_p s)) =? Z.of_nat (length ps) - np) && (Z.of_nat (length (ms_c s)) =? Z.of_nat (length cs) - nc)
           && sub_multiset (ms_p s) ps && sub_multiset (ms_c s) cs
       end) && m_obs_ok (ms_p s) (ms_c s) steps'
  end.

(* kinds 6 / 7: multi-table history differs from the model / breaks the frame condition *)
Definition check_multi (cs : list mcase) : list (N * N) :=
  flat_map (fun c =>
    (if (m_first_bad (mp0 c) (mc0 c) (msteps c) 1 =? 0)%N then [] else [(6%N, mid c)]) ++
    (if m_obs_ok (mp0 c) (mc0 c) (msteps c) then [] else [(7%N, mid c)])) cs.

Fixpoint m_trace (ps cs : list row) (steps : list mstep) : list (res ((list row * Z) * (list row * Z))) :=
  match steps with
  | [] => []
  | s :: steps' =>
      match mexec ps cs (ms_stmt s) with
      | Ok ((ps', np), (cs', nc)) => Ok ((ps', np), (cs', nc)) :: m_trace ps' cs' steps'
      | Err e => Err e :: m_trace ps cs steps'
      end
  end.
Definition expected_multi (c : mcase) := (mid c, m_first_bad (mp0 c) (mc0 c) (msteps c) 1, m_trace (mp0 c) (mc0 c) (msteps c)).
