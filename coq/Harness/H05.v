(* H05.v -- histories of data-changing statements observed on the implementation against Model.Dml *)
From Coq Require Import Floats.
Require Import Csvq.Model.Base Csvq.Model.Value Csvq.Model.Conv Csvq.Model.Compare Csvq.Model.Arith Csvq.Model.Expr
               Csvq.Model.Key Csvq.Model.SortVal Csvq.Model.Query Csvq.Model.Dml Csvq.Harness.HQuery.
Open Scope Z_scope.

(* one step: the statement, what the implementation reported (count or error) and the table it
   showed right after it (SELECT * ) *)
Record dstep := mkDS { ds_stmt : stmt; ds_count : res Z; ds_after : list row }.
Record dcase := mkD { did : N; dstrict : bool; dinit : table; dsteps : list dstep }.

(* first step (1-based) at which model and implementation disagree; 0 = none *)
Fixpoint first_bad (strict : bool) (t : table) (steps : list dstep) (k : N) : N :=
  match steps with
  | [] => 0%N
  | s :: steps' =>
      match exec strict t (ds_stmt s), ds_count s with
      | Ok (t', n), Ok n' =>
          if (n =? n') && rows_same (trows t') (ds_after s) then first_bad strict t' steps' (k + 1)%N else k
      | Err e, Err e' =>
          (* a failed statement must leave the table as it was *)
          if err_class_same e e' && rows_same (trows t) (ds_after s) then first_bad strict t steps' (k + 1)%N else k
      | _, _ => k
      end
  end.

(* the frame part of the property on the implementation's own observations: a statement that
   reported an error left the table unchanged; row counts move by exactly the reported number for
   INSERT / DELETE *)
Fixpoint obs_frame_ok (prev : list row) (steps : list dstep) : bool :=
  match steps with
  | [] => true
  | s :: steps' =>
      (match ds_count s, ds_stmt s with
       | Err _, _ => rows_same prev (ds_after s)
       | Ok n, SInsert _ _ | Ok n, SInsertSel _ _ => (Z.of_nat (length (ds_after s)) =? Z.of_nat (length prev) + n)
                                                      && rows_same (firstn (length prev) (ds_after s)) prev
       | Ok n, SDelete _ => (Z.of_nat (length (ds_after s)) =? Z.of_nat (length prev) - n) && sub_multiset (ds_after s) prev
       | Ok n, SUpdate _ _ => Nat.eqb (length (ds_after s)) (length prev)
       | Ok n, SRename _ => rows_same prev (ds_after s)
       | Ok _, _ => true
       end) && obs_frame_ok (ds_after s) steps'
  end.

Definition d_wf (c : dcase) : bool := forallb (forallb val_wf) (trows (dinit c)).

(* kinds: 1 = model and implementation disagree at some step; 2 = the implementation's own
   observations break the frame condition; 4 = string oracle inconsistent *)
Definition check_dml (cs : list dcase) : list (N * N) :=
  flat_map (fun c =>
    (if d_wf c then [] else [(4%N, did c)]) ++
    (if (first_bad (dstrict c) (dinit c) (dsteps c) 1 =? 0)%N then [] else [(1%N, did c)]) ++
    (if obs_frame_ok (trows (dinit c)) (dsteps c) then [] else [(2%N, did c)])) cs.

Fixpoint model_trace (strict : bool) (t : table) (steps : list dstep) : list (res (list row * Z)) :=
  match steps with
  | [] => []
  | s :: steps' =>
      match exec strict t (ds_stmt s) with
      | Ok (t', n) => Ok (trows t', n) :: model_trace strict t' steps'
      | Err e => Err e :: model_trace strict t steps'
      end
  end.
Definition expected_dml (c : dcase) := (did c, first_bad (dstrict c) (dinit c) (dsteps c) 1, model_trace (dstrict c) (dinit c) (dsteps c)).
