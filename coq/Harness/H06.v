(* H06.v -- correspondence and law checkers for C06, evaluated by vm_compute on the cases the Go
   harness observed on the implementation. *)
From Coq Require Import Floats.
Require Import Csvq.Model.Base Csvq.Model.Value Csvq.Model.Conv Csvq.Model.Compare Csvq.Model.Arith Csvq.Model.Expr.
Open Scope Z_scope.

Definition res_same (a b : res val) : bool :=
  match a, b with
  | Ok x, Ok y => val_same x y
  | Err x, Err y => err_eqb x y
  | _, _ => false
  end.

Definition all_cops := [OpEq; OpIdent; OpGt; OpLt; OpGe; OpLe; OpNe].
Definition all_aops := [APlus; AMinus; AMul; ADiv; AMod].

(* one operand pair: observed value.Compare for the 7 operators in both directions and
   query.Calculate for the 5 operators *)
Record pcase := mkP { pid : N; pa : val; pb : val; pcmp_ab : list tern; pcmp_ba : list tern; pcalc : list (res val) }.

Definition model_cmp a b := map (fun op => compare_op op a b) all_cops.
Definition model_calc a b := map (fun op => calculate a b op) all_aops.

Definition p_model_ok (c : pcase) : bool :=
  list_eqb tern_eqb (model_cmp (pa c) (pb c)) (pcmp_ab c)
  && list_eqb tern_eqb (model_cmp (pb c) (pa c)) (pcmp_ba c)
  && list_eqb res_same (model_calc (pa c) (pb c)) (pcalc c).

Definition p_wf (c : pcase) : bool := val_wf (pa c) && val_wf (pb c).

(* the consistency laws of the property, checked on the *observed* answers only *)
Definition nth_t (l : list tern) (i : nat) := nth i l TU.
Definition p_laws_ok (c : pcase) : bool :=
  let ab := pcmp_ab c in let ba := pcmp_ba c in
  let eq := nth_t ab 0 in let gt := nth_t ab 2 in let lt := nth_t ab 3 in
  let ge := nth_t ab 4 in let le := nth_t ab 5 in let ne := nth_t ab 6 in
  tern_eqb lt (nth_t ba 2)                       (* a<b  iff b>a *)
  && tern_eqb gt (nth_t ba 3)
  && tern_eqb le (nth_t ba 4)
  && tern_eqb ge (nth_t ba 5)
  && tern_eqb ne (tnot eq)                       (* a<>b iff NOT(a=b) *)
  && tern_eqb eq (nth_t ba 0)                    (* = symmetric *)
  && (match lt with TU => true | _ => tern_eqb le (tor lt eq) end)   (* ordered operands *)
  && (match gt with TU => true | _ => tern_eqb ge (tor gt eq) end).

(* arithmetic laws on the observed results: NULL iff an operand is not numeric; integer iff both
   operands are integers; % has the sign of a and a magnitude below |b| *)
Definition numeric (v : val) : bool := match to_float v with Some _ => true | None => false end.
Definition integral (v : val) : bool := match to_int_strict v with Some _ => true | None => false end.
Definition f_abs_lt (x y : float) : bool := PrimFloat.ltb (PrimFloat.abs x) (PrimFloat.abs y).
Definition p_arith_laws_ok (c : pcase) : bool :=
  let a := pa c in let b := pb c in
  forallb (fun r =>
    match r with
    | Ok VNull => negb (numeric a && numeric b)
    | Ok (VInt _) => integral a && integral b
    | Ok (VFloat _) => numeric a && numeric b && negb (integral a && integral b)
    | Ok _ => false
    | Err EDivZero => integral a && integral b
    | Err _ => false
    end) (pcalc c)
  && match nth 4 (pcalc c) (Err (EOther 0)), to_float a, to_float b with
     | Ok (VFloat r), Some fa, Some fb =>
         if is_nan r then true
         else (f_abs_lt r fb || f_is_inf fb) && (PrimFloat.eqb r 0 || Bool.eqb (f_signbit r) (f_signbit fa))
     | Ok (VInt r), _, _ =>
         match to_int_strict a, to_int_strict b with
         | Some x, Some y => (Z.abs r <? Z.abs y) && ((r =? 0) || Bool.eqb (r <? 0) (x <? 0))
         | _, _ => false
         end
     | _, _, _ => true
     end.

(* one expression evaluated through parser + query.Evaluate *)
Record ecase := mkE { eid : N; ee : expr; eobs : res val }.
Definition e_model_ok (c : ecase) : bool := res_same (eval [] (ee c)) (eobs c).

(* result: (kind, id) pairs; kind 1 = model/implementation mismatch on a pair, 2 = comparison law
   broken by the implementation's answers, 3 = arithmetic law broken, 4 = string oracle
   disagrees with the modelled parser (harness/model error, not a violation),
   5 = expression mismatch *)
Definition check_pairs (cs : list pcase) : list (N * N) :=
  flat_map (fun c =>
    (if p_wf c then [] else [(4%N, pid c)]) ++
    (if p_model_ok c then [] else [(1%N, pid c)]) ++
    (if p_laws_ok c then [] else [(2%N, pid c)]) ++
    (if p_arith_laws_ok c then [] else [(3%N, pid c)])) cs.
Definition check_exprs (cs : list ecase) : list (N * N) :=
  flat_map (fun c => if e_model_ok c then [] else [(5%N, eid c)]) cs.

Definition expected_pair (c : pcase) := (pid c, model_cmp (pa c) (pb c), model_cmp (pb c) (pa c), model_calc (pa c) (pb c)).
Definition expected_expr (c : ecase) := (eid c, eval [] (ee c)).
