(* H08.v -- Coq side of the C08 correspondence: one interactive transaction per case, statements
   executed one at a time, execution continues after an error; after every step all visible
   tables are read. *)
Require Import Csvq.Model.Base Csvq.Model.Value Csvq.Model.Txn Csvq.Model.TxnSpec Csvq.Harness.HTxn.

Record c08case := mkC08 {
  c8_id : N;
  c8_keys : list key;            (* file tables of the universe *)
  c8_tkeys : list key;           (* temporary tables of the universe *)
  c8_d0 : list (key * tab);      (* the files before the transaction *)
  c8_items : list item }.

(* kind 1: the transaction model disagrees with an observation *)
Definition c8_model_bad (c : c08case) : list N :=
  snd (run_items (c8_keys c) (c8_tkeys c) (c8_items c) 0%N (init (disk_of (c8_d0 c)))).

(* kind 2 -- on the observations alone: every table read after a statement that returned an error
   (and before the next statement) equals what the same table read before it.  lastF / lastT: the
   latest reading of each table. *)
Fixpoint fail_noop_obs (its : list item) (infail : bool)
         (lastF lastT : list (key * option tab)) : bool :=
  match its with
  | [] => true
  | it :: r =>
      match it with
      | IOp (SFail _) => fail_noop_obs r true lastF lastT
      | IOp _ => fail_noop_obs r false lastF lastT
      | IRead p t =>
          (if infail then match lookup p lastF with Some t0 => otab_eqb t0 t | None => true end else true)
          && fail_noop_obs r infail ((p, t) :: lastF) lastT
      | IReadT n t =>
          (if infail then match lookup n lastT with Some t0 => otab_eqb t0 t | None => true end else true)
          && fail_noop_obs r infail lastF ((n, t) :: lastT)
      | _ => fail_noop_obs r infail lastF lastT
      end
  end.

(* kind 4 -- on the observations alone: the files found after a COMMIT hold what the transaction
   last read of each table (as text), so nothing of a failed statement was written *)
Fixpoint commit_obs (its : list item) (committed : bool) (lastF : list (key * option tab)) : bool :=
  match its with
  | [] => true
  | it :: r =>
      match it with
      | IOp SCommit => commit_obs r true lastF
      | IOp _ => commit_obs r false lastF
      | IRead p t => commit_obs r committed (if committed then lastF else (p, t) :: lastF)
      | IDisk files =>
          (if committed
           then forallb (fun kv => match lookup (fst kv) lastF with
                                   | Some (Some t0) => tab_eqb (render_tab t0) (snd kv)
                                   | _ => true end) files
           else true)
          && commit_obs r committed lastF
      | _ => commit_obs r committed lastF
      end
  end.

Definition c8_frag_ok (c : c08case) : bool :=
  forallb op_ok (ops_of (c8_items c)) && ops_wfb (ops_of (c8_items c)) (init (disk_of (c8_d0 c))).

Definition check_c08 (cs : list c08case) : list (N * N) :=
  flat_map (fun c =>
    (match c8_model_bad c with [] => [] | _ => [(1%N, c8_id c)] end) ++
    (if fail_noop_obs (c8_items c) false [] [] then [] else [(2%N, c8_id c)]) ++
    (if c8_frag_ok c then [] else [(3%N, c8_id c)]) ++
    (if commit_obs (c8_items c) false [] then [] else [(4%N, c8_id c)])) cs.

(* for replays: positions of the disagreeing observations and the model's view at the end *)
Definition expected_c08 (c : c08case) :=
  (c8_id c, c8_model_bad c,
   let s := fst (run_items (c8_keys c) (c8_tkeys c) (c8_items c) 0%N (init (disk_of (c8_d0 c)))) in
   (map (fun k => (k, visible s k)) (c8_keys c), map (fun k => (k, tvisible s k)) (c8_tkeys c))).
