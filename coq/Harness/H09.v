(* H09.v -- correspondence checkers for C09, evaluated by vm_compute on what the Go harness observed
   while driving real csvq transactions through a schedule of their yield points. *)
From Coq Require Import Arith NArith List Bool.
Require Import Csvq.Model.Lock.
Import ListNotations.

(* what the scheduler saw in the scratch directory after one event *)
Record pobs := mkPO { po_point : nat; po_out : nat; po_val : nat }.
Record obs := mkO {
  o_lock : option nat;       (* creator of the lock file, if it exists *)
  o_rls : list nat;          (* creators of the read-lock files *)
  o_temp : option nat;       (* creator of the temp file *)
  o_data : option nat;       (* the counter in the table file; None = the file does not exist *)
  o_procs : list pobs        (* per process: yield point it is parked at, outcome (0 = still running), SELECT value *)
}.

Record case := mkC {
  cid : N;
  c_roles : list role;
  c_atomic : bool;           (* COMMIT renames over the table (no Exists/Remove yield points seen) *)
  c_init : nat;
  c_events : list event;
  c_obs : list obs           (* one per event *)
}.

Definition onat_eqb (a b : option nat) : bool :=
  match a, b with
  | None, None => true
  | Some x, Some y => Nat.eqb x y
  | _, _ => false
  end.

Definition subset (a b : list nat) : bool := forallb (fun x => mem x b) a.
Definition same_set (a b : list nat) : bool :=
  Nat.eqb (length a) (length b) && subset a b && subset b a.

Definition case_cfg (c : case) : cfg := mkCfg (role_of (c_roles c)) (c_atomic c).

Definition reads (r : role) : bool := match r with RoleR | RoleRW => true | _ => false end.

Fixpoint procs_ok (c : case) (s : st) (k : nat) (l : list pobs) : bool :=
  match l with
  | [] => true
  | p :: r =>
      Nat.eqb (pc_point (pcs s k)) (po_point p)
      && Nat.eqb (outcome_code (obs_out s k)) (po_out p)
      && (match pcs s k with
          | Done => if reads (role_of (c_roles c) k) then Nat.eqb (seen s k) (po_val p) else true
          | _ => true
          end)
      && procs_ok c s (S k) r
  end.

Definition obs_ok (c : case) (s : st) (o : obs) : bool :=
  onat_eqb (lockf s) (o_lock o)
  && same_set (rls s) (o_rls o)
  && onat_eqb (tempf s) (o_temp o)
  && onat_eqb (if dex s then Some (dval s) else None) (o_data o)
  && Nat.eqb (length (o_procs o)) (length (c_roles c))
  && procs_ok c s 0 (o_procs o).

(* replay: the model takes the same events; after each one its state must be what was observed *)
Fixpoint replay_ok (c : case) (s : st) (es : list event) (os : list obs) : bool :=
  match es, os with
  | [], [] => true
  | e :: es', o :: os' =>
      let s' := step (case_cfg c) e s in
      obs_ok c s' o && replay_ok c s' es' os'
  | _, _ => false
  end.

Definition model_ok (c : case) : bool := replay_ok c (init (c_init c)) (c_events c) (c_obs c).

(* ---- the property evaluated on the implementation's own observations (no model involved) ---- *)
(* yield points that only a process holding the table for update can be parked at:
   upd.open, temp.create, commit.exists, commit.remove, commit.rename *)
Definition w_point (p : nat) : bool := (11 <=? p) && (p <=? 15).
(* read.open: the reader has its read lock and is about to load *)
Definition r_point (p : nat) : bool := Nat.eqb p 6.

Definition count_if {A} (f : A -> bool) (l : list A) : nat := length (filter f l).

(* at most one updater; an updater excludes readers and read-lock files; the temp file and the
   absent table only under an updater's lock file *)
Definition excl_ok (o : obs) : bool :=
  let nw := count_if (fun p => w_point (po_point p)) (o_procs o) in
  let nr := count_if (fun p => r_point (po_point p)) (o_procs o) in
  (nw <=? 1)
  && (if 1 <=? nw then Nat.eqb nr 0 && is_nil (o_rls o) && is_some (o_lock o) else true)
  && (if is_some (o_temp o) then is_some (o_lock o) else true)
  && (match o_data o with None => is_some (o_lock o) | Some _ => true end).

(* no updater starts while a read lock exists: nobody arrives at upd.open in a step taken from a
   state with read-lock files *)
Fixpoint arrivals_ok (prev : obs) (os : list obs) : bool :=
  match os with
  | [] => true
  | o :: r =>
      (if is_nil (o_rls prev) then true
       else Nat.leb (count_if (fun p => Nat.eqb (po_point p) 11) (o_procs o))
                    (count_if (fun p => Nat.eqb (po_point p) 11) (o_procs prev)))
      && arrivals_ok o r
  end.

Definition all_done (o : obs) : bool := forallb (fun p => Nat.eqb (po_point p) 1) (o_procs o).

(* when everybody is done: the counter grew by exactly the number of committed transactions, no
   control file is left, and every SELECT returned a value the table really had *)
Definition final_ok (c : case) (o : obs) : bool :=
  if all_done o then
    let n := count_if (fun p => Nat.eqb (po_out p) 1) (o_procs o) in
    onat_eqb (o_data o) (Some (c_init c + n))
    && negb (is_some (o_lock o)) && is_nil (o_rls o) && negb (is_some (o_temp o))
    && forallb (fun p => if Nat.eqb (po_out p) 3 then (c_init c <=? po_val p) && (po_val p <=? c_init c + n) else true) (o_procs o)
  else true.

Definition obs0 (c : case) : obs :=
  mkO None [] None (Some (c_init c)) (map (fun _ => mkPO 0 0 0) (c_roles c)).

Definition spec_ok (c : case) : bool :=
  forallb excl_ok (c_obs c)
  && arrivals_ok (obs0 c) (c_obs c)
  && final_ok c (last (c_obs c) (obs0 c)).

(* ---- real-process soak: N csvq binaries ran UPDATE t SET n = n + 1 concurrently -------------- *)
Record soak := mkS {
  sid : N;
  s_init : nat;
  s_final : option nat;      (* counter afterwards; None = table missing / unreadable *)
  s_exits : list nat;        (* per process: 0 = exit 0, 1 = lock timeout, 2 = file does not exist, 3 = anything else *)
  s_leftover : nat;          (* control files left in the directory *)
  s_atomic : bool            (* COMMIT renames over the table: "does not exist" is then not excused *)
}.
Definition soak_counter_ok (x : soak) : bool :=
  onat_eqb (s_final x) (Some (s_init x + count_if (Nat.eqb 0) (s_exits x))) && Nat.eqb (s_leftover x) 0.
Definition soak_errors_ok (x : soak) : bool :=
  forallb (fun e => e <=? (if s_atomic x then 1 else 2)) (s_exits x).

(* result: (kind, id).  1 = model and implementation disagree after some event; 2 = the observed
   states themselves break exclusion / serialisation; 3 = soak: lost or duplicated update, or
   leftovers; 4 = soak: a process failed with something other than lock timeout / not-exist *)
Definition check_cases (cs : list case) : list (N * N) :=
  flat_map (fun c =>
    (if model_ok c then [] else [(1%N, cid c)]) ++
    (if spec_ok c then [] else [(2%N, cid c)])) cs.
Definition check_soaks (xs : list soak) : list (N * N) :=
  flat_map (fun x =>
    (if soak_counter_ok x then [] else [(3%N, sid x)]) ++
    (if soak_errors_ok x then [] else [(4%N, sid x)])) xs.

(* for replays: what the model says after every event *)
Definition model_obs (c : case) (s : st) : obs :=
  mkO (lockf s) (rls s) (tempf s) (if dex s then Some (dval s) else None)
      (map (fun k => mkPO (pc_point (pcs s k)) (outcome_code (obs_out s k)) (seen s k)) (seq 0 (length (c_roles c)))).
Fixpoint model_trace (c : case) (s : st) (es : list event) : list obs :=
  match es with
  | [] => []
  | e :: r => let s' := step (case_cfg c) e s in model_obs c s' :: model_trace c s' r
  end.
Definition expected_case (c : case) := (cid c, model_trace c (init (c_init c)) (c_events c)).
