(* H10.v -- correspondence checkers for C10, evaluated by vm_compute on what the Go harness
   (harness/c10.go) observed when it ran the real csvq binary under strace: the mutating system
   calls on the repository, and the directory left behind after SIGKILL at a system call. *)
Require Import Csvq.Model.Base Csvq.Model.Fs Csvq.Model.Commit.

Record ccase := mkC {
  cid : N;                    (* id for kinds 1-4 *)
  cwin : N;                   (* id under which the known remove->rename window is reported (kind 6) *)
  c_ro : bool;                (* variant the harness detected in the reference trace: rename over the file? *)
  c_s0 : fs;                  (* directory before csvq started *)
  c_acq : list (bool * N);    (* acquisitions in program order: (true,t) CREATE TABLE t; (false,t) first load of t for update *)
  c_cr : list tchange;        (* created tables, in the order this run's COMMIT visited them (Go map order) *)
  c_up : list tchange;        (* updated tables, likewise *)
  c_idle : list N;            (* held for update but unchanged, in the order they were released *)
  c_exp_cr : list N;          (* the same three as sets, as the generator built the transaction *)
  c_exp_up : list N;
  c_exp_idle : list N;
  c_obs : list op;            (* the calls this run completed, in order *)
  c_full : bool;              (* true: the run was not killed *)
  c_snap : fs;                (* directory after the run *)
  c_recovered : bool          (* harness: after deleting the hidden files, csvq could SELECT from every pre-existing table *)
}.

Definition acq_ops (a : list (bool * N)) : list op :=
  flat_map (fun x : bool * N => if fst x then acquire_create (snd x) else acquire_update (snd x)) a.

Definition model_ops (c : ccase) : list op :=
  acq_ops (c_acq c) ++ commit_ops (c_ro c) (c_cr c) (c_up c) (c_idle c).

Definition trace_ok (c : ccase) : bool :=
  perm_b (map tid (c_cr c)) (c_exp_cr c) && perm_b (map tid (c_up c)) (c_exp_up c)
  && perm_b (c_idle c) (c_exp_idle c)
  && perm_b (map snd (c_acq c)) (c_exp_cr c ++ c_exp_up c ++ c_exp_idle c)
  && if c_full c then ops_eqb (model_ops c) (c_obs c)
     else ops_eqb (firstn (length (c_obs c)) (model_ops c)) (c_obs c).

(* the file-system semantics of the model against the directory found *)
Definition state_ok (c : ccase) : bool := fs_eqb (run (c_s0 c) (c_obs c)) (c_snap c).

(* the theorems' hypothesis holds in the state COMMIT starts from *)
Definition ready_ok (c : ccase) : bool :=
  commit_ready (run (c_s0 c) (acq_ops (c_acq c))) (c_cr c) (c_up c) (c_idle c)
  && all_enabled (c_s0 c) (model_ops c).

Definition spec_ok (c : ccase) : bool := old_or_new (c_cr c) (c_up c) (c_s0 c) (c_snap c).
Definition in_window (c : ccase) : bool :=
  negb (c_ro c) && old_new_or_temp (c_cr c) (c_up c) (c_s0 c) (c_snap c).

(* kinds: 1 trace <> model op list; 2 old_or_new false on the directory found (outside the known
   window); 3 directory found <> model state; 4 the commit_ready hypothesis / enabledness fails in the
   model (harness or model error); 5 every table is old or new, yet after deleting the hidden files
   csvq cannot read one of them; 6 old_or_new false exactly in the remove->rename window *)
Definition check_case (c : ccase) : list (N * N) :=
  (if trace_ok c then [] else [(1, cid c)]%N)
  ++ (if state_ok c then [] else [(3, cid c)]%N)
  ++ (if ready_ok c then [] else [(4, cid c)]%N)
  ++ (if spec_ok c then (if c_recovered c then [] else [(5, cid c)]%N)
      else if in_window c then [(6, cwin c)]%N else [(2, cid c)]%N).

Definition check_c10 (cs : list ccase) : list (N * N) := flat_map check_case cs.

(* what the model expects for a case: calls up to the crash point and the directory after them *)
Definition expected_c10 (c : ccase) :=
  let ops := if c_full c then model_ops c else firstn (length (c_obs c)) (model_ops c) in
  (ops, run (c_s0 c) ops, spec_ok c).
