(* H11.v -- correspondence checkers for C11, evaluated by vm_compute on what the Go harness
   (harness/c11.go) observed: the mutating system calls of a whole csvq run on the repository
   (strace), and the directory after the process ended -- for success, every error kind, EXIT,
   lock timeouts against competing holders, and SIGINT/SIGTERM/SIGQUIT injected at a system call. *)
Require Import Csvq.Model.Base Csvq.Model.Fs Csvq.Model.Commit Csvq.Model.Cleanup.

Record pcase := mkPC {
  qid : N;
  q_cfg : cfg;
  q_s0 : fs;                  (* directory before the run, competing holders' control files included *)
  q_prog : list action;       (* the program's statements as actions (orders taken from this run's trace) *)
  q_fin : action;             (* the auto-COMMIT, with the orders observed *)
  q_ord : list N;             (* order in which the deferred release closed what was left *)
  q_signal : bool;            (* a signal or a failing system call was injected: the run may have failed at any step *)
  q_obs : list op;            (* calls observed *)
  q_snap : fs;                (* directory after the process ended *)
  q_absent : list N;          (* tables created by a transaction that certainly did not commit *)
  q_allnone : list N;         (* tables created by the last transaction of a signalled run *)
  q_readonly : bool;          (* the program consists of reading statements only *)
  q_same : bool               (* harness: bytes and mtimes of all data files are unchanged *)
}.

Definition set_fail (a : action) (j : nat) : action :=
  match a with
  | ARead t _ => ARead t (Some j)
  | AUpdate t nb _ => AUpdate t nb (Some j)
  | ACreate t b _ => ACreate t b (Some j)
  | ACommit a b c _ => ACommit a b c (Some j)
  | x => x
  end.
Definition fail_points : list nat := [0; 1; 2; 3]%nat.
Definition commit_fail_points : list nat := seq 0 26.
Definition points_of (a : action) : list nat := match a with ACommit _ _ _ _ => commit_fail_points | _ => fail_points end.

(* every way a cancellation can end the program: before statement i, or inside it at point j *)
Fixpoint cancel_variants (pre rest : list action) : list (list action) :=
  match rest with
  | [] => []
  | a :: r => (pre ++ [AError]) :: map (fun j => pre ++ [set_fail a j; AError]) (points_of a)
              ++ cancel_variants (pre ++ [a]) r
  end.

Definition candidates (c : pcase) : list (list action * action) :=
  (q_prog c, q_fin c)
  :: if q_signal c
     then map (fun p => (p, q_fin c)) (cancel_variants [] (q_prog c))
          ++ map (fun j => (q_prog c, set_fail (q_fin c) j)) commit_fail_points
     else [].

Definition model_run (c : pcase) (cand : list action * action) : pst :=
  run_process (q_cfg c) (q_s0 c) (fst cand) (snd cand) (q_ord c).

Definition trace_matches (c : pcase) : list pst :=
  filter (fun m => ops_eqb (p_tr m) (q_obs c)) (map (model_run c) (candidates c)).

Definition present (s : fs) (t : N) : bool := exists_b s (data t).
Definition all_or_none (s : fs) (l : list N) : bool := forallb (present s) l || forallb (fun t => negb (present s t)) l.

Definition data_same (s0 s : fs) : bool :=
  fs_eqb (filter (fun e => is_data (fst e)) s0) (filter (fun e => is_data (fst e)) s).

(* kinds: 1 no model run has this trace; 2 directory found <> model's final directory;
   3 a control file of the run, or an uncommitted created table, is left (decidable spec
   no_leftovers on the directory found); 4 a read-only program mutated a data file (trace, bytes
   or mtime) *)
Definition check_case (c : pcase) : list (N * N) :=
  (match trace_matches c with
   | [] => [(1, qid c)]%N
   | ms => if existsb (fun m => fs_eqb (p_fs m) (q_snap c)) ms then [] else [(2, qid c)]%N
   end)
  ++ (if no_leftovers (q_s0 c) (q_snap c)
         && forallb (fun t => negb (present (q_snap c) t)) (q_absent c)
         && all_or_none (q_snap c) (q_allnone c)
      then [] else [(3, qid c)]%N)
  ++ (if q_readonly c
      then if existsb mutates_data (q_obs c) || negb (q_same c) || negb (data_same (q_s0 c) (q_snap c))
           then [(4, qid c)]%N else []
      else []).

Definition check_c11 (cs : list pcase) : list (N * N) := flat_map check_case cs.

Definition expected_c11 (c : pcase) :=
  let m := model_run c (q_prog c, q_fin c) in (p_tr m, p_fs m, length (trace_matches c)).
