(* H12.v -- correspondence checkers for C12, evaluated by vm_compute on what the Go harness observed
   by calling GoroutineTaskManager.RecordRange, GoroutineManager.AssignRoutineNumber,
   GoroutineTaskManager.Done (through the shared counter) and CalcMinimumRequired. *)
From Coq Require Import ZArith NArith List Bool.
Require Import Csvq.Model.Par.
Import ListNotations.
Open Scope Z_scope.

Fixpoint zlist_eqb (a b : list Z) : bool :=
  match a, b with
  | [], [] => true
  | x :: a', y :: b' => (x =? y) && zlist_eqb a' b'
  | _, _ => false
  end.

(* ---- RecordRange: all n ranges of one (len, n), flattened s0,e0,s1,e1,... --------------------- *)
Record rcase := mkR { rid : N; rlen : Z; rn : Z; robs : list Z }.

Fixpoint zseq (start : Z) (count : nat) : list Z :=
  match count with O => [] | S c => start :: zseq (start + 1) c end.

Definition model_ranges (len n : Z) : list Z :=
  flat_map (fun i => let r := record_range len n i in [fst r; snd r]) (zseq 0 (Z.to_nat n)).

Definition r_model_ok (c : rcase) : bool := zlist_eqb (model_ranges (rlen c) (rn c)) (robs c).

(* the decidable specification on the implementation's OWN answers: taken in goroutine order the
   observed ranges are 0 <= s <= e, start where the previous non-empty one ended, and end at len *)
Fixpoint partition_from (pos : Z) (l : list Z) : option Z :=
  match l with
  | [] => Some pos
  | s :: e :: t =>
      if (s =? e) then partition_from pos t                      (* empty range: any s=e accepted *)
      else if (s =? pos) && (s <? e) then partition_from e t else None
  | _ => None
  end.
Definition r_spec_ok (c : rcase) : bool :=
  (Z.of_nat (length (robs c)) =? 2 * rn c) &&
  match partition_from 0 (robs c) with Some p => p =? rlen c | None => false end.

(* ---- AssignRoutineNumber on a manager whose Count is [arun] ------------------------------------- *)
Record acase := mkA { aid : N; alen : Z; amin : Z; acpu : Z; arun : Z; aobs_n : Z; aobs_run : Z }.
Definition a_model_ok (c : acase) : bool :=
  let m := assign_number (alen c) (amin c) (acpu c) (arun c) in
  (fst m =? aobs_n c) && (snd m =? aobs_run c).
(* spec on the observed answer (cpu >= 1): 1 <= n <= cpu, n <= max 1 (len / min'), counter moved by n-1 *)
Definition a_spec_ok (c : acase) : bool :=
  if acpu c <? 1 then true else
  let min' := if amin c <? 1 then minimum_required_per_cpu_core else amin c in
  (1 <=? aobs_n c) && (aobs_n c <=? acpu c) && (aobs_n c <=? Z.max 1 (alen c / min'))
  && (aobs_run c =? arun c + aobs_n c - 1).

(* ---- life cycle through the package-level manager: NewGoroutineTaskManager, then Number times
        Done (when 1 < Number): observed Number, Count after New, Count after the Done calls ----- *)
Record lcase := mkL { lid : N; llen : Z; lmin : Z; lcpu : Z; lrun : Z; lobs_n : Z; lobs_mid : Z; lobs_end : Z }.
Definition l_model_ok (c : lcase) : bool :=
  let m := assign_number (llen c) (lmin c) (lcpu c) (lrun c) in
  (fst m =? lobs_n c) && (snd m =? lobs_mid c) && (finish (fst m) (snd m) =? lobs_end c).
Definition l_spec_ok (c : lcase) : bool := (lobs_end c =? lrun c).

(* ---- CalcMinimumRequired -------------------------------------------------------------------------- *)
Record mcase := mkM { mid : N; mi1 : Z; mi2 : Z; mdef : Z; mobs : Z }.
Definition m_model_ok (c : mcase) : bool := calc_minimum_required (mi1 c) (mi2 c) (mdef c) =? mobs c.

(* result: (kind, id).  1 = RecordRange differs from the model, 2 = observed ranges are not a
   partition of [0,len) in goroutine order, 3 = AssignRoutineNumber differs from the model,
   4 = observed number/counter break the bounds, 5 = NewGoroutineTaskManager/Done life cycle differs,
   6 = counter not restored after all Done calls, 7 = CalcMinimumRequired differs *)
Definition tag {C} (k : N) (id : C -> N) (ok : C -> bool) (cs : list C) : list (N * N) :=
  flat_map (fun c => if ok c then [] else [(k, id c)]) cs.

Definition check_ranges (cs : list rcase) : list (N * N) :=
  tag 1%N rid r_model_ok cs ++ tag 2%N rid r_spec_ok cs.
Definition check_assign (cs : list acase) : list (N * N) :=
  tag 3%N aid a_model_ok cs ++ tag 4%N aid a_spec_ok cs.
Definition check_life (cs : list lcase) : list (N * N) :=
  tag 5%N lid l_model_ok cs ++ tag 6%N lid l_spec_ok cs.
Definition check_minreq (cs : list mcase) : list (N * N) := tag 7%N mid m_model_ok cs.

Definition expected_range (c : rcase) := (rid c, model_ranges (rlen c) (rn c)).
Definition expected_assign (c : acase) := (aid c, assign_number (alen c) (amin c) (acpu c) (arun c)).
Definition expected_life (c : lcase) :=
  let m := assign_number (llen c) (lmin c) (lcpu c) (lrun c) in (lid c, m, finish (fst m) (snd m)).
Definition expected_minreq (c : mcase) := (mid c, calc_minimum_required (mi1 c) (mi2 c) (mdef c)).
