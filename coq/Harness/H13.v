(* H13.v -- the fact base the C13 access summaries were written for, and the checks that compare it
   with the one re-extracted from the current sources by /verif/translator (gen/C13/Sites.v).

   expected_sites was produced by the translator on the pinned tree and then read against the Go
   code site by site (DESIGN.md section 5, C13); every site is either covered by the syntactic
   discipline (site_ok, theorem discipline_sound), or is one of the hand-summarised exceptions below
   (Model/ParSites.v, Proofs/ParSites.v), or is a method of the task manager / the parent side of
   a go statement.  A new goroutine, a new shared variable, or a variable accessed in a new way
   changes the extracted base and breaks the equality. *)
From Coq Require Import List Bool String NArith.
Require Import Csvq.Model.Access.
Import ListNotations.
Open Scope string_scope.

Definition expected_sites : list site := [
  mkSite "lib/query/analytic_function.go:Analyze:go#0" "go"
    [mkFact "view.RecordSet" Rd (ShOther "idx");
     mkFact "view.RecordSet" Wr (ShOther "idx")]
    ["call:aggfn"; "gm.Done"; "gm.HasError"; "gm.RecordRange"; "gm.SetError"];
  mkSite "lib/query/analytic_function.go:Analyze:run#0" "run"
    [mkFact "partitionKeys" Wr ShIdx;
     mkFact "view.sortValuesInEachCell" Rd ShIdx;
     mkFact "view.sortValuesInEachCell" Wr ShIdx]
    [];
  mkSite "lib/query/eval.go:EvaluateSequentially:go#0=evaluateSequentialRoutine" "go"
    []
    ["call:fn"; "gm.Done"; "gm.HasError"; "gm.RecordRange"; "gm.SetError"];
  mkSite "lib/query/goroutine_manager.go:GoroutineManager.AssignRoutineNumber" "method"
    [mkFact "m.Count" Rd (ShLocked "m.CountMutex");
     mkFact "m.Count" Wr (ShLocked "m.CountMutex");
     mkFact "m.MinimumRequiredPerCore" Rd ShDirect]
    [];
  mkSite "lib/query/goroutine_manager.go:GoroutineManager.Release" "method"
    [mkFact "m.Count" Rd (ShLocked "m.CountMutex");
     mkFact "m.Count" Wr (ShLocked "m.CountMutex")]
    [];
  mkSite "lib/query/goroutine_manager.go:GoroutineTaskManager.Add" "method"
    []
    [];
  mkSite "lib/query/goroutine_manager.go:GoroutineTaskManager.Done" "method"
    [mkFact "m.grCount" Rd (ShLocked "m.grTaskMutex");
     mkFact "m.grCount" Wr (ShLocked "m.grTaskMutex")]
    ["m.waitGroup.Done"];
  mkSite "lib/query/goroutine_manager.go:GoroutineTaskManager.Err" "method"
    [mkFact "m.err" Rd ShDirect]
    [];
  mkSite "lib/query/goroutine_manager.go:GoroutineTaskManager.HasError" "method"
    [mkFact "m.err" Rd ShDirect]
    [];
  mkSite "lib/query/goroutine_manager.go:GoroutineTaskManager.RecordRange" "method"
    [mkFact "m.Number" Rd ShDirect;
     mkFact "m.recordLen" Rd ShDirect]
    [];
  mkSite "lib/query/goroutine_manager.go:GoroutineTaskManager.Run" "method"
    [mkFact "m.Number" Rd ShDirect]
    ["m.HasError"];
  mkSite "lib/query/goroutine_manager.go:GoroutineTaskManager.Run:go#0=GoroutineTaskManager.run" "go"
    []
    ["call:fn"; "m.Done"; "m.HasError"; "m.RecordRange"; "m.SetError"];
  mkSite "lib/query/goroutine_manager.go:GoroutineTaskManager.SetError" "method"
    [mkFact "m.err" Rd (ShLocked "m.grTaskMutex");
     mkFact "m.err" Wr (ShLocked "m.grTaskMutex")]
    [];
  mkSite "lib/query/goroutine_manager.go:GoroutineTaskManager.Wait" "method"
    []
    [];
  mkSite "lib/query/goroutine_manager.go:GoroutineTaskManager.run" "method"
    [mkFact "m.Number" Rd ShDirect]
    ["call:fn"; "m.Done"; "m.HasError"; "m.RecordRange"; "m.SetError"];
  mkSite "lib/query/join.go:CrossJoin:run#0" "run"
    [mkFact "records" Wr (ShOther "start + i")]
    [];
  mkSite "lib/query/join.go:InnerJoin:go#0" "go"
    [mkFact "recordsList" Wr ShWorker]
    ["gm.Done"; "gm.HasError"; "gm.RecordRange"; "gm.SetError"];
  mkSite "lib/query/join.go:InnerJoin:parent" "parent"
    [mkFact "recordsList" Rd (ShOther "after-wait")]
    [];
  mkSite "lib/query/join.go:OuterJoin:go#0" "go"
    [mkFact "joinViewMatchesList" Wr ShWorker;
     mkFact "recordsList" Wr ShWorker]
    ["gm.Done"; "gm.HasError"; "gm.RecordRange"; "gm.SetError"];
  mkSite "lib/query/join.go:OuterJoin:parent" "parent"
    [mkFact "joinViewMatchesList" Rd (ShOther "after-wait");
     mkFact "recordsList" Rd (ShOther "after-wait");
     mkFact "recordsList" Wr (ShOther "after-wait")]
    [];
  mkSite "lib/query/load_view.go:joinViews:run#0" "run"
    [mkFact "view.RecordSet" Rd ShIdx;
     mkFact "view.RecordSet" Wr ShIdx]
    [];
  mkSite "lib/query/load_view.go:loadView:evalseq#0" "evalseq"
    [mkFact "hfields" Wr ShGuard0;
     mkFact "resultSetList" Wr ShIdx]
    [];
  mkSite "lib/query/load_view.go:loadViewFromJsonLinesFile:go#0" "go"
    [mkFact "err" Rd ShDirect;
     mkFact "err" Wr ShDirect;
     mkFact "headerList" Rd ShDirect;
     mkFact "headerList" Wr ShDirect;
     mkFact "headerMap" Rd (ShOther "map[v]");
     mkFact "headerMap" Wr (ShOther "map[v]");
     mkFact "objectList" Rd ShDirect;
     mkFact "objectList" Wr ShDirect;
     mkFact "pos" Rd ShDirect]
    ["wg.Done"];
  mkSite "lib/query/load_view.go:loadViewFromJsonLinesFile:go#1" "go"
    [mkFact "err" Rd ShDirect;
     mkFact "err" Wr ShDirect;
     mkFact "escapeType" Rd ShDirect;
     mkFact "escapeType" Wr ShDirect;
     mkFact "pos" Wr ShDirect]
    ["wg.Done"];
  mkSite "lib/query/load_view.go:loadViewFromJsonLinesFile:parent" "parent"
    [mkFact "err" Rd (ShOther "after-wait");
     mkFact "err" Wr (ShOther "after-wait");
     mkFact "escapeType" Rd (ShOther "after-wait");
     mkFact "headerList" Rd (ShOther "after-wait");
     mkFact "objectList" Rd (ShOther "after-wait")]
    [];
  mkSite "lib/query/load_view.go:loadViewFromJsonLinesFile:run#0" "run"
    [mkFact "recordSet" Wr ShIdx]
    [];
  mkSite "lib/query/load_view.go:loadViewFromLTSVFile:run#0" "run"
    [mkFact "records" Rd ShIdx;
     mkFact "records" Wr ShIdx]
    [];
  mkSite "lib/query/load_view.go:readRecordSet:go#0" "go"
    [mkFact "err" Rd ShDirect;
     mkFact "err" Wr ShDirect;
     mkFact "pos" Rd ShDirect;
     mkFact "recordSet" Rd ShDirect;
     mkFact "recordSet" Wr ShDirect]
    ["wg.Done"];
  mkSite "lib/query/load_view.go:readRecordSet:go#1" "go"
    [mkFact "err" Rd ShDirect;
     mkFact "err" Wr ShDirect;
     mkFact "pos" Rd ShDirect;
     mkFact "pos" Wr ShDirect]
    ["wg.Done"];
  mkSite "lib/query/load_view.go:readRecordSet:parent" "parent"
    [mkFact "err" Rd (ShOther "after-wait");
     mkFact "recordSet" Rd (ShOther "after-wait")]
    [];
  mkSite "lib/query/query.go:AddColumns:evalseq#0" "evalseq"
    [mkFact "records" Wr ShIdx]
    [];
  mkSite "lib/query/view.go:NewViewFromGroupedRecord:run#0" "run"
    [mkFact "view.RecordSet" Wr ShIdx]
    [];
  mkSite "lib/query/view.go:View.ExtendRecordCapacity:run#0" "run"
    [mkFact "view.RecordSet" Rd ShIdx;
     mkFact "view.RecordSet" Wr ShIdx]
    [];
  mkSite "lib/query/view.go:View.Fix:run#0" "run"
    [mkFact "view.RecordSet" Rd ShIdx;
     mkFact "view.RecordSet" Wr ShIdx]
    [];
  mkSite "lib/query/view.go:View.GenerateComparisonKeys:run#0" "run"
    [mkFact "view.comparisonKeysInEachRecord" Wr ShIdx]
    [];
  mkSite "lib/query/view.go:View.ListValuesForAggregateFunctions:evalseq#0" "evalseq"
    [mkFact "list" Wr ShIdx]
    [];
  mkSite "lib/query/view.go:View.OrderBy:run#0" "run"
    [mkFact "view.sortValuesInEachCell" Rd ShDirect;
     mkFact "view.sortValuesInEachCell" Rd ShIdx;
     mkFact "view.sortValuesInEachCell" Wr ShIdx;
     mkFact "view.sortValuesInEachRecord" Wr ShIdx]
    [];
  mkSite "lib/query/view.go:View.evalColumn:evalseq#0" "evalseq"
    [mkFact "view.RecordSet" Rd ShIdx;
     mkFact "view.RecordSet" Wr ShIdx]
    [];
  mkSite "lib/query/view.go:View.filter:evalseq#0" "evalseq"
    [mkFact "results" Wr ShIdx]
    [];
  mkSite "lib/query/view.go:View.group:go#0" "go"
    [mkFact "groupKeyCnt" Rd (ShLocked "mtx");
     mkFact "groupKeyCnt" Wr (ShLocked "mtx");
     mkFact "groupKeys" Rd (ShLocked "mtx");
     mkFact "groupKeys" Wr (ShLocked "mtx");
     mkFact "groupsList" Wr ShWorker]
    ["gm.Done"; "gm.HasError"; "gm.RecordRange"; "gm.SetError"];
  mkSite "lib/query/view.go:View.group:parent" "parent"
    [mkFact "groupKeyCnt" Rd (ShOther "after-wait");
     mkFact "groupKeyCnt" Wr (ShOther "after-wait");
     mkFact "groupKeys" Rd (ShOther "after-wait");
     mkFact "groupsList" Rd (ShOther "after-wait")]
    [];
  mkSite "lib/query/view.go:View.group:run#0" "run"
    [mkFact "records" Wr ShIdx]
    [];
  mkSite "lib/query/view.go:View.groupAll:run#0" "run"
    [mkFact "record" Wr ShIdx]
    [];
  mkSite "lib/query/view.go:View.replace:run#0" "run"
    [mkFact "sortValuesInEachRecord" Wr ShIdx]
    [];
  mkSite "lib/query/view.go:View.replace:run#1" "run"
    [mkFact "sortValuesInInsertRecords" Wr ShIdx]
    [];
  mkSite "lib/query/view.go:View.replace:run#2" "run"
    [mkFact "replacedCount" Rd (ShLocked "replaceMtx");
     mkFact "replacedCount" Wr (ShLocked "replaceMtx");
     mkFact "replacedRecord" Wr (ShLocked "replaceMtx");
     mkFact "view.RecordSet" Wr ShIdx]
    ["call:replaced"];
  mkSite "lib/query/view_map.go:ViewMap.GetWithInternalId:run#0" "run"
    [mkFact "ret.RecordSet" Rd ShIdx;
     mkFact "ret.RecordSet" Wr ShIdx]
    [];
  mkSite "lib/cli/app.go:commandAction:go#0" "go"
    [mkFact "signalReceived" Wr ShDirect]
    ["call:cancel"];
  mkSite "lib/cli/app.go:commandAction:parent" "parent"
    [mkFact "signalReceived" Rd (ShOther "concurrent")]
    []
].

(* the same goroutine bodies after the repairs proposed in hooks/fix_*.patch (HasError/Err take the
   task manager's mutex; signalReceived is accessed under signalMutex): accepted as well, so that
   the check passes with and without the patches.  With these variants the refutations for the
   error slot and for signalReceived no longer describe the source; the theorems that do are
   C13_task_manager_locked_drf / C13_discipline_sound_locked and signal_fixed_race_free. *)
Definition expected_alternatives : list site := [
  mkSite "lib/cli/app.go:commandAction:go#0" "go"
    [mkFact "signalReceived" Wr (ShLocked "signalMutex")]
    ["call:cancel"];
  mkSite "lib/cli/app.go:commandAction:parent" "parent"
    [mkFact "signalReceived" Rd (ShLocked "signalMutex")]
    [];
  mkSite "lib/query/goroutine_manager.go:GoroutineTaskManager.Err" "method"
    [mkFact "m.err" Rd (ShLocked "m.grTaskMutex")]
    [];
  mkSite "lib/query/goroutine_manager.go:GoroutineTaskManager.HasError" "method"
    [mkFact "m.err" Rd (ShLocked "m.grTaskMutex")]
    []
].

(* hand-summarised sites: key, and the theorem that covers it *)
Definition exceptions : list (string * string) := [
  ("lib/query/join.go:CrossJoin:run#0", "site_crossjoin_drf (index*m+i is injective)");
  ("lib/query/analytic_function.go:Analyze:go#0", "site_analyze_drf (partitions are disjoint)");
  ("lib/query/load_view.go:loadView:evalseq#0", "site_lateral_drf (hfields written by the owner of record 0 only)");
  ("lib/query/load_view.go:readRecordSet:go#0", "site_loader_drf_except_pos / loader_pos_race (REFUTED: pos)");
  ("lib/query/load_view.go:readRecordSet:go#1", "site_loader_drf_except_pos / loader_pos_race (REFUTED: pos)");
  ("lib/query/load_view.go:loadViewFromJsonLinesFile:go#0", "site_loader_drf_except_pos / loader_pos_race (REFUTED: pos)");
  ("lib/query/load_view.go:loadViewFromJsonLinesFile:go#1", "site_loader_drf_except_pos / loader_pos_race (REFUTED: pos)");
  ("lib/cli/app.go:commandAction:go#0", "signal_race (REFUTED: signalReceived)");
  ("lib/cli/app.go:commandAction:parent", "signal_race (REFUTED: signalReceived)")
].
Definition is_exception (k : string) : bool := existsb (fun e => String.eqb (fst e) k) exceptions.

(* the parent side of a go statement: every access to a goroutine-written path comes after Wait *)
Definition parent_ok (s : site) : bool :=
  forallb (fun f => shape_eqb (f_shape f) (ShOther "after-wait")) (s_facts s).

Definition classified (s : site) : bool :=
  is_exception (s_key s)
  || String.eqb (s_kind s) "method"
  || (String.eqb (s_kind s) "parent" && parent_ok s)
  || ((String.eqb (s_kind s) "go" || String.eqb (s_kind s) "run" || String.eqb (s_kind s) "evalseq") && site_ok s).

Definition find_site (k : string) (l : list site) : option site := find (fun s => String.eqb (s_key s) k) l.
Definition default_site : site := mkSite "" "" [] [].
Definition site_by_key (k : string) : site := match find_site k expected_sites with Some s => s | None => default_site end.

Fixpoint indexed {A} (i : N) (l : list A) : list (N * A) :=
  match l with [] => [] | x :: t => (i, x) :: indexed (N.succ i) t end.

(* result: (kind, id).  1 = extracted site (id = its index in gen/C13/Sites.v) is new or differs from
   the expected one of the same key; 2 = expected site (id = 1000 + index in expected_sites) is not in
   the source any more; 3 = extracted site is not covered by any theorem *)
Definition matches_expected (g : site) : bool :=
  match find_site (s_key g) expected_sites with
  | Some e => site_eqb e g || existsb (fun a => site_eqb a g) expected_alternatives
  | None => false
  end.
Definition check_sites (gen : list site) : list (N * N) :=
  flat_map (fun p => if matches_expected (snd p) then [] else [(1%N, fst p)]) (indexed 0%N gen)
  ++ flat_map (fun p => match find_site (s_key (snd p)) gen with
                        | Some _ => []
                        | None => [(2%N, (1000 + fst p)%N)]
                        end) (indexed 0%N expected_sites)
  ++ flat_map (fun p => if classified (snd p) then [] else [(3%N, fst p)]) (indexed 0%N gen).

Definition expected_of (gen : list site) (id : N) : option site :=
  if (id <? 1000)%N then
    match nth_error gen (N.to_nat id) with
    | Some g => find_site (s_key g) expected_sites
    | None => None
    end
  else nth_error expected_sites (N.to_nat (id - 1000)).
