(* H14.v -- checkers for C14, evaluated by vm_compute on (1) the fact base the translator regenerates
   from /repo on every run and (2) the observations of the differential runs of the implementation
   (pool on / poisoning Discard, first / second evaluation of the same parsed tree). *)
From Coq Require Import NArith List Bool.
Require Import Csvq.Model.Pool.
Import ListNotations.
Open Scope N_scope.

(* ---- static obligations: kinds 1-4 (11-14 when the dynamic runs of the same check already exhibit
   a concrete failing program) -------------------------------------------------------------------- *)
Definition kshift (dyn : bool) (k : N) : N := if dyn then k + 10 else k.

Definition check_sites (dyn : bool) (cs : list ctor) (ss : list site) : list (N * N) :=
  flat_map (fun s => if site_holds cs s then [] else [(kshift dyn 1, s_id s)]) ss.

Definition check_awrites (dyn : bool) (ws : list awrite) : list (N * N) :=
  flat_map (fun w => if awrite_ok w then [] else [(kshift dyn 2, aw_id w)]) ws.

(* constructor ids are reported as 2000 + id *)
Definition check_ctors (dyn : bool) (cs : list ctor) : list (N * N) :=
  flat_map (fun c => if ctor_fresh (S (length cs)) cs (c_id c) then [] else [(kshift dyn 3, 2000 + c_id c)]) cs.

Definition check_cwrites (dyn : bool) (ws : list cwrite) : list (N * N) :=
  flat_map (fun w => if cw_fresh w then [] else [(kshift dyn 4, cw_id w)]) ws.

Definition check_facts (dyn : bool) (cs : list ctor) (ss : list site) (aws : list awrite) (cws : list cwrite) : list (N * N) :=
  check_sites dyn cs ss ++ check_awrites dyn aws ++ check_ctors dyn cs ++ check_cwrites dyn cws.

(* the Boolean the theorems C14_discipline_sound / C14_writes_sound take as hypothesis *)
Definition facts_ok (cs : list ctor) (ss : list site) (aws : list awrite) (cws : list cwrite) : bool :=
  forallb (site_holds cs) ss && forallb awrite_ok aws && forallb cw_fresh cws.

(* ---- dynamic observations ----------------------------------------------------------------------
   one generated program, parsed once; the SAME tree is executed twice (fresh transaction each time)
   in a process with the pool active (off) and in a process where Discard poisons the object and does
   not re-issue it (on).  Outputs are compared through 64-bit digests computed by the harness. *)
Record rcase := mkR {
  r_id : N;
  r_hook : bool;        (* the poisoning hook is compiled into this build of csvq *)
  r_off1 : N; r_off2 : N;   (* digest of the output of the 1st / 2nd evaluation, pool active *)
  r_on1 : N; r_on2 : N;     (* the same with poisoning *)
  r_tree_off : bool;    (* deep dump of the syntax tree identical before / after both evaluations *)
  r_tree_on : bool;
  r_marker : bool }.    (* a poison marker is visible in an output or in the tree *)

Definition run_kinds (c : rcase) : list N :=
  (if r_hook c && negb (N.eqb (r_off1 c) (r_on1 c)) then [5] else [])
  ++ (if r_marker c then [6] else [])
  ++ (if negb (r_tree_off c) || (r_hook c && negb (r_tree_on c)) then [7] else [])
  ++ (if negb (N.eqb (r_off1 c) (r_off2 c)) || (r_hook c && negb (N.eqb (r_on1 c) (r_on2 c))) then [8] else []).

Definition check_runs (cs : list rcase) : list (N * N) :=
  flat_map (fun c => map (fun k => (k, r_id c)) (run_kinds c)) cs.

(* ---- sanity of the model's own executable semantics (run on every check; cheap) ---------------
   a conversion temporary used the way the 121 plain call sites use it, under four pool policies *)
Definition demo_prog : list (instr N) :=
  [ IMove 10 0;                          (* args[0]: pointer to a literal / cell / variable *)
    INew 11 (ERead 10);                  (* s := value.ToString(args[0]) *)
    INew 12 (EOp 0 (ERead 11) (EConst 5));   (* result := value.NewString(f(s.Raw())) *)
    IDiscard 11;                         (* value.Discard(s) *)
    INew 13 (ERead 1);                   (* the next conversion re-uses the cell *)
    IOut (ERead 12); IOut (ERead 13); IOut (ERead 0);
    IDiscard 13;
    IMove 1 12 ].                        (* SET @v = result *)
Definition demo_op (f a b : N) : N := a + b.
Definition demo_outs (pol : policy) : option (list N) :=
  match run_p demo_op pol demo_prog (mk_init [42; 7]) with Some s => Some (p_outs s) | None => None end.
Definition demo_ok : bool :=
  disciplined demo_prog
  && forallb (fun pol => match demo_outs pol with Some [47; 7; 42] => true | _ => false end)
             [pol_lifo; pol_never; pol_gc; pol_fifo].
