(* H15.v -- correspondence checkers for C15, evaluated by vm_compute on what the Go harness observed. *)
From Coq Require Import Floats.
Require Import Csvq.Model.Base Csvq.Model.Value Csvq.Model.Compare Csvq.Model.Arith Csvq.Model.Proc.
Open Scope Z_scope.

Definition fuel15 : nat := N.to_nat 4000.

Definition perr_eqb (a b : perr) : bool :=
  match a, b with
  | XUndeclVar, XUndeclVar | XRedeclVar, XRedeclVar | XFuncNotExist, XFuncNotExist | XFuncRedecl, XFuncRedecl
  | XArgLen, XArgLen | XDupParam, XDupParam | XDivZero, XDivZero | XCurUndecl, XCurUndecl | XCurRedecl, XCurRedecl
  | XCurClosed, XCurClosed | XCurOpen, XCurOpen | XFetchLen, XFetchLen | XTempRedecl, XTempRedecl
  | XTempUndecl, XTempUndecl | XTableNotExist, XTableNotExist | XOther, XOther => true
  | XExit x, XExit y => x =? y
  | _, _ => false
  end.

Definition outcome_same (a b : outcome) : bool :=
  match a, b with
  | ONormal, ONormal | OBreak, OBreak | OContinue, OContinue | OExit, OExit | OOOF, OOOF => true
  | OReturn x, OReturn y => val_same x y
  | OErr x, OErr y => perr_eqb x y
  | _, _ => false
  end.

Definition is_oof (o : outcome) : bool := match o with OOOF => true | _ => false end.

(* program through the library: PRINT lines (typed), final flow / error class *)
Record lcase := mkL { lid : N; lprog : list stmt; lout : list val; lres : outcome }.
(* program through the csvq binary: PRINT lines, exit status *)
Record bcase := mkB { bid : N; bprog : list stmt; bout : list val; bcode : Z }.
(* placement of control statements: does the parser accept the program *)
Record wcase := mkW { wid : N; wprog : list stmt; wok : bool }.
(* SELECT f(c1) FROM big WHERE g(c1) after the declarations in qprog; None = the query failed *)
Record qcase := mkQ { qid : N; qprog : list stmt; qf : str; qg : str; qrows : list val; qobs : option (list val) }.

Definition model_run (p : list stmt) : outcome * list val :=
  let (o, s) := run_heap fuel15 p in (o, rev (out s)).
Definition pure_run (p : list stmt) : outcome * list val :=
  let (o, s) := run_pure fuel15 p in (o, rev (out s)).

(* the pooled-object machine and the plain stack machine must tell the same story (Proofs/ProcSim.v
   proves they do; evaluated here as well so that a model edit cannot silently separate them), and
   the pool discipline must hold at the end: one live block, the pool free of duplicates *)
Fixpoint nodup_N (l : list N) : bool :=
  match l with [] => true | x :: l' => negb (existsb (N.eqb x) l') && nodup_N l' end.
Definition machines_agree (p : list stmt) : bool :=
  let (o1, s1) := run_heap fuel15 p in
  let (o2, s2) := run_pure fuel15 p in
  outcome_same o1 o2 && list_eqb val_same (out s1) (out s2)
  && Nat.eqb (length (h_chain (ms s1))) 1 && nodup_N (h_chain (ms s1) ++ h_pool (ms s1))
  && Nat.eqb (length (ms s2)) 1.

Definition check_lib (cs : list lcase) : list (N * N) :=
  flat_map (fun c =>
    let (o, printed) := model_run (lprog c) in
    (if is_oof o then [(5%N, lid c)] else
     if outcome_same o (lres c) && list_eqb val_same printed (lout c) then [] else [(1%N, lid c)]) ++
    (if machines_agree (lprog c) then [] else [(6%N, lid c)])) cs.

Definition check_bin (cs : list bcase) : list (N * N) :=
  flat_map (fun c =>
    let (o, printed) := model_run (bprog c) in
    if is_oof o then [(5%N, bid c)] else
    if (exit_code o =? bcode c) && list_eqb val_same printed (bout c) then [] else [(2%N, bid c)]) cs.

Definition check_ctx (cs : list wcase) : list (N * N) :=
  flat_map (fun c => if Bool.eqb (forallb (wf_stmt 40 false false) (wprog c)) (wok c) then [] else [(3%N, wid c)]) cs.

(* one model invocation per row, every one from the same calling scope *)
Definition eres_vals (l : list eres) : option (list val) :=
  fold_right (fun r acc => match r, acc with EVal v, Some vs => Some (v :: vs) | _, _ => None end) (Some []) l.
Definition model_rows (c : qcase) : option (option (list val)) :=   (* None = out of fuel *)
  let (o, s) := run_heap fuel15 (qprog c) in
  match o with
  | ONormal =>
      let gs := call_on_rows (heapM lifo) fuel15 (qg c) (qrows c) s in
      if existsb (fun r => match r with EOOF => true | _ => false end) gs then None else
      match eres_vals gs with
      | None => Some None
      | Some gv =>
          let kept := map snd (filter (fun p => match ternary_of (fst p) with TT => true | _ => false end) (combine gv (qrows c))) in
          let fs := call_on_rows (heapM lifo) fuel15 (qf c) kept s in
          if existsb (fun r => match r with EOOF => true | _ => false end) fs then None else Some (eres_vals fs)
      end
  | OOOF => None
  | _ => Some None
  end.
Definition check_rows (cs : list qcase) : list (N * N) :=
  flat_map (fun c =>
    match model_rows c with
    | None => [(5%N, qid c)]
    | Some m => if option_eqb (list_eqb val_same) m (qobs c) then [] else [(4%N, qid c)]
    end) cs.

Definition expected_lib (c : lcase) := (lid c, model_run (lprog c)).
Definition expected_bin (c : bcase) := (bid c, let (o, p) := model_run (bprog c) in (exit_code o, p)).
Definition expected_ctx (c : wcase) := (wid c, forallb (wf_stmt 40 false false) (wprog c)).
Definition expected_rows (c : qcase) := (qid c, model_rows c).
