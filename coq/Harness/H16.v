(* H16.v -- correspondence checkers for C16 (cursors), evaluated by vm_compute on the histories the
   Go harness executed statement by statement on the implementation. *)
Require Import Csvq.Model.Base Csvq.Model.Value Csvq.Model.Cursor.
Open Scope Z_scope.

(* row data is only moved around by the cursor code, never inspected: text cells are written
   without string oracles *)
Definition vs (raw : str) : val := VStr (mkS raw raw raw None None None None).

(* what the harness saw after one statement: error class, value of the status expression, the
   variables @v0.. (None = identical to what they were after the previous statement), and -- for a
   WHILE loop -- the rows logged by the first statement of the body *)
Record obs := mkObs { o_err : option cerr; o_val : option val; o_vars : option (list val); o_log : list row }.

(* mode 0: compare with the model and with the specification; 1: model only; 2: specification only
   (histories in which FETCH RELATIVE is given a number near +-2^63 are emitted twice, as mode 1
   and -- tagged with the finding key -- as mode 2) *)
Record ccase := mkC {
  cid : N; cmode : N;
  cdb : dbmap; cvars : list val; cprep : list (N * pstmt);
  csteps : list (op * obs) }.

Definition FUEL : nat := 100.

Definition rows_same (a b : list row) : bool := list_eqb (list_eqb val_same) a b.

Definition step_matches (st' : state) (r : sres) (prev : list val) (o : obs) : bool :=
  option_eqb cerr_eqb (r_err r) (o_err o)
  && option_eqb val_same (r_val r) (o_val o)
  && list_eqb val_same (vars st') (match o_vars o with Some l => l | None => prev end)
  && rows_same (r_log r) (o_log o).

(* index (from 1) of the first statement on which the machine and the observation differ; 0 = none *)
Fixpoint first_diff (add : Z -> Z -> Z) (st : state) (prev : list val) (steps : list (op * obs)) (i : N) : N :=
  match steps with
  | [] => 0%N
  | (o, b) :: steps' =>
      let '(st', r) := step add FUEL st o in
      if step_matches st' r prev b
      then first_diff add st' (match o_vars b with Some l => l | None => prev end) steps' (i + 1)%N
      else i
  end.

Definition case_init (c : ccase) : state := init_state (cdb c) (cvars c) (cprep c).
Definition model_diff (c : ccase) : N := first_diff Z.add (case_init c) (cvars c) (csteps c) 1.
Definition spec_diff (c : ccase) : N := first_diff Z.add (case_init c) (cvars c) (csteps c) 1.

(* kind 1 = the model (the code as read) and the implementation differ; kind 2 = the
   implementation's observations are not those of the clamped-pointer specification *)
Definition check_cases (cs : list ccase) : list (N * N) :=
  flat_map (fun c =>
    (if (N.eqb (cmode c) 2 || N.eqb (model_diff c) 0)%bool then [] else [(1%N, cid c)]) ++
    (if (N.eqb (cmode c) 1 || N.eqb (spec_diff c) 0)%bool then [] else [(2%N, cid c)])) cs.

(* for replays: what the model expects after every statement *)
Fixpoint model_trace (add : Z -> Z -> Z) (st : state) (steps : list (op * obs)) : list (sres * list val) :=
  match steps with
  | [] => []
  | (o, _) :: steps' => let '(st', r) := step add FUEL st o in (r, vars st') :: model_trace add st' steps'
  end.
Definition expected_case (c : ccase) :=
  (cid c, model_diff c, spec_diff c, model_trace Z.add (case_init c) (csteps c)).
