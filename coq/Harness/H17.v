(* H17.v -- analytic functions observed through parser.Parse + query.Select against Model.Analytic *)
From Coq Require Import Floats.
Require Import Csvq.Model.Base Csvq.Model.Value Csvq.Model.Conv Csvq.Model.Compare Csvq.Model.Arith Csvq.Model.Expr
               Csvq.Model.Key Csvq.Model.SortVal Csvq.Model.Query Csvq.Model.Analytic Csvq.Harness.HQuery.
Open Scope Z_scope.

(* aouter: the query's own ORDER BY (select-list positions), applied after the analytic function *)
Record acase := mkA { aid : N; astrict : bool; arows : list row; afn : afun; acl : aclause; aouter : list okey; aobs : res (list row) }.

Definition a_model_ok (c : acase) : bool :=
  match analyze (astrict c) (afn c) (acl c) (arows c), aobs c with
  | Ok m, Ok o => multiset_same m o
  | Err _, Err _ => true
  | _, _ => false
  end.

(* specification check on the implementation's own output, for LAST_VALUE with an explicit ROWS
   clause: the value must be the last value of the row's frame (frames taken on the partition in its
   sorted order).  Rows carry a unique first column, by which an observed row is found again. *)
Definition last_in_frame (vals : list val) (ign : bool) : val :=
  nth_in_frame (rev vals) ign 1 0.

Definition spec_last_value (strict : bool) (e : expr) (ign : bool) (ac : aclause) (rows : list row) : res (list row) :=
  do sorted <- (do keyed <- mapM (fun r => do ks <- sort_keys strict (a_order ac) r r; Ok (ks, r)) rows;
                Ok (map snd (isort (dirs_of (a_order ac)) keyed)));
  do pkeys <- mapM (fun r => do vs <- mapM (eval r) (a_partition ac); Ok (row_key strict vs)) sorted;
  do parts <- mapM (fun idxs =>
                let members := pick sorted idxs in
                let len := Z.of_nat (length members) in
                do vals <- mapM (fun r => eval r e) members;
                Ok (combine members (map (fun c => let '(lo, hi) := frame_of true (a_frame ac) c len in
                                                   last_in_frame (frame_slice vals lo hi) ign) (zseq 0 (length members)))))
              (group_keys pkeys);
  Ok (map (fun rv => fst rv ++ [snd rv]) (concat parts)).

Definition a_spec_ok (c : acase) : bool :=
  match afn c, a_frame (acl c), aobs c with
  | ALastValue e ign, Some _, Ok o =>
      if Nat.ltb (length (arows c)) 2 then true else
      match spec_last_value (astrict c) e ign (acl c) (arows c) with
      | Ok s => multiset_same s o
      | Err _ => true
      end
  | _, _, _ => true
  end.

(* rows and columns are preserved: dropping the last column of the output gives the input rows *)
Definition a_frame_ok (c : acase) : bool :=
  match aobs c with
  | Ok o => multiset_same (map (fun r => removelast r) o) (arows c)
  | Err _ => true
  end.

(* the query's own ORDER BY after an analytic function: the observed rows must be sorted by it *)
Definition a_outer_ok (c : acase) : bool :=
  match aouter c, aobs c with
  | [], _ => true
  | ord, Ok o => no_inversion (dirs_of ord) (map (out_keys (astrict c) ord) o)
  | _, Err _ => true
  end.

(* kinds: 1 = differs from the model; 2 = LAST_VALUE is not the last value of the row's frame;
   3 = other columns or the number of rows changed; 4 = oracle inconsistent;
   5 = the result is not sorted by the query's own ORDER BY *)
Definition check_analytic (cs : list acase) : list (N * N) :=
  flat_map (fun c =>
    (if forallb (forallb val_wf) (arows c) then [] else [(4%N, aid c)]) ++
    (if a_model_ok c then [] else [(1%N, aid c)]) ++
    (if a_spec_ok c then [] else [(2%N, aid c)]) ++
    (if a_frame_ok c then [] else [(3%N, aid c)]) ++
    (if a_outer_ok c then [] else [(5%N, aid c)])) cs.

Definition expected_analytic (c : acase) := (aid c, analyze (astrict c) (afn c) (acl c) (arows c)).
