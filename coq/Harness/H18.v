(* H18.v -- correspondence and specification checkers for C18, evaluated by vm_compute on what the
   Go harness observed on parser.Scanner and on option.EscapeString & co. *)
From Coq Require Import Uint63.
Require Import Csvq.Model.Base Csvq.Model.Escape Csvq.Model.Lex.
Open Scope N_scope.

Definition lexerr_eqb (a b : lexerr) : bool :=
  match a, b with
  | ENotTerminated, ENotTerminated | EInvalidVariable, EInvalidVariable
  | EInvalidConstant, EInvalidConstant | ENumber, ENumber => true
  | _, _ => false
  end.

Definition token_eqb (a b : token) : bool :=
  (t_kind a =? t_kind b)%Z && str_eqb (t_lit a) (t_lit b) && Bool.eqb (t_quoted a) (t_quoted b)
  && (t_ord a =? t_ord b) && (t_line a =? t_line b) && (t_char a =? t_char b)
  && option_eqb lexerr_eqb (t_err a) (t_err b).

(* ---- compact transport of the observations --------------------------------------------------- *)
(* Coq elaborates a primitive 63-bit integer literal about ten times faster than an N literal, so
   the generated files carry code points packed three to an integer (21 bits each, stored + 1 so
   that an empty field is 0; the first code point of a group is in the highest non-empty field)
   and small numbers as integers. *)
Fixpoint n_of_bits (n : nat) (i : int) : N :=
  match n with
  | O => 0
  | S n' => if (i =? 0)%uint63 then 0
            else let r := n_of_bits n' (i >> 1)%uint63 in
                 if ((i land 1) =? 0)%uint63 then N.double r else N.succ_double r
  end.
Definition N_of_int (i : int) : N := n_of_bits 63 i.
Definition field21 (v : int) (sh : int) : N := n_of_bits 21 ((v >> sh) land 2097151)%uint63.
Definition unpack1 (v : int) (tl : str) : str :=
  let a := field21 v 42 in let b := field21 v 21 in let c := field21 v 0 in
  let tl := c - 1 :: tl in
  let tl := if b =? 0 then tl else b - 1 :: tl in
  if a =? 0 then tl else a - 1 :: tl.
Definition unpack (l : list int) : str := fold_right unpack1 [] l.

(* ---- scanner cases --------------------------------------------------------------------------- *)
(* one observed token: its numbers packed into one integer -- kind + 2 in bits 0-20, placeholder
   ordinal in bits 21-30, line in bits 31-42, char in bits 43-58, error class (0 = none) in bits
   59-61, the quoted flag in bit 62 -- and the literal *)
Record otok := mkOT { o_num : int; o_lit : list int }.
Definition bits (v : int) (sh : int) (mask : int) : N := n_of_bits 21 ((v >> sh) land mask)%uint63.
Definition err_of_N (i : N) : option lexerr :=
  if i =? 1 then Some ENotTerminated else if i =? 2 then Some EInvalidVariable
  else if i =? 3 then Some EInvalidConstant else if i =? 4 then Some ENumber else None.
Definition tok_of_otok (o : otok) : token :=
  let v := o_num o in
  mkTok (Z.of_N (bits v 0 2097151) - 2)%Z (unpack (o_lit o)) (negb (bits v 62 1 =? 0)) (bits v 21 1023)
        (bits v 31 4095) (bits v 43 65535) (err_of_N (bits v 59 7)).

(* one source text in one mode: the tokens parser.Scanner.Scan returned up to and including EOF,
   and HolderNumber() at the end *)
Record scase := mkSC { sid : N; s_prepared : bool; s_ansi : bool; s_srcp : list int; s_obsp : list otok; s_holdersp : int }.
Definition s_src (x : scase) : str := unpack (s_srcp x).
Definition s_obs (x : scase) : list token := map tok_of_otok (s_obsp x).
Definition s_holders (x : scase) : N := N_of_int (s_holdersp x).

Definition s_model (c : cfg) (x : scase) := tokens c (mkModes (s_prepared x) (s_ansi x)) (s_src x).

Definition s_model_ok (c : cfg) (x : scase) : bool :=
  match s_model c x with
  | Some (ts, n) => list_eqb token_eqb ts (s_obs x) && (n =? s_holders x)
  | None => false
  end.
Definition s_model_kinds (c : cfg) (x : scase) : list (N * N) :=
  match s_model c x with
  | Some (ts, n) => if list_eqb token_eqb ts (s_obs x) && (n =? s_holders x) then [] else [(1, sid x)]
  | None => [(3, sid x); (1, sid x)]
  end.

(* the specification on the implementation's own answers (Model.Lex.stream_ok; the model's own
   streams satisfy it by theorem tokens_stream_ok) *)
Definition s_spec_ok (x : scase) : bool := stream_ok (s_src x) (s_obs x).

(* ---- escaping cases -------------------------------------------------------------------------- *)
Record ecase := mkEC {
  eid : N; e_sp : list int;
  e_esc_s : list int;     (* option.EscapeString(s) *)
  e_esc_i : list int;     (* option.EscapeIdentifier(s) *)
  e_quo_s : list int;     (* option.QuoteString(s) *)
  e_quo_i : list int;     (* option.QuoteIdentifier(s) *)
  e_un_s1 : list int;     (* option.UnescapeString(s, single quote) *)
  e_un_s2 : list int;     (* option.UnescapeString(s, double quote) *)
  e_un_i1 : list int;     (* option.UnescapeIdentifier(s, back quote) *)
  e_un_i2 : list int;     (* option.UnescapeIdentifier(s, double quote) *)
  e_rt_s : list int;      (* option.UnescapeString(option.EscapeString(s), single quote) *)
  e_rt_i : list int }.    (* option.UnescapeIdentifier(option.EscapeIdentifier(s), back quote) *)
Definition e_s (x : ecase) : str := unpack (e_sp x).
Definition peq (model : str) (obs : list int) : bool := str_eqb model (unpack obs).

Definition e_model_ok (x : ecase) : bool :=
  let s := e_s x in
  peq (escape_string s) (e_esc_s x) && peq (escape_identifier s) (e_esc_i x)
  && peq (quote_string s) (e_quo_s x) && peq (quote_identifier s) (e_quo_i x)
  && peq (unescape_string s 39) (e_un_s1 x) && peq (unescape_string s 34) (e_un_s2 x)
  && peq (unescape_identifier s 96) (e_un_i1 x) && peq (unescape_identifier s 34) (e_un_i2 x).
Definition e_spec_ok (x : ecase) : bool :=
  peq (e_s x) (e_rt_s x) && peq (e_s x) (e_rt_i x).

(* ---- Unicode classes and case folding as the Go runtime answers them ------------------------- *)
Record ccase := mkCC { cid : N; c_runei : int; c_space : bool; c_letter : bool; c_digit : bool }.
Definition c_rune (x : ccase) : N := N_of_int (c_runei x).
Definition c_model_ok (c : cfg) (x : ccase) : bool :=
  Bool.eqb (is_space (c_rune x)) (c_space x) && Bool.eqb (is_letter (c_letters c) (c_rune x)) (c_letter x)
  && Bool.eqb (is_digit (c_digits c) (c_rune x)) (c_digit x).
(* strings.EqualFold(word, text) and strings.ToUpper(text) == word for an ASCII word *)
Record fcase := mkFC { fid : N; f_wordp : list int; f_textp : list int; f_fold : bool; f_upper : bool }.
Definition f_word (x : fcase) := unpack (f_wordp x).
Definition f_text (x : fcase) := unpack (f_textp x).
Definition f_model_ok (x : fcase) : bool :=
  Bool.eqb (equal_fold (f_word x) (f_text x)) (f_fold x) && Bool.eqb (upper_is (f_word x) (f_text x)) (f_upper x).

(* result: (kind, id).  1 = token stream of the model differs from parser.Scanner; 2 = the observed
   stream breaks the specification (position outside the input, EOF not last, more tokens than
   code points); 3 = the model ran out of fuel (excluded by scan_total); 4 = option.Escape* /
   Unescape* / Quote* differ from Model.Escape; 5 = the observed escape/unescape round trip does not
   give the text back; 6 = Unicode class / case folding of the Go runtime differs from the model's
   (harness/model error, not a violation of the property) *)
Definition check_scan (c : cfg) (xs : list scase) : list (N * N) :=
  flat_map (fun x => s_model_kinds c x ++ (if s_spec_ok x then [] else [(2, sid x)])) xs.
Definition check_escape (xs : list ecase) : list (N * N) :=
  flat_map (fun x =>
    (if e_model_ok x then [] else [(4, eid x)]) ++
    (if e_spec_ok x then [] else [(5, eid x)])) xs.
Definition check_classes (c : cfg) (xs : list ccase) : list (N * N) :=
  flat_map (fun x => if c_model_ok c x then [] else [(6, cid x)]) xs.
Definition check_folds (xs : list fcase) : list (N * N) :=
  flat_map (fun x => if f_model_ok x then [] else [(6, fid x)]) xs.

Definition expected_scan (c : cfg) (x : scase) := (sid x, s_model c x).
Definition expected_escape (x : ecase) :=
  (eid x, [escape_string (e_s x); escape_identifier (e_s x); unescape_string (e_s x) 39; unescape_string (e_s x) 34;
           unescape_identifier (e_s x) 96; unescape_identifier (e_s x) 34]).
