(** * Coq side of the C19 harness

    The generated shard gen/C19/cases_C19_0.v contains
      - the fragment emitted by translator/c19 from the CURRENT source ([extracted_errors],
        [extracted_exit], [extracted_return_codes], [extracted_orphans], [extracted_problems]),
      - [tcases]: runs of programs that end in a known error class: the error number and Code() observed
        through the library, and the exit status of the real binary on the same program,
      - [statuses]: the distinct exit statuses seen in the exploration sweeps,
      - [nil_sites]: ids of the nil-error dereference sites the translator found,
    and evaluates [check_all].  Result: list of (kind, case id); [] = all obligations hold.

    kinds: 1 extracted constructor row is not a row of the pinned model table (new error type / changed code)
           2 a row of the model table has no extracted counterpart (constructor removed / renamed)
           3 cli.Exit shape, ReturnCode constants, orphan types or extractor problems differ
           4 observed error number / Code() / exit status differs from [process_status] of the model
           5 nil-error dereference site
           6 exit status outside the documented set *)
From Coq Require Import ZArith NArith List Bool.
Import ListNotations.
From Csvq.Model Require Import ExitCode.
Local Open Scope Z_scope.

Fixpoint str_eqb (a b : str) : bool :=
  match a, b with
  | [], [] => true
  | x :: a', y :: b' => N.eqb x y && str_eqb a' b'
  | _, _ => false
  end.

Definition side_eqb (a b : Z + str) : bool :=
  match a, b with
  | inl x, inl y => x =? y
  | inr x, inr y => str_eqb x y
  | _, _ => false
  end.

Definition row_ctor (r : xrow) : str := match r with (c, _, _, _) => c end.

Definition xrow_eqb (a b : xrow) : bool :=
  match a, b with
  | (c1, t1, k1, n1), (c2, t2, k2, n2) => str_eqb c1 c2 && str_eqb t1 t2 && side_eqb k1 k2 && side_eqb n1 n2
  end.

Fixpoint enumerate {A} (i : N) (l : list A) : list (N * A) :=
  match l with [] => [] | x :: l' => (i, x) :: enumerate (N.succ i) l' end.

(** ids: extracted row i -> 100000+i, model row j -> 200000+j *)
Definition check_table (x : list xrow) : list (N * N) :=
  flat_map (fun ir => if existsb (xrow_eqb (snd ir)) model_table then [] else [(1%N, (100000 + fst ir)%N)]) (enumerate 0 x)
  ++ flat_map (fun jr => if existsb (fun r => str_eqb (row_ctor r) (row_ctor (snd jr))) x then [] else [(2%N, (200000 + fst jr)%N)])
       (enumerate 0 model_table).

(** the model row with the constructor name of extracted row i (for replays) *)
Definition expected_row (x : list xrow) (i : N) : option xrow :=
  match nth_error x (N.to_nat i) with
  | Some r => find (fun m => str_eqb (row_ctor m) (row_ctor r)) model_table
  | None => None
  end.

Definition xexit_eqb (a b : xexit) : bool :=
  (x_default_code a =? x_default_code b) && eqb (x_nil_no_exit a) (x_nil_no_exit b)
  && eqb (x_forced_zero_nil a) (x_forced_zero_nil b) && eqb (x_uses_error_code a) (x_uses_error_code b)
  && eqb (x_exits_with_code a) (x_exits_with_code b) && eqb (x_recover_fatal a) (x_recover_fatal b).

Definition same_set {A} (f : A -> A -> bool) (a b : list A) : bool :=
  Nat.eqb (length a) (length b) && forallb (fun x => existsb (f x) b) a && forallb (fun y => existsb (f y) a) b.

Definition check_shape (xe : xexit) (rc : list (str * Z)) (orph : list str) (problems : N) : list (N * N) :=
  (if xexit_eqb xe model_exit then [] else [(3%N, 300000%N)])
  ++ (if same_set (fun a b => str_eqb (fst a) (fst b) && (snd a =? snd b)) rc model_return_codes
      then [] else [(3%N, 300001%N)])
  ++ (if same_set str_eqb orph model_orphans then [] else [(3%N, 300002%N)])
  ++ (if N.eqb problems 0 then [] else [(3%N, 300003%N)]).

(** one run of a program whose error class is known from the library run *)
Record tcase : Type := mkT {
  tid : N;
  tnumber : Z;            (* err.(query.Error).Number(); 0 = no error; -1 = error that is not a query.Error *)
  tparam : option Z;      (* code written in EXIT n / TRIGGER ERROR n *)
  tlibcode : option Z;    (* err.(query.Error).Code() *)
  tstatus : Z             (* exit status of build/csvq on the same program; -1 = not run *)
}.

Definition expected_outcome (t : tcase) : option outcome :=
  if tnumber t =? 0 then Some Success
  else if tnumber t =? -1 then Some (Failed E_Foreign)
  else option_map Failed (class_of_number (tnumber t) (tparam t)).

Definition expected_trigger (t : tcase) : option (outcome * Z) :=
  option_map (fun o => (o, process_status o)) (expected_outcome t).

Definition check_trigger (t : tcase) : list (N * N) :=
  match expected_outcome t with
  | None => [(4%N, tid t)]
  | Some o =>
      let lib_ok := match o, tlibcode t with
                    | Failed e, Some c => exit_code e =? c
                    | Success, None => true
                    | Failed _, None => true   (* not run through the library / not a query.Error *)
                    | _, _ => false
                    end in
      let bin_ok := (tstatus t =? -1) || (process_status o =? tstatus t) in
      if lib_ok && bin_ok then [] else [(4%N, tid t)]
  end.

Definition check_status (p : N * Z) : list (N * N) :=
  if status_documented (snd p) then [] else [(6%N, fst p)].

Definition check_all (x : list xrow) (xe : xexit) (rc : list (str * Z)) (orph : list str) (problems : N)
           (ts : list tcase) (sts : list (N * Z)) (nil_sites : list N) : list (N * N) :=
  check_table x ++ check_shape xe rc orph problems ++ flat_map check_trigger ts
  ++ flat_map check_status sts ++ map (fun i => (5%N, i)) nil_sites.
