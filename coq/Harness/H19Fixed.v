(** * Coq side of the C19 fixed-length loader correspondence (shards gen/C19/cases_C19_k.v, k >= 1)

    A case = (delimiter positions, single-line, no-header, without-null, input code points) and what
    build/csvq printed for  SELECT * FROM FIXED('[…]', file, 'UTF8', no_header, without_null)
    (-f CSV --enclose-all: NULL = unquoted empty field) or [ObsErr] for a non-zero exit status.
    kinds: 7 model (Model/Fixed.v fixed_load) and implementation disagree
           8 the observed table is not rectangular (decidable spec on the implementation's own output) *)
Require Import Csvq.Model.Base Csvq.Model.Value Csvq.Model.Conv Csvq.Model.Fixed.
Open Scope Z_scope.

Inductive fobs : Type :=
| ObsErr
| ObsTable (h : list str) (rows : list (list (option str))).

Record fcase : Type := mkF {
  fid : N; fps : list Z; fsingle : bool; fnoheader : bool; fwn : bool; finp : str; fobserved : fobs
}.

Fixpoint list_eqb {A} (f : A -> A -> bool) (a b : list A) : bool :=
  match a, b with
  | [], [] => true
  | x :: a', y :: b' => f x y && list_eqb f a' b'
  | _, _ => false
  end.

Definition cell_eqb (a b : option str) : bool :=
  match a, b with
  | None, None => true
  | Some x, Some y => str_eqb x y
  | _, _ => false
  end.

Definition fobs_eqb (a b : fobs) : bool :=
  match a, b with
  | ObsErr, ObsErr => true
  | ObsTable h1 r1, ObsTable h2 r2 => list_eqb str_eqb h1 h2 && list_eqb (list_eqb cell_eqb) r1 r2
  | _, _ => false
  end.

(** [None]: the model does not terminate on this input (never generated: see the fragment rule) *)
Definition expected_fixed (c : fcase) : option fobs :=
  match fixed_load (fps c) (fsingle c) (fnoheader c) (fwn c) (finp c) with
  | FLErr _ => Some ObsErr
  | FLOutOfFuel => None
  | FLTable t => Some (ObsTable (t_header t) (t_rows t))
  end.

Definition check_fixed_case (c : fcase) : list (N * N) :=
  (match expected_fixed c with
   | Some e => if fobs_eqb e (fobserved c) then [] else [(7%N, fid c)]
   | None => [(7%N, fid c)]
   end)
  ++ match fobserved c with
     | ObsTable h rows => if forallb (fun r => Nat.eqb (length r) (length h)) rows then [] else [(8%N, fid c)]
     | ObsErr => []
     end.

Definition check_fixed (cs : list fcase) : list (N * N) := flat_map check_fixed_case cs.
