(* H20.v -- Coq side of the C20 correspondence: transaction A (SELECT / SELECT FOR UPDATE /
   data-changing statements / COMMIT / ROLLBACK) interleaved with whole-transaction commits of a
   second transaction B on the same directory; every read of A is compared. *)
Require Import Csvq.Model.Base Csvq.Model.Value Csvq.Model.Txn Csvq.Model.TxnSpec Csvq.Harness.HTxn.

Record c20case := mkC20 {
  c20_id : N;
  c20_keys : list key;
  c20_d0 : list (key * tab);
  c20_items : list item }.

(* kind 1: the cache model disagrees with a read, with the transaction's maps, with whether B was
   locked out, or with the files *)
Definition c20_model_bad (c : c20case) : list N :=
  snd (run_items (c20_keys c) [] (c20_items c) 0%N (init (disk_of (c20_d0 c)))).

Definition accesses (p : key) (it : item) : bool :=
  existsb (fun o => match o with
                    | SRead q | SReadFU q | SChange q _ _ | SCreate q _ => N.eqb q p
                    | SFail l => memb p l
                    | _ => false end) (item_ops it).

(* the value a table is known to have right after an item, and how it is held *)
Definition origin (p : key) (it : item) : option (tab * bool) :=
  match it with
  | IRead q (Some v) => if N.eqb q p then Some (v, false) else None
  | IReadFU q (Some v) => if N.eqb q p then Some (v, true) else None
  | IOp (SChange q _ t) => if N.eqb q p then Some (t, true) else None
  | _ => None
  end.

(* first item of the segment that accesses p, and the items after it *)
Fixpoint first_access (p : key) (seg : list item) : option (item * list item) :=
  match seg with
  | [] => None
  | it :: r => if accesses p it then Some (it, r) else first_access p r
  end.

Definition read_of (it : item) : option (key * tab) :=
  match it with
  | IRead p (Some r) | IReadFU p (Some r) => Some (p, r)
  | _ => None
  end.

(* kind 2 -- repeatable read on the observations, with TxnSpec.track (the function the theorem
   C20_repeatable_read is stated with): a read of p returns what `track` computes from the value
   observed at the first access to p since the last COMMIT / ROLLBACK and the steps in between.
   kind 3 -- the first read of p after a COMMIT / ROLLBACK (or at start) returns the current file,
   i.e. TxnSpec's pending-writes machine run over everything before it.
   seg = items since the last end (in order), pre = all earlier operations. *)
Fixpoint rr_obs (d0 : key -> option tab) (its : list item) (seg : list item) (pre : list op)
         (i : N) : list N * list N :=
  match its with
  | [] => ([], [])
  | it :: r =>
      let here :=
        match read_of it with
        | Some (p, v) =>
            match first_access p seg with
            | Some (o, mid) =>
                match origin p o with
                | Some (v0, fu) =>
                    (negb (tab_eqb (track p v0 fu v0 (ops_of mid ++ item_ops it)) v), false)
                | None => (false, false)
                end
            | None =>
                (false, negb (otab_eqb (sd (spec_steps pre (sp_init d0)) p) (Some v)))
            end
        | None => (false, false)
        end in
      let is_end_item := match it with IOp SCommit | IOp SRollback => true | _ => false end in
      let '(b2, b3) := rr_obs d0 r (if is_end_item then [] else seg ++ [it]) (pre ++ item_ops it) (i + 1)%N in
      ((if fst here then i :: b2 else b2), (if snd here then i :: b3 else b3))
  end.

Definition c20_frag_ok (c : c20case) : bool :=
  forallb op_ok (ops_of (c20_items c)) && ops_wfb (ops_of (c20_items c)) (init (disk_of (c20_d0 c))).

Definition check_c20 (cs : list c20case) : list (N * N) :=
  flat_map (fun c =>
    let '(b2, b3) := rr_obs (disk_of (c20_d0 c)) (c20_items c) [] [] 0%N in
    (match c20_model_bad c with [] => [] | _ => [(1%N, c20_id c)] end) ++
    (match b2 with [] => [] | _ => [(2%N, c20_id c)] end) ++
    (match b3 with [] => [] | _ => [(3%N, c20_id c)] end) ++
    (if c20_frag_ok c then [] else [(4%N, c20_id c)])) cs.

Definition expected_c20 (c : c20case) :=
  (c20_id c, c20_model_bad c, rr_obs (disk_of (c20_d0 c)) (c20_items c) [] [] 0%N,
   let s := fst (run_items (c20_keys c) [] (c20_items c) 0%N (init (disk_of (c20_d0 c)))) in
   map (fun k => (k, visible s k, disk s k)) (c20_keys c)).
