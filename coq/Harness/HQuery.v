(* HQuery.v -- correspondence checkers for SELECT queries (C03, C04, C07): the implementation's
   observed result against Model.Query.eval_query. *)
From Coq Require Import Floats.
Require Import Csvq.Model.Base Csvq.Model.Value Csvq.Model.Conv Csvq.Model.Compare Csvq.Model.Arith Csvq.Model.Expr
               Csvq.Model.Key Csvq.Model.SortVal Csvq.Model.Query.
Open Scope Z_scope.

Definition row_same (a b : row) : bool := list_eqb val_same a b.
Definition rows_same (a b : list row) : bool := list_eqb row_same a b.

Definition count_row (r : row) (l : list row) : nat := length (filter (row_same r) l).
Definition multiset_same (a b : list row) : bool :=
  Nat.eqb (length a) (length b) && forallb (fun r => Nat.eqb (count_row r a) (count_row r b)) a.
Definition sub_multiset (a b : list row) : bool :=
  forallb (fun r => Nat.leb (count_row r a) (count_row r b)) a.

(* comparison modes: 0 = exact sequence, 1 = multiset (join order is not fixed by the property),
   2 = ORDER BY with possible ties (sort.Sort is unstable): see order_check *)
Record qcase := mkQ { qid : N; qstrict : bool; qq : query; qobs : res (list row); qmode : N }.

Definition err_class_same (a b : err) : bool :=
  match a, b with EDivZero, EDivZero => true | EDivZero, _ | _, EDivZero => false | _, _ => true end.

(* mode 2: the ORDER BY keys are select-list positions, so the keys of an output row can be
   recomputed from the row itself.  The observed output must
   - contain no inversion: no later row sorts strictly before an earlier one,
   - be a sub-multiset of the un-cut result and have the model's length,
   - carry, position by position, sort keys equivalent to the model's (the sequence of key
     classes is determined even where the order inside a tie is not). *)
Definition out_keys (strict : bool) (ord : list okey) (r : row) : list sortval :=
  match sort_keys strict ord r r with Ok ks => ks | Err _ => [] end.

Fixpoint no_inversion (ds : list (dir * nullpos)) (l : list (list sortval)) : bool :=
  match l with
  | [] => true
  | k :: l' => forallb (fun k' => negb (svs_less k' k ds)) l' && no_inversion ds l'
  end.

(* two key tuples are tied when neither sorts before the other *)
Fixpoint keyseq_equiv (ds : list (dir * nullpos)) (a b : list (list sortval)) : bool :=
  match a, b with
  | [], [] => true
  | x :: a', y :: b' => negb (svs_less x y ds) && negb (svs_less y x ds) && Nat.eqb (length x) (length y) && keyseq_equiv ds a' b'
  | _, _ => false
  end.

Definition order_check (strict : bool) (q : query) (obs : list row) : bool :=
  match q with
  | Q b ord off lim =>
      match eval_query strict q, eval_body strict b with
      | Ok model, Ok body =>
          let ks := map (out_keys strict ord) obs in
          no_inversion (dirs_of ord) ks
          && Nat.eqb (length obs) (length model)
          && sub_multiset obs (map snd body)
          && keyseq_equiv (dirs_of ord) ks (map (out_keys strict ord) model)
      | _, _ => false
      end
  end.

Definition q_ok (c : qcase) : bool :=
  match eval_query (qstrict c) (qq c), qobs c with
  | Ok m, Ok o =>
      if (qmode c =? 0)%N then rows_same m o
      else if (qmode c =? 1)%N then multiset_same m o
      else order_check (qstrict c) (qq c) o
  | Err e, Err e' => err_class_same e e'
  | _, _ => false
  end.

(* every text value fed to the model carries consistent oracles *)
Fixpoint src_wf (s : source) : bool :=
  match s with
  | SrcTable _ rows => forallb (forallb val_wf) rows
  | SrcJoin _ l r _ => src_wf l && src_wf r
  | SrcSub q => query_wf q
  | SrcLateral _ l rw sub _ => src_wf l && query_wf (sub (nulls (src_width l)))
  | SrcRec _ w base step _ => query_wf base && query_wf (step [nulls w])
  end
with body_wf (b : body) : bool :=
  match b with
  | BSelect s _ _ _ _ _ => src_wf s
  | BSet _ _ l r => body_wf l && body_wf r
  | BSub q => query_wf q
  end
with query_wf (q : query) : bool := match q with Q b _ _ _ => body_wf b end.

(* kinds: 1 = result differs from the model; 4 = string oracle inconsistent *)
Definition check_queries (cs : list qcase) : list (N * N) :=
  flat_map (fun c =>
    (if query_wf (qq c) then [] else [(4%N, qid c)]) ++
    (if q_ok c then [] else [(1%N, qid c)])) cs.

Definition expected_query (c : qcase) := (qid c, eval_query (qstrict c) (qq c)).

(* ---- the members of every GROUP BY bucket (C04) -------------------------------------------------------------
   observed: for every output row of SELECT LISTAGG(rid, ',') .. GROUP BY keys the row positions listed;
   expected: the model's buckets (first-occurrence order, members in row order).  With more than one CPU the
   harness sorts what it observed the same way. *)
Record bcase := mkB { bid : N; bstrict : bool; brows : list row; bkeys : list expr; bobs : res (list (list nat)) }.

Definition b_ok (c : bcase) : bool :=
  match bucket_idx (bstrict c) (bkeys c) (brows c), bobs c with
  | Ok m, Ok o => list_eqb (list_eqb Nat.eqb) m o
  | Err e, Err e' => err_class_same e e'
  | _, _ => false
  end.

(* kind 5: the rows an aggregate was given are not the rows of the bucket *)
Definition check_members (cs : list bcase) : list (N * N) :=
  flat_map (fun c =>
    (if forallb (forallb val_wf) (brows c) then [] else [(4%N, bid c)]) ++
    (if b_ok c then [] else [(5%N, bid c)])) cs.

Definition expected_members (c : bcase) := (bid c, bucket_idx (bstrict c) (bkeys c) (brows c)).
