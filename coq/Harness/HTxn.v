(* HTxn.v -- shared Coq-side machinery of the C01 / C08 / C20 correspondence: an observed run is a
   list of items (abstract statement effects interleaved with observations made on the real
   implementation); the model (Csvq.Model.Txn) is stepped through the same items and every
   observation is compared. *)
Require Import Csvq.Model.Base Csvq.Model.Value Csvq.Model.Txn Csvq.Model.TxnSpec.

Inductive item :=
| IOp (o : op)
| IRead (p : key) (r : option tab)      (* a plain SELECT * of file table p returned r (None = error) *)
| IReadT (n : key) (r : option tab)     (* SELECT * of temporary table n *)
| IWhite (cached : list (key * bool))   (* Transaction.CachedViews: key, FileInfo.ForUpdate *)
         (cre upd tupd : list key)      (* UncommittedViews.Created / Updated (files) / Updated (temporary) *)
| IDisk (files : list (key * tab))      (* the table files of the directory, re-parsed by a fresh transaction *)
| IFiles (present : list key)           (* which table files exist in the directory right now *)
| IReadFU (p : key) (r : option tab)    (* SELECT * FROM p FOR UPDATE returned r *)
| IExt (p : key) (t : option tab).      (* a second transaction tried to change p and commit: Some t = it
                                           committed t, None = it was locked out (lock wait timeout) *)

Definition obool_eqb := option_eqb Bool.eqb.

Definition files_match (keys : list key) (d : key -> option tab) (files : list (key * tab)) : bool :=
  forallb (fun k => otab_eqb (d k) (lookup k files)) keys
  && forallb (fun kv => memb (fst kv) keys) files.

Definition white_match (keys tkeys : list key) (s : st) cached cre upd tupd : bool :=
  forallb (fun k => obool_eqb (option_map ce_fu (cache s k)) (lookup k cached)) keys
  && forallb (fun k => Bool.eqb (memb k (created s)) (memb k cre)) keys
  && forallb (fun k => Bool.eqb (memb k (updated s)) (memb k upd)) keys
  && forallb (fun k => Bool.eqb (memb k (tupdated s)) (memb k tupd)) tkeys.

(* step the model through one item; the boolean says whether the observation agrees *)
Definition step_item (keys tkeys : list key) (it : item) (s : st) : st * bool :=
  match it with
  | IOp o => (exec o s, true)
  | IRead p r => let s' := exec (SRead p) s in (s', otab_eqb (visible s' p) r)
  | IReadT n r => (s, otab_eqb (tvisible s n) r)
  | IWhite cached cre upd tupd => (s, white_match keys tkeys s cached cre upd tupd)
  | IDisk files => (s, files_match keys (disk s) files)
  | IFiles present => (s, forallb (fun k => Bool.eqb (is_some (disk s k)) (memb k present)) keys)
  | IReadFU p r => let s' := exec (SReadFU p) s in (s', otab_eqb (visible s' p) r)
  | IExt p None => (s, locked s p)
  | IExt p (Some t) => (exec (ExtCommit p t) s, negb (locked s p))
  end.

(* returns the final state and the positions (from 0) of the observations that disagree *)
Fixpoint run_items (keys tkeys : list key) (its : list item) (i : N) (s : st) : st * list N :=
  match its with
  | [] => (s, [])
  | it :: r =>
      let '(s', ok) := step_item keys tkeys it s in
      let '(sf, bad) := run_items keys tkeys r (i + 1)%N s' in
      (sf, if ok then bad else i :: bad)
  end.

Definition item_ops (it : item) : list op :=
  match it with
  | IOp o => [o]
  | IRead p _ => [SRead p]
  | IReadFU p _ => [SReadFU p]
  | IExt p (Some t) => [ExtCommit p t]
  | _ => []
  end.
Definition ops_of (its : list item) : list op := flat_map item_ops its.

Definition disk_of (d0 : list (key * tab)) : key -> option tab := fun k => lookup k d0.

(* the unmarked-statement fact (Txn.ops_wf) as a boolean, evaluated on the observed trace *)
Fixpoint ops_wfb (ops : list op) (s : st) : bool :=
  match ops with
  | [] => true
  | o :: r =>
      match o with
      | SChange p false t =>
          match visible (load_fu p s) p with Some t0 => tab_eqb t0 t | None => true end
      | SChangeTemp n false t =>
          match tvisible s n with Some t0 => tab_eqb t0 t | None => true end
      | _ => true
      end && ops_wfb r (exec o s)
  end.

(* tables of the generated fragment: NULL, integers and strings only *)
Definition cell_ok (v : val) : bool := match v with VNull | VInt _ | VStr _ => true | _ => false end.
Definition tab_ok (t : tab) : bool := forallb (forallb cell_ok) t.
Definition op_ok (o : op) : bool :=
  match o with
  | SChange _ _ t | SCreate _ t | SDeclareTemp _ t | SChangeTemp _ _ t | ExtCommit _ t => tab_ok t
  | _ => true
  end.

(* a text cell as the generated case files write it: only the raw text is carried (val_same
   compares raw texts; the transaction model never looks inside a cell) *)
Definition sv (r : str) : val := VStr (mkS r r r None None None None).
