(* Access.v -- memory accesses of goroutines, happens-before, data races (C13).
   Definitions only (no proofs).

   An execution is a list of threads; a thread is the list of its steps in program order.  A step
   is a memory access (read/write of an abstract location, with the set of mutexes held) or a
   synchronisation operation of the Go memory model that csvq's parallel code uses:
   the go statement, WaitGroup.Wait after the goroutine's Done, channel send/receive, close.
   happens-before is the transitive closure of program order and the synchronisation edges.
   Two accesses race when they are in different threads, touch the same location, at least one
   writes, they hold no mutex in common and neither happens before the other.  (Critical sections
   of one mutex are totally ordered by happens-before in every execution, whence the lockset
   condition.) *)
From Coq Require Import ZArith List Bool String Relations.
Require Import Csvq.Model.Par.
Import ListNotations.
Open Scope nat_scope.

(* ---- locations and accesses -------------------------------------------------------------------- *)
Inductive loc :=
| Idx (a : string) (i : nat)    (* element i of the slice/array reached by access path a *)
| Var (x : string).             (* a variable / field / whole map *)

Inductive mode := Rd | Wr.
Record acc := mkAcc { a_mode : mode; a_loc : loc; a_locks : list string }.

Definition loc_eqb (l1 l2 : loc) : bool :=
  match l1, l2 with
  | Idx a i, Idx b j => String.eqb a b && Nat.eqb i j
  | Var x, Var y => String.eqb x y
  | _, _ => false
  end.
Definition is_write (a : acc) : bool := match a_mode a with Wr => true | Rd => false end.
Definition share_lock (a b : acc) : bool :=
  existsb (fun m => existsb (String.eqb m) (a_locks b)) (a_locks a).
(* conflicting: same location, one writes, no common mutex *)
Definition conflictb (a b : acc) : bool :=
  loc_eqb (a_loc a) (a_loc b) && (is_write a || is_write b) && negb (share_lock a b).
Definition conflict (a b : acc) : Prop := conflictb a b = true.

(* ---- steps, executions, happens-before -------------------------------------------------------- *)
Inductive step :=
| SAcc (a : acc)
| SGo (t : nat)                 (* go statement starting thread t *)
| SWait (t : nat)               (* WaitGroup.Wait returning after thread t's Done (its last step) *)
| SSend (c : string) (k : nat)  (* the k-th send on channel c (k = 0, 1, ...) *)
| SRecv (c : string) (k : nat)  (* the receive that gets the k-th value sent on c *)
| SClose (c : string)
| SRecvClosed (c : string).     (* a receive that returns because c is closed *)

Definition exec := list (list step).
Definition ev := (nat * nat)%type.        (* thread number, position in the thread *)
Definition step_at (x : exec) (e : ev) : option step := nth_error (nth (fst e) x []) (snd e).

Section HB.
  Variable cap : string -> nat.   (* channel capacities *)
  Variable x : exec.

  Inductive edge : ev -> ev -> Prop :=
  | E_po : forall t i s, step_at x (t, S i) = Some s -> edge (t, i) (t, S i)
  | E_go : forall e t s, step_at x e = Some (SGo t) -> step_at x (t, 0) = Some s -> edge e (t, 0)
  | E_wait : forall e t i, step_at x e = Some (SWait t) -> List.length (nth t x []) = S i -> edge (t, i) e
  | E_chan : forall e1 e2 c k, step_at x e1 = Some (SSend c k) -> step_at x e2 = Some (SRecv c k) -> edge e1 e2
  | E_close : forall e1 e2 c, step_at x e1 = Some (SClose c) -> step_at x e2 = Some (SRecvClosed c) -> edge e1 e2
  (* the k-th receive on a channel of capacity C is synchronised before the completion of the
     (k+C)-th send *)
  | E_cap : forall e1 e2 c k, step_at x e1 = Some (SRecv c k) -> step_at x e2 = Some (SSend c (k + cap c)) -> edge e1 e2.

  Definition hb : ev -> ev -> Prop := clos_trans ev edge.

  Definition race : Prop :=
    exists e1 e2 a b, fst e1 <> fst e2 /\
      step_at x e1 = Some (SAcc a) /\ step_at x e2 = Some (SAcc b) /\
      conflict a b /\ ~ hb e1 e2 /\ ~ hb e2 e1.
  Definition race_free : Prop := ~ race.
End HB.

(* ---- fork/join sites --------------------------------------------------------------------------- *)
(* parent: pre; go w_1 .. go w_n; Wait; post      thread 0 = parent, thread i = worker i-1 *)
Definition fj_parent (pre post : list acc) (n : nat) : list step :=
  map SAcc pre ++ map SGo (seq 1 n) ++ map SWait (seq 1 n) ++ map SAcc post.
(* workers given by their steps (they may use channels among themselves, but start no goroutines
   and wait for none) *)
Definition fjs_exec (pre post : list acc) (workers : list (list step)) : exec :=
  fj_parent pre post (List.length workers) :: workers.
(* workers that only access memory *)
Definition fj_exec (pre post : list acc) (workers : list (list acc)) : exec :=
  fjs_exec pre post (map (map SAcc) workers).
Definition no_cap : string -> nat := fun _ => 0.

(* workers that split [0,len) by GoroutineTaskManager.RecordRange: worker i runs body k for each k
   of its range, then its epilogue *)
Definition range_workers (body : nat -> list acc) (epi : nat -> list acc) (len n : nat) : list (list acc) :=
  map (fun i => flat_map body (range len n i) ++ epi i) (seq 0 n).

(* accesses of different records never conflict *)
Definition record_local (body : nat -> list acc) : Prop :=
  forall k1 k2 a1 a2, k1 <> k2 -> In a1 (body k1) -> In a2 (body k2) -> ~ conflict a1 a2.
Definition epilogue_local (body epi : nat -> list acc) : Prop :=
  (forall i j a b, i <> j -> In a (epi i) -> In b (epi j) -> ~ conflict a b) /\
  (forall i k a b, In a (epi i) -> In b (body k) -> ~ conflict a b).

(* the two simple disciplines of DESIGN.md: write only one's own index, read only what nobody writes *)
Definition writes_own_index (body : nat -> list acc) : Prop :=
  forall k a, In a (body k) -> a_mode a = Wr -> exists arr, a_loc a = Idx arr k.
Definition reads_unwritten (body : nat -> list acc) : Prop :=
  forall k k' a a', In a (body k) -> a_mode a = Rd -> In a' (body k') -> a_mode a' = Wr ->
    a_loc a = a_loc a' -> k = k'.

(* ---- the GoroutineTaskManager around a body --------------------------------------------------- *)
(* goroutine_manager.go: HasError reads m.err with no lock; SetError reads and writes it under
   grTaskMutex; Done updates grCount under grTaskMutex and the package-level Count under CountMutex *)
Definition tm_err : loc := Var "gm.err".
(* hl = the mutexes HasError holds while it reads the slot: none in the code as it stands
   (F-C13-1); ["gm.grTaskMutex"] once HasError takes the lock (hooks/fix_haserror_lock.patch) *)
Definition has_error_with (hl : list string) : acc := mkAcc Rd tm_err hl.
Definition hl_current : list string := [].
Definition hl_locked : list string := ["gm.grTaskMutex"%string].
Definition has_error : acc := has_error_with hl_current.
Definition set_error : list acc := [mkAcc Rd tm_err ["gm.grTaskMutex"%string]; mkAcc Wr tm_err ["gm.grTaskMutex"%string]].
Definition tm_done : list acc :=
  [mkAcc Rd (Var "gm.grCount") ["gm.grTaskMutex"%string]; mkAcc Wr (Var "gm.grCount") ["gm.grTaskMutex"%string];
   mkAcc Rd (Var "GoroutineManager.Count") ["gm.grTaskMutex"%string; "GoroutineManager.CountMutex"%string];
   mkAcc Wr (Var "GoroutineManager.Count") ["gm.grTaskMutex"%string; "GoroutineManager.CountMutex"%string]].
(* one iteration of the worker loop: if HasError break; body; on error SetError; fails k says
   whether record k raises an error.  (The break after an error only removes accesses.) *)
Definition tm_iter (hl : list string) (body : nat -> list acc) (fails : nat -> bool) (k : nat) : list acc :=
  has_error_with hl :: body k ++ (if fails k then set_error else []).
(* deferred: if !HasError { recover } ; Done *)
Definition tm_epi (hl : list string) (epi : nat -> list acc) (i : nat) : list acc := epi i ++ has_error_with hl :: tm_done.
Definition tm_workers (hl : list string) (body epi : nat -> list acc) (fails : nat -> bool) (len n : nat) : list (list acc) :=
  range_workers (tm_iter hl body fails) (tm_epi hl epi) len n.
(* after Wait the parent reads the error slot: if gm.HasError() { return gm.Err() } *)
Definition tm_post (hl : list string) : list acc := [has_error_with hl; has_error_with hl].
Definition tm_exec_with (hl : list string) (pre post : list acc) (body epi : nat -> list acc) (fails : nat -> bool) (len n : nat) : exec :=
  fj_exec pre (tm_post hl ++ post) (tm_workers hl body epi fails len n).
(* the code as it stands *)
Definition tm_exec := tm_exec_with hl_current.

(* ---- fact base extracted from the Go source (gen/C13/Sites.v) ----------------------------------- *)
(* how an access path of a goroutine body is indexed *)
Inductive shape :=
| ShIdx                 (* p[i]...   i = the record index the goroutine was handed (own index) *)
| ShWorker              (* p[thIdx]  thIdx = the goroutine's number *)
| ShLocked (m : string) (* inside m.Lock() ... m.Unlock() *)
| ShGuard0              (* inside  if <own index> == 0 { ... } *)
| ShDirect              (* plain variable, no index on the path *)
| ShOther (e : string). (* indexed by something else *)

Record fact := mkFact { f_path : string; f_mode : mode; f_shape : shape }.
(* kind: "go" = body of a go statement, "run" = closure handed to GoroutineTaskManager.Run,
   "evalseq" = closure handed to EvaluateSequentially, "method" = method of the task manager *)
Record site := mkSite { s_key : string; s_kind : string; s_facts : list fact; s_calls : list string }.

Definition mode_eqb (a b : mode) : bool := match a, b with Rd, Rd | Wr, Wr => true | _, _ => false end.
Definition shape_eqb (a b : shape) : bool :=
  match a, b with
  | ShIdx, ShIdx | ShWorker, ShWorker | ShGuard0, ShGuard0 | ShDirect, ShDirect => true
  | ShLocked m, ShLocked m' => String.eqb m m'
  | ShOther e, ShOther e' => String.eqb e e'
  | _, _ => false
  end.
Definition fact_eqb (a b : fact) : bool :=
  String.eqb (f_path a) (f_path b) && mode_eqb (f_mode a) (f_mode b) && shape_eqb (f_shape a) (f_shape b).
Fixpoint list_eqb {A} (eqb : A -> A -> bool) (a b : list A) : bool :=
  match a, b with
  | [], [] => true
  | x :: a', y :: b' => eqb x y && list_eqb eqb a' b'
  | _, _ => false
  end.
Definition site_eqb (a b : site) : bool :=
  String.eqb (s_key a) (s_key b) && String.eqb (s_kind a) (s_kind b)
  && list_eqb fact_eqb (s_facts a) (s_facts b) && list_eqb String.eqb (s_calls a) (s_calls b).

(* the syntactic discipline: every access path that is written somewhere in the goroutine body is,
   at every occurrence, indexed by the own record index, or at every occurrence by the goroutine
   number, or at every occurrence under one and the same mutex *)
Definition written_paths (s : site) : list string :=
  map f_path (filter (fun f => match f_mode f with Wr => true | Rd => false end) (s_facts s)).
Definition facts_of (s : site) (p : string) : list fact := filter (fun f => String.eqb (f_path f) p) (s_facts s).
(* reading the slice header of a path (p != nil, len(p)) while the goroutines write its elements
   p[i] is no conflict: such reads are set aside *)
Definition is_direct_read (f : fact) : bool :=
  match f_mode f, f_shape f with Rd, ShDirect => true | _, _ => false end.
Definition uniform (fs : list fact) : bool :=
  match filter (fun f => negb (is_direct_read f)) fs with
  | [] => true
  | f :: _ as fs' =>
      match f_shape f with
      | ShIdx | ShWorker => forallb (fun g => shape_eqb (f_shape g) (f_shape f)) fs'
      | ShLocked _ => forallb (fun g => shape_eqb (f_shape g) (f_shape f)) fs
      | _ => false
      end
  end.
(* the names the task-manager template uses for its own state may not be used by a body *)
Definition reserved (p : string) : bool :=
  existsb (String.eqb p) ["gm.err"; "gm.grCount"; "GoroutineManager.Count"]%string.
Definition site_ok (s : site) : bool :=
  forallb (fun f => negb (reserved (f_path f))) (s_facts s)
  && forallb (fun p => uniform (facts_of s p)) (written_paths s).

(* the accesses a disciplined site performs: one per fact *)
Definition fact_body (f : fact) (k : nat) : list acc :=
  match f_shape f with
  | ShIdx => [mkAcc (f_mode f) (Idx (f_path f) k) []]
  | ShLocked m => [mkAcc (f_mode f) (Var (f_path f)) [m]]
  | ShDirect => if is_direct_read f then [mkAcc Rd (Var (f_path f)) []] else []
  | _ => []
  end.
Definition fact_epi (f : fact) (i : nat) : list acc :=
  match f_shape f with
  | ShWorker => [mkAcc (f_mode f) (Idx (f_path f) i) []]
  | _ => []
  end.
(* read-only paths (never written in the body) are read by everybody *)
Definition fact_ro (s : site) (f : fact) : list acc :=
  if existsb (String.eqb (f_path f)) (written_paths s) then [] else [mkAcc Rd (Var (f_path f)) []].
Definition site_body (s : site) (k : nat) : list acc :=
  flat_map (fun f => fact_body f k) (filter (fun f => existsb (String.eqb (f_path f)) (written_paths s)) (s_facts s))
  ++ flat_map (fact_ro s) (s_facts s).
Definition site_epi (s : site) (i : nat) : list acc :=
  flat_map (fun f => fact_epi f i) (filter (fun f => existsb (String.eqb (f_path f)) (written_paths s)) (s_facts s)).
Definition site_exec_with (hl : list string) (s : site) (pre post : list acc) (fails : nat -> bool) (len n : nat) : exec :=
  tm_exec_with hl pre post (site_body s) (site_epi s) fails len n.
Definition site_exec := site_exec_with hl_current.
