(* Analytic.v -- lib/query/analytic_function.go: Analyze, WindowFrameSet, the analytic functions and
   aggregates with OVER.  Definitions only. *)
From Coq Require Import Floats.
Require Import Csvq.Model.Base Csvq.Model.Value Csvq.Model.Compare Csvq.Model.Arith Csvq.Model.Expr
               Csvq.Model.Key Csvq.Model.SortVal Csvq.Model.Query.
Open Scope Z_scope.

Inductive fpos := FUnbPreceding | FPreceding (n : Z) | FCurrent | FFollowing (n : Z) | FUnbFollowing.
(* ROWS low  |  ROWS BETWEEN low AND high *)
Definition frame_spec := option (fpos * option fpos).

Inductive afun :=
| ARowNumber | ARank | ADenseRank | ACumeDist | APercentRank
| ANtile (n : expr)
| AFirstValue (e : expr) (ignore_nulls : bool)
| ALastValue (e : expr) (ignore_nulls : bool)
| ANthValue (e : expr) (n : expr) (ignore_nulls : bool)
| ALag (e : expr) (offset : option expr) (default : option expr) (ignore_nulls : bool)
| ALead (e : expr) (offset : option expr) (default : option expr) (ignore_nulls : bool)
| AAgg (f : aggfn) (dist : bool) (e : expr)
| ACountStar.

Record aclause := mkAC { a_partition : list expr; a_order : list okey; a_frame : frame_spec }.

(* frameIndex *)
Definition frame_index (current len : Z) (p : fpos) : Z :=
  match p with
  | FCurrent => current
  | FUnbPreceding => 0
  | FPreceding n => current - n
  | FFollowing n => current + n
  | FUnbFollowing => len - 1
  end.

(* WindowFrameSet: (low, high) for the row at position [current] of a partition of length [len];
   without ORDER BY, or for UNBOUNDED PRECEDING .. UNBOUNDED FOLLOWING, the whole partition *)
Definition frame_of (has_order : bool) (fs : frame_spec) (current len : Z) : Z * Z :=
  if negb has_order then (0, len - 1) else
  match fs with
  | None => (0, current)
  | Some (low, None) => (frame_index current len low, current)
  | Some (FUnbPreceding, Some FUnbFollowing) => (0, len - 1)
  | Some (low, Some high) => (frame_index current len low, frame_index current len high)
  end.

(* the partition elements at positions low..high that exist, in order *)
Definition frame_slice {A} (l : list A) (low high : Z) : list A :=
  let lo := Z.max low 0 in
  let hi := Z.min high (Z.of_nat (length l) - 1) in
  if hi <? lo then [] else firstn (Z.to_nat (hi - lo + 1)) (skipn (Z.to_nat lo) l).

Fixpoint zseq (start : Z) (n : nat) : list Z :=
  match n with O => [] | S k => start :: zseq (start + 1) k end.

(* a partition member: its row and its sort values (None when the view was not sorted) *)
Definition pmember := (row * option (list sortval))%type.

Definition sv_equiv_opt (a : option (list sortval)) (cur : option (list sortval)) : bool :=
  (* sortValuesInEachRecord == nil, or not EquivalentTo(currentRank) [nil currentRank: false] *)
  match a, cur with
  | Some x, Some y => svs_equiv x y
  | _, _ => false
  end.

(* RANK / DENSE_RANK / the groups of CUME_DIST and PERCENT_RANK all walk the partition comparing with
   the first member of the current run *)
Fixpoint rank_loop (l : list pmember) (number rank : Z) (cur : option (list sortval)) : list Z :=
  match l with
  | [] => []
  | (_, sv) :: l' =>
      let number' := number + 1 in
      if sv_equiv_opt sv cur then rank :: rank_loop l' number' rank cur
      else number' :: rank_loop l' number' number' (match sv with Some _ => sv | None => cur end)
  end.
Fixpoint dense_loop (l : list pmember) (rank : Z) (cur : option (list sortval)) : list Z :=
  match l with
  | [] => []
  | (_, sv) :: l' =>
      if sv_equiv_opt sv cur then rank :: dense_loop l' rank cur
      else (rank + 1) :: dense_loop l' (rank + 1) (match sv with Some _ => sv | None => cur end)
  end.
(* sizes of the runs, in order *)
Fixpoint run_sizes (l : list pmember) (cur : option (list sortval)) (acc : list Z) : list Z :=
  match l with
  | [] => rev acc
  | (_, sv) :: l' =>
      if sv_equiv_opt sv cur then
        match acc with a :: acc' => run_sizes l' cur ((a + 1) :: acc') | [] => run_sizes l' cur [1] end
      else run_sizes l' (match sv with Some _ => sv | None => cur end) (1 :: acc)
  end.

Definition cume_dist (l : list pmember) : list float :=
  let total := z2f (Z.of_nat (length l)) in
  let fix go (sizes : list Z) (cum : float) : list float :=
    match sizes with
    | [] => []
    | s :: sizes' => let cum' := PrimFloat.add cum (z2f s) in
                     repeat (PrimFloat.div cum' total) (Z.to_nat s) ++ go sizes' cum'
    end in
  go (run_sizes l None []) 0%float.

Definition percent_rank (l : list pmember) : list float :=
  let denom := z2f (Z.of_nat (length l) - 1) in
  let fix go (sizes : list Z) (cum : float) : list float :=
    match sizes with
    | [] => []
    | s :: sizes' => let d := if PrimFloat.ltb 0 denom then PrimFloat.div cum denom else 1%float in
                     repeat d (Z.to_nat s) ++ go sizes' (PrimFloat.add cum (z2f s))
    end in
  go (run_sizes l None []) 0%float.

(* NTILE counter loop *)
Fixpoint ntile_loop (n : nat) (per_tile : Z) (md tile count : Z) : list Z :=
  match n with
  | O => []
  | S k =>
      let count := count + 1 in
      if per_tile + 1 <? count then (tile + 1) :: ntile_loop k per_tile md (tile + 1) 1
      else if per_tile + 1 =? count then
        (if 0 <? md then tile :: ntile_loop k per_tile (md - 1) tile count
         else (tile + 1) :: ntile_loop k per_tile md (tile + 1) 1)
      else tile :: ntile_loop k per_tile md tile count
  end.
Definition ntile (total : nat) (tiles : Z) : list Z :=
  let t := Z.of_nat total in
  let per := Z.quot t tiles in
  let md := Z.rem t tiles in
  if per <? 1 then ntile_loop total 1 0 1 0 else ntile_loop total per md 1 0.

(* ToInteger (conv.go): integers, floats truncated, numeric text *)
Definition f_trunc_to_Z (f : float) : option Z :=
  match Prim2SF f with
  | S754_zero _ => Some 0
  | S754_finite s m e =>
      let mag := if 0 <=? e then Z.pos m * 2 ^ e else Z.pos m / 2 ^ (- e) in
      let z := if s then - mag else mag in
      (* float64ToInt64: out-of-range floats are converted to the nearest integer *)
      Some (if in_int64 z then z else if z <? 0 then min_int64 else max_int64)
  | _ => None
  end.
Definition to_integer (v : val) : option Z :=
  match v with
  | VInt z => Some z
  | VFloat f => f_trunc_to_Z f
  | VStr s => match oint s with
              | Some z => Some z
              | None => match ofloat s with Some f => f_trunc_to_Z f | None => None end
              end
  | _ => None
  end.

(* setNthValue on one frame: walk the frame, count the values (skipping NULLs under IGNORE NULLS),
   stop at the n-th; NULL when the frame holds fewer *)
Fixpoint nth_in_frame (vals : list val) (ignore_nulls : bool) (n : Z) (count : Z) : val :=
  match vals with
  | [] => VNull
  | v :: vals' =>
      if ignore_nulls && is_null v then nth_in_frame vals' ignore_nulls n count
      else if count + 1 =? n then v else nth_in_frame vals' ignore_nulls n (count + 1)
  end.

(* setLag: the value [offset] positions back, walking further back over NULLs under IGNORE NULLS *)
Fixpoint walk_back (prev_rev : list val) (ignore_nulls : bool) (default : val) : val :=
  match prev_rev with
  | [] => default
  | v :: r => if ignore_nulls && is_null v then walk_back r ignore_nulls default else v
  end.
Definition lag_at (values : list val) (i : Z) (offset : Z) (ignore_nulls : bool) (default : val) : val :=
  let lag_idx := i - offset in
  if (0 <=? lag_idx) && (lag_idx <=? i) then
    walk_back (rev (firstn (Z.to_nat (lag_idx + 1)) values)) ignore_nulls default
  else default.

(* pair every member with its value; the function must have produced exactly one value per member *)
Fixpoint zip_exact {A B} (a : list A) (b : list B) : res (list (A * B)) :=
  match a, b with
  | [], [] => Ok []
  | x :: a', y :: b' => do r <- zip_exact a' b'; Ok ((x, y) :: r)
  | _, _ => Err (EOther 8)
  end.

Section Analyze.
  Variable strict : bool.

  Definition eval_opt_int (e : option expr) (dflt : Z) : res Z :=
    match e with
    | None => Ok dflt
    | Some ex => do v <- eval [] ex; match to_integer v with Some z => Ok z | None => Err (EOther 7) end
    end.

  (* the values of the function for one partition (members in sorted order) *)
  Definition analyze_partition (f : afun) (ac : aclause) (has_order : bool) (p : list pmember) : res (list val) :=
    let len := Z.of_nat (length p) in
    let rows := map fst p in
    let positions := zseq 0 (length p) in
    let frames_over (l : list val) : list (list val) :=
      map (fun c => let '(lo, hi) := frame_of has_order (a_frame ac) c len in frame_slice l lo hi) positions in
    match f with
    | ARowNumber => Ok (map (fun c => VInt (c + 1)) positions)
    | ARank => Ok (map VInt (rank_loop p 0 0 None))
    | ADenseRank => Ok (map VInt (dense_loop p 0 None))
    | ACumeDist => Ok (map VFloat (cume_dist p))
    | APercentRank => Ok (map VFloat (percent_rank p))
    | ANtile ne =>
        do v <- eval [] ne;
        match to_integer v with
        | Some n => if n <? 1 then Err (EOther 7) else Ok (map VInt (ntile (length p) n))
        | None => Err (EOther 7)
        end
    | AFirstValue e ign =>
        do vals <- mapM (fun r => eval r e) rows;
        Ok (map (fun fr => nth_in_frame fr ign 1 0) (frames_over vals))
    | ALastValue e ign =>
        (* the partition is reversed, then frames are computed on the reversed list *)
        do vals <- mapM (fun r => eval r e) (rev rows);
        Ok (rev (map (fun fr => nth_in_frame fr ign 1 0) (frames_over vals)))
    | ANthValue e ne ign =>
        do nv <- eval [] ne;
        match to_integer nv with
        | Some n => if n <? 1 then Err (EOther 7) else
            do vals <- mapM (fun r => eval r e) rows;
            Ok (map (fun fr => nth_in_frame fr ign n 0) (frames_over vals))
        | None => Err (EOther 7)
        end
    | ALag e off dflt ign =>
        do o <- eval_opt_int off 1;
        do d <- (match dflt with Some de => eval [] de | None => Ok VNull end);
        do vals <- mapM (fun r => eval r e) rows;
        Ok (map (fun c => lag_at vals c o ign d) positions)
    | ALead e off dflt ign =>
        do o <- eval_opt_int off 1;
        do d <- (match dflt with Some de => eval [] de | None => Ok VNull end);
        do vals <- mapM (fun r => eval r e) (rev rows);
        Ok (rev (map (fun c => lag_at vals c o ign d) positions))
    | AAgg g dist e =>
        do vals <- mapM (fun r => eval r e) rows;
        Ok (map (fun fr => apply_agg g (if dist then distinguish strict fr else fr)) (frames_over vals))
    | ACountStar =>
        Ok (map (fun fr => VInt (Z.of_nat (length fr))) (frames_over (map (fun _ => VInt 1) rows)))
    end.

  (* Analyze: sort the view by the clause's ORDER BY (no-op below two records), partition it by the
     serialized sort values of the PARTITION BY expressions (first-occurrence order), run the
     function per partition; the result is the sorted view with one more column *)
  Definition analyze (f : afun) (ac : aclause) (rows : list row) : res (list row) :=
    do sorted <- (match a_order ac with
                  | [] => Ok (map (fun r => (r, None)) rows)
                  | ord => if Nat.ltb (length rows) 2 then Ok (map (fun r => (r, None)) rows) else
                           do keyed <- mapM (fun r => do ks <- sort_keys strict ord r r; Ok (ks, r)) rows;
                           Ok (map (fun kr => (snd kr, Some (fst kr))) (isort (dirs_of ord) keyed))
                  end);
    do pkeys <- mapM (fun m => do vs <- mapM (eval (fst m)) (a_partition ac); Ok (row_key strict vs)) sorted;
    let has_order := match a_order ac with [] => false | _ => true end in
    do parts <- mapM (fun idxs =>
                  let members := pick sorted idxs in
                  do vals <- analyze_partition f ac has_order members;
                  zip_exact (map fst members) vals) (group_keys pkeys);
    Ok (map (fun rv => fst rv ++ [snd rv]) (concat parts)).
End Analyze.
