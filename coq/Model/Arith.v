(* Arith.v -- lib/query/arithmetic.go: Calculate.  Definitions only. *)
From Coq Require Import Floats.
Require Import Csvq.Model.Base Csvq.Model.Value.
Open Scope Z_scope.

Inductive aop := APlus | AMinus | AMul | ADiv | AMod.

(* Go int64 arithmetic: wraps; / truncates toward zero, % takes the sign of the dividend *)
Definition calc_int (a b : Z) (op : aop) : res val :=
  match op with
  | APlus => Ok (VInt (wrap64 (a + b)))
  | AMinus => Ok (VInt (wrap64 (a - b)))
  | AMul => Ok (VInt (wrap64 (a * b)))
  | ADiv => if b =? 0 then Err EDivZero else Ok (VInt (wrap64 (Z.quot a b)))
  | AMod => if b =? 0 then Err EDivZero else Ok (VInt (wrap64 (Z.rem a b)))
  end.

(* ---- math.Mod on binary64, by exact integer arithmetic --------------------------------- *)
(* value of a finite float = (-1)^s * m * 2^e *)
Fixpoint strip2 (fuel : nat) (m e : Z) : Z * Z :=
  match fuel with
  | O => (m, e)
  | S k => if (m =? 0) then (m, e) else if Z.even m then strip2 k (m / 2) (e + 1) else (m, e)
  end.

Definition f_of_mant (s : bool) (m e : Z) : float :=
  (* m * 2^e is exactly representable: strip trailing zero bits so that m < 2^53 *)
  let '(m', e') := strip2 2200 m e in
  let f := Z.ldexp (PrimFloat.of_uint63 (Uint63.of_Z m')) e' in
  if s then PrimFloat.opp f else f.

Definition f_mod (x y : float) : float :=
  match Prim2SF x, Prim2SF y with
  | S754_nan, _ | _, S754_nan => nan
  | S754_infinity _, _ => nan
  | _, S754_zero _ => nan
  | _, S754_infinity _ => x
  | S754_zero _, _ => x
  | S754_finite sx mx ex, S754_finite _ my ey =>
      let e := Z.min ex ey in
      let a := Z.pos mx * 2 ^ (ex - e) in
      let b := Z.pos my * 2 ^ (ey - e) in
      let r := a mod b in
      if r =? 0 then (if sx then (-0)%float else 0%float) else f_of_mant sx r e
  end.

(* math.Remainder (IEEE 754 remainder: x - n*y with n = round-half-even(x/y)) *)
Definition f_remainder (x y : float) : float :=
  match Prim2SF x, Prim2SF y with
  | S754_nan, _ | _, S754_nan => nan
  | S754_infinity _, _ => nan
  | _, S754_zero _ => nan
  | _, S754_infinity _ => x
  | S754_zero _, _ => x
  | S754_finite sx mx ex, S754_finite _ my ey =>
      let e := Z.min ex ey in
      let a := Z.pos mx * 2 ^ (ex - e) in
      let b := Z.pos my * 2 ^ (ey - e) in
      let q := a / b in
      let r := a mod b in
      (* choose n = q or q+1: nearest, ties to even *)
      let up := if (2 * r >? b) then true else if (2 * r =? b) then Z.odd q else false in
      let r' := if up then r - b else r in       (* signed remainder for |x| *)
      if r' =? 0 then (if sx then (-0)%float else 0%float)
      else if r' <? 0 then f_of_mant (negb sx) (- r') e else f_of_mant sx r' e
  end.

Definition calc_float (a b : float) (op : aop) : val :=
  VFloat (match op with
          | APlus => PrimFloat.add a b
          | AMinus => PrimFloat.sub a b
          | AMul => PrimFloat.mul a b
          | ADiv => PrimFloat.div a b
          | AMod => f_mod a b
          end).

Definition calculate (p1 p2 : val) (op : aop) : res val :=
  match to_int_strict p1, to_int_strict p2 with
  | Some a, Some b => calc_int a b op
  | _, _ =>
    match to_float p1, to_float p2 with
    | Some a, Some b => Ok (calc_float a b op)
    | _, _ => Ok VNull
    end
  end.

(* evalUnaryArithmetic: '-' multiplies by -1 (wrapping), '+' converts only *)
Definition unary_arith (neg : bool) (p : val) : val :=
  match to_int_strict p with
  | Some z => VInt (if neg then wrap64 (z * -1) else z)
  | None =>
    match to_float p with
    | Some f => VFloat (if neg then PrimFloat.mul f (-1)%float else f)
    | None => VNull
    end
  end.
