(* Base.v -- shared vocabulary of the csvq model: strings as code-point lists, int64 wrap-around,
   Kleene ternaries, a result monad.  Definitions only (no proofs). *)
From Coq Require Export ZArith NArith List Bool.
Export ListNotations.
Open Scope Z_scope.

(* a string is the list of its Unicode code points ([]rune(s) in Go) *)
Notation str := (list N).

Fixpoint str_eqb (a b : str) : bool :=
  match a, b with
  | [], [] => true
  | x :: a', y :: b' => N.eqb x y && str_eqb a' b'
  | _, _ => false
  end.

(* Go's string comparison is bytewise on UTF-8, which orders like code points *)
Fixpoint str_cmp (a b : str) : comparison :=
  match a, b with
  | [], [] => Eq | [], _ => Lt | _, [] => Gt
  | x :: a', y :: b' => match N.compare x y with Eq => str_cmp a' b' | c => c end
  end.

(* ---- int64 ---------------------------------------------------------------------------- *)
Definition two63 : Z := 9223372036854775808.
Definition two64 : Z := 18446744073709551616.
Definition min_int64 : Z := - two63.
Definition max_int64 : Z := two63 - 1.
Definition in_int64 (z : Z) : bool := (min_int64 <=? z) && (z <=? max_int64).
(* two's complement wrap-around of Go's int64 arithmetic *)
Definition wrap64 (z : Z) : Z := ((z + two63) mod two64) - two63.

(* ---- Kleene three-valued logic (github.com/mithrandie/ternary) ------------------------- *)
Inductive tern := TT | TF | TU.
Definition tnot t := match t with TT => TF | TF => TT | TU => TU end.
Definition tand a b := match a, b with TF, _ | _, TF => TF | TT, TT => TT | _, _ => TU end.
Definition tor a b := match a, b with TT, _ | _, TT => TT | TF, TF => TF | _, _ => TU end.
Definition of_bool (b : bool) := if b then TT else TF.
Definition tern_eqb a b := match a, b with TT, TT | TF, TF | TU, TU => true | _, _ => false end.
(* ternary.Equal: "the same value, not logical equality" *)
Definition tequal a b := of_bool (tern_eqb a b).
(* ternary.Any / ternary.All over a slice: fold of Or from FALSE / And from TRUE *)
Definition tany (l : list tern) := fold_left tor l TF.
Definition tall (l : list tern) := fold_left tand l TT.

(* ---- results -------------------------------------------------------------------------- *)
Inductive err :=
| EDivZero            (* integer devided by zero *)
| ERowLen             (* row value length does not match *)
| EField              (* field does not exist / ambiguous *)
| EOther (code : N).

Inductive res (A : Type) := Ok (a : A) | Err (e : err).
Arguments Ok {A} a.
Arguments Err {A} e.
Definition bind {A B} (r : res A) (f : A -> res B) : res B :=
  match r with Ok a => f a | Err e => Err e end.
Notation "'do' x <- r ; k" := (bind r (fun x => k)) (at level 200, x name, r at level 100, k at level 200).

Definition err_eqb (a b : err) : bool :=
  match a, b with
  | EDivZero, EDivZero | ERowLen, ERowLen | EField, EField => true
  | EOther x, EOther y => N.eqb x y
  | _, _ => false
  end.

Fixpoint list_eqb {A} (eqb : A -> A -> bool) (a b : list A) : bool :=
  match a, b with
  | [], [] => true
  | x :: a', y :: b' => eqb x y && list_eqb eqb a' b'
  | _, _ => false
  end.

Definition option_eqb {A} (eqb : A -> A -> bool) (a b : option A) : bool :=
  match a, b with
  | None, None => true
  | Some x, Some y => eqb x y
  | _, _ => false
  end.
