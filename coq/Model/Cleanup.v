(* Cleanup.v -- the life cycle of file handlers in one csvq process (lib/file/handler.go,
   container.go, control_file.go; lib/query/load_view.go cacheViewFromFile; query.go CreateTable;
   transaction.go Commit / Rollback / ReleaseResources; lib/cli/app.go commandAction).
   Definitions only.

   A run is a list of [action]s -- what the statements of the program do to table files -- each
   with an optional environment-induced failure point (cancellation after a signal, wait timeout,
   I/O or parse error); failures that the directory itself determines (missing table, table that
   already exists, a competing holder's lock / read lock / temp file) are computed.  After the
   first failing action, an evaluation error or EXIT the run ends; otherwise the final auto-COMMIT
   runs.  In every case the deferred AutoRollback + ReleaseResourcesWithErrors of commandAction
   follow.  The model records the mutating system calls in order ([p_tr]) so that the harness can
   compare them with strace, and keeps the directory ([p_fs]). *)
Require Import Csvq.Model.Base Csvq.Model.Fs Csvq.Model.Commit.

(* what COMMIT writes into a table: the encoded records and the line break after them (the file's own
   line break for a loaded table, the session's --line-break for a created one, nothing when stripped) *)
Definition payload := (content * content)%type.

(* file.Handler: which resources it holds.  ForRead handlers never outlive the load. *)
Record handler := mkH {
  h_tbl : N;
  h_create : bool;     (* openType = ForCreate (otherwise ForUpdate / ForRead) *)
  h_fp : bool;         (* fp != nil *)
  h_lock : bool;       (* lockFile != nil *)
  h_temp : bool;       (* tempFile != nil *)
  h_rlock : bool;      (* rlockFile != nil *)
  h_dirty : bool;      (* the view is in UncommittedViews.Updated *)
  h_body : payload     (* what COMMIT will write for the cached view: encoded records, final line break *)
}.

(* Handler.close / closeWithErrors: close fp; remove a ForCreate file if it exists; temp, lock,
   rlock: close + remove *)
Definition close_ops (s : fs) (h : handler) : list op :=
  let t := h_tbl h in
  (if h_fp h then [OClose (data t)] else [])
  ++ (if h_create h && exists_b s (data t) then [ORemove (data t)] else [])
  ++ (if h_temp h then [OClose (tempp t); ORemove (tempp t)] else [])
  ++ (if h_lock h then [OClose (lockp t); ORemove (lockp t)] else [])
  ++ (if h_rlock h then [OClose (rlockp t); ORemove (rlockp t)] else []).

(* the files a handler is responsible for *)
Definition refs (h : handler) : list path :=
  let t := h_tbl h in
  (if h_create h then [data t] else []) ++ (if h_temp h then [tempp t] else [])
  ++ (if h_lock h then [lockp t] else []) ++ (if h_rlock h then [rlockp t] else []).

Record cfg := mkCfg { c_rename_over : bool }.

Record pst := mkP {
  p_fs : fs;
  p_tr : list op;                 (* system calls so far *)
  p_cont : list handler;          (* FileContainer (= cached views that hold a handler) *)
  p_ro : list N;                  (* cached views loaded for reading (no handler) *)
  p_done : list (N * content)     (* tables written by a completed COMMIT, with their contents *)
}.

Definition init (s0 : fs) : pst := mkP s0 [] [] [] [].
Definition emit (s : pst) (ops : list op) : pst :=
  mkP (run (p_fs s) ops) (p_tr s ++ ops) (p_cont s) (p_ro s) (p_done s).
Definition with_cont (s : pst) (c : list handler) : pst := mkP (p_fs s) (p_tr s) c (p_ro s) (p_done s).
Definition with_ro (s : pst) (r : list N) : pst := mkP (p_fs s) (p_tr s) (p_cont s) r (p_done s).

Definition in_cont (s : pst) (t : N) : bool := existsb (fun h => N.eqb (h_tbl h) t) (p_cont s).

Inductive action :=
| ARead (t : N) (f : option nat)
    (* load t for reading.  f: 0 cancelled / timed out before the read lock; 1 opening the file
       fails; 2 loading fails (parse error, cancellation) *)
| AUpdate (t : N) (nb : option payload) (f : option nat)
    (* load t for update unless already held; nb = Some b: the statement changes t, which now
       encodes as b.  f: 0 before the lock; 1 opening fails; 2 before the temp file; 3 loading fails *)
| ACreate (t : N) (b : payload) (f : option nat)
    (* CREATE TABLE t.  f: 0 lock file cannot be made; 1 creating the file fails; 2 the AS SELECT
       query fails after the file was made *)
| ARetryRead (t : N) (n : nat)
    (* n failed attempts of TryCreateRLockFile in the retry loop of CreateControlFileContext: the
       transient .lock file is made, creating the .rlock file fails (name too long, disk full ...),
       the deferred Close removes the .lock file again; the loop goes on (the following ARead says
       how it ends) *)
| ACommit (ordc ordu ordi : list N) (f : option nat)
    (* COMMIT; the three lists give the (Go map) order in which created / updated / idle tables are
       visited.  f = Some k: the writing phase fails after k of its calls (a failing Truncate or
       Write, or cancellation noticed inside EncodeView) *)
| ARollback (ord : list N)
| AError     (* the statement fails while evaluating *)
| AExit.     (* EXIT *)

Definition fails (f : option nat) (n : nat) : bool := match f with Some m => Nat.eqb m n | None => false end.

(* ---- acquisitions ----------------------------------------------------------------------------- *)
Definition read_acquire (t : N) : list op := [OCreate (lockp t); OCreate (rlockp t); OClose (lockp t); ORemove (lockp t)].
Definition rd_handler (t : N) (fp : bool) : handler := mkH t false fp false false true false ([], []).
Definition up_handler (t : N) (fp temp : bool) : handler := mkH t false fp true temp false false ([], []).
Definition cr_handler (t : N) (fp : bool) (b : payload) : handler := mkH t true fp true false false false b.

Definition exec_read (s : pst) (t : N) (f : option nat) : pst * bool :=
  if mem t (p_ro s) || in_cont s t then (s, true)
  else if negb (exists_b (p_fs s) (data t)) then (s, false)
  else if fails f 0 || exists_b (p_fs s) (lockp t) then (s, false)      (* TryCreateRLockFile: LockExists *)
  else
    let s1 := emit s (read_acquire t) in
    if fails f 1 then (emit s1 (close_ops (p_fs s1) (rd_handler t false)), false)
    else
      let s2 := emit s1 (close_ops (p_fs s1) (rd_handler t true)) in   (* deferred Close(h) *)
      if fails f 2 then (s2, false) else (with_ro s2 (t :: p_ro s2), true).

Definition rlock_retry (t : N) : list op := [OCreate (lockp t); OClose (lockp t); ORemove (lockp t)].
Fixpoint repeat_ops (n : nat) (l : list op) : list op :=
  match n with O => [] | S k => l ++ repeat_ops k l end.
Definition exec_retry_read (s : pst) (t : N) (n : nat) : pst * bool :=
  if exists_b (p_fs s) (lockp t) then (s, true)        (* LockExists: the attempt stops before making anything *)
  else (emit s (repeat_ops n (rlock_retry t)), true).

Definition mark (nb : option payload) (h : handler) : handler :=
  match nb with
  | None => h
  | Some b => mkH (h_tbl h) (h_create h) (h_fp h) (h_lock h) (h_temp h) (h_rlock h)
                  (if h_create h then h_dirty h else true) b
  end.
Definition mark_tbl (t : N) (nb : option payload) (c : list handler) : list handler :=
  map (fun h => if N.eqb (h_tbl h) t then mark nb h else h) c.

Definition exec_update (s : pst) (t : N) (nb : option payload) (f : option nat) : pst * bool :=
  if in_cont s t then (with_cont s (mark_tbl t nb (p_cont s)), true)
  else if negb (exists_b (p_fs s) (data t)) then (s, false)
  else if fails f 0 || exists_b (p_fs s) (lockp t) || rlock_exists (p_fs s) t then (s, false)
  else
    let s1 := emit s [OCreate (lockp t)] in
    if fails f 1 then (emit s1 (close_ops (p_fs s1) (up_handler t false false)), false)
    else if fails f 2 || exists_b (p_fs s1) (tempp t) then (emit s1 (close_ops (p_fs s1) (up_handler t true false)), false)
    else
      let s2 := emit s1 [OCreate (tempp t)] in
      if fails f 3 then (emit s2 (close_ops (p_fs s2) (up_handler t true true)), false)
      else (with_ro (with_cont s2 (mark nb (up_handler t true true) :: p_cont s2))
                    (filter (fun x => negb (N.eqb x t)) (p_ro s2)), true).

Definition exec_create (s : pst) (t : N) (b : payload) (f : option nat) : pst * bool :=
  if exists_b (p_fs s) (data t) then (s, false)
  else if fails f 0 || exists_b (p_fs s) (lockp t) || rlock_exists (p_fs s) t then (s, false)
  else
    let s1 := emit s [OCreate (lockp t)] in
    if fails f 1 then (emit s1 (close_ops (p_fs s1) (cr_handler t false b)), false)
    else
      let s2 := emit s1 [OCreate (data t)] in
      if fails f 2 then (emit s2 (close_ops (p_fs s2) (cr_handler t true b)), false)
      else (with_cont s2 (cr_handler t true b :: p_cont s2), true).

(* ---- COMMIT / ROLLBACK --------------------------------------------------------------------------- *)
Fixpoint dedupe (l : list N) : list N :=
  match l with [] => [] | x :: r => if mem x r then dedupe r else x :: dedupe r end.
(* the elements of l, those named in ord first and in that order *)
Definition sort_by (ord l : list N) : list N :=
  filter (fun t => mem t l) (dedupe ord) ++ filter (fun t => negb (mem t ord)) l.

Definition created_tbls (c : list handler) : list N := map h_tbl (filter h_create c).
Definition updated_tbls (c : list handler) : list N := map h_tbl (filter (fun h => negb (h_create h) && h_dirty h) c).
Definition idle_tbls (c : list handler) : list N := map h_tbl (filter (fun h => negb (h_create h) && negb (h_dirty h)) c).
Definition body_of (c : list handler) (t : N) : payload :=
  match find (fun h => N.eqb (h_tbl h) t) c with Some h => h_body h | None => ([], []) end.
Definition changes (c : list handler) (l : list N) : list tchange := map (fun t => mkT t (fst (body_of c t)) (snd (body_of c t))) l.

Definition exec_commit (g : cfg) (s : pst) (ordc ordu ordi : list N) (f : option nat) : pst * bool :=
  let c := p_cont s in
  let cr := changes c (sort_by ordc (created_tbls c)) in
  let up := changes c (sort_by ordu (updated_tbls c)) in
  let idle := sort_by ordi (idle_tbls c) in
  let blocks := map write_created cr ++ map write_updated up in
  let failed := match f with Some k => Nat.ltb k (length (concat blocks)) | None => false end in
  if failed then (emit s (firstn (match f with Some k => k | None => O end) (concat blocks)), false)
  else
    let s1 := emit s (commit_ops (c_rename_over g) cr up idle) in
    (mkP (p_fs s1) (p_tr s1) [] []
         (map (fun u => (tid u, new_content u)) (cr ++ up) ++ p_done s1), true).

(* close the handlers of the tables named in ord, in that order, then whatever is left
   (CachedViews.Clean in sync.Map order, then FileContainer.CloseAll in map order) *)
Definition remove_tbl (t : N) (c : list handler) : list handler := filter (fun h => negb (N.eqb (h_tbl h) t)) c.
(* FileContainer.CloseAll: c is the container's content *)
Fixpoint close_all (s : pst) (c : list handler) : pst :=
  match c with
  | [] => with_cont s []
  | h :: r => close_all (with_cont (emit s (close_ops (p_fs s) h)) r) r
  end.
Fixpoint close_in_order (s : pst) (ord : list N) : pst :=
  match ord with
  | [] => close_all s (p_cont s)
  | t :: r =>
      match find (fun h => N.eqb (h_tbl h) t) (p_cont s) with
      | Some h => close_in_order (with_cont (emit s (close_ops (p_fs s) h)) (remove_tbl t (p_cont s))) r
      | None => close_in_order s r
      end
  end.
Definition release (s : pst) (ord : list N) : pst := with_ro (close_in_order s ord) [].

Definition exec_action (g : cfg) (s : pst) (a : action) : pst * bool :=
  match a with
  | ARead t f => exec_read s t f
  | AUpdate t nb f => exec_update s t nb f
  | ACreate t b f => exec_create s t b f
  | ARetryRead t n => exec_retry_read s t n
  | ACommit oc ou oi f => exec_commit g s oc ou oi f
  | ARollback ord => (release s ord, true)
  | AError | AExit => (s, false)
  end.

Fixpoint run_actions (g : cfg) (s : pst) (l : list action) : pst * bool :=
  match l with
  | [] => (s, true)
  | a :: r => let (s', ok) := exec_action g s a in if ok then run_actions g s' r else (s', false)
  end.

(* lib/action/run.go + lib/cli/app.go commandAction: the program, the auto-COMMIT when the program
   ended normally (Processor.Execute), then the deferred AutoRollback and forced release *)
Definition run_process (g : cfg) (s0 : fs) (prog : list action) (fin : action) (ord : list N) : pst :=
  let (s1, ok) := run_actions g (init s0) prog in
  let s2 := if ok then fst (exec_action g s1 fin) else s1 in
  release s2 ord.

Definition is_commit (a : action) : bool := match a with ACommit _ _ _ _ => true | _ => false end.
Definition is_reading (a : action) : bool := match a with ARead _ _ | ARetryRead _ _ | AError | AExit => true | _ => false end.

(* the property, decidable, on a directory found after the process ended: every control file is
   one that was there before the run started (a competing holder's) *)
Definition no_leftovers (s0 s : fs) : bool :=
  forallb (fun e => is_data (fst e) || option_eqb content_eqb (lookup s0 (fst e)) (Some (snd e))) s
  && forallb (fun e => is_data (fst e) || exists_b s (fst e)) s0.
(* a call that can change a data file *)
Definition mutates_data (o : op) : bool := existsb is_data (op_paths o).
