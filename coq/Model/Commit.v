(* Commit.v -- Transaction.Commit (lib/query/transaction.go:137-219) and Handler.commit
   (lib/file/handler.go:196-245) as the list of file-system calls they issue, in the order the Go
   code issues them.  A crash during COMMIT = any prefix of that list.  Definitions only.

   Transaction.Commit, for the sets of created and updated table files (Go map order; the lists
   below carry that order):
     phase 1  for each created table : Truncate(0) on the table's own (locked, still empty) file,
              EncodeView into it, write the line break that ends the file ([ttail]: the session's
              --line-break for a created table, the file's own for an updated one; /repo ec68d2d)
     phase 2  for each updated table : the same into the temp file ._NAME.temp
     phase 3  for each created table (same order): FileContainer.Commit -> Handler.commit:
              close fp; (openType = ForCreate) no temp file; lockFile.Close = close + remove
     phase 4  for each updated table (same order): Handler.commit: close fp; close temp fp;
              if Exists(path) os.Remove(path); os.Rename(temp, path); lockFile.Close
     then     ReleaseResources: tables that were loaded for update but never changed are closed
              (Handler.close: close fp; temp close+remove; lock close+remove).

   [rename_over] selects the op list: false = the code as it is (remove, then rename), true = the
   repaired commit that renames over the file (no remove).  The harness detects from the strace
   trace which of the two the current tree implements. *)
Require Import Csvq.Model.Base Csvq.Model.Fs.

(* new contents of a table: the encoded records, and the line break COMMIT appends after them -- the
   file's own line break for an updated table, the session's --line-break for a created one, nothing
   with --strip-ending-line-break *)
Record tchange := mkT { tid : N; tbody : content; ttail : content }.

(* a write system call is only issued for a non-empty buffer *)
Definition wr (p : path) (d : content) : list op := match d with [] => [] | _ => [OWrite p d] end.
Definition encode_ops (p : path) (body lb : content) : list op := OTrunc p :: wr p body ++ wr p lb.

Definition write_created (c : tchange) := encode_ops (data (tid c)) (tbody c) (ttail c).
Definition write_updated (c : tchange) := encode_ops (tempp (tid c)) (tbody c) (ttail c).
Definition release_lock (t : N) : list op := [OClose (lockp t); ORemove (lockp t)].
Definition commit_created (c : tchange) : list op := OClose (data (tid c)) :: release_lock (tid c).
Definition swap_ops (rename_over : bool) (t : N) : list op :=
  (if rename_over then [] else [ORemove (data t)]) ++ [ORename (tempp t) (data t)].
Definition commit_updated (rename_over : bool) (c : tchange) : list op :=
  [OClose (data (tid c)); OClose (tempp (tid c))] ++ swap_ops rename_over (tid c) ++ release_lock (tid c).
(* Handler.close of a table held for update (never changed) *)
Definition release_idle (t : N) : list op :=
  [OClose (data t); OClose (tempp t); ORemove (tempp t)] ++ release_lock t.

Definition commit_ops (rename_over : bool) (cr up : list tchange) (idle : list N) : list op :=
  flat_map write_created cr ++ flat_map write_updated up
  ++ flat_map commit_created cr ++ flat_map (commit_updated rename_over) up
  ++ flat_map release_idle idle.

(* what the statements before COMMIT did to the directory (NewHandlerForUpdate / NewHandlerForCreate) *)
Definition acquire_update (t : N) : list op := [OCreate (lockp t); OCreate (tempp t)].
Definition acquire_create (t : N) : list op := [OCreate (lockp t); OCreate (data t)].

Definition new_content (c : tchange) : content := tbody c ++ ttail c.

(* ---- the state COMMIT starts from ---------------------------------------------------------
   every updated / idle table exists and is held (lock and temp file present), every created
   table exists (empty or not) and is held; no table occurs twice. *)
Definition held_update (s : fs) (t : N) : bool :=
  exists_b s (data t) && exists_b s (tempp t) && exists_b s (lockp t).
Definition held_create (s : fs) (t : N) : bool := exists_b s (data t) && exists_b s (lockp t).
Definition commit_ready (s : fs) (cr up : list tchange) (idle : list N) : bool :=
  nodup_b (map tid cr ++ map tid up ++ idle)
  && forallb (fun c => held_create s (tid c)) cr
  && forallb (fun c => held_update s (tid c)) up
  && forallb (held_update s) idle.

(* ---- the property as a decidable check -----------------------------------------------------
   [s0] = directory when COMMIT started, [s] = directory found after the crash.
   Every table file of [s0] that the transaction did not create itself must still be there with
   its complete previous or its complete new contents; tables the transaction does not write must
   be exactly as before. *)
Definition table_old_or_new (up : list tchange) (s0 s : fs) (t : N) : bool :=
  match lookup s0 (data t) with
  | None => true
  | Some old =>
      match lookup s (data t) with
      | None => false
      | Some c => content_eqb c old
                  || existsb (fun u => N.eqb (tid u) t && content_eqb c (new_content u)) up
      end
  end.
Definition old_or_new (cr up : list tchange) (s0 s : fs) : bool :=
  forallb (fun e => negb (is_data (fst e)) || mem (snd (fst e)) (map tid cr)
                    || table_old_or_new up s0 s (snd (fst e))) s0.

(* the weaker statement that does hold for remove-then-rename: a table may be missing, but then
   its complete new contents are in the temp file *)
Definition table_old_new_or_temp (up : list tchange) (s0 s : fs) (t : N) : bool :=
  table_old_or_new up s0 s t
  || match lookup s (data t), lookup s (tempp t) with
     | None, Some c => existsb (fun u => N.eqb (tid u) t && content_eqb c (new_content u)) up
     | _, _ => false
     end.
Definition old_new_or_temp (cr up : list tchange) (s0 s : fs) : bool :=
  forallb (fun e => negb (is_data (fst e)) || mem (snd (fst e)) (map tid cr)
                    || table_old_new_or_temp up s0 s (snd (fst e))) s0.

(* "delete the hidden control files, as the manual instructs" *)
Definition delete_control_files (s : fs) : fs := filter (fun e => is_data (fst e)) s.
