(* Compare.v -- lib/value/comparison.go: the coercion ladder and the comparison operators.
   Definitions only. *)
From Coq Require Import Floats.
Require Import Csvq.Model.Base Csvq.Model.Value.
Open Scope Z_scope.

Inductive cres := CEq | CBoolEq | CNotEq | CLess | CGreater | CIncomm.

Definition cres_eqb (a b : cres) : bool :=
  match a, b with
  | CEq, CEq | CBoolEq, CBoolEq | CNotEq, CNotEq | CLess, CLess | CGreater, CGreater | CIncomm, CIncomm => true
  | _, _ => false
  end.

Definition compare_int (a b : Z) : cres := if a =? b then CEq else if a <? b then CLess else CGreater.
Definition compare_float (a b : float) : cres :=
  if is_nan a || is_nan b then CNotEq
  else if PrimFloat.eqb a b then CEq else if PrimFloat.ltb a b then CLess else CGreater.

(* CompareCombinedly: integer, float, datetime, boolean, text -- in this order *)
Definition compare_combinedly (p1 p2 : val) : cres :=
  if is_null p1 || is_null p2 then CIncomm else
  match to_int_strict p1, to_int_strict p2 with
  | Some a, Some b => compare_int a b
  | _, _ =>
    match to_float p1, to_float p2 with
    | Some a, Some b => compare_float a b
    | _, _ =>
      match to_dt p1, to_dt p2 with
      | Some a, Some b => compare_int a b
      | _, _ =>
        match to_bool p1, to_bool p2 with
        | Some a, Some b => if Bool.eqb a b then CBoolEq else CNotEq
        | _, _ =>
          match p1, p2 with
          | VStr s1, VStr s2 =>
              match str_cmp (upper s1) (upper s2) with Eq => CEq | Lt => CLess | Gt => CGreater end
          | _, _ => CIncomm
          end
        end
      end
    end
  end.

Definition ordered_res r := match r with CEq | CLess | CGreater => true | _ => false end.

Definition op_eq a b := match compare_combinedly a b with CIncomm => TU | CEq | CBoolEq => TT | _ => TF end.
Definition op_ne a b := match compare_combinedly a b with CIncomm => TU | CEq | CBoolEq => TF | _ => TT end.
Definition op_lt a b := let r := compare_combinedly a b in
  if ordered_res r then of_bool (match r with CLess => true | _ => false end) else TU.
Definition op_gt a b := let r := compare_combinedly a b in
  if ordered_res r then of_bool (match r with CGreater => true | _ => false end) else TU.
Definition op_le a b := let r := compare_combinedly a b in
  if ordered_res r then of_bool (match r with CGreater => false | _ => true end) else TU.
Definition op_ge a b := let r := compare_combinedly a b in
  if ordered_res r then of_bool (match r with CLess => false | _ => true end) else TU.

(* Identical ("==") *)
Definition identical (p1 p2 : val) : tern :=
  match p1, p2 with
  | VNull, _ | _, VNull | VTern TU, _ | _, VTern TU => TU
  | VInt a, VInt b => of_bool (a =? b)
  | VFloat a, VFloat b => of_bool (PrimFloat.eqb a b)
  | VDt a, VDt b => of_bool (a =? b)
  | VBool a, VBool b => of_bool (Bool.eqb a b)
  | VTern a, VTern b => of_bool (tern_eqb a b)
  | VStr a, VStr b => of_bool (str_eqb (raw a) (raw b))
  | _, _ => TF
  end.

Inductive cop := OpEq | OpIdent | OpGt | OpLt | OpGe | OpLe | OpNe.

Definition compare_op (op : cop) (a b : val) : tern :=
  match op with
  | OpEq => op_eq a b | OpIdent => identical a b | OpGt => op_gt a b | OpLt => op_lt a b
  | OpGe => op_ge a b | OpLe => op_le a b | OpNe => op_ne a b
  end.

(* Equivalent: NULL = NULL *)
Definition equivalent (a b : val) : tern :=
  if is_null a && is_null b then TT else op_eq a b.

(* CompareRowValues (comparison.go:243-317), for two non-nil row values.
   [last] tells whether the column is the last one (the code looks at i < len-1). *)
Fixpoint cmp_rows_loop (op : cop) (unknown : bool) (r1 r2 : list val) : tern :=
  match r1, r2 with
  | a :: r1', b :: r2' =>
    match op with
    | OpIdent =>
        match identical a b with
        | TF => TF
        | TU => cmp_rows_loop op true r1' r2'
        | TT => cmp_rows_loop op unknown r1' r2'
        end
    | _ =>
      let r := compare_combinedly a b in
      let is_last := match r1' with [] => true | _ => false end in
      match r with
      | CIncomm =>
          match op with
          | OpEq | OpNe => if is_last then TU else cmp_rows_loop op true r1' r2'
          | _ => TU
          end
      | _ =>
        let stop_unknown := match op with
                            | OpGt | OpLt | OpGe | OpLe => match r with CNotEq | CBoolEq => true | _ => false end
                            | _ => false end in
        if stop_unknown then TU else
        match op with
        | OpEq => match r with CEq | CBoolEq => cmp_rows_loop op unknown r1' r2' | _ => TF end
        | OpGt | OpGe => match r with CGreater => TT | CLess => TF | _ => cmp_rows_loop op unknown r1' r2' end
        | OpLt | OpLe => match r with CLess => TT | CGreater => TF | _ => cmp_rows_loop op unknown r1' r2' end
        | OpNe => match r with CEq | CBoolEq => cmp_rows_loop op unknown r1' r2' | _ => TT end
        | OpIdent => TU
        end
      end
    end
  | _, _ =>
    if unknown then TU else
    match op with OpGt | OpLt | OpNe => TF | _ => TT end
  end.

Definition compare_rows (op : cop) (r1 r2 : list val) : res tern :=
  if Nat.eqb (length r1) (length r2) then Ok (cmp_rows_loop op false r1 r2) else Err ERowLen.

(* Is (query/comparison.go) *)
Definition is_op (p1 p2 : val) : tern :=
  if is_null p2 then of_bool (is_null p1) else tequal (ternary_of p1) (ternary_of p2).
