(* Conv.v -- the string parsers that are modelled rather than taken from an oracle:
   strconv.ParseInt(s,10,64), strconv.ParseBool, option.TrimSpace.  Definitions only. *)
Require Import Csvq.Model.Base Csvq.Model.Value.
Open Scope Z_scope.

Definition is_digit (c : N) : bool := (48 <=? c)%N && (c <=? 57)%N.

Fixpoint digits_val (l : str) (acc : Z) : option Z :=
  match l with
  | [] => Some acc
  | c :: l' => if is_digit c then digits_val l' (acc * 10 + Z.of_N (c - 48)) else None
  end.

(* ParseInt base 10, 64 bits: optional sign, at least one digit, no underscores, range checked *)
Definition parse_int64 (s : str) : option Z :=
  let '(neg, ds) := match s with
                    | 43%N :: r => (false, r)
                    | 45%N :: r => (true, r)
                    | _ => (false, s)
                    end in
  match ds with
  | [] => None
  | _ => match digits_val ds 0 with
         | Some n => let z := if neg then - n else n in
                     if in_int64 z then Some z else None
         | None => None
         end
  end.

Definition str_of_ascii (l : list Z) : str := map Z.to_N l.

(* ParseBool: 1 t T TRUE true True / 0 f F FALSE false False *)
Definition parse_bool (s : str) : option bool :=
  if str_eqb s [49]%N || str_eqb s [116]%N || str_eqb s [84]%N || str_eqb s [84;82;85;69]%N
     || str_eqb s [116;114;117;101]%N || str_eqb s [84;114;117;101]%N then Some true
  else if str_eqb s [48]%N || str_eqb s [102]%N || str_eqb s [70]%N || str_eqb s [70;65;76;83;69]%N
     || str_eqb s [102;97;108;115;101]%N || str_eqb s [70;97;108;115;101]%N then Some false
  else None.

(* unicode.IsSpace *)
Definition is_space (c : N) : bool :=
  ((9 <=? c) && (c <=? 13) || (c =? 32) || (c =? 133) || (c =? 160) || (c =? 5760)
   || (8192 <=? c) && (c <=? 8202) || (c =? 8232) || (c =? 8233) || (c =? 8239) || (c =? 8287)
   || (c =? 12288))%N.
(* unicode.IsSpace(rune(b)) for a byte b: the Latin-1 spaces *)
Definition is_space_byte (b : N) : bool :=
  ((9 <=? b) && (b <=? 13) || (b =? 32) || (b =? 133) || (b =? 160))%N.

(* first and last byte of the UTF-8 encoding of a code point *)
Definition first_byte (c : N) : N :=
  (if c <? 128 then c else if c <? 2048 then 192 + c / 64 else if c <? 65536 then 224 + c / 4096
   else 240 + c / 262144)%N.
Definition last_byte (c : N) : N := (if c <? 128 then c else 128 + c mod 64)%N.

Fixpoint drop_spaces (s : str) : str :=
  match s with c :: s' => if is_space c then drop_spaces s' else s | [] => [] end.
Definition strings_trim_space (s : str) : str := rev (drop_spaces (rev (drop_spaces s))).

(* option.TrimSpace: strings.TrimSpace, but only when the first or the last *byte* is a space *)
Definition trim_space (s : str) : str :=
  match s with
  | [] => []
  | c :: _ => if is_space_byte (first_byte c) || is_space_byte (last_byte (last s 0%N))
              then strings_trim_space s else s
  end.

(* the oracle fields that the model can recompute *)
Definition sinfo_wf (s : sinfo) : bool :=
  str_eqb (trim_space (raw s)) (trimmed s)
  && option_eqb Z.eqb (parse_int64 (trimmed s)) (oint s)
  && option_eqb Bool.eqb (parse_bool (trimmed s)) (obool s).

Definition val_wf (v : val) : bool := match v with VStr s => sinfo_wf s | _ => true end.
