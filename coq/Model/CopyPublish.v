(* CopyPublish.v -- one level below Txn.v: how a data-changing statement works on a COPY of the
   cached / temporary view and publishes it only at its end (C08).  Definitions only.

   Mirrors  lib/query/view_map.go   ViewMap.Get -> View.Copy()
            lib/query/view.go       View.Copy: Header.Copy, RecordSet.Copy; insert / replace / Fix
            lib/query/record.go     RecordSet.Copy copies every Record (the array of cells); the
                                    cells themselves ([]value.Primary) are shared
            lib/query/query.go      Insert / Update / Delete / Replace / AddColumns / DropColumns:
                                    writes go into the copy; CachedViews.Set / ReplaceTemporaryTable
                                    only at the end

   A heap of record arrays and cells; a view = header (copied by value) + the list of its record
   arrays.  The aliasing question is exactly: which record arrays can a statement write to. *)
Require Import Csvq.Model.Base Csvq.Model.Value.
Open Scope N_scope.

Definition loc := N.

Record heap := mkHeap {
  cells : loc -> val;          (* a cell *)
  recs : loc -> list loc;      (* a record array: the cells it points to *)
  next : loc                   (* allocation pointer: every location >= next is unused *)
}.

Record view := mkView {
  vhdr : list val;             (* header fields (structs: copied by value) *)
  vrows : list loc             (* the record arrays, in order *)
}.

Definition tupd {A} (m : loc -> A) (k : loc) (v : A) : loc -> A :=
  fun k' => if N.eqb k' k then v else m k'.

(* what a SELECT * of the view shows *)
Definition deref_row (h : heap) (r : loc) : list val := map (cells h) (recs h r).
Definition deref (h : heap) (v : view) : list (list val) := vhdr v :: map (deref_row h) (vrows v).

Definition alloc_cell (h : heap) (v : val) : heap * loc :=
  (mkHeap (tupd (cells h) (next h) v) (recs h) (next h + 1), next h).
Definition alloc_rec (h : heap) (cs : list loc) : heap * loc :=
  (mkHeap (cells h) (tupd (recs h) (next h) cs) (next h + 1), next h).
Fixpoint alloc_cells (h : heap) (vs : list val) : heap * list loc :=
  match vs with
  | [] => (h, [])
  | v :: r => let '(h1, c) := alloc_cell h v in
              let '(h2, cs) := alloc_cells h1 r in (h2, c :: cs)
  end.
Definition set_rec (h : heap) (r : loc) (cs : list loc) : heap :=
  mkHeap (cells h) (tupd (recs h) r cs) (next h).

(* RecordSet.Copy: a fresh record array per record, pointing to the SAME cells *)
Fixpoint copy_rows (h : heap) (rows : list loc) : heap * list loc :=
  match rows with
  | [] => (h, [])
  | r :: rs => let '(h1, r') := alloc_rec h (recs h r) in
               let '(h2, rs') := copy_rows h1 rs in (h2, r' :: rs')
  end.
Definition view_copy (h : heap) (v : view) : heap * view :=
  let '(h', rows') := copy_rows h (vrows v) in (h', mkView (vhdr v) rows').
(* what View.Copy would be if RecordSet.Copy did not copy the records (only the outer slice) *)
Definition shallow_copy (h : heap) (v : view) : heap * view := (h, mkView (vhdr v) (vrows v)).

Fixpoint set_nth {A} (n : nat) (x : A) (l : list A) : list A :=
  match n, l with
  | O, _ :: r => x :: r
  | S m, a :: r => a :: set_nth m x r
  | _, [] => []
  end.

(* the writes a statement makes on its working view *)
Inductive prim :=
| PSetCell (i j : nat) (v : val)      (* RecordSet[i][j] = NewCell(v)              UPDATE, REPLACE *)
| PProjectRow (i : nat) (sel : list nat) (* RecordSet[i] rewritten in place from its own cells   Fix (DROP) *)
| PNewRow (i : nat) (sel : list nat) (vs : list val)
                                       (* records[i] = a new record: some old cells + new ones      ALTER ADD *)
| PAppendRow (vs : list val)           (* RecordSet = RecordSet.Merge(new record)    INSERT, REPLACE *)
| PKeepRows (keep : list bool)         (* RecordSet = the records that are kept      DELETE *)
| PSetHeader (hd : list val)           (* view.Header = ...                          ALTER *)
| PFail.                               (* an expression fails to evaluate *)

Fixpoint filter_by {A} (keep : list bool) (l : list A) : list A :=
  match keep, l with
  | true :: k, a :: r => a :: filter_by k r
  | false :: k, _ :: r => filter_by k r
  | [], r => r
  | _, [] => []
  end.

Definition pick (cs : list loc) (sel : list nat) : list loc := map (fun n => nth n cs 0) sel.

(* None = the statement stops with an error *)
Definition exec_prim (p : prim) (h : heap) (w : view) : option (heap * view) :=
  match p with
  | PSetCell i j v =>
      match nth_error (vrows w) i with
      | Some r => let '(h1, c) := alloc_cell h v in
                  Some (set_rec h1 r (set_nth j c (recs h1 r)), w)
      | None => None
      end
  | PProjectRow i sel =>
      match nth_error (vrows w) i with
      | Some r => Some (set_rec h r (pick (recs h r) sel), w)
      | None => None
      end
  | PNewRow i sel vs =>
      match nth_error (vrows w) i with
      | Some r => let '(h1, cs) := alloc_cells h vs in
                  let '(h2, r') := alloc_rec h1 (pick (recs h1 r) sel ++ cs) in
                  Some (h2, mkView (vhdr w) (set_nth i r' (vrows w)))
      | None => None
      end
  | PAppendRow vs =>
      let '(h1, cs) := alloc_cells h vs in
      let '(h2, r) := alloc_rec h1 cs in
      Some (h2, mkView (vhdr w) (vrows w ++ [r]))
  | PKeepRows keep => Some (h, mkView (vhdr w) (filter_by keep (vrows w)))
  | PSetHeader hd => Some (h, mkView hd (vrows w))
  | PFail => None
  end.

(* the working view after the primitives, or None with whatever the heap became *)
Fixpoint run_prims (ps : list prim) (h : heap) (w : view) : heap * option view :=
  match ps with
  | [] => (h, Some w)
  | p :: r => match exec_prim p h w with
              | Some (h', w') => run_prims r h' w'
              | None => (h, None)
              end
  end.

(* the map of published views: Transaction.CachedViews / the temporary tables of a scope *)
Definition vmap := N -> option view.
Definition vupd (m : vmap) (k : N) (v : option view) : vmap := fun k' => if N.eqb k' k then v else m k'.

(* a statement: ViewMap.Get (copy), the writes, and Set only when nothing failed *)
Definition exec_stmt (copy : heap -> view -> heap * view) (name : N) (ps : list prim)
           (hm : heap * vmap) : heap * vmap * bool :=
  let '(h, m) := hm in
  match m name with
  | None => (h, m, false)
  | Some v =>
      let '(h1, w) := copy h v in
      match run_prims ps h1 w with
      | (h2, Some w') => (h2, vupd m name (Some w'), true)      (* publish *)
      | (h2, None) => (h2, m, false)                            (* error: nothing published *)
      end
  end.

(* every published view only points into the allocated part of the heap *)
Definition view_ok (h : heap) (v : view) : Prop :=
  Forall (fun r => r < next h /\ Forall (fun c => c < next h) (recs h r)) (vrows v).
Definition heap_ok (h : heap) (m : vmap) : Prop := forall n v, m n = Some v -> view_ok h v.
