(* Csv.v -- CSV/TSV text layer of csvq on code-point lists.  Definitions only (no proofs).

   Writer : github.com/mithrandie/go-text csv/writer.go (Writer.Write) and csvq's encodeCSV
            (lib/query/encode.go:50-92): csvq decides Field.Quote per cell (enclose-all AND the
            value is a String or Datetime), go-text additionally quotes a field that contains the
            delimiter or the double quote -- and nothing else, so CR/LF are written bare (F-C02-1).  The boolean
            [repaired] selects the variant in which encodeCSV also sets Quote for texts containing
            CR or LF (the proposed fix); the harness detects which variant the tree implements.
            The line break after the last record is appended by the callers (COMMIT:
            transaction.go with the file's own line break, SELECT output: processor.go with the session's).
   Reader : go-text csv/reader.go (parseRecord / parseField) re-expressed as one left-to-right
            machine over the decoded code points, and csvq's loadViewFromCSVFile
            (lib/query/load_view.go:1082-1159): header, c1..cn, allow-uneven-fields padding and
            header autofill.  unicode.IsLetter (used by the EnclosedAll heuristic) is a parameter
            [letter]. *)
Require Import Csvq.Model.Base.
Open Scope N_scope.

Definition DQ : N := 34.
Definition CR : N := 13.
Definition LF : N := 10.
Definition TAB : N := 9.

Inductive linebreak := LbLF | LbCR | LbCRLF.
Definition lb_str (lb : linebreak) : str :=
  match lb with LbLF => [LF] | LbCR => [CR] | LbCRLF => [CR; LF] end.
Definition lb_eqb (a b : linebreak) : bool :=
  match a, b with LbLF, LbLF | LbCR, LbCR | LbCRLF, LbCRLF => true | _, _ => false end.
Definition tail_str (t : option linebreak) : str :=
  match t with None => [] | Some lb => lb_str lb end.

(* ================================================================================== writer == *)
(* csv.Field *)
Record wfield := WF { wq : bool; wtext : str }.

Definition is_break (c : N) : bool := (c =? CR) || (c =? LF).
Definition has_break (s : str) : bool := existsb is_break s.
(* Writer.includeDelimiterOrQuote *)
Definition has_delim_or_quote (delim : N) (s : str) : bool :=
  existsb (fun c => (c =? delim) || (c =? DQ)) s.
(* the test in Writer.Write *)
Definition wquoted (delim : N) (f : wfield) : bool := wq f || has_delim_or_quote delim (wtext f).

Fixpoint dbl (s : str) : str :=
  match s with [] => [] | c :: r => if c =? DQ then DQ :: DQ :: dbl r else c :: dbl r end.

Definition wfield_str (delim : N) (f : wfield) : str :=
  if wquoted delim f then DQ :: dbl (wtext f) ++ [DQ] else wtext f.

Fixpoint wrecord (delim : N) (fs : list wfield) : str :=
  match fs with
  | [] => []
  | [f] => wfield_str delim f
  | f :: r => wfield_str delim f ++ delim :: wrecord delim r
  end.

(* Writer.Write emits the line break *before* every record but the first *)
Fixpoint wrecords (delim : N) (lb : linebreak) (rs : list (list wfield)) : str :=
  match rs with
  | [] => []
  | [r] => wrecord delim r
  | r :: t => wrecord delim r ++ lb_str lb ++ wrecords delim lb t
  end.

(* ---- csvq: encodeCSV ------------------------------------------------------------------------ *)
(* what ConvertFieldContents makes of a value: NULL -> "" without effect; String/Datetime -> text
   with the String/Datetime effect; Integer/Float/Boolean/Ternary -> rendering with another effect *)
Inductive cell := CNull | CText (s : str) | CPlain (s : str).
Definition cell_text (c : cell) : str := match c with CNull => [] | CText s | CPlain s => s end.
Definition cell_is_text (c : cell) : bool := match c with CText _ => true | _ => false end.

Record wopts := WO {
  o_delim : N;
  o_lb : linebreak;          (* ExportOptions.LineBreak *)
  o_enclose : bool;          (* ExportOptions.EncloseAll *)
  o_noheader : bool;         (* ExportOptions.WithoutHeader *)
  o_repaired : bool          (* false = the code as it is; true = Quote also for texts with CR/LF *)
}.

Definition cell_field (o : wopts) (c : cell) : wfield :=
  WF ((o_enclose o && cell_is_text c) || (o_repaired o && has_break (cell_text c))) (cell_text c).
Definition header_field (o : wopts) (h : str) : wfield :=
  WF (o_enclose o || (o_repaired o && has_break h)) h.

Definition csv_wrows (o : wopts) (hdr : list str) (rows : list (list cell)) : list (list wfield) :=
  (if o_noheader o then [] else [map (header_field o) hdr]) ++ map (map (cell_field o)) rows.

(* EncodeView for CSV/TSV: None = DataEmpty (without header and no record: nothing is written) *)
Definition csv_encode (o : wopts) (hdr : list str) (rows : list (list cell)) : option str :=
  match o_noheader o, rows with
  | true, [] => None
  | _, _ => Some (wrecords (o_delim o) (o_lb o) (csv_wrows o hdr rows))
  end.

(* bytes of the file / stream: the callers append one line break [tail] unless
   --strip-ending-line-break (tail = None): SELECT output the session's --line-break (processor.go), COMMIT
   the file's own FileInfo.LineBreak (transaction.go since ec68d2d; the session's before), written in the
   output's encoding (EncodeEndingLineBreak since 621cb1c). *)
Definition ending_line_break (strip : bool) (lb : linebreak) : option linebreak :=
  if strip then None else Some lb.
Definition csv_file (o : wopts) (tail : option linebreak) (hdr : list str) (rows : list (list cell)) : option str :=
  match csv_encode o hdr rows with
  | None => None
  | Some s => Some (s ++ tail_str tail)
  end.

(* ================================================================================== reader == *)
Inductive mode := Start | Unq | Quo | QuoEsc.
   (* field start / inside an unquoted field / inside quotes / just after a double quote inside quotes *)
Definition mode_quoted (m : mode) : bool := match m with Quo | QuoEsc => true | _ => false end.

Inductive rerr := EExtraneousQuote | EUnexpectedQuote | EFieldCount | EUnreadRune.

(* a field as parseRecord sees it: (fieldQuoted, text) *)
Definition rfield : Type := (bool * str)%type.

Record rst := RS {
  recs : list (list rfield);   (* finished records, newest first *)
  flds : list rfield;          (* finished fields of the current record, newest first *)
  cur  : str;                  (* current field, reversed *)
  md   : mode;
  crp  : bool;                 (* the previous code point was a CR that ended a line *)
  det  : option linebreak;     (* Reader.DetectedLineBreak *)
  pend : bool;                 (* det was set by that CR (becomes CRLF if an LF follows) *)
  bad  : option rerr
}.

Definition init : rst := RS [] [] [] Start false None false None.

Definition cur_field (s : rst) : rfield := (mode_quoted (md s), rev (cur s)).

Definition end_field (s : rst) : rst :=
  RS (recs s) (cur_field s :: flds s) [] Start false (det s) false (bad s).

Definition det_or (d : option linebreak) (lb : linebreak) : option linebreak :=
  match d with None => Some lb | Some x => Some x end.
Definition is_none {A} (o : option A) : bool := match o with None => true | Some _ => false end.

(* a line ends ([iscr]: by a CR, whose LF may still follow).  A line with no field yet and an empty
   buffer is skipped -- also when it consists of "" alone (recordBuf.Len() < 1) *)
Definition end_record (iscr : bool) (s : rst) : rst :=
  let d := det_or (det s) (if iscr then LbCR else LbLF) in
  let p := iscr && is_none (det s) in
  match flds s, cur s with
  | [], [] => RS (recs s) [] [] Start iscr d p (bad s)
  | _, _ => RS (rev (cur_field s :: flds s) :: recs s) [] [] Start iscr d p (bad s)
  end.

Definition push (c : N) (m : mode) (s : rst) : rst :=
  RS (recs s) (flds s) (c :: cur s) m false (det s) false (bad s).
Definition setmode (m : mode) (s : rst) : rst :=
  RS (recs s) (flds s) (cur s) m false (det s) false (bad s).
Definition fail (e : rerr) (s : rst) : rst :=
  RS (recs s) (flds s) (cur s) (md s) false (det s) false (match bad s with None => Some e | b => b end).
(* the LF of a CRLF pair outside quotes *)
Definition swallow_lf (s : rst) : rst :=
  RS (recs s) (flds s) (cur s) (md s) false (if pend s then Some LbCRLF else det s) false (bad s).

Definition step (delim : N) (s : rst) (c : N) : rst :=
  match md s with
  | Quo => if c =? DQ then setmode QuoEsc s else push c Quo s
  | QuoEsc =>
      if c =? DQ then push c Quo s
      else if c =? delim then end_field s
      else if c =? CR then end_record true s
      else if c =? LF then end_record false s
      else fail EUnexpectedQuote s
  | Start | Unq =>
      if (c =? LF) && crp s then swallow_lf s
      else if c =? LF then end_record false s
      else if c =? CR then end_record true s
      else if c =? delim then end_field s
      else if c =? DQ then
        match md s with Start => setmode Quo s | _ => push c Unq s end
      else push c Unq s
  end.

(* Reader.EnclosedAll: starts true, cleared by the first letter met in an unquoted field.  It is a
   second component running beside the machine (it never influences it). *)
Definition unq_plain (delim : N) (s : rst) (c : N) : bool :=
  match md s with
  | Start | Unq => negb ((c =? LF) || (c =? CR) || (c =? delim) || (c =? DQ))
  | _ => false
  end.
Definition step2 (delim : N) (letter : N -> bool) (se : rst * bool) (c : N) : rst * bool :=
  (step delim (fst se) c, snd se && negb (unq_plain delim (fst se) c && letter c)).

(* end of input *)
Definition finish (s : rst) : rerr + (list (list rfield) * option linebreak) :=
  match bad s with
  | Some e => inl e
  | None =>
    match md s with
    | Quo => inl EExtraneousQuote
    | _ =>
      if crp s then inl EUnreadRune       (* CR then EOF: ReadRune fails, UnreadRune is refused *)
      else match flds s, cur s with
           | [], [] => inr (rev (recs s), det s)
           | _, _ => inr (rev (recs (end_record false s)), det s)
           end
    end
  end.

Definition tokenize (delim : N) (inp : str) : rerr + (list (list rfield) * option linebreak) :=
  finish (fold_left (step delim) inp init).
Definition enclosed_all (delim : N) (letter : N -> bool) (inp : str) : bool :=
  snd (fold_left (step2 delim letter) inp (init, true)).

(* ---- parseRecord's field-count bookkeeping (FieldsPerRecord) -------------------------------- *)
Fixpoint check_counts (allow : bool) (fpr : nat) (rs : list (list rfield)) : option nat :=
  match rs with
  | [] => Some fpr
  | r :: t =>
      let n := length r in
      if Nat.eqb fpr 0 then check_counts allow n t
      else if Nat.eqb n fpr then check_counts allow fpr t
      else if allow then check_counts allow (Nat.max fpr n) t
      else None
  end.

(* text.RawText -> value: nil = NULL *)
Definition field_value (without_null : bool) (f : rfield) : option str :=
  match f with
  | (false, []) => if without_null then Some [] else None
  | (_, s) => Some s
  end.

(* ---- decimal numerals for c1..cn and __@n__ -------------------------------------------------- *)
Fixpoint dec_aux (fuel : nat) (n : N) (acc : str) : str :=
  match fuel with
  | O => acc
  | S f => let acc' := (48 + n mod 10) :: acc in
           if n / 10 =? 0 then acc' else dec_aux f (n / 10) acc'
  end.
Definition dec (n : N) : str := dec_aux (S (N.to_nat (N.size n))) n [].
Fixpoint cnames_from (i : N) (n : nat) : list str :=
  match n with O => [] | S n' => (99 :: dec i) :: cnames_from (i + 1) n' end.
Definition cnames (n : nat) : list str := cnames_from 1 n.

Fixpoint autofill_from (i : N) (h : list str) : list str :=
  match h with
  | [] => []
  | [] :: t => ([95; 95; 64] ++ dec i ++ [95; 95]) :: autofill_from (i + 1) t
  | x :: t => x :: autofill_from (i + 1) t
  end.
Definition autofill (h : list str) : list str := autofill_from 1 h.

Definition pad_to {A} (n : nat) (x : A) (l : list A) : list A := l ++ repeat x (n - length l).

(* ---- csvq: loadViewFromCSVFile ----------------------------------------------------------------- *)
Record ropts := RO {
  r_delim : N;
  r_noheader : bool;
  r_without_null : bool;
  r_allow_uneven : bool
}.

Record table := TB { t_header : list str; t_rows : list (list (option str)) }.
Record loaded := LD { l_table : table; l_lb : option linebreak; l_enclosed : bool }.

Definition csv_load (o : ropts) (letter : N -> bool) (inp : str) : rerr + loaded :=
  match tokenize (r_delim o) inp with
  | inl e => inl e
  | inr (rs, d) =>
    match check_counts (r_allow_uneven o) 0 rs with
    | None => inl EFieldCount
    | Some fpr =>
      let '(hdr, body) :=
        if r_noheader o then (cnames fpr, rs)
        else match rs with
             | [] => ([], [])                       (* ReadHeader met EOF: header of FieldsPerRecord = 0 columns *)
             | h :: b => (map snd h, b)
             end in
      let rows := map (map (field_value (r_without_null o))) body in
      let t :=
        if r_allow_uneven o then
          TB (autofill (pad_to fpr [] hdr))
             (map (pad_to fpr (if r_without_null o then Some [] else None)) rows)
        else TB hdr rows in
      inr (LD t d (enclosed_all (r_delim o) letter inp))
    end
  end.

(* ---- what the property expects to read back ---------------------------------------------------- *)
(* a written cell comes back as its text; an *unquoted* empty text comes back as NULL (the one
   spelling CSV has for NULL and for the empty string without enclose-all) *)
Definition readback (delim : N) (f : wfield) : option str :=
  if wquoted delim f then Some (wtext f)
  else match wtext f with [] => None | s => Some s end.

Definition expected_table (o : wopts) (hdr : list str) (rows : list (list cell)) : table :=
  TB (if o_noheader o then cnames (length hdr) else hdr)
     (map (map (fun c => readback (o_delim o) (cell_field o c))) rows).

Definition ropts_of (o : wopts) : ropts := RO (o_delim o) (o_noheader o) false false.

(* ---- the dialect a file is written back with (FileInfo -> ExportOptions) ------------------------ *)
(* FileInfo fields that matter for CSV/TSV; [fi_encoding] is an opaque token (transcoding is an
   oracle, DESIGN.md section 7) *)
Record file_info := FI {
  fi_delim : N; fi_encoding : N; fi_lb : linebreak; fi_noheader : bool; fi_enclose : bool
}.
(* loadViewFromCSVFile: LineBreak is overwritten only when one was detected; EncloseAll always *)
Definition load_file_info (fi : file_info) (l : loaded) : file_info :=
  FI (fi_delim fi) (fi_encoding fi)
     (match l_lb l with Some lb => lb | None => fi_lb fi end)
     (fi_noheader fi) (l_enclosed l).
(* FileInfo.ExportOptions (file_info.go:337-351) *)
Definition export_options (repaired : bool) (fi : file_info) : wopts :=
  WO (fi_delim fi) (fi_lb fi) (fi_enclose fi) (fi_noheader fi) repaired.

(* ---- decidable comparisons used by the harness -------------------------------------------------- *)
Definition ostr_eqb := option_eqb str_eqb.
Definition table_eqb (a b : table) : bool :=
  list_eqb str_eqb (t_header a) (t_header b) && list_eqb (list_eqb ostr_eqb) (t_rows a) (t_rows b).
Definition olb_eqb := option_eqb lb_eqb.
