(* Cursor.v -- cursors (lib/query/cursor.go), their lookup through block scopes
   (lib/query/reference_scope.go: DeclareCursor .. CursorCount), FETCH (lib/query/query.go:
   FetchCursor), the WHILE .. IN loop (lib/query/processor.go: WhileInCursor) and the cursor status
   expressions (lib/query/eval.go: evalCursorStatus, evalCursorAttribute).  Definitions only.

   What the cursor's query returns is abstract: the state carries, for every query id, "the result
   this query would have if it were evaluated now" ([db]); data-changing statements are the
   operation [SChange], which replaces entries of [db] and touches nothing else.  OPEN copies the
   current entry into the cursor ([c_view]); everything afterwards reads [c_view] only.

   The pointer arithmetic of FETCH RELATIVE is Go's [c.index + number] on int: the definitions are
   parametrised by the addition ([add64] = the code as it is, [Z.add] = the arithmetic the
   specification means), everything else is identical. *)
From Coq Require Import Floats.
Require Import Csvq.Model.Base Csvq.Model.Value.
Open Scope Z_scope.

Notation row := (list val).

(* error classes (lib/query/error.go); [EQuery] = any error of evaluating the cursor's query,
   [EFuel] = the model ran out of fuel in a WHILE loop (never an answer of the implementation) *)
Inductive cerr :=
| ERedeclared | EUndeclared | EClosed | EAlreadyOpen | EPseudo | EFetchPos | EFetchLen
| EUndeclVar | EStmtNotExist | EInvalidStmt | EQuery | EFuel.

Definition cerr_eqb (a b : cerr) : bool :=
  match a, b with
  | ERedeclared, ERedeclared | EUndeclared, EUndeclared | EClosed, EClosed
  | EAlreadyOpen, EAlreadyOpen | EPseudo, EPseudo | EFetchPos, EFetchPos | EFetchLen, EFetchLen
  | EUndeclVar, EUndeclVar | EStmtNotExist, EStmtNotExist | EInvalidStmt, EInvalidStmt
  | EQuery, EQuery | EFuel, EFuel => true
  | _, _ => false
  end.

(* DECLARE c CURSOR FOR <select>  /  DECLARE c CURSOR FOR <prepared statement name> *)
Inductive qsrc := QDirect (q : N) | QStmt (s : N).
(* a prepared statement is either one SELECT (its result for USING-argument choice [a] is query id
   [qbase + a]) or something a cursor cannot be opened on *)
Inductive pstmt := PNotSelect | PSelect (qbase : N).

(* type Cursor struct { query/statement; view *View; index int; fetched bool; isPseudo bool } *)
Record cursor := mkCur {
  c_src : qsrc; c_view : option (list row); c_idx : Z; c_fetched : bool; c_pseudo : bool }.

Definition new_cursor (src : qsrc) : cursor := mkCur src None 0 false false.
(* NewPseudoCursor: one column, open from the start, pointer -1 *)
Definition pseudo_cursor (vals : list val) : cursor :=
  mkCur (QDirect 0) (Some (map (fun v => [v]) vals)) (-1) false true.

Definition zlen {A} (l : list A) : Z := Z.of_nat (length l).

(* ---- value.ToInteger (lib/value/conv.go) ------------------------------------------------- *)
(* int64(f): truncation toward zero; NaN, infinities and values outside int64 give MinInt64 (the
   "integer indefinite" of amd64's CVTTSD2SQ -- Go leaves this case implementation-defined; the
   correspondence never generates it) *)
Definition f2z (f : float) : Z :=
  match Prim2SF f with
  | S754_zero _ => 0
  | S754_finite s m e =>
      let a := if 0 <=? e then Zpos m * 2 ^ e else Zpos m / 2 ^ (- e) in
      let z := if s then - a else a in
      (* float64ToInt64 (conv.go, after the repair of fetch-absolute-beyond-int64): a float out of the range
         of integers is converted to the nearest integer *)
      if in_int64 z then z else if z <? 0 then min_int64 else max_int64
  | _ => min_int64
  end.

Definition to_integer (v : val) : option Z :=
  match v with
  | VInt z => Some z
  | VFloat f => if is_nan f || f_is_inf f then None else Some (f2z f)
  | VStr s => match oint s with
              | Some z => Some z
              | None => match ofloat s with
                        | Some f => if is_nan f || f_is_inf f then None else Some (f2z f)
                        | None => None
                        end
              end
  | _ => None
  end.

(* ---- one cursor -------------------------------------------------------------------------- *)
Inductive fkind := KNext | KPrior | KFirst | KLast | KAbs | KRel.
(* the position clause as written: ABSOLUTE / RELATIVE carry the value of their expression *)
Inductive fpos := PNext | PPrior | PFirst | PLast | PAbs (v : val) | PRel (v : val).

(* FetchCursor, first half: evaluate the number; NULL after ToInteger is an error raised before the
   cursor is even looked up *)
Definition pos_eval (p : fpos) : option (fkind * Z) :=
  match p with
  | PNext => Some (KNext, -1) | PPrior => Some (KPrior, -1)
  | PFirst => Some (KFirst, -1) | PLast => Some (KLast, -1)
  | PAbs v => match to_integer v with Some n => Some (KAbs, n) | None => None end
  | PRel v => match to_integer v with Some n => Some (KRel, n) | None => None end
  end.

Definition add64 (a b : Z) : Z := wrap64 (a + b).

Definition clamp (len t : Z) : Z := if t <? 0 then -1 else if len <=? t then len else t.

Section WithAdd.
  Variable add : Z -> Z -> Z.

  (* the switch of Cursor.Fetch *)
  Definition target (k : fkind) (n idx len : Z) : Z :=
    match k with
    | KAbs => n
    | KRel => add idx n
    | KFirst => 0
    | KLast => len - 1
    | KPrior => idx - 1
    | KNext => idx + 1
    end.

  (* Cursor.Fetch: None = "cursor is closed"; otherwise the moved cursor and the record, if any *)
  Definition cur_fetch (k : fkind) (n : Z) (c : cursor) : option (cursor * option row) :=
    match c_view c with
    | None => None
    | Some v =>
        let len := zlen v in
        let t := target k n (c_idx c) len in
        if t <? 0 then Some (mkCur (c_src c) (c_view c) (-1) true (c_pseudo c), None)
        else if len <=? t then Some (mkCur (c_src c) (c_view c) len true (c_pseudo c), None)
        else Some (mkCur (c_src c) (c_view c) t true (c_pseudo c), nth_error v (Z.to_nat t))
    end.
End WithAdd.

Definition cur_is_open (c : cursor) : tern := match c_view c with Some _ => TT | None => TF end.
(* Cursor.IsInRange: None = closed *)
Definition cur_in_range (c : cursor) : option tern :=
  match c_view c with
  | None => None
  | Some v => if c_fetched c then Some (of_bool ((-1 <? c_idx c) && (c_idx c <? zlen v))) else Some TU
  end.
Definition cur_count (c : cursor) : option Z :=
  match c_view c with None => None | Some v => Some (zlen v) end.
Definition cur_close (c : cursor) : cursor := mkCur (c_src c) None 0 false (c_pseudo c).
Definition cur_open (r : list row) (c : cursor) : cursor := mkCur (c_src c) (Some r) (-1) false (c_pseudo c).

(* ---- cursor maps and block scopes ---------------------------------------------------------- *)
(* CursorMap of one block: keys are upper-cased names (here: ids), at most one entry per key *)
Definition cmap := list (N * cursor).

Fixpoint cm_find (c : N) (m : cmap) : option cursor :=
  match m with
  | [] => None
  | (d, x) :: m' => if N.eqb d c then Some x else cm_find c m'
  end.
Fixpoint cm_set (c : N) (y : cursor) (m : cmap) : cmap :=
  match m with
  | [] => []
  | (d, x) :: m' => if N.eqb d c then (d, y) :: m' else (d, x) :: cm_set c y m'
  end.
Fixpoint cm_del (c : N) (m : cmap) : cmap :=
  match m with
  | [] => []
  | (d, x) :: m' => if N.eqb d c then m' else (d, x) :: cm_del c m'
  end.

(* ReferenceScope.Blocks: innermost block first; every operation except DECLARE acts on the first
   block in which the name is declared *)
Fixpoint bl_find (c : N) (bs : list cmap) : option cursor :=
  match bs with
  | [] => None
  | m :: bs' => match cm_find c m with Some x => Some x | None => bl_find c bs' end
  end.
Fixpoint bl_set (c : N) (y : cursor) (bs : list cmap) : list cmap :=
  match bs with
  | [] => []
  | m :: bs' => match cm_find c m with Some _ => cm_set c y m :: bs' | None => m :: bl_set c y bs' end
  end.
Fixpoint bl_del (c : N) (bs : list cmap) : list cmap :=
  match bs with
  | [] => []
  | m :: bs' => match cm_find c m with Some _ => cm_del c m :: bs' | None => m :: bl_del c bs' end
  end.

(* ---- the state ----------------------------------------------------------------------------- *)
Definition dbmap := list (N * option (list row)).
Fixpoint db_get (q : N) (d : dbmap) : option (list row) :=
  match d with
  | [] => None
  | (p, r) :: d' => if N.eqb p q then r else db_get q d'
  end.
Fixpoint prep_get (s : N) (p : list (N * pstmt)) : option pstmt :=
  match p with
  | [] => None
  | (t, x) :: p' => if N.eqb t s then Some x else prep_get s p'
  end.

Record state := mkSt {
  blocks : list cmap;            (* innermost first *)
  db : dbmap;                    (* current result of every query id; None = evaluation fails *)
  vars : list val;               (* the declared variables @v0 .. ; any other index is undeclared *)
  prep : list (N * pstmt) }.     (* prepared statements *)

Definition set_blocks (st : state) (bs : list cmap) : state := mkSt bs (db st) (vars st) (prep st).
Definition set_vars (st : state) (vs : list val) : state := mkSt (blocks st) (db st) vs (prep st).
Definition set_db (st : state) (d : dbmap) : state := mkSt (blocks st) d (vars st) (prep st).

(* what a statement lets the outside see *)
Record sres := mkRes {
  r_err : option cerr;           (* error class, None = success *)
  r_val : option val;            (* value of a status expression *)
  r_row : option row;            (* record the cursor handed out (FETCH) *)
  r_log : list row }.            (* WHILE IN: values of the loop variables at the start of each iteration *)
Definition ok_res : sres := mkRes None None None [].
Definition err_res (e : cerr) : sres := mkRes (Some e) None None [].
Definition val_res (v : val) : sres := mkRes None (Some v) None [].

(* simple statements *)
Inductive sop :=
| SDeclare (c : N) (src : qsrc)
| SPseudo (c : N) (vals : list val)                  (* ReferenceScope.AddPseudoCursor *)
| SOpen (c : N) (arg : N)                            (* arg: which USING values (0 = none) *)
| SClose (c : N)
| SDispose (c : N)
| SFetch (c : N) (p : fpos) (into : list nat)
| SIsOpen (c : N) (neg : bool)
| SInRange (c : N) (neg : bool)
| SCount (c : N)
| SChange (upd : dbmap)                              (* any data-changing statement, by its effect *)
| SPush | SPop                                       (* entering / leaving a block *)
| SBreak | SContinue.

Inductive op :=
| OSimple (s : sop)
| OWhile (c : N) (into : list nat) (body : list sop).

(* which query an OPEN evaluates (Cursor.Open) *)
Definition resolve (st : state) (src : qsrc) (arg : N) : cerr + N :=
  match src with
  | QDirect q => inr q
  | QStmt s => match prep_get s (prep st) with
               | None => inl EStmtNotExist
               | Some PNotSelect => inl EInvalidStmt
               | Some (PSelect qb) => inr (qb + arg)%N
               end
  end.

Fixpoint set_nth {A} (i : nat) (x : A) (l : list A) : list A :=
  match l, i with
  | [], _ => []
  | _ :: l', O => x :: l'
  | y :: l', S i' => y :: set_nth i' x l'
  end.

(* FetchCursor, the assignment loop: stops at the first undeclared variable, keeping what it has
   assigned so far *)
Fixpoint assign (into : list nat) (r : row) (vs : list val) : list val * option cerr :=
  match into, r with
  | i :: into', v :: r' =>
      if (i <? length vs)%nat then assign into' r' (set_nth i v vs) else (vs, Some EUndeclVar)
  | _, _ => (vs, None)
  end.

Definition upd_db (upd : dbmap) (d : dbmap) : dbmap := upd ++ d.

Definition push_block (st : state) : state := set_blocks st ([] :: blocks st).
Definition pop_block (st : state) : state :=
  match blocks st with
  | _ :: (_ :: _) as bs' => set_blocks st bs'
  | _ => st
  end.
(* leaving the child block of a loop: the parent's scope is simply the rest of the stack *)
Definition drop_block (st : state) : state := set_blocks st (tl (blocks st)).
Definition clear_top (st : state) : state :=
  match blocks st with
  | _ :: bs' => set_blocks st ([] :: bs')
  | [] => st
  end.

Definition tern_res (neg : bool) (t : tern) : sres := val_res (VTern (if neg then tnot t else t)).

Inductive flow := FNormal | FBreak | FContinue | FError (e : cerr).

Section StepWithAdd.
  Variable add : Z -> Z -> Z.

  Definition do_fetch (st : state) (c : N) (p : fpos) (into : list nat) : state * sres :=
    match pos_eval p with
    | None => (st, err_res EFetchPos)
    | Some (k, n) =>
        match bl_find c (blocks st) with
        | None => (st, err_res EUndeclared)
        | Some cur =>
            match cur_fetch add k n cur with
            | None => (st, err_res EClosed)
            | Some (cur', out) =>
                let st1 := set_blocks st (bl_set c cur' (blocks st)) in
                match out with
                | None => (st1, ok_res)
                | Some r =>
                    if (length into =? length r)%nat then
                      let '(vs, e) := assign into r (vars st1) in
                      (set_vars st1 vs, mkRes e None (Some r) [])
                    else (st1, mkRes (Some EFetchLen) None (Some r) [])
                end
            end
        end
    end.

  Definition step_simple (st : state) (s : sop) : state * sres :=
    match s with
    | SDeclare c src =>
        match blocks st with
        | [] => (st, err_res EUndeclared)
        | m :: bs' => match cm_find c m with
                      | Some _ => (st, err_res ERedeclared)
                      | None => (set_blocks st (((c, new_cursor src) :: m) :: bs'), ok_res)
                      end
        end
    | SPseudo c vals =>
        match blocks st with
        | [] => (st, err_res EUndeclared)
        | m :: bs' => match cm_find c m with
                      | Some _ => (st, err_res ERedeclared)
                      | None => (set_blocks st (((c, pseudo_cursor vals) :: m) :: bs'), ok_res)
                      end
        end
    | SOpen c arg =>
        match bl_find c (blocks st) with
        | None => (st, err_res EUndeclared)
        | Some cur =>
            if c_pseudo cur then (st, err_res EPseudo)
            else match c_view cur with
                 | Some _ => (st, err_res EAlreadyOpen)
                 | None =>
                     match resolve st (c_src cur) arg with
                     | inl e => (st, err_res e)
                     | inr q => match db_get q (db st) with
                                | None => (st, err_res EQuery)
                                | Some r => (set_blocks st (bl_set c (cur_open r cur) (blocks st)), ok_res)
                                end
                     end
                 end
        end
    | SClose c =>
        match bl_find c (blocks st) with
        | None => (st, err_res EUndeclared)
        | Some cur =>
            if c_pseudo cur then (st, err_res EPseudo)
            else (set_blocks st (bl_set c (cur_close cur) (blocks st)), ok_res)
        end
    | SDispose c =>
        match bl_find c (blocks st) with
        | None => (st, err_res EUndeclared)
        | Some cur =>
            if c_pseudo cur then (st, err_res EPseudo)
            else (set_blocks st (bl_del c (blocks st)), ok_res)
        end
    | SFetch c p into => do_fetch st c p into
    | SIsOpen c neg =>
        match bl_find c (blocks st) with
        | None => (st, err_res EUndeclared)
        | Some cur => (st, tern_res neg (cur_is_open cur))
        end
    | SInRange c neg =>
        match bl_find c (blocks st) with
        | None => (st, err_res EUndeclared)
        | Some cur => match cur_in_range cur with
                      | None => (st, err_res EClosed)
                      | Some t => (st, tern_res neg t)
                      end
        end
    | SCount c =>
        match bl_find c (blocks st) with
        | None => (st, err_res EUndeclared)
        | Some cur => match cur_count cur with
                      | None => (st, err_res EClosed)
                      | Some n => (st, val_res (VInt n))
                      end
        end
    | SChange upd => (set_db st (upd_db upd (db st)), ok_res)
    | SPush => (push_block st, ok_res)
    | SPop => (pop_block st, ok_res)
    | SBreak | SContinue => (st, ok_res)
    end.

  (* Processor.execute on the statements of a loop body *)
  Fixpoint run_body (body : list sop) (st : state) : state * flow :=
    match body with
    | [] => (st, FNormal)
    | SBreak :: _ => (st, FBreak)
    | SContinue :: _ => (st, FContinue)
    | s :: body' =>
        let '(st1, r) := step_simple st s in
        match r_err r with
        | Some e => (st1, FError e)
        | None => run_body body' st1
        end
    end.

  (* WhileInCursor: the child block is cleared at the start of every iteration; FETCH NEXT into the
     loop variables; no record = end of loop.  The harness logs the loop variables as the first
     statement of every body, which is [log]. *)
  Fixpoint while_loop (fuel : nat) (c : N) (into : list nat) (body : list sop) (st : state) (log : list row)
    : state * option cerr * list row :=
    match fuel with
    | O => (st, Some EFuel, log)
    | S fuel' =>
        let '(st1, r) := do_fetch (clear_top st) c PNext into in
        match r_err r with
        | Some e => (st1, Some e, log)
        | None =>
            match r_row r with
            | None => (st1, None, log)
            | Some _ =>
                let log1 := log ++ [map (fun i => nth i (vars st1) VNull) into] in
                let '(st2, f) := run_body body st1 in
                match f with
                | FError e => (st2, Some e, log1)
                | FBreak => (st2, None, log1)
                | FNormal | FContinue => while_loop fuel' c into body st2 log1
                end
            end
        end
    end.

  Definition step (fuel : nat) (st : state) (o : op) : state * sres :=
    match o with
    | OSimple s => step_simple st s
    | OWhile c into body =>
        let '(st1, e, log) := while_loop fuel c into body (push_block st) [] in
        (drop_block st1, mkRes e None None log)
    end.

  Definition run (fuel : nat) (st : state) (ops : list op) : state :=
    fold_left (fun s o => fst (step fuel s o)) ops st.
End StepWithAdd.

Definition init_state (d : dbmap) (vs : list val) (p : list (N * pstmt)) : state := mkSt [[]] d vs p.
