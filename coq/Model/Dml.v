(* Dml.v -- single-table INSERT / UPDATE / DELETE / REPLACE / ALTER (lib/query/query.go: Insert, Update,
   Delete, Replace, AddColumns, DropColumns, RenameColumn; lib/query/view.go: insert, replace).
   A table is its list of rows (all of the table's width); columns are positions.  Definitions only. *)
From Coq Require Import Floats.
Require Import Csvq.Model.Base Csvq.Model.Value Csvq.Model.Compare Csvq.Model.Arith Csvq.Model.Expr
               Csvq.Model.Key Csvq.Model.SortVal Csvq.Model.Query.
Open Scope Z_scope.

Record table := mkT { twidth : nat; trows : list row }.

Inductive stmt :=
| SInsert (fields : list nat) (values : list (list expr))       (* INSERT INTO t (fields) VALUES ... *)
| SInsertSel (fields : list nat) (q : query)                    (* INSERT INTO t (fields) SELECT ... *)
| SUpdate (sets : list (nat * expr)) (wh : option expr)         (* UPDATE t SET c = e, ... [WHERE] *)
| SDelete (wh : option expr)                                    (* DELETE FROM t [WHERE] *)
| SReplace (fields keys : list nat) (values : list (list expr)) (* REPLACE INTO t (fields) USING (keys) VALUES ... *)
| SAddCols (pos : nat) (defaults : list (option expr))          (* ALTER TABLE t ADD (...) at position pos *)
| SDropCols (idxs : list nat)                                   (* ALTER TABLE t DROP (...) *)
| SRename (idx : nat).                                          (* ALTER TABLE t RENAME c TO d *)

Fixpoint index_of (i : nat) (l : list nat) (p : nat) : option nat :=
  match l with
  | [] => None
  | x :: l' => if Nat.eqb i x then Some p else index_of i l' (S p)
  end.

(* convertRecordValuesToRecordSet: column j takes the value given for the first occurrence of j in
   the field list, NULL when the column is not listed *)
Definition build_row (w : nat) (fields : list nat) (vals : list val) : row :=
  map (fun j => match index_of j fields 0 with
                | Some p => nth p vals VNull
                | None => VNull
                end) (seq 0 w).

Definition eval_values (fields : list nat) (values : list (list expr)) : res (list (list val)) :=
  mapM (fun es => do vs <- mapM (eval []) es;
                  if Nat.eqb (length vs) (length fields) then Ok vs else Err ERowLen) values.

Fixpoint set_nth {A} (i : nat) (x : A) (l : list A) : list A :=
  match l, i with
  | [], _ => []
  | _ :: l', O => x :: l'
  | y :: l', S i' => y :: set_nth i' x l'
  end.

(* UPDATE: the SET expressions see the row as it was before the statement *)
Definition update_row (sets : list (nat * expr)) (r : row) : res row :=
  do vs <- mapM (fun se => do v <- eval r (snd se); Ok (fst se, v)) sets;
  Ok (fold_left (fun acc iv => set_nth (fst iv) (snd iv) acc) vs r).

Fixpoint update_rows (sets : list (nat * expr)) (wh : option expr) (rows : list row) : res (list row * Z) :=
  match rows with
  | [] => Ok ([], 0)
  | r :: rows' =>
      do hit <- (match wh with None => Ok true | Some c => do v <- eval r c; Ok (is_true v) end);
      do r' <- (if hit then update_row sets r else Ok r);
      do rest <- update_rows sets wh rows';
      Ok (r' :: fst rest, (if hit then 1 else 0) + snd rest)
  end.

Fixpoint delete_rows (wh : option expr) (rows : list row) : res (list row * Z) :=
  match rows with
  | [] => Ok ([], 0)
  | r :: rows' =>
      do hit <- (match wh with None => Ok true | Some c => do v <- eval r c; Ok (is_true v) end);
      do rest <- delete_rows wh rows';
      Ok (if hit then (fst rest, 1 + snd rest) else (r :: fst rest, snd rest))
  end.

(* REPLACE: an existing row takes the non-key listed columns of the FIRST given row whose key columns
   are equivalent (SortValues.EquivalentTo); given rows that matched no existing row are appended in
   the order given *)
Section Replace.
  Variable strict : bool.
  Definition key_of (keys : list nat) (r : row) : list sortval :=
    map (fun k => new_sort_value strict (nth k r VNull)) keys.

  Fixpoint first_match (k : list sortval) (cands : list (list sortval)) (j : nat) : option nat :=
    match cands with
    | [] => None
    | c :: cands' => if svs_equiv k c then Some j else first_match k cands' (S j)
    end.

  Definition replace_rows (w : nat) (fields keys : list nat) (news : list row) (rows : list row) : list row * Z :=
    let nkeys := map (key_of keys) news in
    let upd := filter (fun f => negb (existsb (Nat.eqb f) keys)) fields in
    let hits := map (fun r => first_match (key_of keys r) nkeys 0) rows in
    let rows' := map (fun rh => match snd rh with
                                | Some j => let n := nth j news [] in
                                            fold_left (fun acc f => set_nth f (nth f n VNull) acc) upd (fst rh)
                                | None => fst rh
                                end) (combine rows hits) in
    let matched := flat_map (fun h => match h with Some j => [j] | None => [] end) hits in
    let unmatched := filter (fun jn => negb (existsb (Nat.eqb (fst jn)) matched)) (combine (seq 0 (length news)) news) in
    (rows' ++ map snd unmatched, Z.of_nat (length unmatched) + Z.of_nat (length matched)).
End Replace.

Fixpoint insert_at {A} (pos : nat) (xs : list A) (l : list A) : list A :=
  match pos, l with
  | O, _ => xs ++ l
  | S p, [] => xs
  | S p, y :: l' => y :: insert_at p xs l'
  end.

Definition drop_cols (idxs : list nat) (r : row) : row :=
  map snd (filter (fun ic => negb (existsb (Nat.eqb (fst ic)) idxs)) (combine (seq 0 (length r)) r)).

Fixpoint nodup_nat (l : list nat) : list nat :=
  match l with [] => [] | x :: l' => if existsb (Nat.eqb x) l' then nodup_nat l' else x :: nodup_nat l' end.

Definition exec (strict : bool) (t : table) (s : stmt) : res (table * Z) :=
  match s with
  | SInsert fields values =>
      do vss <- eval_values fields values;
      Ok (mkT (twidth t) (trows t ++ map (build_row (twidth t) fields) vss), Z.of_nat (length vss))
  | SInsertSel fields q =>
      do rows <- eval_query strict q;
      if Nat.eqb (query_width q) (length fields)
      then Ok (mkT (twidth t) (trows t ++ map (build_row (twidth t) fields) rows), Z.of_nat (length rows))
      else Err ERowLen
  | SUpdate sets wh => do rc <- update_rows sets wh (trows t); Ok (mkT (twidth t) (fst rc), snd rc)
  | SDelete wh => do rc <- delete_rows wh (trows t); Ok (mkT (twidth t) (fst rc), snd rc)
  | SReplace fields keys values =>
      do vss <- eval_values fields values;
      let rc := replace_rows strict (twidth t) fields keys (map (build_row (twidth t) fields) vss) (trows t) in
      Ok (mkT (twidth t) (fst rc), snd rc)
  | SAddCols pos defaults =>
      do rows' <- mapM (fun r => do ds <- mapM (fun d => match d with Some e => eval r e | None => Ok VNull end) defaults;
                                 Ok (insert_at pos ds r)) (trows t);
      Ok (mkT (twidth t + length defaults) rows', Z.of_nat (length defaults))
  | SDropCols idxs =>
      Ok (mkT (twidth t - length (nodup_nat idxs)) (map (drop_cols idxs) (trows t)), Z.of_nat (length (nodup_nat idxs)))
  | SRename _ => Ok (t, 1)
  end.

(* a history of statements; a failing statement leaves the table as it was (C08) and the history
   goes on, as in the interactive shell *)
Definition step (strict : bool) (t : table) (s : stmt) : table :=
  match exec strict t s with Ok (t', _) => t' | Err _ => t end.
Definition run_history (strict : bool) (t : table) (ss : list stmt) : table := fold_left (step strict) ss t.

(* ---- multi-table forms over two joined tables p and c ------------------------------------------- *)
(* the joined rows p_i ++ c_j (nested-loop order) on which the ON condition and the WHERE condition are
   TRUE, as index pairs *)
Definition cond_true (c : option expr) (r : row) : res bool :=
  match c with None => Ok true | Some e => do v <- eval r e; Ok (is_true v) end.

Fixpoint hits_row (on wh : option expr) (i : nat) (p : row) (cs : list row) (j : nat) : res (list (nat * nat)) :=
  match cs with
  | [] => Ok []
  | c :: cs' =>
      do a <- cond_true on (p ++ c);
      (* WHERE is evaluated on the rows the join kept *)
      do b <- (if a then cond_true wh (p ++ c) else Ok false);
      do rest <- hits_row on wh i p cs' (S j);
      Ok (if a && b then (i, j) :: rest else rest)
  end.
Fixpoint hits_from (on wh : option expr) (ps cs : list row) (i : nat) : res (list (nat * nat)) :=
  match ps with
  | [] => Ok []
  | p :: ps' => do a <- hits_row on wh i p cs 0; do b <- hits_from on wh ps' cs (S i); Ok (a ++ b)
  end.
Definition join_hits (on wh : option expr) (ps cs : list row) : res (list (nat * nat)) := hits_from on wh ps cs 0.

Definition remove_idx (idxs : list nat) (rows : list row) : list row :=
  map snd (filter (fun ir => negb (existsb (Nat.eqb (fst ir)) idxs)) (combine (seq 0 (length rows)) rows)).

(* DELETE [p][, c] FROM p JOIN c ON on [WHERE wh]: every row of a target table that takes part in a
   kept joined row is removed; the count of a table is the number of its rows removed *)
Definition delete_join (tp tc : bool) (on wh : option expr) (ps cs : list row) : res ((list row * Z) * (list row * Z)) :=
  do hs <- join_hits on wh ps cs;
  let pi := nodup_nat (map fst hs) in
  let ci := nodup_nat (map snd hs) in
  Ok ((if tp then (remove_idx pi ps, Z.of_nat (length pi)) else (ps, 0)),
      (if tc then (remove_idx ci cs, Z.of_nat (length ci)) else (cs, 0))).

(* the same over any join kind (DELETE p, c FROM p LEFT / RIGHT / FULL JOIN c ON ..): every row carries its
   position as one more column at its end, the join of Model/Query.v is taken over these rows (an outer join
   pads that column with NULL too: the padded side contributes no record), WHERE filters the joined rows, and
   the positions found in the kept rows are removed.  lw / rw = widths of p / c; the ON and WHERE conditions
   address p's columns at 0.., c's columns at lw+1.. *)
Definition with_idx (rows : list row) : list row :=
  map (fun ir => snd ir ++ [VInt (Z.of_nat (fst ir))]) (combine (seq 0 (length rows)) rows).
Definition idx_at (n : nat) (r : row) : list nat :=
  match nth_error r n with Some (VInt z) => [Z.to_nat z] | _ => [] end.
Definition kept_join_rows (k : jkind) (lw rw : nat) (on wh : option expr) (ps cs : list row) : res (list row) :=
  do rows <- join_rows k on (S lw) (S rw) (with_idx ps) (with_idx cs);
  match wh with None => Ok rows | Some c => filter_rows c rows end.
Definition delete_join_k (k : jkind) (tp tc : bool) (lw rw : nat) (on wh : option expr) (ps cs : list row)
  : res ((list row * Z) * (list row * Z)) :=
  do kept <- kept_join_rows k lw rw on wh ps cs;
  let pi := nodup_nat (flat_map (idx_at lw) kept) in
  let ci := nodup_nat (flat_map (idx_at (S lw + rw)) kept) in
  Ok ((if tp then (remove_idx pi ps, Z.of_nat (length pi)) else (ps, 0)),
      (if tc then (remove_idx ci cs, Z.of_nat (length ci)) else (cs, 0))).

(* UPDATE p SET .. FROM p JOIN c ON on [WHERE wh]: the SET expressions see the joined row as it was
   before the statement; a row of p that two kept joined rows would update is an error
   (the same cell set twice) *)
Fixpoint update_join_loop (sets : list (nat * expr)) (ps cs : list row) (hs : list (nat * nat)) (done : list nat) (acc : list row) : res (list row * Z) :=
  match hs with
  | [] => Ok (acc, Z.of_nat (length done))
  | (i, j) :: hs' =>
      do r' <- update_row sets (nth i ps [] ++ nth j cs []);
      if existsb (Nat.eqb i) done then Err (EOther 3) else
      (* only p's columns are written back *)
      let w := length (nth i ps []) in
      update_join_loop sets ps cs hs' (i :: done) (set_nth i (firstn w r') acc)
  end.
Definition update_join (sets : list (nat * expr)) (on wh : option expr) (ps cs : list row) : res (list row * Z) :=
  do hs <- join_hits on wh ps cs;
  update_join_loop sets ps cs hs [] ps.
