(* Escape.v -- lib/option/utils.go: EscapeString, UnescapeString, EscapeIdentifier,
   UnescapeIdentifier, QuoteString, QuoteIdentifier on code-point lists ([]rune(s)), coded the way
   the Go functions are coded (one loop over the runes with the two flags `escaped` and
   `quoteRune`).  Definitions only. *)
Require Import Csvq.Model.Base.
Open Scope N_scope.

Definition c_bel : N := 7.     (* \a *)
Definition c_bs : N := 8.      (* \b *)
Definition c_tab : N := 9.     (* \t *)
Definition c_lf : N := 10.     (* \n *)
Definition c_vt : N := 11.     (* \v *)
Definition c_ff : N := 12.     (* \f *)
Definition c_cr : N := 13.     (* \r *)
Definition c_dquote : N := 34.   (* double quote *)
Definition c_squote : N := 39.   (* single quote *)
Definition c_bslash : N := 92.   (* backslash *)
Definition c_btick : N := 96.    (* back quote *)

(* the common part of the two `switch r` of EscapeString / EscapeIdentifier: the seven control
   characters and the backslash are written as backslash + letter; [q] is the quotation mark the
   function escapes (single quote for strings, back quote for identifiers) *)
Definition escape_rune (q : N) (r : N) : str :=
  if r =? c_bel then [c_bslash; 97]          (* \a *)
  else if r =? c_bs then [c_bslash; 98]      (* \b *)
  else if r =? c_ff then [c_bslash; 102]     (* \f *)
  else if r =? c_lf then [c_bslash; 110]     (* \n *)
  else if r =? c_cr then [c_bslash; 114]     (* \r *)
  else if r =? c_tab then [c_bslash; 116]    (* \t *)
  else if r =? c_vt then [c_bslash; 118]     (* \v *)
  else if r =? q then [c_bslash; q]
  else if r =? c_bslash then [c_bslash; c_bslash]
  else [r].

Definition escape_with (q : N) (s : str) : str := flat_map (escape_rune q) s.
Definition escape_string (s : str) : str := escape_with c_squote s.
Definition escape_identifier (s : str) : str := escape_with c_btick s.
Definition quote_string (s : str) : str := c_squote :: escape_string s ++ [c_squote].
Definition quote_identifier (s : str) : str := c_btick :: escape_identifier s ++ [c_btick].

(* the `if escaped { switch r {...} }` block; [q2] is the second quotation mark the function
   unescapes besides the double quote and the backslash (single quote in UnescapeString, back quote in
   UnescapeIdentifier) *)
Definition unescape_rune (q2 : N) (r : N) : str :=
  if r =? 97 then [c_bel]
  else if r =? 98 then [c_bs]
  else if r =? 102 then [c_ff]
  else if r =? 110 then [c_lf]
  else if r =? 114 then [c_cr]
  else if r =? 116 then [c_tab]
  else if r =? 118 then [c_vt]
  else if (r =? c_dquote) || (r =? q2) || (r =? c_bslash) then [r]
  else [c_bslash; r].

(* the loop body.  [escaped] and [qr] (quoteRune, 0 = none) are the two flags of the Go code;
   [quote] is the parameter of the same name: an unescaped occurrence is remembered in quoteRune and
   written when the *next* rune is read (a doubled quotation mark is written once; a remembered
   quotation mark at the very end of the text is never written). *)
Fixpoint unescape_loop (q2 quote : N) (l : str) (escaped : bool) (qr : N) : str :=
  match l with
  | [] => if escaped then [c_bslash] else []
  | r :: l' =>
      let pre := if 0 <? qr then [qr] else [] in
      if (0 <? qr) && (r =? qr) then pre ++ unescape_loop q2 quote l' escaped 0
      else if escaped then pre ++ unescape_rune q2 r ++ unescape_loop q2 quote l' false 0
      else if r =? c_bslash then pre ++ unescape_loop q2 quote l' true 0
      else if r =? quote then pre ++ unescape_loop q2 quote l' false r
      else pre ++ r :: unescape_loop q2 quote l' false 0
  end.

Definition unescape_string (s : str) (quote : N) : str := unescape_loop c_squote quote s false 0.
Definition unescape_identifier (s : str) (quote : N) : str := unescape_loop c_btick quote s false 0.
