(** * Csvq.Model.ExitCode -- csvq's error classes and their mapping to the process exit status

    One constructor of [error_class] per error constructor (`New…`) of lib/query/error.go as of the pinned
    tree, with the return code (lib/query/error_code.go: ReturnCode…) and the error number it stores in
    its BaseError, plus [E_Foreign] for a Go error that does not implement query.Error.  [exit_code]
    is cli.Exit's mapping (lib/cli/app.go, func Exit): a query.Error exits with its Code(), anything else
    with ReturnCodeApplicationError; ForcedExit with code 0 and "no error" do not call cli.Exit at all.
    [process_status] adds what the operating system does to the value (mod 256).

    Quirks mirrored from the source (they do not affect codes):
    NewContextCanceled builds a ContextDone value; NewNestedRecursionError a RecursionExceededLimitError;
    NewStatementNotExistError a DuplicateStatementNameError; the three NewTableObjectInvalid… constructors
    an InvalidTableObjectError -- so six declared struct types are never built ([model_orphans]).

    This file is the pinned table.  translator/c19 re-extracts the same table from the current source on
    every check and the generated shard compares the two by vm_compute (Harness/H19.v).
    Definitions only; proofs are in Proofs/C19.v. *)
From Coq Require Import ZArith NArith List Bool.
Import ListNotations.
Notation str := (list N).
Local Open Scope Z_scope.

(** ** return-code categories (lib/query/error_code.go, documented in docs/_posts/2006-01-02-command.md "Return Code") *)
Inductive category : Type :=
| CatApplicationError
| CatIncorrectUsage
| CatSyntaxError
| CatContextDone
| CatIOError
| CatSystemError
| CatDefaultUserTriggeredError.

Definition category_code (c : category) : Z :=
  match c with
  | CatApplicationError => 1
  | CatIncorrectUsage => 2
  | CatSyntaxError => 4
  | CatContextDone => 8
  | CatIOError => 16
  | CatSystemError => 32
  | CatDefaultUserTriggeredError => 64
  end.

Definition category_const_name (c : category) : str :=
  match c with
  | CatApplicationError => [82;101;116;117;114;110;67;111;100;101;65;112;112;108;105;99;97;116;105;111;110;69;114;114;111;114]%N (* ReturnCodeApplicationError *)
  | CatIncorrectUsage => [82;101;116;117;114;110;67;111;100;101;73;110;99;111;114;114;101;99;116;85;115;97;103;101]%N (* ReturnCodeIncorrectUsage *)
  | CatSyntaxError => [82;101;116;117;114;110;67;111;100;101;83;121;110;116;97;120;69;114;114;111;114]%N (* ReturnCodeSyntaxError *)
  | CatContextDone => [82;101;116;117;114;110;67;111;100;101;67;111;110;116;101;120;116;68;111;110;101]%N (* ReturnCodeContextDone *)
  | CatIOError => [82;101;116;117;114;110;67;111;100;101;73;79;69;114;114;111;114]%N (* ReturnCodeIOError *)
  | CatSystemError => [82;101;116;117;114;110;67;111;100;101;83;121;115;116;101;109;69;114;114;111;114]%N (* ReturnCodeSystemError *)
  | CatDefaultUserTriggeredError => [82;101;116;117;114;110;67;111;100;101;68;101;102;97;117;108;116;85;115;101;114;84;114;105;103;103;101;114;101;100;69;114;114;111;114]%N (* ReturnCodeDefaultUserTriggeredError *)
  end.

Definition all_categories : list category := [CatApplicationError; CatIncorrectUsage; CatSyntaxError; CatContextDone; CatIOError; CatSystemError; CatDefaultUserTriggeredError].
Definition return_code_base_signal : Z := 128.  (* returnCodeBaseSignal *)
Definition error_signal_base : Z := 91280.        (* errorSignalBase *)

(** ** error classes *)
Inductive error_class : Type :=
| E_AddFlagNotSupportedNameError
| E_AliasMustBeSpecifiedForUpdateError
| E_BuiltInFunctionDeclaredError
| E_CannotDetectFileEncodingError
| E_CombinedSetFieldLengthError
| E_CommitError
| E_ContextCanceled
| E_ContextDone
| E_CursorClosedError
| E_CursorFetchLengthError
| E_CursorOpenError
| E_CursorRedeclaredError
| E_DataEncodingError
| E_DataParsingError
| E_DeleteTableNotSpecifiedError
| E_DuplicateFieldNameError
| E_DuplicateParameterError
| E_DuplicateStatementNameError
| E_DuplicateTableNameError
| E_EmptyInlineTableError
| E_ExternalCommandError
| E_FatalError
| E_FieldAmbiguousError
| E_FieldLengthNotMatchError
| E_FieldNotExistError
| E_FieldNotGroupKeyError
| E_FileAlreadyExistError
| E_FileLockTimeoutError
| E_FileNameAmbiguousError
| E_FileNotExistError
| E_FileUnableToReadError
| E_FlagValueNotAllowedFormatError
| E_FormatStringLengthNotMatchError
| E_FormatUnexpectedTerminationError
| E_FunctionArgumentLengthError
| E_FunctionArgumentLengthErrorWithCustomArgs
| E_FunctionInvalidArgumentError
| E_FunctionNotExistError
| E_FunctionRedeclaredError
| E_HttpRequestError
| E_IOError
| E_InLineTableRedefinedError
| E_IncorrectCommandUsageError
| E_IncorrectLateralUsageError
| E_InlineTableCannotBeUpdatedError
| E_InlineTableFieldLengthError
| E_InsertRowValueLengthError
| E_InsertSelectFieldLengthError
| E_IntegerDevidedByZeroError
| E_InternalRecordIdEmptyError
| E_InternalRecordIdNotExistError
| E_InvalidCursorStatementError
| E_InvalidEventNameError
| E_InvalidFetchPositionError
| E_InvalidFlagNameError
| E_InvalidFlagValueError
| E_InvalidFlagValueToBeRemovedError
| E_InvalidLimitNumberError
| E_InvalidLimitPercentageError
| E_InvalidOffsetNumberError
| E_InvalidPathError
| E_InvalidReloadTypeError
| E_InvalidRuntimeInformationError
| E_InvalidTableAttributeNameError
| E_InvalidTableAttributeValueError
| E_InvalidTableObjectError
| E_InvalidUrlError
| E_InvalidValueExpressionError
| E_JsonLinesStructureError
| E_JsonQueryTooManyRecordsError
| E_LoadConfigurationError
| E_LoadJsonError
| E_NestedAggregateFunctionsError
| E_NestedRecursionError
| E_NotAllowedAnalyticFunctionError
| E_NotGroupingRecordsError
| E_NotTableError
| E_PreparedStatementSyntaxError
| E_PseudoCursorError
| E_RecursionExceededLimitError
| E_RemoveFlagNotSupportedNameError
| E_ReplaceKeyNotSetError
| E_ReplaceValueLengthError
| E_RollbackError
| E_RowValueLengthInComparisonError
| E_RowValueLengthInListError
| E_SelectFieldLengthInComparisonError
| E_SelectIntoQueryFieldLengthNotMatchError
| E_SelectIntoQueryTooManyRecordsError
| E_ShowInvalidObjectTypeError
| E_SourceInvalidFilePathError
| E_StatementNotExistError
| E_StatementReplaceValueNotSpecifiedError
| E_StdinEmptyError
| E_SubqueryTooManyFieldsError
| E_SubqueryTooManyRecordsError
| E_SyntaxError
| E_SystemError
| E_TableAttributeValueNotAllowedFormatError
| E_TableFieldLengthError
| E_TableNotLoadedError
| E_TableObjectArgumentsLengthError
| E_TableObjectInvalidArgumentError
| E_TableObjectInvalidDelimiterError
| E_TableObjectInvalidDelimiterPositionsError
| E_TableObjectInvalidJsonQueryError
| E_TableObjectJsonArgumentsLengthError
| E_TemporaryTableFieldLengthError
| E_TemporaryTableRedeclaredError
| E_UndeclaredCursorError
| E_UndeclaredTemporaryTableError
| E_UndeclaredVariableError
| E_UndefinedConstantError
| E_UndefinedInLineTableError
| E_UnknownFormatPlaceholderError
| E_UnsupportedUrlSchemeError
| E_UpdateFieldNotExistError
| E_UpdateValueAmbiguousError
| E_VariableRedeclaredError
| E_ForcedExit (code : Z)                 (* EXIT [code] *)
| E_UserTriggeredError (code : option Z)  (* TRIGGER ERROR [code] [message] *)
| E_SignalReceived (sig : Z)              (* SIGINT/SIGQUIT/SIGTERM delivered while running *)
| E_Foreign.                              (* an `error` that is not a query.Error *)

Definition static_classes : list error_class :=
  [E_AddFlagNotSupportedNameError;
   E_AliasMustBeSpecifiedForUpdateError;
   E_BuiltInFunctionDeclaredError;
   E_CannotDetectFileEncodingError;
   E_CombinedSetFieldLengthError;
   E_CommitError;
   E_ContextCanceled;
   E_ContextDone;
   E_CursorClosedError;
   E_CursorFetchLengthError;
   E_CursorOpenError;
   E_CursorRedeclaredError;
   E_DataEncodingError;
   E_DataParsingError;
   E_DeleteTableNotSpecifiedError;
   E_DuplicateFieldNameError;
   E_DuplicateParameterError;
   E_DuplicateStatementNameError;
   E_DuplicateTableNameError;
   E_EmptyInlineTableError;
   E_ExternalCommandError;
   E_FatalError;
   E_FieldAmbiguousError;
   E_FieldLengthNotMatchError;
   E_FieldNotExistError;
   E_FieldNotGroupKeyError;
   E_FileAlreadyExistError;
   E_FileLockTimeoutError;
   E_FileNameAmbiguousError;
   E_FileNotExistError;
   E_FileUnableToReadError;
   E_FlagValueNotAllowedFormatError;
   E_FormatStringLengthNotMatchError;
   E_FormatUnexpectedTerminationError;
   E_FunctionArgumentLengthError;
   E_FunctionArgumentLengthErrorWithCustomArgs;
   E_FunctionInvalidArgumentError;
   E_FunctionNotExistError;
   E_FunctionRedeclaredError;
   E_HttpRequestError;
   E_IOError;
   E_InLineTableRedefinedError;
   E_IncorrectCommandUsageError;
   E_IncorrectLateralUsageError;
   E_InlineTableCannotBeUpdatedError;
   E_InlineTableFieldLengthError;
   E_InsertRowValueLengthError;
   E_InsertSelectFieldLengthError;
   E_IntegerDevidedByZeroError;
   E_InternalRecordIdEmptyError;
   E_InternalRecordIdNotExistError;
   E_InvalidCursorStatementError;
   E_InvalidEventNameError;
   E_InvalidFetchPositionError;
   E_InvalidFlagNameError;
   E_InvalidFlagValueError;
   E_InvalidFlagValueToBeRemovedError;
   E_InvalidLimitNumberError;
   E_InvalidLimitPercentageError;
   E_InvalidOffsetNumberError;
   E_InvalidPathError;
   E_InvalidReloadTypeError;
   E_InvalidRuntimeInformationError;
   E_InvalidTableAttributeNameError;
   E_InvalidTableAttributeValueError;
   E_InvalidTableObjectError;
   E_InvalidUrlError;
   E_InvalidValueExpressionError;
   E_JsonLinesStructureError;
   E_JsonQueryTooManyRecordsError;
   E_LoadConfigurationError;
   E_LoadJsonError;
   E_NestedAggregateFunctionsError;
   E_NestedRecursionError;
   E_NotAllowedAnalyticFunctionError;
   E_NotGroupingRecordsError;
   E_NotTableError;
   E_PreparedStatementSyntaxError;
   E_PseudoCursorError;
   E_RecursionExceededLimitError;
   E_RemoveFlagNotSupportedNameError;
   E_ReplaceKeyNotSetError;
   E_ReplaceValueLengthError;
   E_RollbackError;
   E_RowValueLengthInComparisonError;
   E_RowValueLengthInListError;
   E_SelectFieldLengthInComparisonError;
   E_SelectIntoQueryFieldLengthNotMatchError;
   E_SelectIntoQueryTooManyRecordsError;
   E_ShowInvalidObjectTypeError;
   E_SourceInvalidFilePathError;
   E_StatementNotExistError;
   E_StatementReplaceValueNotSpecifiedError;
   E_StdinEmptyError;
   E_SubqueryTooManyFieldsError;
   E_SubqueryTooManyRecordsError;
   E_SyntaxError;
   E_SystemError;
   E_TableAttributeValueNotAllowedFormatError;
   E_TableFieldLengthError;
   E_TableNotLoadedError;
   E_TableObjectArgumentsLengthError;
   E_TableObjectInvalidArgumentError;
   E_TableObjectInvalidDelimiterError;
   E_TableObjectInvalidDelimiterPositionsError;
   E_TableObjectInvalidJsonQueryError;
   E_TableObjectJsonArgumentsLengthError;
   E_TemporaryTableFieldLengthError;
   E_TemporaryTableRedeclaredError;
   E_UndeclaredCursorError;
   E_UndeclaredTemporaryTableError;
   E_UndeclaredVariableError;
   E_UndefinedConstantError;
   E_UndefinedInLineTableError;
   E_UnknownFormatPlaceholderError;
   E_UnsupportedUrlSchemeError;
   E_UpdateFieldNotExistError;
   E_UpdateValueAmbiguousError;
   E_VariableRedeclaredError].

Definition is_static (e : error_class) : bool :=
  match e with
  | E_ForcedExit _ | E_UserTriggeredError _ | E_SignalReceived _ | E_Foreign => false
  | _ => true
  end.

(** position of a static class in [static_classes] *)
Definition class_index (e : error_class) : nat :=
  match e with
  | E_AddFlagNotSupportedNameError => 0
  | E_AliasMustBeSpecifiedForUpdateError => 1
  | E_BuiltInFunctionDeclaredError => 2
  | E_CannotDetectFileEncodingError => 3
  | E_CombinedSetFieldLengthError => 4
  | E_CommitError => 5
  | E_ContextCanceled => 6
  | E_ContextDone => 7
  | E_CursorClosedError => 8
  | E_CursorFetchLengthError => 9
  | E_CursorOpenError => 10
  | E_CursorRedeclaredError => 11
  | E_DataEncodingError => 12
  | E_DataParsingError => 13
  | E_DeleteTableNotSpecifiedError => 14
  | E_DuplicateFieldNameError => 15
  | E_DuplicateParameterError => 16
  | E_DuplicateStatementNameError => 17
  | E_DuplicateTableNameError => 18
  | E_EmptyInlineTableError => 19
  | E_ExternalCommandError => 20
  | E_FatalError => 21
  | E_FieldAmbiguousError => 22
  | E_FieldLengthNotMatchError => 23
  | E_FieldNotExistError => 24
  | E_FieldNotGroupKeyError => 25
  | E_FileAlreadyExistError => 26
  | E_FileLockTimeoutError => 27
  | E_FileNameAmbiguousError => 28
  | E_FileNotExistError => 29
  | E_FileUnableToReadError => 30
  | E_FlagValueNotAllowedFormatError => 31
  | E_FormatStringLengthNotMatchError => 32
  | E_FormatUnexpectedTerminationError => 33
  | E_FunctionArgumentLengthError => 34
  | E_FunctionArgumentLengthErrorWithCustomArgs => 35
  | E_FunctionInvalidArgumentError => 36
  | E_FunctionNotExistError => 37
  | E_FunctionRedeclaredError => 38
  | E_HttpRequestError => 39
  | E_IOError => 40
  | E_InLineTableRedefinedError => 41
  | E_IncorrectCommandUsageError => 42
  | E_IncorrectLateralUsageError => 43
  | E_InlineTableCannotBeUpdatedError => 44
  | E_InlineTableFieldLengthError => 45
  | E_InsertRowValueLengthError => 46
  | E_InsertSelectFieldLengthError => 47
  | E_IntegerDevidedByZeroError => 48
  | E_InternalRecordIdEmptyError => 49
  | E_InternalRecordIdNotExistError => 50
  | E_InvalidCursorStatementError => 51
  | E_InvalidEventNameError => 52
  | E_InvalidFetchPositionError => 53
  | E_InvalidFlagNameError => 54
  | E_InvalidFlagValueError => 55
  | E_InvalidFlagValueToBeRemovedError => 56
  | E_InvalidLimitNumberError => 57
  | E_InvalidLimitPercentageError => 58
  | E_InvalidOffsetNumberError => 59
  | E_InvalidPathError => 60
  | E_InvalidReloadTypeError => 61
  | E_InvalidRuntimeInformationError => 62
  | E_InvalidTableAttributeNameError => 63
  | E_InvalidTableAttributeValueError => 64
  | E_InvalidTableObjectError => 65
  | E_InvalidUrlError => 66
  | E_InvalidValueExpressionError => 67
  | E_JsonLinesStructureError => 68
  | E_JsonQueryTooManyRecordsError => 69
  | E_LoadConfigurationError => 70
  | E_LoadJsonError => 71
  | E_NestedAggregateFunctionsError => 72
  | E_NestedRecursionError => 73
  | E_NotAllowedAnalyticFunctionError => 74
  | E_NotGroupingRecordsError => 75
  | E_NotTableError => 76
  | E_PreparedStatementSyntaxError => 77
  | E_PseudoCursorError => 78
  | E_RecursionExceededLimitError => 79
  | E_RemoveFlagNotSupportedNameError => 80
  | E_ReplaceKeyNotSetError => 81
  | E_ReplaceValueLengthError => 82
  | E_RollbackError => 83
  | E_RowValueLengthInComparisonError => 84
  | E_RowValueLengthInListError => 85
  | E_SelectFieldLengthInComparisonError => 86
  | E_SelectIntoQueryFieldLengthNotMatchError => 87
  | E_SelectIntoQueryTooManyRecordsError => 88
  | E_ShowInvalidObjectTypeError => 89
  | E_SourceInvalidFilePathError => 90
  | E_StatementNotExistError => 91
  | E_StatementReplaceValueNotSpecifiedError => 92
  | E_StdinEmptyError => 93
  | E_SubqueryTooManyFieldsError => 94
  | E_SubqueryTooManyRecordsError => 95
  | E_SyntaxError => 96
  | E_SystemError => 97
  | E_TableAttributeValueNotAllowedFormatError => 98
  | E_TableFieldLengthError => 99
  | E_TableNotLoadedError => 100
  | E_TableObjectArgumentsLengthError => 101
  | E_TableObjectInvalidArgumentError => 102
  | E_TableObjectInvalidDelimiterError => 103
  | E_TableObjectInvalidDelimiterPositionsError => 104
  | E_TableObjectInvalidJsonQueryError => 105
  | E_TableObjectJsonArgumentsLengthError => 106
  | E_TemporaryTableFieldLengthError => 107
  | E_TemporaryTableRedeclaredError => 108
  | E_UndeclaredCursorError => 109
  | E_UndeclaredTemporaryTableError => 110
  | E_UndeclaredVariableError => 111
  | E_UndefinedConstantError => 112
  | E_UndefinedInLineTableError => 113
  | E_UnknownFormatPlaceholderError => 114
  | E_UnsupportedUrlSchemeError => 115
  | E_UpdateFieldNotExistError => 116
  | E_UpdateValueAmbiguousError => 117
  | E_VariableRedeclaredError => 118
  | _ => 119
  end%nat.

(** the ReturnCode… constant the constructor passes; [None]: computed at run time / not a query.Error *)
Definition category_of (e : error_class) : option category :=
  match e with
  | E_AddFlagNotSupportedNameError => Some CatApplicationError
  | E_AliasMustBeSpecifiedForUpdateError => Some CatApplicationError
  | E_BuiltInFunctionDeclaredError => Some CatApplicationError
  | E_CannotDetectFileEncodingError => Some CatApplicationError
  | E_CombinedSetFieldLengthError => Some CatApplicationError
  | E_CommitError => Some CatIOError
  | E_ContextCanceled => Some CatContextDone
  | E_ContextDone => Some CatContextDone
  | E_CursorClosedError => Some CatApplicationError
  | E_CursorFetchLengthError => Some CatApplicationError
  | E_CursorOpenError => Some CatApplicationError
  | E_CursorRedeclaredError => Some CatApplicationError
  | E_DataEncodingError => Some CatApplicationError
  | E_DataParsingError => Some CatApplicationError
  | E_DeleteTableNotSpecifiedError => Some CatApplicationError
  | E_DuplicateFieldNameError => Some CatApplicationError
  | E_DuplicateParameterError => Some CatApplicationError
  | E_DuplicateStatementNameError => Some CatApplicationError
  | E_DuplicateTableNameError => Some CatApplicationError
  | E_EmptyInlineTableError => Some CatApplicationError
  | E_ExternalCommandError => Some CatSystemError
  | E_FatalError => Some CatApplicationError
  | E_FieldAmbiguousError => Some CatApplicationError
  | E_FieldLengthNotMatchError => Some CatApplicationError
  | E_FieldNotExistError => Some CatApplicationError
  | E_FieldNotGroupKeyError => Some CatApplicationError
  | E_FileAlreadyExistError => Some CatIOError
  | E_FileLockTimeoutError => Some CatContextDone
  | E_FileNameAmbiguousError => Some CatApplicationError
  | E_FileNotExistError => Some CatIOError
  | E_FileUnableToReadError => Some CatIOError
  | E_FlagValueNotAllowedFormatError => Some CatApplicationError
  | E_FormatStringLengthNotMatchError => Some CatApplicationError
  | E_FormatUnexpectedTerminationError => Some CatApplicationError
  | E_FunctionArgumentLengthError => Some CatApplicationError
  | E_FunctionArgumentLengthErrorWithCustomArgs => Some CatApplicationError
  | E_FunctionInvalidArgumentError => Some CatApplicationError
  | E_FunctionNotExistError => Some CatApplicationError
  | E_FunctionRedeclaredError => Some CatApplicationError
  | E_HttpRequestError => Some CatSystemError
  | E_IOError => Some CatIOError
  | E_InLineTableRedefinedError => Some CatApplicationError
  | E_IncorrectCommandUsageError => Some CatIncorrectUsage
  | E_IncorrectLateralUsageError => Some CatApplicationError
  | E_InlineTableCannotBeUpdatedError => Some CatApplicationError
  | E_InlineTableFieldLengthError => Some CatApplicationError
  | E_InsertRowValueLengthError => Some CatApplicationError
  | E_InsertSelectFieldLengthError => Some CatApplicationError
  | E_IntegerDevidedByZeroError => Some CatApplicationError
  | E_InternalRecordIdEmptyError => Some CatApplicationError
  | E_InternalRecordIdNotExistError => Some CatApplicationError
  | E_InvalidCursorStatementError => Some CatApplicationError
  | E_InvalidEventNameError => Some CatApplicationError
  | E_InvalidFetchPositionError => Some CatApplicationError
  | E_InvalidFlagNameError => Some CatApplicationError
  | E_InvalidFlagValueError => Some CatApplicationError
  | E_InvalidFlagValueToBeRemovedError => Some CatApplicationError
  | E_InvalidLimitNumberError => Some CatApplicationError
  | E_InvalidLimitPercentageError => Some CatApplicationError
  | E_InvalidOffsetNumberError => Some CatApplicationError
  | E_InvalidPathError => Some CatIOError
  | E_InvalidReloadTypeError => Some CatApplicationError
  | E_InvalidRuntimeInformationError => Some CatApplicationError
  | E_InvalidTableAttributeNameError => Some CatApplicationError
  | E_InvalidTableAttributeValueError => Some CatApplicationError
  | E_InvalidTableObjectError => Some CatApplicationError
  | E_InvalidUrlError => Some CatApplicationError
  | E_InvalidValueExpressionError => Some CatSyntaxError
  | E_JsonLinesStructureError => Some CatApplicationError
  | E_JsonQueryTooManyRecordsError => Some CatApplicationError
  | E_LoadConfigurationError => Some CatApplicationError
  | E_LoadJsonError => Some CatApplicationError
  | E_NestedAggregateFunctionsError => Some CatSyntaxError
  | E_NestedRecursionError => Some CatApplicationError
  | E_NotAllowedAnalyticFunctionError => Some CatApplicationError
  | E_NotGroupingRecordsError => Some CatApplicationError
  | E_NotTableError => Some CatApplicationError
  | E_PreparedStatementSyntaxError => Some CatSyntaxError
  | E_PseudoCursorError => Some CatApplicationError
  | E_RecursionExceededLimitError => Some CatApplicationError
  | E_RemoveFlagNotSupportedNameError => Some CatApplicationError
  | E_ReplaceKeyNotSetError => Some CatApplicationError
  | E_ReplaceValueLengthError => Some CatApplicationError
  | E_RollbackError => Some CatIOError
  | E_RowValueLengthInComparisonError => Some CatApplicationError
  | E_RowValueLengthInListError => Some CatApplicationError
  | E_SelectFieldLengthInComparisonError => Some CatApplicationError
  | E_SelectIntoQueryFieldLengthNotMatchError => Some CatApplicationError
  | E_SelectIntoQueryTooManyRecordsError => Some CatApplicationError
  | E_ShowInvalidObjectTypeError => Some CatApplicationError
  | E_SourceInvalidFilePathError => Some CatApplicationError
  | E_StatementNotExistError => Some CatApplicationError
  | E_StatementReplaceValueNotSpecifiedError => Some CatApplicationError
  | E_StdinEmptyError => Some CatApplicationError
  | E_SubqueryTooManyFieldsError => Some CatApplicationError
  | E_SubqueryTooManyRecordsError => Some CatApplicationError
  | E_SyntaxError => Some CatSyntaxError
  | E_SystemError => Some CatSystemError
  | E_TableAttributeValueNotAllowedFormatError => Some CatApplicationError
  | E_TableFieldLengthError => Some CatApplicationError
  | E_TableNotLoadedError => Some CatApplicationError
  | E_TableObjectArgumentsLengthError => Some CatApplicationError
  | E_TableObjectInvalidArgumentError => Some CatApplicationError
  | E_TableObjectInvalidDelimiterError => Some CatApplicationError
  | E_TableObjectInvalidDelimiterPositionsError => Some CatApplicationError
  | E_TableObjectInvalidJsonQueryError => Some CatApplicationError
  | E_TableObjectJsonArgumentsLengthError => Some CatApplicationError
  | E_TemporaryTableFieldLengthError => Some CatApplicationError
  | E_TemporaryTableRedeclaredError => Some CatApplicationError
  | E_UndeclaredCursorError => Some CatApplicationError
  | E_UndeclaredTemporaryTableError => Some CatApplicationError
  | E_UndeclaredVariableError => Some CatApplicationError
  | E_UndefinedConstantError => Some CatApplicationError
  | E_UndefinedInLineTableError => Some CatApplicationError
  | E_UnknownFormatPlaceholderError => Some CatApplicationError
  | E_UnsupportedUrlSchemeError => Some CatApplicationError
  | E_UpdateFieldNotExistError => Some CatApplicationError
  | E_UpdateValueAmbiguousError => Some CatApplicationError
  | E_VariableRedeclaredError => Some CatApplicationError
  | E_UserTriggeredError None => Some CatDefaultUserTriggeredError
  | E_ForcedExit _ | E_UserTriggeredError (Some _) | E_SignalReceived _ | E_Foreign => None
  end.

(** BaseError.code as the constructor sets it; for [E_Foreign]: cli.Exit's default *)
Definition exit_code (e : error_class) : Z :=
  match e with
  | E_ForcedExit c => c
  | E_UserTriggeredError (Some c) => c
  | E_SignalReceived s => return_code_base_signal + s
  | E_Foreign => category_code CatApplicationError
  | _ => match category_of e with Some c => category_code c | None => 0 end
  end.

(** BaseError.number *)
Definition error_number (e : error_class) : option Z :=
  match e with
  | E_AddFlagNotSupportedNameError => Some 12801 (* ErrorAddFlagNotSupportedName *)
  | E_AliasMustBeSpecifiedForUpdateError => Some 11605 (* ErrorAliasMustBeSpecifiedForUpdate *)
  | E_BuiltInFunctionDeclaredError => Some 10502 (* ErrorBuiltInFunctionDeclared *)
  | E_CannotDetectFileEncodingError => Some 10001 (* ErrorCannotDetectFileEncoding *)
  | E_CombinedSetFieldLengthError => Some 12001 (* ErrorCombinedSetFieldLength *)
  | E_CommitError => Some 90171 (* ErrorCommit *)
  | E_ContextCanceled => Some 90081 (* ErrorContextCanceled *)
  | E_ContextDone => Some 90080 (* ErrorContextDone *)
  | E_CursorClosedError => Some 11003 (* ErrorCursorClosed *)
  | E_CursorFetchLengthError => Some 11007 (* ErrorCursorFetchLength *)
  | E_CursorOpenError => Some 11004 (* ErrorCursorOpen *)
  | E_CursorRedeclaredError => Some 11001 (* ErrorCursorRedeclared *)
  | E_DataEncodingError => Some 11351 (* ErrorDataEncoding *)
  | E_DataParsingError => Some 11301 (* ErrorDataParsing *)
  | E_DeleteTableNotSpecifiedError => Some 12301 (* ErrorDeleteTableNotSpecified *)
  | E_DuplicateFieldNameError => Some 10104 (* ErrorDuplicateFieldName *)
  | E_DuplicateParameterError => Some 10503 (* ErrorDuplicateParameter *)
  | E_DuplicateStatementNameError => Some 13801 (* ErrorDuplicateStatementName *)
  | E_DuplicateTableNameError => Some 11601 (* ErrorDuplicateTableName *)
  | E_EmptyInlineTableError => Some 10803 (* ErrorEmptyInlineTable *)
  | E_ExternalCommandError => Some 30330 (* ErrorExternalCommand *)
  | E_FatalError => Some 1 (* ErrorFatal *)
  | E_FieldAmbiguousError => Some 10101 (* ErrorFieldAmbiguous *)
  | E_FieldLengthNotMatchError => Some 13301 (* ErrorFieldLengthNotMatch *)
  | E_FieldNotExistError => Some 10102 (* ErrorFieldNotExist *)
  | E_FieldNotGroupKeyError => Some 10103 (* ErrorFieldNotGroupKey *)
  | E_FileAlreadyExistError => Some 90182 (* ErrorFileAlreadyExist *)
  | E_FileLockTimeoutError => Some 90082 (* ErrorFileLockTimeout *)
  | E_FileNameAmbiguousError => Some 11201 (* ErrorFileNameAmbiguous *)
  | E_FileNotExistError => Some 90181 (* ErrorFileNotExist *)
  | E_FileUnableToReadError => Some 90183 (* ErrorFileUnableToRead *)
  | E_FlagValueNotAllowedFormatError => Some 12702 (* ErrorFlagValueNowAllowedFormat *)
  | E_FormatStringLengthNotMatchError => Some 13501 (* ErrorFormatStringLengthNotMatch *)
  | E_FormatUnexpectedTerminationError => Some 13503 (* ErrorFormatUnexpectedTermination *)
  | E_FunctionArgumentLengthError => Some 10402 (* ErrorFunctionArgumentsLength *)
  | E_FunctionArgumentLengthErrorWithCustomArgs => Some 10402 (* ErrorFunctionArgumentsLength *)
  | E_FunctionInvalidArgumentError => Some 10403 (* ErrorFunctionInvalidArgument *)
  | E_FunctionNotExistError => Some 10401 (* ErrorFunctionNotExist *)
  | E_FunctionRedeclaredError => Some 10501 (* ErrorFunctionRedeclared *)
  | E_HttpRequestError => Some 30400 (* ErrorHttpRequestError *)
  | E_IOError => Some 90160 (* ErrorIO *)
  | E_InLineTableRedefinedError => Some 11101 (* ErrorInlineTableRedefined *)
  | E_IncorrectCommandUsageError => Some 90020 (* ErrorIncorrectCommandUsage *)
  | E_IncorrectLateralUsageError => Some 10802 (* ErrorIncorrectLateralUsage *)
  | E_InlineTableCannotBeUpdatedError => Some 11604 (* ErrorInlineTableCannotBeUpdated *)
  | E_InlineTableFieldLengthError => Some 11103 (* ErrorInlineTableFieldLength *)
  | E_InsertRowValueLengthError => Some 12101 (* ErrorInsertRowValueLength *)
  | E_InsertSelectFieldLengthError => Some 12102 (* ErrorInsertSelectFieldLength *)
  | E_IntegerDevidedByZeroError => Some 30000 (* ErrorIntegerDevidedByZero *)
  | E_InternalRecordIdEmptyError => Some 13202 (* ErrorInternalRecordIdEmpty *)
  | E_InternalRecordIdNotExistError => Some 13201 (* ErrorInternalRecordIdNotExist *)
  | E_InvalidCursorStatementError => Some 11005 (* ErrorInvalidCursorStatement *)
  | E_InvalidEventNameError => Some 13101 (* ErrorInvalidEventName *)
  | E_InvalidFetchPositionError => Some 11008 (* ErrorInvalidFetchPosition *)
  | E_InvalidFlagNameError => Some 12701 (* ErrorInvalidFlagName *)
  | E_InvalidFlagValueError => Some 12703 (* ErrorInvalidFlagValue *)
  | E_InvalidFlagValueToBeRemovedError => Some 12803 (* ErrorInvalidFlagValueToBeRemoved *)
  | E_InvalidLimitNumberError => Some 11802 (* ErrorInvalidLimitNumber *)
  | E_InvalidLimitPercentageError => Some 11801 (* ErrorInvalidLimitPercentage *)
  | E_InvalidOffsetNumberError => Some 11901 (* ErrorInvalidOffsetNumber *)
  | E_InvalidPathError => Some 90180 (* ErrorInvalidPath *)
  | E_InvalidReloadTypeError => Some 13601 (* ErrorInvalidReloadType *)
  | E_InvalidRuntimeInformationError => Some 12901 (* ErrorInvalidRuntimeInformation *)
  | E_InvalidTableAttributeNameError => Some 13002 (* ErrorInvalidTableAttributeName *)
  | E_InvalidTableAttributeValueError => Some 13004 (* ErrorInvalidTableAttributeValue *)
  | E_InvalidTableObjectError => Some 10901 (* ErrorInvalidTableObject *)
  | E_InvalidUrlError => Some 10341 (* ErrorInvalidUrl *)
  | E_InvalidValueExpressionError => Some 90041 (* ErrorInvalidValueExpression *)
  | E_JsonLinesStructureError => Some 10704 (* ErrorJsonLinesStructure *)
  | E_JsonQueryTooManyRecordsError => Some 10701 (* ErrorJsonQueryTooManyRecords *)
  | E_LoadConfigurationError => Some 13701 (* ErrorLoadConfiguration *)
  | E_LoadJsonError => Some 10702 (* ErrorLoadJson *)
  | E_NestedAggregateFunctionsError => Some 90042 (* ErrorNestedAggregateFunctions *)
  | E_NestedRecursionError => Some 12003 (* ErrorNestedRecursion *)
  | E_NotAllowedAnalyticFunctionError => Some 10202 (* ErrorNotAllowedAnalyticFunction *)
  | E_NotGroupingRecordsError => Some 10201 (* ErrorNotGroupingRecords *)
  | E_NotTableError => Some 13001 (* ErrorNotTable *)
  | E_PreparedStatementSyntaxError => Some 90043 (* ErrorPreparedStatementSyntaxError *)
  | E_PseudoCursorError => Some 11006 (* ErrorPseudoCursor *)
  | E_RecursionExceededLimitError => Some 12002 (* ErrorRecursionExceededLimit *)
  | E_RemoveFlagNotSupportedNameError => Some 12802 (* ErrorRemoveFlagNotSupportedName *)
  | E_ReplaceKeyNotSetError => Some 13901 (* ErrorReplaceKeyNotSet *)
  | E_ReplaceValueLengthError => Some 12501 (* ErrorReplaceValueLength *)
  | E_RollbackError => Some 90172 (* ErrorRollback *)
  | E_RowValueLengthInComparisonError => Some 11701 (* ErrorRowValueLengthInComparison *)
  | E_RowValueLengthInListError => Some 13401 (* ErrorRowValueLengthInList *)
  | E_SelectFieldLengthInComparisonError => Some 11702 (* ErrorFieldLengthInComparison *)
  | E_SelectIntoQueryFieldLengthNotMatchError => Some 14001 (* ErrorSelectIntoQueryFieldLengthNotMatch *)
  | E_SelectIntoQueryTooManyRecordsError => Some 14002 (* ErrorSelectIntoQueryTooManyRecords *)
  | E_ShowInvalidObjectTypeError => Some 12401 (* ErrorShowInvalidObjectType *)
  | E_SourceInvalidFilePathError => Some 12601 (* ErrorSourceInvalidFilePath *)
  | E_StatementNotExistError => Some 13802 (* ErrorStatementNotExist *)
  | E_StatementReplaceValueNotSpecifiedError => Some 13803 (* ErrorStatementReplaceValueNotSpecified *)
  | E_StdinEmptyError => Some 11603 (* ErrorStdinEmpty *)
  | E_SubqueryTooManyFieldsError => Some 10602 (* ErrorSubqueryTooManyFields *)
  | E_SubqueryTooManyRecordsError => Some 10601 (* ErrorSubqueryTooManyRecords *)
  | E_SyntaxError => Some 90040 (* ErrorSyntaxError *)
  | E_SystemError => Some 90320 (* ErrorSystemError *)
  | E_TableAttributeValueNotAllowedFormatError => Some 13003 (* ErrorTableAttributeValueNotAllowedFormat *)
  | E_TableFieldLengthError => Some 11401 (* ErrorTableFieldLength *)
  | E_TableNotLoadedError => Some 11602 (* ErrorTableNotLoaded *)
  | E_TableObjectArgumentsLengthError => Some 10905 (* ErrorTableObjectArgumentsLength *)
  | E_TableObjectInvalidArgumentError => Some 10907 (* ErrorTableObjectInvalidArgument *)
  | E_TableObjectInvalidDelimiterError => Some 10902 (* ErrorTableObjectInvalidDelimiter *)
  | E_TableObjectInvalidDelimiterPositionsError => Some 10903 (* ErrorTableObjectInvalidDelimiterPositions *)
  | E_TableObjectInvalidJsonQueryError => Some 10904 (* ErrorTableObjectInvalidJsonQuery *)
  | E_TableObjectJsonArgumentsLengthError => Some 10906 (* ErrorTableObjectJsonArgumentsLength *)
  | E_TemporaryTableFieldLengthError => Some 11503 (* ErrorTemporaryTableFieldLength *)
  | E_TemporaryTableRedeclaredError => Some 11501 (* ErrorTemporaryTableRedeclared *)
  | E_UndeclaredCursorError => Some 11002 (* ErrorUndeclaredCursor *)
  | E_UndeclaredTemporaryTableError => Some 11502 (* ErrorUndeclaredTemporaryTable *)
  | E_UndeclaredVariableError => Some 10301 (* ErrorUndeclaredVariable *)
  | E_UndefinedConstantError => Some 10321 (* ErrorUndefinedConstant *)
  | E_UndefinedInLineTableError => Some 11102 (* ErrorUndefinedInlineTable *)
  | E_UnknownFormatPlaceholderError => Some 13502 (* ErrorUnknownFormatPlaceholder *)
  | E_UnsupportedUrlSchemeError => Some 10342 (* ErrorUnsupportedUrlScheme *)
  | E_UpdateFieldNotExistError => Some 12201 (* ErrorUpdateFieldNotExist *)
  | E_UpdateValueAmbiguousError => Some 12202 (* ErrorUpdateValueAmbiguous *)
  | E_VariableRedeclaredError => Some 10302 (* ErrorVariableRedeclared *)
  | E_ForcedExit _ => Some 90640 (* ErrorExit *)
  | E_UserTriggeredError _ => Some 90650 (* ErrorUserTriggered *)
  | E_SignalReceived s => Some (error_signal_base + s)
  | E_Foreign => None
  end.

Definition ctor_name (e : error_class) : str :=
  match e with
  | E_AddFlagNotSupportedNameError => [78;101;119;65;100;100;70;108;97;103;78;111;116;83;117;112;112;111;114;116;101;100;78;97;109;101;69;114;114;111;114]%N (* NewAddFlagNotSupportedNameError *)
  | E_AliasMustBeSpecifiedForUpdateError => [78;101;119;65;108;105;97;115;77;117;115;116;66;101;83;112;101;99;105;102;105;101;100;70;111;114;85;112;100;97;116;101;69;114;114;111;114]%N (* NewAliasMustBeSpecifiedForUpdateError *)
  | E_BuiltInFunctionDeclaredError => [78;101;119;66;117;105;108;116;73;110;70;117;110;99;116;105;111;110;68;101;99;108;97;114;101;100;69;114;114;111;114]%N (* NewBuiltInFunctionDeclaredError *)
  | E_CannotDetectFileEncodingError => [78;101;119;67;97;110;110;111;116;68;101;116;101;99;116;70;105;108;101;69;110;99;111;100;105;110;103;69;114;114;111;114]%N (* NewCannotDetectFileEncodingError *)
  | E_CombinedSetFieldLengthError => [78;101;119;67;111;109;98;105;110;101;100;83;101;116;70;105;101;108;100;76;101;110;103;116;104;69;114;114;111;114]%N (* NewCombinedSetFieldLengthError *)
  | E_CommitError => [78;101;119;67;111;109;109;105;116;69;114;114;111;114]%N (* NewCommitError *)
  | E_ContextCanceled => [78;101;119;67;111;110;116;101;120;116;67;97;110;99;101;108;101;100]%N (* NewContextCanceled *)
  | E_ContextDone => [78;101;119;67;111;110;116;101;120;116;68;111;110;101]%N (* NewContextDone *)
  | E_CursorClosedError => [78;101;119;67;117;114;115;111;114;67;108;111;115;101;100;69;114;114;111;114]%N (* NewCursorClosedError *)
  | E_CursorFetchLengthError => [78;101;119;67;117;114;115;111;114;70;101;116;99;104;76;101;110;103;116;104;69;114;114;111;114]%N (* NewCursorFetchLengthError *)
  | E_CursorOpenError => [78;101;119;67;117;114;115;111;114;79;112;101;110;69;114;114;111;114]%N (* NewCursorOpenError *)
  | E_CursorRedeclaredError => [78;101;119;67;117;114;115;111;114;82;101;100;101;99;108;97;114;101;100;69;114;114;111;114]%N (* NewCursorRedeclaredError *)
  | E_DataEncodingError => [78;101;119;68;97;116;97;69;110;99;111;100;105;110;103;69;114;114;111;114]%N (* NewDataEncodingError *)
  | E_DataParsingError => [78;101;119;68;97;116;97;80;97;114;115;105;110;103;69;114;114;111;114]%N (* NewDataParsingError *)
  | E_DeleteTableNotSpecifiedError => [78;101;119;68;101;108;101;116;101;84;97;98;108;101;78;111;116;83;112;101;99;105;102;105;101;100;69;114;114;111;114]%N (* NewDeleteTableNotSpecifiedError *)
  | E_DuplicateFieldNameError => [78;101;119;68;117;112;108;105;99;97;116;101;70;105;101;108;100;78;97;109;101;69;114;114;111;114]%N (* NewDuplicateFieldNameError *)
  | E_DuplicateParameterError => [78;101;119;68;117;112;108;105;99;97;116;101;80;97;114;97;109;101;116;101;114;69;114;114;111;114]%N (* NewDuplicateParameterError *)
  | E_DuplicateStatementNameError => [78;101;119;68;117;112;108;105;99;97;116;101;83;116;97;116;101;109;101;110;116;78;97;109;101;69;114;114;111;114]%N (* NewDuplicateStatementNameError *)
  | E_DuplicateTableNameError => [78;101;119;68;117;112;108;105;99;97;116;101;84;97;98;108;101;78;97;109;101;69;114;114;111;114]%N (* NewDuplicateTableNameError *)
  | E_EmptyInlineTableError => [78;101;119;69;109;112;116;121;73;110;108;105;110;101;84;97;98;108;101;69;114;114;111;114]%N (* NewEmptyInlineTableError *)
  | E_ExternalCommandError => [78;101;119;69;120;116;101;114;110;97;108;67;111;109;109;97;110;100;69;114;114;111;114]%N (* NewExternalCommandError *)
  | E_FatalError => [78;101;119;70;97;116;97;108;69;114;114;111;114]%N (* NewFatalError *)
  | E_FieldAmbiguousError => [78;101;119;70;105;101;108;100;65;109;98;105;103;117;111;117;115;69;114;114;111;114]%N (* NewFieldAmbiguousError *)
  | E_FieldLengthNotMatchError => [78;101;119;70;105;101;108;100;76;101;110;103;116;104;78;111;116;77;97;116;99;104;69;114;114;111;114]%N (* NewFieldLengthNotMatchError *)
  | E_FieldNotExistError => [78;101;119;70;105;101;108;100;78;111;116;69;120;105;115;116;69;114;114;111;114]%N (* NewFieldNotExistError *)
  | E_FieldNotGroupKeyError => [78;101;119;70;105;101;108;100;78;111;116;71;114;111;117;112;75;101;121;69;114;114;111;114]%N (* NewFieldNotGroupKeyError *)
  | E_FileAlreadyExistError => [78;101;119;70;105;108;101;65;108;114;101;97;100;121;69;120;105;115;116;69;114;114;111;114]%N (* NewFileAlreadyExistError *)
  | E_FileLockTimeoutError => [78;101;119;70;105;108;101;76;111;99;107;84;105;109;101;111;117;116;69;114;114;111;114]%N (* NewFileLockTimeoutError *)
  | E_FileNameAmbiguousError => [78;101;119;70;105;108;101;78;97;109;101;65;109;98;105;103;117;111;117;115;69;114;114;111;114]%N (* NewFileNameAmbiguousError *)
  | E_FileNotExistError => [78;101;119;70;105;108;101;78;111;116;69;120;105;115;116;69;114;114;111;114]%N (* NewFileNotExistError *)
  | E_FileUnableToReadError => [78;101;119;70;105;108;101;85;110;97;98;108;101;84;111;82;101;97;100;69;114;114;111;114]%N (* NewFileUnableToReadError *)
  | E_FlagValueNotAllowedFormatError => [78;101;119;70;108;97;103;86;97;108;117;101;78;111;116;65;108;108;111;119;101;100;70;111;114;109;97;116;69;114;114;111;114]%N (* NewFlagValueNotAllowedFormatError *)
  | E_ForcedExit _ => [78;101;119;70;111;114;99;101;100;69;120;105;116]%N (* NewForcedExit *)
  | E_FormatStringLengthNotMatchError => [78;101;119;70;111;114;109;97;116;83;116;114;105;110;103;76;101;110;103;116;104;78;111;116;77;97;116;99;104;69;114;114;111;114]%N (* NewFormatStringLengthNotMatchError *)
  | E_FormatUnexpectedTerminationError => [78;101;119;70;111;114;109;97;116;85;110;101;120;112;101;99;116;101;100;84;101;114;109;105;110;97;116;105;111;110;69;114;114;111;114]%N (* NewFormatUnexpectedTerminationError *)
  | E_FunctionArgumentLengthError => [78;101;119;70;117;110;99;116;105;111;110;65;114;103;117;109;101;110;116;76;101;110;103;116;104;69;114;114;111;114]%N (* NewFunctionArgumentLengthError *)
  | E_FunctionArgumentLengthErrorWithCustomArgs => [78;101;119;70;117;110;99;116;105;111;110;65;114;103;117;109;101;110;116;76;101;110;103;116;104;69;114;114;111;114;87;105;116;104;67;117;115;116;111;109;65;114;103;115]%N (* NewFunctionArgumentLengthErrorWithCustomArgs *)
  | E_FunctionInvalidArgumentError => [78;101;119;70;117;110;99;116;105;111;110;73;110;118;97;108;105;100;65;114;103;117;109;101;110;116;69;114;114;111;114]%N (* NewFunctionInvalidArgumentError *)
  | E_FunctionNotExistError => [78;101;119;70;117;110;99;116;105;111;110;78;111;116;69;120;105;115;116;69;114;114;111;114]%N (* NewFunctionNotExistError *)
  | E_FunctionRedeclaredError => [78;101;119;70;117;110;99;116;105;111;110;82;101;100;101;99;108;97;114;101;100;69;114;114;111;114]%N (* NewFunctionRedeclaredError *)
  | E_HttpRequestError => [78;101;119;72;116;116;112;82;101;113;117;101;115;116;69;114;114;111;114]%N (* NewHttpRequestError *)
  | E_IOError => [78;101;119;73;79;69;114;114;111;114]%N (* NewIOError *)
  | E_InLineTableRedefinedError => [78;101;119;73;110;76;105;110;101;84;97;98;108;101;82;101;100;101;102;105;110;101;100;69;114;114;111;114]%N (* NewInLineTableRedefinedError *)
  | E_IncorrectCommandUsageError => [78;101;119;73;110;99;111;114;114;101;99;116;67;111;109;109;97;110;100;85;115;97;103;101;69;114;114;111;114]%N (* NewIncorrectCommandUsageError *)
  | E_IncorrectLateralUsageError => [78;101;119;73;110;99;111;114;114;101;99;116;76;97;116;101;114;97;108;85;115;97;103;101;69;114;114;111;114]%N (* NewIncorrectLateralUsageError *)
  | E_InlineTableCannotBeUpdatedError => [78;101;119;73;110;108;105;110;101;84;97;98;108;101;67;97;110;110;111;116;66;101;85;112;100;97;116;101;100;69;114;114;111;114]%N (* NewInlineTableCannotBeUpdatedError *)
  | E_InlineTableFieldLengthError => [78;101;119;73;110;108;105;110;101;84;97;98;108;101;70;105;101;108;100;76;101;110;103;116;104;69;114;114;111;114]%N (* NewInlineTableFieldLengthError *)
  | E_InsertRowValueLengthError => [78;101;119;73;110;115;101;114;116;82;111;119;86;97;108;117;101;76;101;110;103;116;104;69;114;114;111;114]%N (* NewInsertRowValueLengthError *)
  | E_InsertSelectFieldLengthError => [78;101;119;73;110;115;101;114;116;83;101;108;101;99;116;70;105;101;108;100;76;101;110;103;116;104;69;114;114;111;114]%N (* NewInsertSelectFieldLengthError *)
  | E_IntegerDevidedByZeroError => [78;101;119;73;110;116;101;103;101;114;68;101;118;105;100;101;100;66;121;90;101;114;111;69;114;114;111;114]%N (* NewIntegerDevidedByZeroError *)
  | E_InternalRecordIdEmptyError => [78;101;119;73;110;116;101;114;110;97;108;82;101;99;111;114;100;73;100;69;109;112;116;121;69;114;114;111;114]%N (* NewInternalRecordIdEmptyError *)
  | E_InternalRecordIdNotExistError => [78;101;119;73;110;116;101;114;110;97;108;82;101;99;111;114;100;73;100;78;111;116;69;120;105;115;116;69;114;114;111;114]%N (* NewInternalRecordIdNotExistError *)
  | E_InvalidCursorStatementError => [78;101;119;73;110;118;97;108;105;100;67;117;114;115;111;114;83;116;97;116;101;109;101;110;116;69;114;114;111;114]%N (* NewInvalidCursorStatementError *)
  | E_InvalidEventNameError => [78;101;119;73;110;118;97;108;105;100;69;118;101;110;116;78;97;109;101;69;114;114;111;114]%N (* NewInvalidEventNameError *)
  | E_InvalidFetchPositionError => [78;101;119;73;110;118;97;108;105;100;70;101;116;99;104;80;111;115;105;116;105;111;110;69;114;114;111;114]%N (* NewInvalidFetchPositionError *)
  | E_InvalidFlagNameError => [78;101;119;73;110;118;97;108;105;100;70;108;97;103;78;97;109;101;69;114;114;111;114]%N (* NewInvalidFlagNameError *)
  | E_InvalidFlagValueError => [78;101;119;73;110;118;97;108;105;100;70;108;97;103;86;97;108;117;101;69;114;114;111;114]%N (* NewInvalidFlagValueError *)
  | E_InvalidFlagValueToBeRemovedError => [78;101;119;73;110;118;97;108;105;100;70;108;97;103;86;97;108;117;101;84;111;66;101;82;101;109;111;118;101;100;69;114;114;111;114]%N (* NewInvalidFlagValueToBeRemovedError *)
  | E_InvalidLimitNumberError => [78;101;119;73;110;118;97;108;105;100;76;105;109;105;116;78;117;109;98;101;114;69;114;114;111;114]%N (* NewInvalidLimitNumberError *)
  | E_InvalidLimitPercentageError => [78;101;119;73;110;118;97;108;105;100;76;105;109;105;116;80;101;114;99;101;110;116;97;103;101;69;114;114;111;114]%N (* NewInvalidLimitPercentageError *)
  | E_InvalidOffsetNumberError => [78;101;119;73;110;118;97;108;105;100;79;102;102;115;101;116;78;117;109;98;101;114;69;114;114;111;114]%N (* NewInvalidOffsetNumberError *)
  | E_InvalidPathError => [78;101;119;73;110;118;97;108;105;100;80;97;116;104;69;114;114;111;114]%N (* NewInvalidPathError *)
  | E_InvalidReloadTypeError => [78;101;119;73;110;118;97;108;105;100;82;101;108;111;97;100;84;121;112;101;69;114;114;111;114]%N (* NewInvalidReloadTypeError *)
  | E_InvalidRuntimeInformationError => [78;101;119;73;110;118;97;108;105;100;82;117;110;116;105;109;101;73;110;102;111;114;109;97;116;105;111;110;69;114;114;111;114]%N (* NewInvalidRuntimeInformationError *)
  | E_InvalidTableAttributeNameError => [78;101;119;73;110;118;97;108;105;100;84;97;98;108;101;65;116;116;114;105;98;117;116;101;78;97;109;101;69;114;114;111;114]%N (* NewInvalidTableAttributeNameError *)
  | E_InvalidTableAttributeValueError => [78;101;119;73;110;118;97;108;105;100;84;97;98;108;101;65;116;116;114;105;98;117;116;101;86;97;108;117;101;69;114;114;111;114]%N (* NewInvalidTableAttributeValueError *)
  | E_InvalidTableObjectError => [78;101;119;73;110;118;97;108;105;100;84;97;98;108;101;79;98;106;101;99;116;69;114;114;111;114]%N (* NewInvalidTableObjectError *)
  | E_InvalidUrlError => [78;101;119;73;110;118;97;108;105;100;85;114;108;69;114;114;111;114]%N (* NewInvalidUrlError *)
  | E_InvalidValueExpressionError => [78;101;119;73;110;118;97;108;105;100;86;97;108;117;101;69;120;112;114;101;115;115;105;111;110;69;114;114;111;114]%N (* NewInvalidValueExpressionError *)
  | E_JsonLinesStructureError => [78;101;119;74;115;111;110;76;105;110;101;115;83;116;114;117;99;116;117;114;101;69;114;114;111;114]%N (* NewJsonLinesStructureError *)
  | E_JsonQueryTooManyRecordsError => [78;101;119;74;115;111;110;81;117;101;114;121;84;111;111;77;97;110;121;82;101;99;111;114;100;115;69;114;114;111;114]%N (* NewJsonQueryTooManyRecordsError *)
  | E_LoadConfigurationError => [78;101;119;76;111;97;100;67;111;110;102;105;103;117;114;97;116;105;111;110;69;114;114;111;114]%N (* NewLoadConfigurationError *)
  | E_LoadJsonError => [78;101;119;76;111;97;100;74;115;111;110;69;114;114;111;114]%N (* NewLoadJsonError *)
  | E_NestedAggregateFunctionsError => [78;101;119;78;101;115;116;101;100;65;103;103;114;101;103;97;116;101;70;117;110;99;116;105;111;110;115;69;114;114;111;114]%N (* NewNestedAggregateFunctionsError *)
  | E_NestedRecursionError => [78;101;119;78;101;115;116;101;100;82;101;99;117;114;115;105;111;110;69;114;114;111;114]%N (* NewNestedRecursionError *)
  | E_NotAllowedAnalyticFunctionError => [78;101;119;78;111;116;65;108;108;111;119;101;100;65;110;97;108;121;116;105;99;70;117;110;99;116;105;111;110;69;114;114;111;114]%N (* NewNotAllowedAnalyticFunctionError *)
  | E_NotGroupingRecordsError => [78;101;119;78;111;116;71;114;111;117;112;105;110;103;82;101;99;111;114;100;115;69;114;114;111;114]%N (* NewNotGroupingRecordsError *)
  | E_NotTableError => [78;101;119;78;111;116;84;97;98;108;101;69;114;114;111;114]%N (* NewNotTableError *)
  | E_PreparedStatementSyntaxError => [78;101;119;80;114;101;112;97;114;101;100;83;116;97;116;101;109;101;110;116;83;121;110;116;97;120;69;114;114;111;114]%N (* NewPreparedStatementSyntaxError *)
  | E_PseudoCursorError => [78;101;119;80;115;101;117;100;111;67;117;114;115;111;114;69;114;114;111;114]%N (* NewPseudoCursorError *)
  | E_RecursionExceededLimitError => [78;101;119;82;101;99;117;114;115;105;111;110;69;120;99;101;101;100;101;100;76;105;109;105;116;69;114;114;111;114]%N (* NewRecursionExceededLimitError *)
  | E_RemoveFlagNotSupportedNameError => [78;101;119;82;101;109;111;118;101;70;108;97;103;78;111;116;83;117;112;112;111;114;116;101;100;78;97;109;101;69;114;114;111;114]%N (* NewRemoveFlagNotSupportedNameError *)
  | E_ReplaceKeyNotSetError => [78;101;119;82;101;112;108;97;99;101;75;101;121;78;111;116;83;101;116;69;114;114;111;114]%N (* NewReplaceKeyNotSetError *)
  | E_ReplaceValueLengthError => [78;101;119;82;101;112;108;97;99;101;86;97;108;117;101;76;101;110;103;116;104;69;114;114;111;114]%N (* NewReplaceValueLengthError *)
  | E_RollbackError => [78;101;119;82;111;108;108;98;97;99;107;69;114;114;111;114]%N (* NewRollbackError *)
  | E_RowValueLengthInComparisonError => [78;101;119;82;111;119;86;97;108;117;101;76;101;110;103;116;104;73;110;67;111;109;112;97;114;105;115;111;110;69;114;114;111;114]%N (* NewRowValueLengthInComparisonError *)
  | E_RowValueLengthInListError => [78;101;119;82;111;119;86;97;108;117;101;76;101;110;103;116;104;73;110;76;105;115;116;69;114;114;111;114]%N (* NewRowValueLengthInListError *)
  | E_SelectFieldLengthInComparisonError => [78;101;119;83;101;108;101;99;116;70;105;101;108;100;76;101;110;103;116;104;73;110;67;111;109;112;97;114;105;115;111;110;69;114;114;111;114]%N (* NewSelectFieldLengthInComparisonError *)
  | E_SelectIntoQueryFieldLengthNotMatchError => [78;101;119;83;101;108;101;99;116;73;110;116;111;81;117;101;114;121;70;105;101;108;100;76;101;110;103;116;104;78;111;116;77;97;116;99;104;69;114;114;111;114]%N (* NewSelectIntoQueryFieldLengthNotMatchError *)
  | E_SelectIntoQueryTooManyRecordsError => [78;101;119;83;101;108;101;99;116;73;110;116;111;81;117;101;114;121;84;111;111;77;97;110;121;82;101;99;111;114;100;115;69;114;114;111;114]%N (* NewSelectIntoQueryTooManyRecordsError *)
  | E_ShowInvalidObjectTypeError => [78;101;119;83;104;111;119;73;110;118;97;108;105;100;79;98;106;101;99;116;84;121;112;101;69;114;114;111;114]%N (* NewShowInvalidObjectTypeError *)
  | E_SignalReceived _ => [78;101;119;83;105;103;110;97;108;82;101;99;101;105;118;101;100]%N (* NewSignalReceived *)
  | E_SourceInvalidFilePathError => [78;101;119;83;111;117;114;99;101;73;110;118;97;108;105;100;70;105;108;101;80;97;116;104;69;114;114;111;114]%N (* NewSourceInvalidFilePathError *)
  | E_StatementNotExistError => [78;101;119;83;116;97;116;101;109;101;110;116;78;111;116;69;120;105;115;116;69;114;114;111;114]%N (* NewStatementNotExistError *)
  | E_StatementReplaceValueNotSpecifiedError => [78;101;119;83;116;97;116;101;109;101;110;116;82;101;112;108;97;99;101;86;97;108;117;101;78;111;116;83;112;101;99;105;102;105;101;100;69;114;114;111;114]%N (* NewStatementReplaceValueNotSpecifiedError *)
  | E_StdinEmptyError => [78;101;119;83;116;100;105;110;69;109;112;116;121;69;114;114;111;114]%N (* NewStdinEmptyError *)
  | E_SubqueryTooManyFieldsError => [78;101;119;83;117;98;113;117;101;114;121;84;111;111;77;97;110;121;70;105;101;108;100;115;69;114;114;111;114]%N (* NewSubqueryTooManyFieldsError *)
  | E_SubqueryTooManyRecordsError => [78;101;119;83;117;98;113;117;101;114;121;84;111;111;77;97;110;121;82;101;99;111;114;100;115;69;114;114;111;114]%N (* NewSubqueryTooManyRecordsError *)
  | E_SyntaxError => [78;101;119;83;121;110;116;97;120;69;114;114;111;114]%N (* NewSyntaxError *)
  | E_SystemError => [78;101;119;83;121;115;116;101;109;69;114;114;111;114]%N (* NewSystemError *)
  | E_TableAttributeValueNotAllowedFormatError => [78;101;119;84;97;98;108;101;65;116;116;114;105;98;117;116;101;86;97;108;117;101;78;111;116;65;108;108;111;119;101;100;70;111;114;109;97;116;69;114;114;111;114]%N (* NewTableAttributeValueNotAllowedFormatError *)
  | E_TableFieldLengthError => [78;101;119;84;97;98;108;101;70;105;101;108;100;76;101;110;103;116;104;69;114;114;111;114]%N (* NewTableFieldLengthError *)
  | E_TableNotLoadedError => [78;101;119;84;97;98;108;101;78;111;116;76;111;97;100;101;100;69;114;114;111;114]%N (* NewTableNotLoadedError *)
  | E_TableObjectArgumentsLengthError => [78;101;119;84;97;98;108;101;79;98;106;101;99;116;65;114;103;117;109;101;110;116;115;76;101;110;103;116;104;69;114;114;111;114]%N (* NewTableObjectArgumentsLengthError *)
  | E_TableObjectInvalidArgumentError => [78;101;119;84;97;98;108;101;79;98;106;101;99;116;73;110;118;97;108;105;100;65;114;103;117;109;101;110;116;69;114;114;111;114]%N (* NewTableObjectInvalidArgumentError *)
  | E_TableObjectInvalidDelimiterError => [78;101;119;84;97;98;108;101;79;98;106;101;99;116;73;110;118;97;108;105;100;68;101;108;105;109;105;116;101;114;69;114;114;111;114]%N (* NewTableObjectInvalidDelimiterError *)
  | E_TableObjectInvalidDelimiterPositionsError => [78;101;119;84;97;98;108;101;79;98;106;101;99;116;73;110;118;97;108;105;100;68;101;108;105;109;105;116;101;114;80;111;115;105;116;105;111;110;115;69;114;114;111;114]%N (* NewTableObjectInvalidDelimiterPositionsError *)
  | E_TableObjectInvalidJsonQueryError => [78;101;119;84;97;98;108;101;79;98;106;101;99;116;73;110;118;97;108;105;100;74;115;111;110;81;117;101;114;121;69;114;114;111;114]%N (* NewTableObjectInvalidJsonQueryError *)
  | E_TableObjectJsonArgumentsLengthError => [78;101;119;84;97;98;108;101;79;98;106;101;99;116;74;115;111;110;65;114;103;117;109;101;110;116;115;76;101;110;103;116;104;69;114;114;111;114]%N (* NewTableObjectJsonArgumentsLengthError *)
  | E_TemporaryTableFieldLengthError => [78;101;119;84;101;109;112;111;114;97;114;121;84;97;98;108;101;70;105;101;108;100;76;101;110;103;116;104;69;114;114;111;114]%N (* NewTemporaryTableFieldLengthError *)
  | E_TemporaryTableRedeclaredError => [78;101;119;84;101;109;112;111;114;97;114;121;84;97;98;108;101;82;101;100;101;99;108;97;114;101;100;69;114;114;111;114]%N (* NewTemporaryTableRedeclaredError *)
  | E_UndeclaredCursorError => [78;101;119;85;110;100;101;99;108;97;114;101;100;67;117;114;115;111;114;69;114;114;111;114]%N (* NewUndeclaredCursorError *)
  | E_UndeclaredTemporaryTableError => [78;101;119;85;110;100;101;99;108;97;114;101;100;84;101;109;112;111;114;97;114;121;84;97;98;108;101;69;114;114;111;114]%N (* NewUndeclaredTemporaryTableError *)
  | E_UndeclaredVariableError => [78;101;119;85;110;100;101;99;108;97;114;101;100;86;97;114;105;97;98;108;101;69;114;114;111;114]%N (* NewUndeclaredVariableError *)
  | E_UndefinedConstantError => [78;101;119;85;110;100;101;102;105;110;101;100;67;111;110;115;116;97;110;116;69;114;114;111;114]%N (* NewUndefinedConstantError *)
  | E_UndefinedInLineTableError => [78;101;119;85;110;100;101;102;105;110;101;100;73;110;76;105;110;101;84;97;98;108;101;69;114;114;111;114]%N (* NewUndefinedInLineTableError *)
  | E_UnknownFormatPlaceholderError => [78;101;119;85;110;107;110;111;119;110;70;111;114;109;97;116;80;108;97;99;101;104;111;108;100;101;114;69;114;114;111;114]%N (* NewUnknownFormatPlaceholderError *)
  | E_UnsupportedUrlSchemeError => [78;101;119;85;110;115;117;112;112;111;114;116;101;100;85;114;108;83;99;104;101;109;101;69;114;114;111;114]%N (* NewUnsupportedUrlSchemeError *)
  | E_UpdateFieldNotExistError => [78;101;119;85;112;100;97;116;101;70;105;101;108;100;78;111;116;69;120;105;115;116;69;114;114;111;114]%N (* NewUpdateFieldNotExistError *)
  | E_UpdateValueAmbiguousError => [78;101;119;85;112;100;97;116;101;86;97;108;117;101;65;109;98;105;103;117;111;117;115;69;114;114;111;114]%N (* NewUpdateValueAmbiguousError *)
  | E_UserTriggeredError _ => [78;101;119;85;115;101;114;84;114;105;103;103;101;114;101;100;69;114;114;111;114]%N (* NewUserTriggeredError *)
  | E_VariableRedeclaredError => [78;101;119;86;97;114;105;97;98;108;101;82;101;100;101;99;108;97;114;101;100;69;114;114;111;114]%N (* NewVariableRedeclaredError *)
  | E_Foreign => []
  end.

(** the struct type the constructor really builds *)
Definition type_name (e : error_class) : str :=
  match e with
  | E_AddFlagNotSupportedNameError => [65;100;100;70;108;97;103;78;111;116;83;117;112;112;111;114;116;101;100;78;97;109;101;69;114;114;111;114]%N (* AddFlagNotSupportedNameError *)
  | E_AliasMustBeSpecifiedForUpdateError => [65;108;105;97;115;77;117;115;116;66;101;83;112;101;99;105;102;105;101;100;70;111;114;85;112;100;97;116;101;69;114;114;111;114]%N (* AliasMustBeSpecifiedForUpdateError *)
  | E_BuiltInFunctionDeclaredError => [66;117;105;108;116;73;110;70;117;110;99;116;105;111;110;68;101;99;108;97;114;101;100;69;114;114;111;114]%N (* BuiltInFunctionDeclaredError *)
  | E_CannotDetectFileEncodingError => [67;97;110;110;111;116;68;101;116;101;99;116;70;105;108;101;69;110;99;111;100;105;110;103;69;114;114;111;114]%N (* CannotDetectFileEncodingError *)
  | E_CombinedSetFieldLengthError => [67;111;109;98;105;110;101;100;83;101;116;70;105;101;108;100;76;101;110;103;116;104;69;114;114;111;114]%N (* CombinedSetFieldLengthError *)
  | E_CommitError => [67;111;109;109;105;116;69;114;114;111;114]%N (* CommitError *)
  | E_ContextCanceled => [67;111;110;116;101;120;116;68;111;110;101]%N (* ContextDone *)
  | E_ContextDone => [67;111;110;116;101;120;116;68;111;110;101]%N (* ContextDone *)
  | E_CursorClosedError => [67;117;114;115;111;114;67;108;111;115;101;100;69;114;114;111;114]%N (* CursorClosedError *)
  | E_CursorFetchLengthError => [67;117;114;115;111;114;70;101;116;99;104;76;101;110;103;116;104;69;114;114;111;114]%N (* CursorFetchLengthError *)
  | E_CursorOpenError => [67;117;114;115;111;114;79;112;101;110;69;114;114;111;114]%N (* CursorOpenError *)
  | E_CursorRedeclaredError => [67;117;114;115;111;114;82;101;100;101;99;108;97;114;101;100;69;114;114;111;114]%N (* CursorRedeclaredError *)
  | E_DataEncodingError => [68;97;116;97;69;110;99;111;100;105;110;103;69;114;114;111;114]%N (* DataEncodingError *)
  | E_DataParsingError => [68;97;116;97;80;97;114;115;105;110;103;69;114;114;111;114]%N (* DataParsingError *)
  | E_DeleteTableNotSpecifiedError => [68;101;108;101;116;101;84;97;98;108;101;78;111;116;83;112;101;99;105;102;105;101;100;69;114;114;111;114]%N (* DeleteTableNotSpecifiedError *)
  | E_DuplicateFieldNameError => [68;117;112;108;105;99;97;116;101;70;105;101;108;100;78;97;109;101;69;114;114;111;114]%N (* DuplicateFieldNameError *)
  | E_DuplicateParameterError => [68;117;112;108;105;99;97;116;101;80;97;114;97;109;101;116;101;114;69;114;114;111;114]%N (* DuplicateParameterError *)
  | E_DuplicateStatementNameError => [68;117;112;108;105;99;97;116;101;83;116;97;116;101;109;101;110;116;78;97;109;101;69;114;114;111;114]%N (* DuplicateStatementNameError *)
  | E_DuplicateTableNameError => [68;117;112;108;105;99;97;116;101;84;97;98;108;101;78;97;109;101;69;114;114;111;114]%N (* DuplicateTableNameError *)
  | E_EmptyInlineTableError => [69;109;112;116;121;73;110;108;105;110;101;84;97;98;108;101;69;114;114;111;114]%N (* EmptyInlineTableError *)
  | E_ExternalCommandError => [69;120;116;101;114;110;97;108;67;111;109;109;97;110;100;69;114;114;111;114]%N (* ExternalCommandError *)
  | E_FatalError => [70;97;116;97;108;69;114;114;111;114]%N (* FatalError *)
  | E_FieldAmbiguousError => [70;105;101;108;100;65;109;98;105;103;117;111;117;115;69;114;114;111;114]%N (* FieldAmbiguousError *)
  | E_FieldLengthNotMatchError => [70;105;101;108;100;76;101;110;103;116;104;78;111;116;77;97;116;99;104;69;114;114;111;114]%N (* FieldLengthNotMatchError *)
  | E_FieldNotExistError => [70;105;101;108;100;78;111;116;69;120;105;115;116;69;114;114;111;114]%N (* FieldNotExistError *)
  | E_FieldNotGroupKeyError => [70;105;101;108;100;78;111;116;71;114;111;117;112;75;101;121;69;114;114;111;114]%N (* FieldNotGroupKeyError *)
  | E_FileAlreadyExistError => [70;105;108;101;65;108;114;101;97;100;121;69;120;105;115;116;69;114;114;111;114]%N (* FileAlreadyExistError *)
  | E_FileLockTimeoutError => [70;105;108;101;76;111;99;107;84;105;109;101;111;117;116;69;114;114;111;114]%N (* FileLockTimeoutError *)
  | E_FileNameAmbiguousError => [70;105;108;101;78;97;109;101;65;109;98;105;103;117;111;117;115;69;114;114;111;114]%N (* FileNameAmbiguousError *)
  | E_FileNotExistError => [70;105;108;101;78;111;116;69;120;105;115;116;69;114;114;111;114]%N (* FileNotExistError *)
  | E_FileUnableToReadError => [70;105;108;101;85;110;97;98;108;101;84;111;82;101;97;100;69;114;114;111;114]%N (* FileUnableToReadError *)
  | E_FlagValueNotAllowedFormatError => [70;108;97;103;86;97;108;117;101;78;111;116;65;108;108;111;119;101;100;70;111;114;109;97;116;69;114;114;111;114]%N (* FlagValueNotAllowedFormatError *)
  | E_ForcedExit _ => [70;111;114;99;101;100;69;120;105;116]%N (* ForcedExit *)
  | E_FormatStringLengthNotMatchError => [70;111;114;109;97;116;83;116;114;105;110;103;76;101;110;103;116;104;78;111;116;77;97;116;99;104;69;114;114;111;114]%N (* FormatStringLengthNotMatchError *)
  | E_FormatUnexpectedTerminationError => [70;111;114;109;97;116;85;110;101;120;112;101;99;116;101;100;84;101;114;109;105;110;97;116;105;111;110;69;114;114;111;114]%N (* FormatUnexpectedTerminationError *)
  | E_FunctionArgumentLengthError => [70;117;110;99;116;105;111;110;65;114;103;117;109;101;110;116;76;101;110;103;116;104;69;114;114;111;114]%N (* FunctionArgumentLengthError *)
  | E_FunctionArgumentLengthErrorWithCustomArgs => [70;117;110;99;116;105;111;110;65;114;103;117;109;101;110;116;76;101;110;103;116;104;69;114;114;111;114]%N (* FunctionArgumentLengthError *)
  | E_FunctionInvalidArgumentError => [70;117;110;99;116;105;111;110;73;110;118;97;108;105;100;65;114;103;117;109;101;110;116;69;114;114;111;114]%N (* FunctionInvalidArgumentError *)
  | E_FunctionNotExistError => [70;117;110;99;116;105;111;110;78;111;116;69;120;105;115;116;69;114;114;111;114]%N (* FunctionNotExistError *)
  | E_FunctionRedeclaredError => [70;117;110;99;116;105;111;110;82;101;100;101;99;108;97;114;101;100;69;114;114;111;114]%N (* FunctionRedeclaredError *)
  | E_HttpRequestError => [72;116;116;112;82;101;113;117;101;115;116;69;114;114;111;114]%N (* HttpRequestError *)
  | E_IOError => [73;79;69;114;114;111;114]%N (* IOError *)
  | E_InLineTableRedefinedError => [73;110;76;105;110;101;84;97;98;108;101;82;101;100;101;102;105;110;101;100;69;114;114;111;114]%N (* InLineTableRedefinedError *)
  | E_IncorrectCommandUsageError => [73;110;99;111;114;114;101;99;116;67;111;109;109;97;110;100;85;115;97;103;101;69;114;114;111;114]%N (* IncorrectCommandUsageError *)
  | E_IncorrectLateralUsageError => [73;110;99;111;114;114;101;99;116;76;97;116;101;114;97;108;85;115;97;103;101;69;114;114;111;114]%N (* IncorrectLateralUsageError *)
  | E_InlineTableCannotBeUpdatedError => [73;110;108;105;110;101;84;97;98;108;101;67;97;110;110;111;116;66;101;85;112;100;97;116;101;100;69;114;114;111;114]%N (* InlineTableCannotBeUpdatedError *)
  | E_InlineTableFieldLengthError => [73;110;108;105;110;101;84;97;98;108;101;70;105;101;108;100;76;101;110;103;116;104;69;114;114;111;114]%N (* InlineTableFieldLengthError *)
  | E_InsertRowValueLengthError => [73;110;115;101;114;116;82;111;119;86;97;108;117;101;76;101;110;103;116;104;69;114;114;111;114]%N (* InsertRowValueLengthError *)
  | E_InsertSelectFieldLengthError => [73;110;115;101;114;116;83;101;108;101;99;116;70;105;101;108;100;76;101;110;103;116;104;69;114;114;111;114]%N (* InsertSelectFieldLengthError *)
  | E_IntegerDevidedByZeroError => [73;110;116;101;103;101;114;68;101;118;105;100;101;100;66;121;90;101;114;111;69;114;114;111;114]%N (* IntegerDevidedByZeroError *)
  | E_InternalRecordIdEmptyError => [73;110;116;101;114;110;97;108;82;101;99;111;114;100;73;100;69;109;112;116;121;69;114;114;111;114]%N (* InternalRecordIdEmptyError *)
  | E_InternalRecordIdNotExistError => [73;110;116;101;114;110;97;108;82;101;99;111;114;100;73;100;78;111;116;69;120;105;115;116;69;114;114;111;114]%N (* InternalRecordIdNotExistError *)
  | E_InvalidCursorStatementError => [73;110;118;97;108;105;100;67;117;114;115;111;114;83;116;97;116;101;109;101;110;116;69;114;114;111;114]%N (* InvalidCursorStatementError *)
  | E_InvalidEventNameError => [73;110;118;97;108;105;100;69;118;101;110;116;78;97;109;101;69;114;114;111;114]%N (* InvalidEventNameError *)
  | E_InvalidFetchPositionError => [73;110;118;97;108;105;100;70;101;116;99;104;80;111;115;105;116;105;111;110;69;114;114;111;114]%N (* InvalidFetchPositionError *)
  | E_InvalidFlagNameError => [73;110;118;97;108;105;100;70;108;97;103;78;97;109;101;69;114;114;111;114]%N (* InvalidFlagNameError *)
  | E_InvalidFlagValueError => [73;110;118;97;108;105;100;70;108;97;103;86;97;108;117;101;69;114;114;111;114]%N (* InvalidFlagValueError *)
  | E_InvalidFlagValueToBeRemovedError => [73;110;118;97;108;105;100;70;108;97;103;86;97;108;117;101;84;111;66;101;82;101;109;111;118;101;69;114;114;111;114]%N (* InvalidFlagValueToBeRemoveError *)
  | E_InvalidLimitNumberError => [73;110;118;97;108;105;100;76;105;109;105;116;78;117;109;98;101;114;69;114;114;111;114]%N (* InvalidLimitNumberError *)
  | E_InvalidLimitPercentageError => [73;110;118;97;108;105;100;76;105;109;105;116;80;101;114;99;101;110;116;97;103;101;69;114;114;111;114]%N (* InvalidLimitPercentageError *)
  | E_InvalidOffsetNumberError => [73;110;118;97;108;105;100;79;102;102;115;101;116;78;117;109;98;101;114;69;114;114;111;114]%N (* InvalidOffsetNumberError *)
  | E_InvalidPathError => [73;110;118;97;108;105;100;80;97;116;104;69;114;114;111;114]%N (* InvalidPathError *)
  | E_InvalidReloadTypeError => [73;110;118;97;108;105;100;82;101;108;111;97;100;84;121;112;101;69;114;114;111;114]%N (* InvalidReloadTypeError *)
  | E_InvalidRuntimeInformationError => [73;110;118;97;108;105;100;82;117;110;116;105;109;101;73;110;102;111;114;109;97;116;105;111;110;69;114;114;111;114]%N (* InvalidRuntimeInformationError *)
  | E_InvalidTableAttributeNameError => [73;110;118;97;108;105;100;84;97;98;108;101;65;116;116;114;105;98;117;116;101;78;97;109;101;69;114;114;111;114]%N (* InvalidTableAttributeNameError *)
  | E_InvalidTableAttributeValueError => [73;110;118;97;108;105;100;84;97;98;108;101;65;116;116;114;105;98;117;116;101;86;97;108;117;101;69;114;114;111;114]%N (* InvalidTableAttributeValueError *)
  | E_InvalidTableObjectError => [73;110;118;97;108;105;100;84;97;98;108;101;79;98;106;101;99;116;69;114;114;111;114]%N (* InvalidTableObjectError *)
  | E_InvalidUrlError => [73;110;118;97;108;105;100;85;114;108;69;114;114;111;114]%N (* InvalidUrlError *)
  | E_InvalidValueExpressionError => [73;110;118;97;108;105;100;86;97;108;117;101;69;120;112;114;101;115;115;105;111;110;69;114;114;111;114]%N (* InvalidValueExpressionError *)
  | E_JsonLinesStructureError => [74;115;111;110;76;105;110;101;115;83;116;114;117;99;116;117;114;101;69;114;114;111;114]%N (* JsonLinesStructureError *)
  | E_JsonQueryTooManyRecordsError => [74;115;111;110;81;117;101;114;121;84;111;111;77;97;110;121;82;101;99;111;114;100;115;69;114;114;111;114]%N (* JsonQueryTooManyRecordsError *)
  | E_LoadConfigurationError => [76;111;97;100;67;111;110;102;105;103;117;114;97;116;105;111;110;69;114;114;111;114]%N (* LoadConfigurationError *)
  | E_LoadJsonError => [76;111;97;100;74;115;111;110;69;114;114;111;114]%N (* LoadJsonError *)
  | E_NestedAggregateFunctionsError => [78;101;115;116;101;100;65;103;103;114;101;103;97;116;101;70;117;110;99;116;105;111;110;115;69;114;114;111;114]%N (* NestedAggregateFunctionsError *)
  | E_NestedRecursionError => [82;101;99;117;114;115;105;111;110;69;120;99;101;101;100;101;100;76;105;109;105;116;69;114;114;111;114]%N (* RecursionExceededLimitError *)
  | E_NotAllowedAnalyticFunctionError => [78;111;116;65;108;108;111;119;101;100;65;110;97;108;121;116;105;99;70;117;110;99;116;105;111;110;69;114;114;111;114]%N (* NotAllowedAnalyticFunctionError *)
  | E_NotGroupingRecordsError => [78;111;116;71;114;111;117;112;105;110;103;82;101;99;111;114;100;115;69;114;114;111;114]%N (* NotGroupingRecordsError *)
  | E_NotTableError => [78;111;116;84;97;98;108;101;69;114;114;111;114]%N (* NotTableError *)
  | E_PreparedStatementSyntaxError => [80;114;101;112;97;114;101;100;83;116;97;116;101;109;101;110;116;83;121;110;116;97;120;69;114;114;111;114]%N (* PreparedStatementSyntaxError *)
  | E_PseudoCursorError => [80;115;101;117;100;111;67;117;114;115;111;114;69;114;114;111;114]%N (* PseudoCursorError *)
  | E_RecursionExceededLimitError => [82;101;99;117;114;115;105;111;110;69;120;99;101;101;100;101;100;76;105;109;105;116;69;114;114;111;114]%N (* RecursionExceededLimitError *)
  | E_RemoveFlagNotSupportedNameError => [82;101;109;111;118;101;70;108;97;103;78;111;116;83;117;112;112;111;114;116;101;100;78;97;109;101;69;114;114;111;114]%N (* RemoveFlagNotSupportedNameError *)
  | E_ReplaceKeyNotSetError => [82;101;112;108;97;99;101;75;101;121;78;111;116;83;101;116;69;114;114;111;114]%N (* ReplaceKeyNotSetError *)
  | E_ReplaceValueLengthError => [82;101;112;108;97;99;101;86;97;108;117;101;76;101;110;103;116;104;69;114;114;111;114]%N (* ReplaceValueLengthError *)
  | E_RollbackError => [82;111;108;108;98;97;99;107;69;114;114;111;114]%N (* RollbackError *)
  | E_RowValueLengthInComparisonError => [82;111;119;86;97;108;117;101;76;101;110;103;116;104;73;110;67;111;109;112;97;114;105;115;111;110;69;114;114;111;114]%N (* RowValueLengthInComparisonError *)
  | E_RowValueLengthInListError => [82;111;119;86;97;108;117;101;76;101;110;103;116;104;73;110;76;105;115;116;69;114;114;111;114]%N (* RowValueLengthInListError *)
  | E_SelectFieldLengthInComparisonError => [83;101;108;101;99;116;70;105;101;108;100;76;101;110;103;116;104;73;110;67;111;109;112;97;114;105;115;111;110;69;114;114;111;114]%N (* SelectFieldLengthInComparisonError *)
  | E_SelectIntoQueryFieldLengthNotMatchError => [83;101;108;101;99;116;73;110;116;111;81;117;101;114;121;70;105;101;108;100;76;101;110;103;116;104;78;111;116;77;97;116;99;104;69;114;114;111;114]%N (* SelectIntoQueryFieldLengthNotMatchError *)
  | E_SelectIntoQueryTooManyRecordsError => [83;101;108;101;99;116;73;110;116;111;81;117;101;114;121;84;111;111;77;97;110;121;82;101;99;111;114;100;115;69;114;114;111;114]%N (* SelectIntoQueryTooManyRecordsError *)
  | E_ShowInvalidObjectTypeError => [83;104;111;119;73;110;118;97;108;105;100;79;98;106;101;99;116;84;121;112;101;69;114;114;111;114]%N (* ShowInvalidObjectTypeError *)
  | E_SignalReceived _ => [83;105;103;110;97;108;82;101;99;101;105;118;101;100]%N (* SignalReceived *)
  | E_SourceInvalidFilePathError => [83;111;117;114;99;101;73;110;118;97;108;105;100;70;105;108;101;80;97;116;104;69;114;114;111;114]%N (* SourceInvalidFilePathError *)
  | E_StatementNotExistError => [68;117;112;108;105;99;97;116;101;83;116;97;116;101;109;101;110;116;78;97;109;101;69;114;114;111;114]%N (* DuplicateStatementNameError *)
  | E_StatementReplaceValueNotSpecifiedError => [83;116;97;116;101;109;101;110;116;82;101;112;108;97;99;101;86;97;108;117;101;78;111;116;83;112;101;99;105;102;105;101;100;69;114;114;111;114]%N (* StatementReplaceValueNotSpecifiedError *)
  | E_StdinEmptyError => [83;116;100;105;110;69;109;112;116;121;69;114;114;111;114]%N (* StdinEmptyError *)
  | E_SubqueryTooManyFieldsError => [83;117;98;113;117;101;114;121;84;111;111;77;97;110;121;70;105;101;108;100;115;69;114;114;111;114]%N (* SubqueryTooManyFieldsError *)
  | E_SubqueryTooManyRecordsError => [83;117;98;113;117;101;114;121;84;111;111;77;97;110;121;82;101;99;111;114;100;115;69;114;114;111;114]%N (* SubqueryTooManyRecordsError *)
  | E_SyntaxError => [83;121;110;116;97;120;69;114;114;111;114]%N (* SyntaxError *)
  | E_SystemError => [83;121;115;116;101;109;69;114;114;111;114]%N (* SystemError *)
  | E_TableAttributeValueNotAllowedFormatError => [84;97;98;108;101;65;116;116;114;105;98;117;116;101;86;97;108;117;101;78;111;116;65;108;108;111;119;101;100;70;111;114;109;97;116;69;114;114;111;114]%N (* TableAttributeValueNotAllowedFormatError *)
  | E_TableFieldLengthError => [84;97;98;108;101;70;105;101;108;100;76;101;110;103;116;104;69;114;114;111;114]%N (* TableFieldLengthError *)
  | E_TableNotLoadedError => [84;97;98;108;101;78;111;116;76;111;97;100;101;100;69;114;114;111;114]%N (* TableNotLoadedError *)
  | E_TableObjectArgumentsLengthError => [84;97;98;108;101;79;98;106;101;99;116;65;114;103;117;109;101;110;116;115;76;101;110;103;116;104;69;114;114;111;114]%N (* TableObjectArgumentsLengthError *)
  | E_TableObjectInvalidArgumentError => [84;97;98;108;101;79;98;106;101;99;116;73;110;118;97;108;105;100;65;114;103;117;109;101;110;116;69;114;114;111;114]%N (* TableObjectInvalidArgumentError *)
  | E_TableObjectInvalidDelimiterError => [73;110;118;97;108;105;100;84;97;98;108;101;79;98;106;101;99;116;69;114;114;111;114]%N (* InvalidTableObjectError *)
  | E_TableObjectInvalidDelimiterPositionsError => [73;110;118;97;108;105;100;84;97;98;108;101;79;98;106;101;99;116;69;114;114;111;114]%N (* InvalidTableObjectError *)
  | E_TableObjectInvalidJsonQueryError => [73;110;118;97;108;105;100;84;97;98;108;101;79;98;106;101;99;116;69;114;114;111;114]%N (* InvalidTableObjectError *)
  | E_TableObjectJsonArgumentsLengthError => [84;97;98;108;101;79;98;106;101;99;116;74;115;111;110;65;114;103;117;109;101;110;116;115;76;101;110;103;116;104;69;114;114;111;114]%N (* TableObjectJsonArgumentsLengthError *)
  | E_TemporaryTableFieldLengthError => [84;101;109;112;111;114;97;114;121;84;97;98;108;101;70;105;101;108;100;76;101;110;103;116;104;69;114;114;111;114]%N (* TemporaryTableFieldLengthError *)
  | E_TemporaryTableRedeclaredError => [84;101;109;112;111;114;97;114;121;84;97;98;108;101;82;101;100;101;99;108;97;114;101;100;69;114;114;111;114]%N (* TemporaryTableRedeclaredError *)
  | E_UndeclaredCursorError => [85;110;100;101;99;108;97;114;101;100;67;117;114;115;111;114;69;114;114;111;114]%N (* UndeclaredCursorError *)
  | E_UndeclaredTemporaryTableError => [85;110;100;101;99;108;97;114;101;100;84;101;109;112;111;114;97;114;121;84;97;98;108;101;69;114;114;111;114]%N (* UndeclaredTemporaryTableError *)
  | E_UndeclaredVariableError => [85;110;100;101;99;108;97;114;101;100;86;97;114;105;97;98;108;101;69;114;114;111;114]%N (* UndeclaredVariableError *)
  | E_UndefinedConstantError => [85;110;100;101;102;105;110;101;100;67;111;110;115;116;97;110;116;69;114;114;111;114]%N (* UndefinedConstantError *)
  | E_UndefinedInLineTableError => [85;110;100;101;102;105;110;101;100;73;110;76;105;110;101;84;97;98;108;101;69;114;114;111;114]%N (* UndefinedInLineTableError *)
  | E_UnknownFormatPlaceholderError => [85;110;107;110;111;119;110;70;111;114;109;97;116;80;108;97;99;101;104;111;108;100;101;114;69;114;114;111;114]%N (* UnknownFormatPlaceholderError *)
  | E_UnsupportedUrlSchemeError => [85;110;115;117;112;112;111;114;116;101;100;85;114;108;83;99;104;101;109;101;69;114;114;111;114]%N (* UnsupportedUrlSchemeError *)
  | E_UpdateFieldNotExistError => [85;112;100;97;116;101;70;105;101;108;100;78;111;116;69;120;105;115;116;69;114;114;111;114]%N (* UpdateFieldNotExistError *)
  | E_UpdateValueAmbiguousError => [85;112;100;97;116;101;86;97;108;117;101;65;109;98;105;103;117;111;117;115;69;114;114;111;114]%N (* UpdateValueAmbiguousError *)
  | E_UserTriggeredError _ => [85;115;101;114;84;114;105;103;103;101;114;101;100;69;114;114;111;114]%N (* UserTriggeredError *)
  | E_VariableRedeclaredError => [86;97;114;105;97;98;108;101;82;101;100;101;99;108;97;114;101;100;69;114;114;111;114]%N (* VariableRedeclaredError *)
  | E_Foreign => []
  end.

(** ** the table in the form the translator extracts it
    row = (constructor, struct type, code, number); code/number: [inl] constant, [inr] description of a
    non-constant expression ("param" = a parameter of the constructor, "var=64" = a local initialised
    to the constant 64 and possibly reassigned, "128+var" …) *)
Definition xrow : Type := (str * str * (Z + str) * (Z + str))%type.

Definition static_row (e : error_class) : xrow :=
  (ctor_name e, type_name e, inl (exit_code e), inl (match error_number e with Some n => n | None => 0 end)).

Definition dynamic_rows : list xrow :=
  [(ctor_name (E_ForcedExit 0), type_name (E_ForcedExit 0),
    inr [112;97;114;97;109]%N (* param *),
    inl 90640);
   (ctor_name (E_UserTriggeredError None), type_name (E_UserTriggeredError None),
    inr [118;97;114;61;54;52]%N (* var=64 *),
    inl 90650);
   (ctor_name (E_SignalReceived 0), type_name (E_SignalReceived 0),
    inr [49;50;56;43;118;97;114]%N (* 128+var *),
    inr [57;49;50;56;48;43;118;97;114]%N (* 91280+var *))].

Definition model_table : list xrow := map static_row static_classes ++ dynamic_rows.

Definition model_orphans : list str :=
  [[67;111;110;116;101;120;116;67;97;110;99;101;108;101;100]%N (* ContextCanceled *);
   [78;101;115;116;101;100;82;101;99;117;114;115;105;111;110;69;114;114;111;114]%N (* NestedRecursionError *);
   [83;116;97;116;101;109;101;110;116;78;111;116;69;120;105;115;116;69;114;114;111;114]%N (* StatementNotExistError *);
   [84;97;98;108;101;79;98;106;101;99;116;73;110;118;97;108;105;100;68;101;108;105;109;105;116;101;114;69;114;114;111;114]%N (* TableObjectInvalidDelimiterError *);
   [84;97;98;108;101;79;98;106;101;99;116;73;110;118;97;108;105;100;68;101;108;105;109;105;116;101;114;80;111;115;105;116;105;111;110;115;69;114;114;111;114]%N (* TableObjectInvalidDelimiterPositionsError *);
   [84;97;98;108;101;79;98;106;101;99;116;73;110;118;97;108;105;100;74;115;111;110;81;117;101;114;121;69;114;114;111;114]%N (* TableObjectInvalidJsonQueryError *)].

Definition model_return_codes : list (str * Z) :=
  map (fun c => (category_const_name c, category_code c)) all_categories ++ [([114;101;116;117;114;110;67;111;100;101;66;97;115;101;83;105;103;110;97;108]%N, return_code_base_signal)].

(** shape of cli.Exit (lib/cli/app.go) and of the panic capture (Processor.execute) *)
Record xexit : Type := mkXExit {
  x_default_code : Z;       (* code := query.ReturnCodeApplicationError *)
  x_nil_no_exit : bool;     (* if err == nil { return nil } *)
  x_forced_zero_nil : bool; (* ForcedExit with Code() == 0 returns nil *)
  x_uses_error_code : bool; (* query.Error: code = apperr.Code() *)
  x_exits_with_code : bool; (* return cli.Exit(message, code) *)
  x_recover_fatal : bool    (* recover() -> NewFatalError in Processor.execute *)
}.
Definition model_exit : xexit := mkXExit (category_code CatApplicationError) true true true true true.

(** ** what the process does *)
Inductive outcome : Type :=
| Success                      (* the action returned nil *)
| Failed (e : error_class).

(** the code handed to cli.Exit / os.Exit; [None]: cli.Exit is not called, main returns normally *)
Definition exit_request (o : outcome) : option Z :=
  match o with
  | Success => None
  | Failed (E_ForcedExit 0) => None
  | Failed e => Some (exit_code e)
  end.

(** exit status seen by the parent process: the low 8 bits *)
Definition process_status (o : outcome) : Z :=
  match exit_request o with
  | None => 0
  | Some c => c mod 256
  end.

(** the codes of the manual's table that are not chosen by the program or the signal number *)
Definition documented_codes : list Z := [1; 2; 4; 8; 16; 32; 64].

(** statuses a run may end with when the program contains no EXIT / TRIGGER ERROR code and no signal is sent *)
Definition documented_statuses : list Z := 0 :: documented_codes.
Definition status_documented (s : Z) : bool := existsb (Z.eqb s) documented_statuses.

(** class of an observed error number ([param]: the code given to EXIT / TRIGGER ERROR, if any) *)
Definition class_of_number (n : Z) (param : option Z) : option error_class :=
  if n =? 90640 then Some (E_ForcedExit (match param with Some c => c | None => 0 end))
  else if n =? 90650 then Some (E_UserTriggeredError param)
  else if (error_signal_base <? n) && (n <=? error_signal_base + 64) then Some (E_SignalReceived (n - error_signal_base))
  else find (fun e => match error_number e with Some m => m =? n | None => false end) static_classes.

