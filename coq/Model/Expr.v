(* Expr.v -- the scalar expression fragment of lib/query/eval.go, with the code's evaluation order
   and short-circuits.  Definitions only. *)
From Coq Require Import Floats.
Require Import Csvq.Model.Base Csvq.Model.Value Csvq.Model.Compare Csvq.Model.Arith.
Open Scope Z_scope.

Inductive expr :=
| ELit (v : val)
| ECol (i : nat)                                   (* resolved field of the current record *)
| EArith (op : aop) (a b : expr)
| EUnary (neg : bool) (a : expr)
| ECmp (op : cop) (a b : expr)
| EIs (neg : bool) (a b : expr)
| EBetween (neg : bool) (a lo hi : expr)
| EIn (neg : bool) (a : expr) (l : list expr)
| EAny (op : cop) (a : expr) (l : list expr)
| EAll (op : cop) (a : expr) (l : list expr)
| ECase (v : option expr) (whens : list (expr * expr)) (els : option expr)
| EAnd (a b : expr)
| EOr (a b : expr)
| ENot (a : expr).

(* InRowValueList for single values: ANY stops at the first TRUE, ALL at the first FALSE; otherwise
   ternary.Any / ternary.All of all results *)
Fixpoint any_loop (op : cop) (v : val) (l : list val) (acc : tern) : tern :=
  match l with
  | [] => acc
  | x :: l' => match compare_op op v x with TT => TT | t => any_loop op v l' (tor acc t) end
  end.
Fixpoint all_loop (op : cop) (v : val) (l : list val) (acc : tern) : tern :=
  match l with
  | [] => acc
  | x :: l' => match compare_op op v x with TF => TF | t => all_loop op v l' (tand acc t) end
  end.
Definition any_op op v l := any_loop op v l TF.
Definition all_op op v l := all_loop op v l TT.

Section Eval.
  Variable row : list val.

  Fixpoint eval (e : expr) : res val :=
    let eval_list := fix eval_list (l : list expr) : res (list val) :=
      match l with
      | [] => Ok []
      | x :: l' => do v <- eval x; do vs <- eval_list l'; Ok (v :: vs)
      end in
    match e with
    | ELit v => Ok v
    | ECol i => match nth_error row i with Some v => Ok v | None => Err EField end
    | EArith op a b =>
        do x <- eval a;
        if is_null x then Ok VNull else
        do y <- eval b; calculate x y op
    | EUnary neg a => do x <- eval a; Ok (unary_arith neg x)
    | ECmp op a b =>
        do x <- eval a;
        if is_null x then Ok (VTern TU) else
        do y <- eval b; Ok (VTern (compare_op op x y))
    | EIs neg a b =>
        do x <- eval a; do y <- eval b;
        let t := is_op x y in Ok (VTern (if neg then tnot t else t))
    | EBetween neg a lo hi =>
        do x <- eval a;
        if is_null x then Ok (VTern TU) else
        do l <- eval lo;
        let lr := op_ge x l in
        do t <- (match lr with
                 | TF => Ok TF
                 | _ => do h <- eval hi; Ok (tand lr (op_le x h))
                 end);
        Ok (VTern (if neg then tnot t else t))
    | EIn neg a l =>
        do x <- eval a; do vs <- eval_list l;
        Ok (VTern (if neg then all_op OpNe x vs else any_op OpEq x vs))
    | EAny op a l => do x <- eval a; do vs <- eval_list l; Ok (VTern (any_op op x vs))
    | EAll op a l => do x <- eval a; do vs <- eval_list l; Ok (VTern (all_op op x vs))
    | ECase v whens els =>
        do vv <- (match v with Some ve => do x <- eval ve; Ok (Some x) | None => Ok None end);
        let whens_loop := fix whens_loop (ws : list (expr * expr)) : res val :=
          match ws with
          | [] => match els with Some ee => eval ee | None => Ok VNull end
          | (c, r) :: ws' =>
              do cv <- eval c;
              let t := match vv with None => ternary_of cv | Some x => op_eq x cv end in
              match t with TT => eval r | _ => whens_loop ws' end
          end in
        whens_loop whens
    | EAnd a b =>
        do x <- eval a;
        match ternary_of x with
        | TF => Ok (VTern TF)
        | tx => do y <- eval b; Ok (VTern (tand tx (ternary_of y)))
        end
    | EOr a b =>
        do x <- eval a;
        match ternary_of x with
        | TT => Ok (VTern TT)
        | tx => do y <- eval b; Ok (VTern (tor tx (ternary_of y)))
        end
    | ENot a => do x <- eval a; Ok (VTern (tnot (ternary_of x)))
    end.
End Eval.
