(** * Csvq.Model.Fixed -- the fixed-length loader with explicit delimiter positions

    Mirrors github.com/mithrandie/go-text/fixedlen (Reader.parseRecord, as called by csvq) and
    lib/query/load_view.go loadViewFromFixedLengthTextFile, for UTF-8 input given as code points
    (valid UTF-8 only: the decoding step is outside the model) and an explicit position list (the
    automatic SPACES detection of delimiter.go is outside the model).  Quirks kept:
      - positions are validated lazily, inside every record (after earlier fields were read);
      - end of input counts as "end of records" only while nothing of the record has been consumed
        (recordPos < 1), otherwise it ends the line;
      - a CR at the very end of the input is an ERROR (ReadRune fails, the following UnreadRune is invalid);
      - a rune that straddles a delimiter position is an error;
      - fields are trimmed with unicode.IsSpace; an empty field is NULL unless without-null (the header is
        always read "without null"); empty header names become "__@i__";
      - in single-line mode ('S[...]') nothing is skipped after the last position and no header is read;
        with an EMPTY position list a record consumes nothing: the reader never reaches the end of a
        non-empty input ([LOutOfFuel] is that outcome -- finding fixed-single-line-empty-positions).
    Definitions only. *)
Require Import Csvq.Model.Base Csvq.Model.Value Csvq.Model.Conv.
Open Scope Z_scope.

Inductive perr : Type := PE_InvalidPosition | PE_CannotDelimit | PE_UnreadRune | PE_EOF.

Definition utf8_len (c : N) : Z :=
  if (c <? 128)%N then 1 else if (c <? 2048)%N then 2 else if (c <? 65536)%N then 3 else 4.

(** the `switch c` of parseRecord: is c (with what follows) a line break?  [None]: CR at the end of the input *)
Definition step_newline (c : N) (rest : str) : option (bool * str) :=
  if (c =? 13)%N then
    match rest with
    | [] => None
    | c2 :: rest' => if (c2 =? 10)%N then Some (true, rest') else Some (true, rest)
    end
  else if (c =? 10)%N then Some (true, rest)
  else Some (false, rest).

Inductive fres : Type :=
| FErr (e : perr)
| FDone (buf : str) (rest : str) (recordPos : Z) (lineEnd : bool).

(** the inner loop `for !lineEnd && recordPos < delimiterPos`; buf is kept reversed *)
Fixpoint read_field (inp : str) (recordPos delimPos : Z) (buf : str) : fres :=
  if recordPos <? delimPos then
    match inp with
    | [] => if recordPos <? 1 then FErr PE_EOF else FDone buf [] recordPos true
    | c :: rest =>
        match step_newline c rest with
        | None => FErr PE_UnreadRune
        | Some (true, rest') => FDone buf rest' recordPos true
        | Some (false, _) =>
            let rp := recordPos + utf8_len c in
            if delimPos <? rp then FErr PE_CannotDelimit else read_field rest rp delimPos (c :: buf)
        end
    end
  else FDone buf inp recordPos false.

Definition cell_of (wn : bool) (buf_rev : str) : option str :=
  match strings_trim_space (rev buf_rev) with
  | [] => if wn then Some [] else None
  | t => Some t
  end.

Inductive pres : Type :=
| PErr (e : perr)
| PFields (rec : list (option str)) (rest : str) (recordPos : Z) (lineEnd : bool).

(** the loop over DelimiterPositions *)
Fixpoint read_fields (ps : list Z) (inp : str) (recordPos delimPos : Z) (lineEnd wn : bool)
         (acc : list (option str)) : pres :=
  match ps with
  | [] => PFields (rev acc) inp recordPos lineEnd
  | p :: ps' =>
      if (p <? 0) || (p <=? delimPos) then PErr PE_InvalidPosition
      else if lineEnd then read_fields ps' inp recordPos p true wn (cell_of wn [] :: acc)
      else match read_field inp recordPos p [] with
           | FErr e => PErr e
           | FDone buf inp' rp le => read_fields ps' inp' rp p le wn (cell_of wn buf :: acc)
           end
  end.

Inductive sres : Type := SErr (e : perr) | SDone (rest : str).

(** `if !r.SingleLine && !lineEnd`: skip the rest of the line *)
Fixpoint skip_line (inp : str) (recordPos : Z) : sres :=
  match inp with
  | [] => if recordPos <? 1 then SErr PE_EOF else SDone []
  | c :: rest =>
      match step_newline c rest with
      | None => SErr PE_UnreadRune
      | Some (true, rest') => SDone rest'
      | Some (false, _) => skip_line rest (recordPos + 1)
      end
  end.

Inductive rres : Type := RErr (e : perr) | ROk (rec : list (option str)) (rest : str).

Definition parse_record (ps : list Z) (single wn : bool) (inp : str) : rres :=
  match read_fields ps inp 0 0 false wn [] with
  | PErr e => RErr e
  | PFields rec inp' rp le =>
      if negb single && negb le then
        match skip_line inp' rp with
        | SErr e => RErr e
        | SDone inp'' => ROk rec inp''
        end
      else ROk rec inp'
  end.

Inductive lres : Type :=
| LErr (e : perr)
| LOutOfFuel
| LOk (rows : list (list (option str))).

(** readRecordSet / ReadAll: Read until io.EOF *)
Fixpoint read_all (fuel : nat) (ps : list Z) (single wn : bool) (inp : str) (acc : list (list (option str))) : lres :=
  match fuel with
  | O => LOutOfFuel
  | S f =>
      match parse_record ps single wn inp with
      | RErr PE_EOF => LOk (rev acc)
      | RErr e => LErr e
      | ROk rec inp' => read_all f ps single wn inp' (rec :: acc)
      end
  end.

(** decimal rendering of a positive number (strconv.Itoa), for the generated column names *)
Fixpoint digits_of (fuel : nat) (n : N) (acc : str) : str :=
  match fuel with
  | O => acc
  | S f => let acc' := (48 + n mod 10)%N :: acc in
           if (n / 10 =? 0)%N then acc' else digits_of f (n / 10)%N acc'
  end.
Definition itoa (n : N) : str := digits_of 20 n [].

Fixpoint default_names (i : N) (n : nat) : list str :=
  match n with O => [] | S n' => (99%N :: itoa i) :: default_names (N.succ i) n' end.   (* "c" ++ i *)

(** NewHeaderWithAutofill: "" -> "__@i__" *)
Fixpoint autofill (i : N) (h : list str) : list str :=
  match h with
  | [] => []
  | w :: h' => (match w with [] => [95; 95; 64]%N ++ itoa i ++ [95; 95]%N | _ => w end) :: autofill (N.succ i) h'
  end.

Record table : Type := mkTable { t_header : list str; t_rows : list (list (option str)) }.

Inductive fload : Type :=
| FLErr (e : perr)
| FLOutOfFuel
| FLTable (t : table).

Definition cell_text (c : option str) : str := match c with Some s => s | None => [] end.

Definition fixed_load (ps : list Z) (single noheader wn : bool) (inp : str) : fload :=
  let hdr :=
    if negb noheader && negb single then
      match parse_record ps single true inp with
      | ROk rec rest => inr (Some (map cell_text rec), rest)
      | RErr PE_EOF => inr (None, [])
      | RErr e => inl e
      end
    else inr (None, inp) in
  match hdr with
  | inl e => FLErr e
  | inr (h, rest) =>
      match read_all (S (length rest)) ps single wn rest [] with
      | LErr e => FLErr e
      | LOutOfFuel => FLOutOfFuel
      | LOk rows =>
          let names := match h with Some names => names | None => default_names 1 (length ps) end in
          FLTable (mkTable (autofill 1 names) rows)
      end
  end.

Definition rectangular (t : table) : Prop :=
  Forall (fun r => length r = length (t_header t)) (t_rows t).

Definition rectangularb (t : table) : bool :=
  forallb (fun r => Nat.eqb (length r) (length (t_header t))) (t_rows t).
