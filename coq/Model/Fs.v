(* Fs.v -- the part of the file system csvq's transaction layer touches (lib/file): a finite map
   from paths to contents, and the vocabulary of mutating system calls the real binary is
   observed to issue under strace (openat O_CREAT|O_EXCL, ftruncate, write, close, unlinkat,
   renameat).  Definitions only (no proofs).  Shared by C10 (Commit.v) and C11 (Cleanup.v). *)
Require Import Csvq.Model.Base.

(* ---- paths ------------------------------------------------------------------------------
   A table file NAME and its hidden control files (lib/file/functions.go getFilePath):
     KData      NAME
     KLock      .NAME.lock
     KTemp      .NAME.temp
     KRLock sfx .NAME.<12 random characters>.rlock   -- sfx 0 is the name this process draws
                (RLockFilePath retries until the name is unused); other suffixes belong to
                competing readers.
   Tables are numbered (N); the harness maps file names to numbers. *)
Inductive kind := KData | KLock | KTemp | KRLock (sfx : N).
Definition path := (kind * N)%type.

Definition kind_eqb (a b : kind) : bool :=
  match a, b with
  | KData, KData | KLock, KLock | KTemp, KTemp => true
  | KRLock x, KRLock y => N.eqb x y
  | _, _ => false
  end.
Definition path_eqb (a b : path) : bool := kind_eqb (fst a) (fst b) && N.eqb (snd a) (snd b).

Definition data (t : N) : path := (KData, t).
Definition lockp (t : N) : path := (KLock, t).
Definition tempp (t : N) : path := (KTemp, t).
Definition rlockp (t : N) : path := (KRLock 0, t).

Definition is_data (p : path) : bool := match fst p with KData => true | _ => false end.
Definition is_control (p : path) : bool := negb (is_data p).
Definition is_rlock (p : path) : bool := match fst p with KRLock _ => true | _ => false end.

(* ---- contents and the map --------------------------------------------------------------- *)
Notation content := (list N).          (* bytes *)
Definition content_eqb : content -> content -> bool := list_eqb N.eqb.

Definition fs := list (path * content).

Fixpoint lookup (s : fs) (p : path) : option content :=
  match s with
  | [] => None
  | (q, c) :: s' => if path_eqb q p then Some c else lookup s' p
  end.
Fixpoint del (s : fs) (p : path) : fs :=
  match s with
  | [] => []
  | (q, c) :: s' => if path_eqb q p then del s' p else (q, c) :: del s' p
  end.
Definition set (s : fs) (p : path) (c : content) : fs := (p, c) :: del s p.
Definition exists_b (s : fs) (p : path) : bool := match lookup s p with Some _ => true | None => false end.

(* RLockExists: glob .NAME.*.rlock *)
Definition rlock_exists (s : fs) (t : N) : bool :=
  existsb (fun e => is_rlock (fst e) && N.eqb (snd (fst e)) t) s.

(* ---- system calls ------------------------------------------------------------------------ *)
Inductive op :=
| OCreate (p : path)              (* openat(p, O_RDWR|O_CREAT|O_EXCL): fails when p exists *)
| OTrunc (p : path)               (* ftruncate(fd of p, 0) *)
| OWrite (p : path) (d : content) (* write(fd of p, d) at the end of the file *)
| OClose (p : path)               (* close(fd of p): the name space does not change *)
| ORemove (p : path)              (* unlinkat(p) *)
| ORename (src dst : path).       (* renameat(src, dst): atomically replaces dst *)

(* a failing call changes nothing; [enabled] says when a call succeeds *)
Definition step (s : fs) (o : op) : fs :=
  match o with
  | OCreate p => match lookup s p with None => set s p [] | Some _ => s end
  | OTrunc p => match lookup s p with Some _ => set s p [] | None => s end
  | OWrite p d => match lookup s p with Some c => set s p (c ++ d) | None => s end
  | OClose _ => s
  | ORemove p => del s p
  | ORename a b => match lookup s a with Some c => set (del s a) b c | None => s end
  end.
Definition run (s : fs) (ops : list op) : fs := fold_left step ops s.

Definition enabled (s : fs) (o : op) : bool :=
  match o with
  | OCreate p => negb (exists_b s p)
  | OTrunc p | OWrite p _ | OClose p | ORemove p => exists_b s p
  | ORename a _ => exists_b s a
  end.
Fixpoint all_enabled (s : fs) (ops : list op) : bool :=
  match ops with
  | [] => true
  | o :: r => enabled s o && all_enabled (step s o) r
  end.

(* the paths whose binding a call can change *)
Definition op_paths (o : op) : list path :=
  match o with
  | OCreate p | OTrunc p | OWrite p _ | ORemove p => [p]
  | OClose _ => []
  | ORename a b => [a; b]
  end.
(* the table a call belongs to (every call csvq issues stays inside one table's files) *)
Definition op_tbl (o : op) : N :=
  match o with
  | OCreate p | OTrunc p | OWrite p _ | OClose p | ORemove p => snd p
  | ORename a _ => snd a
  end.
Definition op_local (o : op) : bool :=
  match o with ORename a b => N.eqb (snd a) (snd b) | _ => true end.

(* ---- equality tests used by the correspondence ------------------------------------------- *)
Definition op_eqb (a b : op) : bool :=
  match a, b with
  | OCreate p, OCreate q | OTrunc p, OTrunc q | OClose p, OClose q | ORemove p, ORemove q => path_eqb p q
  | OWrite p d, OWrite q e => path_eqb p q && content_eqb d e
  | ORename a1 a2, ORename b1 b2 => path_eqb a1 b1 && path_eqb a2 b2
  | _, _ => false
  end.
Definition ops_eqb : list op -> list op -> bool := list_eqb op_eqb.

(* extensional equality of two maps *)
Definition fs_sub (a b : fs) : bool :=
  forallb (fun e => option_eqb content_eqb (lookup a (fst e)) (lookup b (fst e))) a.
Definition fs_eqb (a b : fs) : bool := fs_sub a b && fs_sub b a.

Definition mem (t : N) (l : list N) : bool := existsb (N.eqb t) l.
Fixpoint nodup_b (l : list N) : bool :=
  match l with [] => true | x :: r => negb (mem x r) && nodup_b r end.
Definition sub_b (a b : list N) : bool := forallb (fun x => mem x b) a.
Definition same_set (a b : list N) : bool := sub_b a b && sub_b b a.
(* a with duplicates allowed nowhere: permutation test for duplicate-free lists *)
Definition perm_b (a b : list N) : bool := nodup_b a && nodup_b b && same_set a b.

Fixpoint assoc {A} (l : list (N * A)) (t : N) : option A :=
  match l with
  | [] => None
  | (k, v) :: r => if N.eqb k t then Some v else assoc r t
  end.
