(* Key.v -- comparison keys (lib/query/utils.go: SerializeComparisonKeys, SerializeKey,
   SerializeIdenticalKey): bucket identity for DISTINCT / GROUP BY / set operators / PARTITION BY.
   Definitions only. *)
From Coq Require Import Floats DecimalString.
Require Import Csvq.Model.Base Csvq.Model.Value.
Open Scope Z_scope.

(* the normal form a value is bucketed by *)
Inductive kform :=
| KNull | KInt (z : Z) | KFloat (f : float) | KDt (n : Z) | KStr (s : str)
| KBool (b : bool) | KTern (t : tern).      (* the last two only under --strict-equal *)

(* SerializeKey: integer, float, datetime, boolean (as integer 1/0), upper-cased trimmed text;
   anything else (NULL, the ternary UNKNOWN, a datetime-less non-text) goes with NULL *)
Definition knorm_loose (v : val) : kform :=
  if is_null v then KNull else
  match to_int_strict v with
  | Some z => KInt z
  | None =>
    match to_float v with
    | Some f => KFloat f
    | None =>
      match to_dt v with
      | Some d => KDt d
      | None =>
        match to_bool v with
        | Some b => KInt (if b then 1 else 0)
        | None => match v with VStr s => KStr (upper s) | _ => KNull end
        end
      end
    end
  end.

(* SerializeIdenticalKey: exact type; text trimmed but case-sensitive *)
Definition knorm_strict (v : val) : kform :=
  match v with
  | VStr s => KStr (trimmed s)
  | VInt z => KInt z
  | VFloat f => KFloat f
  | VBool b => KBool b
  | VTern t => KTern t
  | VDt n => KDt n
  | VNull => KNull
  end.

Definition knorm (strict : bool) (v : val) : kform := if strict then knorm_strict v else knorm_loose v.

Definition kform_eqb (a b : kform) : bool :=
  match a, b with
  | KNull, KNull => true
  | KInt x, KInt y => x =? y
  | KFloat x, KFloat y => float_same x y
  | KDt x, KDt y => x =? y
  | KStr x, KStr y => str_eqb x y
  | KBool x, KBool y => Bool.eqb x y
  | KTern x, KTern y => tern_eqb x y
  | _, _ => false
  end.

Definition keys_eqb (a b : list kform) : bool := list_eqb kform_eqb a b.
Definition row_key (strict : bool) (r : list val) : list kform := map (knorm strict) r.

(* ---- the string codec ------------------------------------------------------------------- *)
Definition colon : N := 58.
Definition bslash : N := 92.

(* writeEscapedKeyText: ':' and '\' are preceded by '\' *)
Fixpoint esc (s : str) : str :=
  match s with
  | [] => []
  | c :: r => if (c =? colon)%N || (c =? bslash)%N then bslash :: c :: esc r else c :: esc r
  end.

Fixpoint uint_str (d : Decimal.uint) : str :=
  match d with
  | Decimal.Nil => []
  | Decimal.D0 d => 48%N :: uint_str d | Decimal.D1 d => 49%N :: uint_str d
  | Decimal.D2 d => 50%N :: uint_str d | Decimal.D3 d => 51%N :: uint_str d
  | Decimal.D4 d => 52%N :: uint_str d | Decimal.D5 d => 53%N :: uint_str d
  | Decimal.D6 d => 54%N :: uint_str d | Decimal.D7 d => 55%N :: uint_str d
  | Decimal.D8 d => 56%N :: uint_str d | Decimal.D9 d => 57%N :: uint_str d
  end.
Definition int_str (i : Decimal.int) : str :=
  match i with Decimal.Pos d => uint_str d | Decimal.Neg d => 45%N :: uint_str d end.
(* strconv.FormatInt(z, 10) *)
Definition z_to_str (z : Z) : str := int_str (Z.to_int z).

Section Ser.
  (* strconv.FormatFloat(f, 'f', -1, 64): an oracle (trusted base) *)
  Variable ffmt : float -> str.

  Definition ser_item (k : kform) : str :=
    match k with
    | KNull => [91; 78; 93]%N
    | KInt z => [91; 73; 93]%N ++ z_to_str z
    | KFloat f => [91; 70; 93]%N ++ ffmt f
    | KDt n => [91; 68; 93]%N ++ z_to_str n
    | KStr s => [91; 83; 93]%N ++ esc s
    | KBool b => [91; 66; 93]%N ++ [if b then 84%N else 70%N]
    | KTern t => [91; 84; 93]%N ++ [match t with TT => 84%N | TF => 70%N | TU => 85%N end]
    end.

  Fixpoint join (l : list str) : str :=
    match l with
    | [] => []
    | [x] => x
    | x :: r => x ++ colon :: join r
    end.

  Definition ser_keys (ks : list kform) : str := join (map ser_item ks).
End Ser.

(* ---- buckets ---------------------------------------------------------------------------- *)
Notation K := (list kform).
Definition indexed {A} (l : list A) : list (nat * A) := combine (seq 0 (length l)) l.

Fixpoint seen (k : K) (l : list K) : bool :=
  match l with [] => false | k' :: l' => keys_eqb k k' || seen k l' end.

(* first row of every bucket, in input order (DISTINCT, UNION, the bucket order of GROUP BY) *)
Fixpoint dist (l : list (nat * K)) (acc : list K) : list (nat * K) :=
  match l with
  | [] => []
  | (i, k) :: l' => if seen k acc then dist l' acc else (i, k) :: dist l' (k :: acc)
  end.
Definition distinct_idx (ks : list K) : list nat := map fst (dist (indexed ks) []).

(* GROUP BY: buckets in order of first occurrence; a bucket lists its row indices in input order *)
Definition bucket (l : list (nat * K)) (k : K) : list nat :=
  map fst (filter (fun p => keys_eqb (snd p) k) l).
Definition group (l : list (nat * K)) : list (list nat) := map (fun r => bucket l (snd r)) (dist l []).
Definition group_keys (ks : list K) : list (list nat) := group (indexed ks).

(* EXCEPT / INTERSECT [ALL] as coded in view.go: keep the left rows whose key is absent from /
   present in the right side; without ALL only the first row of each key *)
Fixpoint setop (keep_if_in_right all : bool) (l : list (nat * K)) (rk : list K) (acc : list K) : list nat :=
  match l with
  | [] => []
  | (i, k) :: l' =>
      if Bool.eqb (seen k rk) keep_if_in_right then
        if all then i :: setop keep_if_in_right all l' rk acc
        else if seen k acc then setop keep_if_in_right all l' rk acc
             else i :: setop keep_if_in_right all l' rk (k :: acc)
      else setop keep_if_in_right all l' rk acc
  end.
Definition except_idx all lk rk := setop false all (indexed lk) rk [].
Definition intersect_idx all lk rk := setop true all (indexed lk) rk [].
(* UNION [ALL] over the concatenation of both sides *)
Definition union_idx (all : bool) (lk rk : list K) : list nat :=
  if all then seq 0 (length lk + length rk) else distinct_idx (lk ++ rk).
