(* Lex.v -- lib/parser/scanner.go (Scanner.Scan and everything it calls) on code-point lists.

   The scanner works on `[]rune(src)` and only ever looks forward, so its state is the remaining
   input together with the line/char counters and the three placeholder counters.  Every loop of
   the Go code that is driven by `s.peek()`/`s.next()` is a structural recursion on the remaining
   input here (no fuel); only the re-entry of Scan after a comment (`return s.Scan()`) and the
   token loop of the caller use fuel, and running out of it is the distinguished outcome [None].

   Data the scanner takes from elsewhere is a parameter ([cfg]): the numbers goyacc assigned to
   the token names, the keyword table (yyToknames[SELECT..JSON_OBJECT]), and the Unicode tables of
   the Go runtime for letters and decimal digits above Latin-1.  Definitions only. *)
Require Import Csvq.Model.Base Csvq.Model.Escape.
Open Scope N_scope.

(* ---- unicode.IsSpace / IsLetter / IsDigit --------------------------------------------------- *)
(* a range table entry: lo, hi, stride (unicode.Range16 / Range32) *)
Definition ranges := list (N * N * N).
Definition in_ranges (t : ranges) (c : N) : bool :=
  existsb (fun e => match e with (lo, hi, st) =>
     (lo <=? c) && (c <=? hi) && (((c - lo) mod st) =? 0) end) t.

(* unicode.IsSpace: the Latin-1 switch, then White_Space above Latin-1 *)
Definition is_space (c : N) : bool :=
  if c <=? 255 then
    ((9 <=? c) && (c <=? 13)) || (c =? 32) || (c =? 133) || (c =? 160)
  else (c =? 5760) || ((8192 <=? c) && (c <=? 8202)) || (c =? 8232) || (c =? 8233)
       || (c =? 8239) || (c =? 8287) || (c =? 12288).

(* unicode.IsLetter: the Latin-1 property table, then the Letter table *)
Definition is_letter (letters : ranges) (c : N) : bool :=
  if c <=? 255 then
    ((65 <=? c) && (c <=? 90)) || ((97 <=? c) && (c <=? 122)) || (c =? 170) || (c =? 181) || (c =? 186)
    || ((192 <=? c) && (c <=? 214)) || ((216 <=? c) && (c <=? 246)) || (248 <=? c)
  else in_ranges letters c.

Definition is_decimal (c : N) : bool := (48 <=? c) && (c <=? 57).

(* unicode.IsDigit *)
Definition is_digit (digits : ranges) (c : N) : bool :=
  if c <=? 255 then is_decimal c else in_ranges digits c.

(* ---- token numbers and configuration -------------------------------------------------------- *)
Record tokc := mkTokc {
  k_identifier : Z; k_string : Z; k_integer : Z; k_float : Z; k_ternary : Z;
  k_variable : Z; k_flag : Z; k_envvar : Z; k_runtime : Z; k_extcmd : Z; k_placeholder : Z;
  k_constant : Z; k_tablefn : Z; k_url : Z;
  k_compop : Z; k_strop : Z; k_substop : Z;
  k_aggfn : Z; k_listfn : Z; k_analyticfn : Z; k_fnnth : Z; k_fnins : Z }.

Definition k_eof : Z := (-1)%Z.             (* const EOF = -(iota + 1) *)
Definition k_uncategorized : Z := (-2)%Z.   (* const Uncategorized *)

Record cfg := mkCfg {
  c_tok : tokc;
  c_kw : list (str * Z);      (* TokenLiteral(i), i for i = KeywordFrom .. KeywordTo, in this order *)
  c_letters : ranges;         (* unicode.Letter above Latin-1 *)
  c_digits : ranges;          (* unicode.Digit (Nd) above Latin-1 *)
  c_private : N * N }.        (* (yyPrivate, len(yyTok2)): the private-use code points that are the parser's token numbers *)

(* const UnknownCharacter = unicode.MaxRune + 1: the token of a stray character whose code point is a token number *)
Definition k_unknown_char : Z := 1114112%Z.
Definition is_token_number (c : cfg) (ch : N) : bool :=
  (fst (c_private c) <=? ch) && (ch <? fst (c_private c) + snd (c_private c)).

Record modes := mkModes { m_prepared : bool; m_ansi : bool }.

Inductive lexerr :=
| ENotTerminated      (* "literal not terminated" *)
| EInvalidVariable    (* "invalid variable symbol" *)
| EInvalidConstant    (* errInvalidConstantSyntax *)
| ENumber.            (* "cound not convert %q to a number" *)

Record token := mkTok {
  t_kind : Z; t_lit : str; t_quoted : bool; t_ord : N; t_line : N; t_char : N; t_err : option lexerr }.

(* position state: s.src[s.srcPos:], s.line, s.char *)
Record pst := mkP { p_rest : str; p_line : N; p_col : N }.
(* placeholder state: holderOrdinal, holderNames, holderNumber *)
Record hst := mkH { h_ord : N; h_names : list str; h_num : N }.

Definition init_pst (src : str) : pst := mkP src 1 0.
Definition init_hst : hst := mkH 0 [] 0.

(* ---- peek / next ---------------------------------------------------------------------------- *)
Definition peek (s : pst) : option N := hd_error (p_rest s).
Definition peek_ahead (n : nat) (s : pst) : option N := nth_error (p_rest s) (n - 1).

Definition opt_is (p : N -> bool) (o : option N) : bool := match o with Some c => p c | None => false end.
Definition opt_eq (o : option N) (c : N) : bool := opt_is (N.eqb c) o.

(* s.next(): EOF leaves the state alone; otherwise srcPos++, char++, then checkNewLine: CR, LF and
   CR LF are one line break (line++, char = 0) and the rune handed back is s.src[s.srcPos-1],
   i.e. LF for CR LF *)
Definition next (s : pst) : option N * pst :=
  match p_rest s with
  | [] => (None, s)
  | c :: r =>
      if c =? 13 then
        match r with
        | d :: r' => if d =? 10 then (Some 10, mkP r' (p_line s + 1) 0)
                     else (Some 13, mkP r (p_line s + 1) 0)
        | [] => (Some 13, mkP r (p_line s + 1) 0)
        end
      else if c =? 10 then (Some 10, mkP r (p_line s + 1) 0)
      else (Some c, mkP r (p_line s) (p_col s + 1))
  end.

(* `for p(s.peek()) { s.literal.WriteRune(s.next()) }` *)
Fixpoint while_next_l (p : N -> bool) (l : str) (ln cl : N) : str * pst :=
  match l with
  | [] => ([], mkP [] ln cl)
  | c :: r =>
      if p c then
        if c =? 13 then
          match r with
          | d :: r' => if d =? 10 then let (w, s) := while_next_l p r' (ln + 1) 0 in (10 :: w, s)
                       else let (w, s) := while_next_l p r (ln + 1) 0 in (13 :: w, s)
          | [] => let (w, s) := while_next_l p r (ln + 1) 0 in (13 :: w, s)
          end
        else if c =? 10 then let (w, s) := while_next_l p r (ln + 1) 0 in (10 :: w, s)
        else let (w, s) := while_next_l p r ln (cl + 1) in (c :: w, s)
      else ([], mkP l ln cl)
  end.
Definition while_next (p : N -> bool) (s : pst) : str * pst :=
  while_next_l p (p_rest s) (p_line s) (p_col s).

(* ---- character classes of the scanner ------------------------------------------------------- *)
Definition is_ident_rune (c : cfg) (ch : N) : bool :=
  (ch =? 95) || is_letter (c_letters c) ch || is_digit (c_digits c) ch.

Definition is_operator_rune (ch : N) : bool :=
  (ch =? 61) || (ch =? 62) || (ch =? 60) || (ch =? 33) || (ch =? 124) || (ch =? 58).

(* runesNotIncludedInUrl: braces, bar, backslash, caret, brackets, back quote *)
Definition is_rune_not_in_url (ch : N) : bool :=
  (ch =? 123) || (ch =? 125) || (ch =? 124) || (ch =? 92) || (ch =? 94) || (ch =? 91) || (ch =? 93) || (ch =? 96).
Definition is_url_rune (ch : N) : bool := negb (is_space ch) && negb (is_rune_not_in_url ch).

(* ---- case-insensitive word tests ------------------------------------------------------------ *)
(* strings.ToUpper as far as it can produce an ASCII text: a-z, and the two non-ASCII runes whose
   upper case is ASCII (U+017F long s -> S, U+0131 dotless i -> I) *)
Definition to_upper (c : N) : N :=
  if (97 <=? c) && (c <=? 122) then c - 32
  else if c =? 383 then 83 else if c =? 305 then 73 else c.
Definition upper_is (word : str) (lit : str) : bool := str_eqb (map to_upper lit) word.

(* strings.EqualFold(word, text) for a word over ASCII (the keywords and function names are made
   of A-Z, 0-9 and _): runes are equal under simple case folding iff they have the same
   representative below -- the upper-case letter for ASCII letters, K for U+212A KELVIN SIGN and S
   for U+017F LATIN SMALL LETTER LONG S (the only non-ASCII runes in the folding orbit of an ASCII
   rune); every other rune is alone as far as ASCII words are concerned. *)
Definition ascii_upper (c : N) : N := if (97 <=? c) && (c <=? 122) then c - 32 else c.
Definition fold_canon (c : N) : N :=
  if c <? 128 then ascii_upper c else if c =? 8490 then 75 else if c =? 383 then 83 else c.
(* [cl] is the text already mapped through fold_canon *)
Fixpoint fold_match (word cl : str) : bool :=
  match word, cl with
  | [], [] => true
  | k :: w, c :: l => if fold_canon k =? c then fold_match w l else false
  | _, _ => false
  end.
Definition equal_fold (word lit : str) : bool := fold_match word (map fold_canon lit).
Fixpoint fold_member (words : list str) (cl : str) : bool :=
  match words with
  | [] => false
  | w :: ws => if fold_match w cl then true else fold_member ws cl
  end.
Definition in_fold_list (words : list str) (lit : str) : bool := fold_member words (map fold_canon lit).

(* ternary.ConvertFromString on an identifier: strings.ToUpper(s) is FALSE, TRUE or UNKNOWN
   (the numeric spellings -1, 1, 0 cannot start with an identifier rune that is not a decimal) *)
Definition w_TRUE : str := [84;82;85;69].
Definition w_FALSE : str := [70;65;76;83;69].
Definition w_UNKNOWN : str := [85;78;75;78;79;87;78].
Definition w_1 : str := [49].
Definition w_0 : str := [48].
Definition w_m1 : str := [45;49].
Definition is_ternary_word (lit : str) : bool :=
  let u := map to_upper lit in
  if str_eqb u w_FALSE then true else if str_eqb u w_m1 then true
  else if str_eqb u w_TRUE then true else if str_eqb u w_1 then true
  else if str_eqb u w_UNKNOWN then true else str_eqb u w_0.

(* searchKeyword: first i in KeywordFrom..KeywordTo with EqualFold(TokenLiteral(i), str) *)
Fixpoint search_keyword_c (kw : list (str * Z)) (cl : str) : option Z :=
  match kw with
  | [] => None
  | (w, k) :: kw' => if fold_match w cl then Some k else search_keyword_c kw' cl
  end.
Definition search_keyword (kw : list (str * Z)) (lit : str) : option Z :=
  search_keyword_c kw (map fold_canon lit).

Definition aggregate_functions : list str :=
  [[77;73;78]; [77;65;88]; [83;85;77]; [65;86;71]; [83;84;68;69;86]; [83;84;68;69;86;80];
   [86;65;82;80]; [77;69;68;73;65;78]].           (* MIN MAX SUM AVG STDEV STDEVP VARP MEDIAN *)
Definition list_functions : list str :=
  [[76;73;83;84;65;71;71]; [74;83;79;78;95;65;71;71]].    (* LISTAGG JSON_AGG *)
Definition analytic_functions : list str :=
  [[82;79;87;95;78;85;77;66;69;82]; [82;65;78;75]; [68;69;78;83;69;95;82;65;78;75];
   [67;85;77;69;95;68;73;83;84]; [80;69;82;67;69;78;84;95;82;65;78;75]; [78;84;73;76;69]].
   (* ROW_NUMBER RANK DENSE_RANK CUME_DIST PERCENT_RANK NTILE *)
Definition functions_nth : list str :=
  [[70;73;82;83;84;95;86;65;76;85;69]; [76;65;83;84;95;86;65;76;85;69]; [78;84;72;95;86;65;76;85;69]].
   (* FIRST_VALUE LAST_VALUE NTH_VALUE *)
Definition functions_with_ins : list str := [[76;65;71]; [76;69;65;68]].   (* LAG LEAD *)

(* the if/else-if chain of the identifier case, up to the final `else` *)
Definition classify_word (c : cfg) (lit : str) : option Z :=
  if is_ternary_word lit then Some (k_ternary (c_tok c))
  else
    let cl := map fold_canon lit in
    match search_keyword_c (c_kw c) cl with
    | Some k => Some k
    | None =>
        if fold_member aggregate_functions cl then Some (k_aggfn (c_tok c))
        else if fold_member list_functions cl then Some (k_listfn (c_tok c))
        else if fold_member analytic_functions cl then Some (k_analyticfn (c_tok c))
        else if fold_member functions_nth cl then Some (k_fnnth (c_tok c))
        else if fold_member functions_with_ins cl then Some (k_fnins (c_tok c))
        else None
    end.

(* ---- numbers -------------------------------------------------------------------------------- *)
Fixpoint digits_val_acc (l : str) (acc : Z) : Z :=
  match l with
  | [] => acc
  | d :: l' => digits_val_acc l' (acc * 10 + Z.of_N (d - 48))%Z
  end.
Definition digits_val (l : str) : Z := digits_val_acc l 0%Z.

(* strconv.ParseInt(digits, 10, 64) succeeds iff the value fits (the text is all decimals) *)
Definition parse_int_ok (ds : str) : bool := (digits_val ds <=? max_int64)%Z.

(* strconv.ParseFloat on  D+ [ . D* ] [ (e|E) [+-] D* ]: a syntax error iff there is an exponent
   mark without exponent digits; a range error iff the exact decimal value rounds (to nearest,
   ties to even) to infinity, i.e. is at least 2^1024 - 2^970; underflow to zero is not an error.
   The size test before the exact comparison only avoids huge powers. *)
Definition float_threshold : Z := Eval vm_compute in (2 ^ 1024 - 2 ^ 970)%Z.
Definition float_overflows (mant : Z) (ndigits : Z) (e10 : Z) : bool :=
  if (mant =? 0)%Z then false
  else if (400 <? e10)%Z then true                    (* mant >= 1 *)
  else if (ndigits + e10 <? 200)%Z then false         (* mant < 10^ndigits *)
  else if (0 <=? e10)%Z then (float_threshold <=? mant * 10 ^ e10)%Z
  else (float_threshold * 10 ^ (- e10) <=? mant)%Z.

Definition parse_float_ok (int_ds frac_ds : str) (exp : option (bool * str)) : bool :=
  let mant := digits_val (int_ds ++ frac_ds) in
  let nd := Z.of_nat (length (int_ds ++ frac_ds)) in
  match exp with
  | None => negb (float_overflows mant nd (- Z.of_nat (length frac_ds)))
  | Some (neg, eds) =>
      match eds with
      | [] => false
      | _ => let e := digits_val eds in
             negb (float_overflows mant nd ((if neg then - e else e) - Z.of_nat (length frac_ds)))
      end
  end.

(* scanNumber(head) in its three parts: the digits after the head were read into the state [s1] *)
(* `if s.peek() == '.' { ... }`: has a fraction, its digits *)
Definition scan_frac (s1 : pst) : bool * str * pst :=
  if opt_eq (peek s1) 46 then
    let '(d2, s') := while_next is_decimal (snd (next s1)) in (true, d2, s')
  else (false, [], s1).
(* `if s.peek() == '+' || s.peek() == '-' { ... }` *)
Definition scan_sign (sa : pst) : str * pst :=
  match peek sa with
  | Some g => if (g =? 43) || (g =? 45) then ([g], snd (next sa)) else ([], sa)
  | None => ([], sa)
  end.
(* `if s.peek() == 'e' || s.peek() == 'E' { ... }`: (negative, exponent digits), what was written *)
Definition scan_exp (s2 : pst) : option (bool * str) * str * pst :=
  match peek s2 with
  | Some e =>
      if (e =? 101) || (e =? 69) then
        let '(sign, sb) := scan_sign (snd (next s2)) in
        let '(d3, sc) := while_next is_decimal sb in
        (Some (match sign with g :: _ => g =? 45 | [] => false end, d3), e :: sign ++ d3, sc)
      else (None, [], s2)
  | None => (None, [], s2)
  end.

(* scanNumber(head): kind, literal, error, state *)
Definition scan_number (c : cfg) (head : N) (s : pst) : Z * str * option lexerr * pst :=
  let '(d1, s1) := while_next is_decimal s in
  let int_ds := head :: d1 in
  let '(has_frac, frac_ds, s2) := scan_frac s1 in
  let '(exp, exp_lit, s3) := scan_exp s2 in
  let lit := (if has_frac then int_ds ++ 46 :: frac_ds else int_ds) ++ exp_lit in
  let is_int := negb has_frac && match exp with None => true | Some _ => false end in
  if is_int && parse_int_ok int_ds then (k_integer (c_tok c), lit, None, s3)
  else if parse_float_ok int_ds frac_ds exp then (k_float (c_tok c), lit, None, s3)
  else (k_float (c_tok c), lit, Some ENumber, s3).

(* ---- quoted literals: scanString(quote) ----------------------------------------------------- *)
(* result: the raw literal (escapes and doubled quotation marks kept), whether the closing
   quotation mark was found, the state.  [q] is one of the three quotation marks (never a line break or the backslash). *)
Fixpoint scan_string_l (q : N) (l : str) (ln cl : N) : str * bool * pst :=
  match l with
  | [] => ([], false, mkP [] ln cl)
  | c :: r =>
      if c =? 13 then
        match r with
        | d :: r' => if d =? 10 then let '(w, t, s) := scan_string_l q r' (ln + 1) 0 in (10 :: w, t, s)
                     else let '(w, t, s) := scan_string_l q r (ln + 1) 0 in (13 :: w, t, s)
        | [] => let '(w, t, s) := scan_string_l q r (ln + 1) 0 in (13 :: w, t, s)
        end
      else if c =? 10 then let '(w, t, s) := scan_string_l q r (ln + 1) 0 in (10 :: w, t, s)
      else if c =? q then
        match r with
        | d :: r' => if d =? q then let '(w, t, s) := scan_string_l q r' ln (cl + 2) in (q :: q :: w, t, s)
                     else ([], true, mkP r ln (cl + 1))
        | [] => ([], true, mkP r ln (cl + 1))
        end
      else if c =? 92 then
        match r with
        | d :: r' => if (d =? 92) || (d =? q)
                     then let '(w, t, s) := scan_string_l q r' ln (cl + 2) in (92 :: d :: w, t, s)
                     else let '(w, t, s) := scan_string_l q r ln (cl + 1) in (92 :: w, t, s)
        | [] => let '(w, t, s) := scan_string_l q r ln (cl + 1) in (92 :: w, t, s)
        end
      else let '(w, t, s) := scan_string_l q r ln (cl + 1) in (c :: w, t, s)
  end.
Definition scan_string (q : N) (s : pst) : str * bool * pst :=
  scan_string_l q (p_rest s) (p_line s) (p_col s).
Definition string_err (terminated : bool) : option lexerr :=
  if terminated then None else Some ENotTerminated.

(* ---- comments ------------------------------------------------------------------------------- *)
(* scanComment: after the opening mark, up to and including the first star-slash or to the end *)
Fixpoint scan_comment_l (l : str) (ln cl : N) : pst :=
  match l with
  | [] => mkP [] ln cl
  | c :: r =>
      if c =? 13 then
        match r with
        | d :: r' => if d =? 10 then scan_comment_l r' (ln + 1) 0 else scan_comment_l r (ln + 1) 0
        | [] => scan_comment_l r (ln + 1) 0
        end
      else if c =? 10 then scan_comment_l r (ln + 1) 0
      else if c =? 42 then
        match r with
        | d :: r' => if d =? 47 then mkP r' ln (cl + 2) else scan_comment_l r ln (cl + 1)
        | [] => scan_comment_l r ln (cl + 1)
        end
      else scan_comment_l r ln (cl + 1)
  end.
Definition scan_comment (s : pst) : pst := scan_comment_l (p_rest s) (p_line s) (p_col s).

(* scanLineComment: up to, not including, the next CR / LF *)
Definition not_eol (ch : N) : bool := negb ((ch =? 13) || (ch =? 10)).
Definition scan_line_comment (s : pst) : pst := snd (while_next not_eol s).

(* ---- external commands: scanExternalCommand and its two inner loops as one machine --------- *)
Inductive emode := ETop | EQuoted (q : N) | EExpr.
Definition is_quote (ch : N) : bool := (ch =? 34) || (ch =? 39) || (ch =? 96).

Fixpoint scan_ext_l (m : emode) (l : str) (ln cl : N) : str * pst :=
  match l with
  | [] => ([], mkP [] ln cl)
  | c :: r =>
      if match m with ETop => c =? 59 | _ => false end then ([], mkP l ln cl)
      else if c =? 13 then
        match r with
        | d :: r' => if d =? 10 then let (w, s) := scan_ext_l m r' (ln + 1) 0 in (10 :: w, s)
                     else let (w, s) := scan_ext_l m r (ln + 1) 0 in (13 :: w, s)
        | [] => let (w, s) := scan_ext_l m r (ln + 1) 0 in (13 :: w, s)
        end
      else if c =? 10 then let (w, s) := scan_ext_l m r (ln + 1) 0 in (10 :: w, s)
      else
        match m with
        | ETop =>
            if is_quote c then let (w, s) := scan_ext_l (EQuoted c) r ln (cl + 1) in (c :: w, s)
            else if c =? 36 then
              match r with
              | d :: r' => if d =? 123 then let (w, s) := scan_ext_l EExpr r' ln (cl + 2) in (36 :: 123 :: w, s)
                           else let (w, s) := scan_ext_l ETop r ln (cl + 1) in (c :: w, s)
              | [] => let (w, s) := scan_ext_l ETop r ln (cl + 1) in (c :: w, s)
              end
            else let (w, s) := scan_ext_l ETop r ln (cl + 1) in (c :: w, s)
        | EQuoted q =>
            if c =? q then let (w, s) := scan_ext_l ETop r ln (cl + 1) in (c :: w, s)
            else if c =? 92 then
              match r with
              | d :: r' => if (d =? 92) || (d =? q)
                           then let (w, s) := scan_ext_l (EQuoted q) r' ln (cl + 2) in (92 :: d :: w, s)
                           else let (w, s) := scan_ext_l (EQuoted q) r ln (cl + 1) in (c :: w, s)
              | [] => let (w, s) := scan_ext_l (EQuoted q) r ln (cl + 1) in (c :: w, s)
              end
            else let (w, s) := scan_ext_l (EQuoted q) r ln (cl + 1) in (c :: w, s)
        | EExpr =>
            if c =? 125 then let (w, s) := scan_ext_l ETop r ln (cl + 1) in (c :: w, s)
            else if c =? 92 then
              match r with
              | d :: r' => if (d =? 92) || (d =? 123) || (d =? 125)
                           then let (w, s) := scan_ext_l EExpr r' ln (cl + 2) in (92 :: d :: w, s)
                           else let (w, s) := scan_ext_l EExpr r ln (cl + 1) in (c :: w, s)
              | [] => let (w, s) := scan_ext_l EExpr r ln (cl + 1) in (c :: w, s)
              end
            else let (w, s) := scan_ext_l EExpr r ln (cl + 1) in (c :: w, s)
        end
  end.
Definition scan_ext (s : pst) : str * pst := scan_ext_l ETop (p_rest s) (p_line s) (p_col s).

(* ---- the identifier case -------------------------------------------------------------------- *)
(* s.peekNextLetter(3): the first rune that is not white space, from the third rune on *)
Fixpoint first_non_space (l : str) : option N :=
  match l with
  | [] => None
  | c :: r => if is_space c then first_non_space r else Some c
  end.
Definition peek_next_letter3 (s : pst) : option N := first_non_space (skipn 2 (p_rest s)).

(* after scanIdentifier(ch) gave [word] and left state [s] *)
Definition scan_word (c : cfg) (ch : N) (word : str) (s : pst) : Z * str * option lexerr * pst :=
  match classify_word c word with
  | Some k => (k, word, None, s)
  | None =>
      if is_letter (c_letters c) ch && opt_eq (peek s) 58 then
        if opt_eq (peek_ahead 2 s) 58 then
          if opt_eq (peek_next_letter3 s) 40 then
            (k_tablefn (c_tok c), word, None, snd (next (snd (next s))))
          else
            let s2 := snd (next (snd (next s))) in
            let lit := word ++ [58; 58] in
            (* scanConstant *)
            if opt_is (is_ident_rune c) (peek s2) then
              let '(w, s3) := while_next (is_ident_rune c) s2 in
              (k_constant (c_tok c), lit ++ w, None, s3)
            else (k_uncategorized, lit, Some EInvalidConstant, s2)
        else
          let s1 := snd (next s) in
          let '(w, s2) := while_next is_url_rune s1 in
          (k_url (c_tok c), word ++ 58 :: w, None, s2)
      else (k_identifier (c_tok c), word, None, s)
  end.

(* ---- the operator case ---------------------------------------------------------------------- *)
Definition comparison_operators : list str :=
  [[62]; [60]; [62;61]; [60;61]; [60;62]; [33;61]; [61;61]].      (* > < >= <= <> != == *)
Definition classify_operator (c : cfg) (ch : N) (lit : str) : Z :=
  if existsb (str_eqb lit) comparison_operators then k_compop (c_tok c)
  else if str_eqb lit [124;124] then k_strop (c_tok c)
  else if str_eqb lit [58;61] then k_substop (c_tok c)
  else if (1 <? length lit)%nat then k_uncategorized
  else Z.of_N ch.

(* ---- the variable case (ch = '@') ------------------------------------------------------------ *)
Definition scan_variable (c : cfg) (s : pst) : Z * str * bool * option lexerr * pst :=
  let '(k, s1) :=
    match peek s with
    | Some d => if d =? 37 then (k_envvar (c_tok c), snd (next s))
                else if d =? 35 then (k_runtime (c_tok c), snd (next s))
                else if d =? 64 then (k_flag (c_tok c), snd (next s))
                else (k_variable (c_tok c), s)
    | None => (k_variable (c_tok c), s)
    end in
  let '(lit, quoted, e, s2) :=
    if (k =? k_envvar (c_tok c))%Z && opt_eq (peek s1) 96 then
      let '(raw, term, s') := scan_string 96 (snd (next s1)) in
      (unescape_identifier raw 96, true, string_err term, s')
    else if opt_is (is_ident_rune c) (peek s1) then
      match next s1 with
      | (Some h, s') => let '(w, s'') := while_next (is_ident_rune c) s' in (h :: w, false, None, s'')
      | (None, s') => ([], false, None, s')
      end
    else ([], false, None, s1) in
  (k, lit, quoted, match lit with [] => Some EInvalidVariable | _ => e end, s2).

(* ---- Scan ----------------------------------------------------------------------------------- *)
Inductive body_result :=
| BTok (t : token) (h : hst) (s : pst)     (* a token was produced *)
| BSkip (s : pst).                         (* a comment was consumed: `return s.Scan()` *)

Definition scan_body (c : cfg) (m : modes) (h : hst) (s0 : pst) : body_result :=
  let s1 := snd (while_next is_space s0) in
  let '(och, s2) := next s1 in
  let ln := p_line s2 in
  let cl := p_col s2 in
  match och with
  | None => BTok (mkTok k_eof [65533] false 0 ln cl None) h s2
  | Some ch =>
      let tk k lit q e := mkTok k lit q 0 ln cl e in
      if m_prepared m && (ch =? 63) then
        BTok (mkTok (k_placeholder (c_tok c)) [ch] false (h_ord h + 1) ln cl None)
             (mkH (h_ord h + 1) (h_names h) (h_num h + 1)) s2
      else if m_prepared m && (ch =? 58) && opt_is (is_ident_rune c) (peek s2) then
        let '(w, s3) := while_next (is_ident_rune c) s2 in
        let name := ch :: w in
        BTok (mkTok (k_placeholder (c_tok c)) name false (h_ord h + 1) ln cl None)
             (if existsb (str_eqb name) (h_names h) then mkH (h_ord h + 1) (h_names h) (h_num h)
              else mkH (h_ord h + 1) (h_names h ++ [name]) (h_num h + 1)) s3
      else if is_decimal ch then
        let '(k, lit, e, s3) := scan_number c ch s2 in BTok (tk k lit false e) h s3
      else if is_ident_rune c ch then
        let '(w, s3) := while_next (is_ident_rune c) s2 in
        let '(k, lit, e, s4) := scan_word c ch (ch :: w) s3 in BTok (tk k lit false e) h s4
      else if is_operator_rune ch then
        let '(w, s3) := while_next is_operator_rune s2 in
        BTok (tk (classify_operator c ch (ch :: w)) (ch :: w) false None) h s3
      else if ch =? 64 then
        let '(k, lit, q, e, s3) := scan_variable c s2 in BTok (tk k lit q e) h s3
      else if ch =? 36 then
        let '(w, s3) := scan_ext s2 in BTok (tk (k_extcmd (c_tok c)) w false None) h s3
      else if (ch =? 47) && opt_eq (peek s2) 42 then BSkip (scan_comment (snd (next s2)))
      else if (ch =? 45) && opt_eq (peek s2) 45 then BSkip (scan_line_comment (snd (next s2)))
      else if (ch =? 39) || (negb (m_ansi m) && (ch =? 34)) then
        let '(raw, term, s3) := scan_string ch s2 in
        BTok (tk (k_string (c_tok c)) (unescape_string raw ch) false (string_err term)) h s3
      else if (ch =? 96) || (m_ansi m && (ch =? 34)) then
        let '(raw, term, s3) := scan_string ch s2 in
        BTok (tk (k_identifier (c_tok c)) (unescape_identifier raw ch) true (string_err term)) h s3
      else if is_token_number c ch then BTok (tk k_unknown_char [ch] false None) h s2
      else BTok (tk (Z.of_N ch) [ch] false None) h s2
  end.

(* Scan: [None] = out of fuel *)
Fixpoint scan (fuel : nat) (c : cfg) (m : modes) (h : hst) (s : pst) : option (token * hst * pst) :=
  match fuel with
  | O => None
  | S f =>
      match scan_body c m h s with
      | BTok t h' s' => Some (t, h', s')
      | BSkip s' => scan f c m h s'
      end
  end.

(* the caller's loop: Scan until the EOF token (included).  [None] = out of fuel *)
Fixpoint scan_all (fuel : nat) (c : cfg) (m : modes) (h : hst) (s : pst) : option (list token * hst) :=
  match fuel with
  | O => None
  | S f =>
      match scan (S (length (p_rest s))) c m h s with
      | None => None
      | Some (t, h', s') =>
          if (t_kind t =? k_eof)%Z then Some ([t], h')
          else match scan_all f c m h' s' with
               | None => None
               | Some (ts, h'') => Some (t :: ts, h'')
               end
      end
  end.

(* all tokens of a source text and HolderNumber() at the end; fuel = input length + 1 *)
Definition tokens (c : cfg) (m : modes) (src : str) : option (list token * N) :=
  match scan_all (S (length src)) c m init_hst (init_pst src) with
  | Some (ts, h) => Some (ts, h_num h)
  | None => None
  end.

(* ---- specification vocabulary: the positions of a text ----------------------------------------- *)
(* the (line, char) pairs of a text, the way the scanner counts: the position before the first code
   point, then the position after 1, 2, ... calls of next() -- CR, LF and CR LF end a line, char
   counts the code points since the last line end *)
Fixpoint positions_l (l : str) (ln cl : N) : list (N * N) :=
  (ln, cl) ::
  match l with
  | [] => []
  | c :: r =>
      if c =? 13 then
        match r with
        | d :: r' => if d =? 10 then positions_l r' (ln + 1) 0 else positions_l r (ln + 1) 0
        | [] => positions_l r (ln + 1) 0
        end
      else if c =? 10 then positions_l r (ln + 1) 0
      else positions_l r ln (cl + 1)
  end.
Definition pos_inside (src : str) (ln cl : N) : bool :=
  existsb (fun p => (fst p =? ln) && (snd p =? cl)) (positions_l src 1 0).


(* the decidable form of the specification of a token stream (what the harness evaluates on the
   implementation's own answers): every token is reported at a position of the text, the EOF token
   is the last and only the last, and there are at most as many other tokens as code points *)
Fixpoint eof_last (ts : list token) : bool :=
  match ts with
  | [] => false
  | [t] => (t_kind t =? k_eof)%Z
  | t :: ts' => negb (t_kind t =? k_eof)%Z && eof_last ts'
  end.
Definition at_position (ps : list (N * N)) (t : token) : bool :=
  existsb (fun p => if fst p =? t_line t then snd p =? t_char t else false) ps.
Definition stream_ok (src : str) (ts : list token) : bool :=
  let ps := positions_l src 1 0 in
  forallb (at_position ps) ts && eof_last ts && (length ts <=? S (length src))%nat.
