(* Lock.v -- the lock-file protocol of lib/file as a transition system (C09).  Definitions only.

   Shared state = the control files of ONE table in its directory plus the table file itself:
     ._T_.lock            `lockf`  (created with O_CREAT|O_EXCL, file.Create)        -> who created it
     ._T_.<random>.rlock  `rls`    (one per reader, random 12-character suffix)       -> who created them
     ._T_.temp            `tempf`  (O_CREAT|O_EXCL), content `tval`
     T                    `dex` (does it exist) / `dval` (its content: one counter)
   A process is a program counter machine.  One transition = everything the Go code does between two
   consecutive yield points (`verifPoint("...")`, hooks/c09_file_yield_points.patch), i.e. at most one
   directory-visible file-system step; the name of the point a pc is parked at is `pc_point`.

   Source (read closely; quirks kept):
   - lib/query/load_view.go cacheViewFromFile: SearchFilePath (stat: "file does not exist" before any
     handler is made) [Start]; lock, THEN load; read handlers are closed right after the load; a view
     cached by a SELECT is disposed and re-locked + re-loaded for an UPDATE [RoleRW].
   - lib/file/handler.go NewHandlerForRead: Exists [RExists] -> rlock (retry loop) -> OpenToRead [ROpen];
     NewHandlerForUpdate: Exists [WExists] -> lock (retry loop) -> OpenToUpdate [WOpen] -> temp file
     [WTemp]; commit(): Exists [WCommitChk] -> Remove [WCommitRm] -> Rename [WRename] -> lock file
     Close; close(): temp file Close -> lock file Close -> rlock file Close.
   - lib/file/control_file.go TryCreateRLockFile: LockExists [RCheck] -> Create lock [RLock] -> Create
     rlock [RCreate] -> deferred lock.Close = Exists [RUnlChk] + Remove [RUnlRm];
     TryCreateLockFile: LockExists||RLockExists (one step) [WCheck] -> Create lock [WCreate] ->
     RLockExists [WRecheck] -> back off = Exists [WBackChk] + Remove [WBackRm];
     CreateControlFileContext: ctx.Err() on entry, then attempt; on LockError wait [RWait/WWait/
     WTempWait] and either notice the elapsed timeout or try again;
     ControlFile.Close: Exists(path) then os.Remove(path) -- two steps, by path, whoever made the file.
   - the wait timeout is a context deadline: it elapses at an arbitrary moment (event `Expire i`, sets
     `expd i`) and is NOTICED only where the code looks: on entry of CreateControlFileContext (same
     transition as the preceding Exists), in the retry wait, and in go-file's lockContext on entry
     (same transition as the open) -- so a process can give up while it owns the lock file, and then
     cleans up through closeIsolatedHandler (Exists + Remove again).
   - flock on the data file (second line of defence) is NOT modelled.
   - `atomic c = true` is the COMMIT that renames over the table (no Exists/Remove steps): /repo since
     the fix 4dfbb28; `atomic c = false` is the remove-then-rename COMMIT before it (finding
     commit-remove-rename-window, DESIGN F-C10-1).  The harness looks which one the tree has (are the
     yield points commit.exists / commit.remove reached?) and the cases carry the flag. *)
From Coq Require Import Arith List Bool.
Import ListNotations.

Inductive role :=
| RoleR     (* SELECT n FROM t *)
| RoleW     (* UPDATE t SET n = n + 1; COMMIT *)
| RoleWrb   (* UPDATE t SET n = n + 1; ROLLBACK *)
| RoleRW.   (* SELECT n FROM t; UPDATE t SET n = n + 1; COMMIT -- one transaction *)

Inductive outcome := ORunning | OCommitted | ORolledBack | ORead | OTimeout | ONotExist | OIOErr.

Inductive pc :=
| Start | Done
| RExists | RCheck | RLock | RCreate | RUnlChk | RUnlRm | ROpen | RRelChk | RRelRm | RWait
| WExists | WCheck | WCreate | WRecheck | WBackChk | WBackRm | WWait | WOpen | WTemp | WTempWait
| WCommitChk | WCommitRm | WRename | WTmpRelChk | WTmpRelRm | WRelChk | WRelRm.

Record cfg := mkCfg { roles : nat -> role; atomic : bool }.

Record st := mkSt {
  lockf : option nat;
  rls : list nat;
  tempf : option nat;
  tval : nat;
  dex : bool;
  dval : nat;
  pcs : nat -> pc;
  outs : nat -> outcome;        (* outcome decided so far; observable once the pc is Done *)
  loc : nat -> nat;             (* the updating transaction's copy of the counter *)
  seen : nat -> nat;            (* the value the SELECT returned *)
  expd : nat -> bool;           (* the wait timeout of the process has elapsed *)
  (* ghost history, never read by `step` *)
  acq : list nat;               (* writers, in the order in which they acquired the table *)
  log : list (nat * (nat * nat)); (* commits in order: (process, value read, value written) *)
  touched : nat -> bool         (* the process removed or replaced the table file *)
}.

Definition upd {A} (f : nat -> A) (i : nat) (a : A) : nat -> A :=
  fun j => if Nat.eqb j i then a else f j.

Definition set_lock v s := mkSt v (rls s) (tempf s) (tval s) (dex s) (dval s) (pcs s) (outs s) (loc s) (seen s) (expd s) (acq s) (log s) (touched s).
Definition set_rls v s := mkSt (lockf s) v (tempf s) (tval s) (dex s) (dval s) (pcs s) (outs s) (loc s) (seen s) (expd s) (acq s) (log s) (touched s).
Definition set_temp v s := mkSt (lockf s) (rls s) v (tval s) (dex s) (dval s) (pcs s) (outs s) (loc s) (seen s) (expd s) (acq s) (log s) (touched s).
Definition set_tval v s := mkSt (lockf s) (rls s) (tempf s) v (dex s) (dval s) (pcs s) (outs s) (loc s) (seen s) (expd s) (acq s) (log s) (touched s).
Definition set_dex v s := mkSt (lockf s) (rls s) (tempf s) (tval s) v (dval s) (pcs s) (outs s) (loc s) (seen s) (expd s) (acq s) (log s) (touched s).
Definition set_dval v s := mkSt (lockf s) (rls s) (tempf s) (tval s) (dex s) v (pcs s) (outs s) (loc s) (seen s) (expd s) (acq s) (log s) (touched s).
Definition set_pc i v s := mkSt (lockf s) (rls s) (tempf s) (tval s) (dex s) (dval s) (upd (pcs s) i v) (outs s) (loc s) (seen s) (expd s) (acq s) (log s) (touched s).
Definition set_out i v s := mkSt (lockf s) (rls s) (tempf s) (tval s) (dex s) (dval s) (pcs s) (upd (outs s) i v) (loc s) (seen s) (expd s) (acq s) (log s) (touched s).
Definition set_loc i v s := mkSt (lockf s) (rls s) (tempf s) (tval s) (dex s) (dval s) (pcs s) (outs s) (upd (loc s) i v) (seen s) (expd s) (acq s) (log s) (touched s).
Definition set_seen i v s := mkSt (lockf s) (rls s) (tempf s) (tval s) (dex s) (dval s) (pcs s) (outs s) (loc s) (upd (seen s) i v) (expd s) (acq s) (log s) (touched s).
Definition set_expd i v s := mkSt (lockf s) (rls s) (tempf s) (tval s) (dex s) (dval s) (pcs s) (outs s) (loc s) (seen s) (upd (expd s) i v) (acq s) (log s) (touched s).
Definition set_acq v s := mkSt (lockf s) (rls s) (tempf s) (tval s) (dex s) (dval s) (pcs s) (outs s) (loc s) (seen s) (expd s) v (log s) (touched s).
Definition set_log v s := mkSt (lockf s) (rls s) (tempf s) (tval s) (dex s) (dval s) (pcs s) (outs s) (loc s) (seen s) (expd s) (acq s) v (touched s).
Definition set_touched i v s := mkSt (lockf s) (rls s) (tempf s) (tval s) (dex s) (dval s) (pcs s) (outs s) (loc s) (seen s) (expd s) (acq s) (log s) (upd (touched s) i v).

Definition is_some {A} (o : option A) : bool := match o with Some _ => true | None => false end.
Definition is_nil {A} (l : list A) : bool := match l with [] => true | _ => false end.
Fixpoint mem (i : nat) (l : list nat) : bool :=
  match l with [] => false | x :: r => Nat.eqb x i || mem i r end.
Fixpoint del (i : nat) (l : list nat) : list nat :=
  match l with [] => [] | x :: r => if Nat.eqb x i then del i r else x :: del i r end.

(* the process ends: Done with the given outcome *)
Definition finish i o s := set_pc i Done (set_out i o s).
(* after the read lock is gone: a plain reader (or a failed one) is done; the SELECT of a RoleRW
   transaction succeeded, its UPDATE starts (the path is cached: no second SearchFilePath) *)
Definition r_finish i s :=
  match outs s i with ORunning => set_pc i WExists s | _ => set_pc i Done s end.

Definition step_proc (c : cfg) (i : nat) (s : st) : st :=
  match pcs s i with
  | Done => s
  | Start =>                                   (* load_view.go SearchFilePath: os.Stat *)
      if dex s
      then set_pc i (match roles c i with RoleR | RoleRW => RExists | _ => WExists end) s
      else finish i ONotExist s
  (* ---- NewHandlerForRead ---- *)
  | RExists =>                                 (* Exists(path); entry check of CreateControlFileContext *)
      if negb (dex s) then finish i ONotExist s
      else if expd s i then finish i OTimeout s
      else set_pc i RCheck s
  | RCheck =>                                  (* LockExists *)
      if is_some (lockf s) then set_pc i RWait s else set_pc i RLock s
  | RLock =>                                   (* file.Create(lock): O_CREAT|O_EXCL *)
      match lockf s with
      | None => set_pc i RCreate (set_lock (Some i) s)
      | Some _ => set_pc i RWait s
      end
  | RCreate =>                                 (* file.Create(rlock), fresh random name *)
      set_pc i RUnlChk (set_rls (i :: rls s) s)
  | RUnlChk =>                                 (* deferred lockFile.Close(): Exists(lock path) *)
      if is_some (lockf s) then set_pc i RUnlRm s else set_pc i ROpen s
  | RUnlRm =>                                  (* os.Remove(lock path) *)
      set_pc i ROpen (set_lock None s)
  | ROpen =>                                   (* OpenToReadContext: open, lockContext entry check; load; Close *)
      if negb (dex s) then set_pc i RRelChk (set_out i OIOErr s)
      else if expd s i then set_pc i RRelChk (set_out i OTimeout s)
      else set_pc i RRelChk (set_seen i (dval s)
             (match roles c i with RoleRW => s | _ => set_out i ORead s end))
  | RRelChk =>                                 (* rlockFile.Close(): Exists(my rlock path) *)
      if mem i (rls s) then set_pc i RRelRm s else r_finish i s
  | RRelRm =>                                  (* os.Remove(my rlock path) *)
      r_finish i (set_rls (del i (rls s)) s)
  | RWait =>                                   (* select { <-ctx.Done() | <-time.After(retryDelay) } *)
      if expd s i then finish i OTimeout s else set_pc i RCheck s
  (* ---- NewHandlerForUpdate ---- *)
  | WExists =>
      if negb (dex s) then finish i ONotExist s
      else if expd s i then finish i OTimeout s
      else set_pc i WCheck s
  | WCheck =>                                  (* LockExists || RLockExists *)
      if is_some (lockf s) || negb (is_nil (rls s)) then set_pc i WWait s else set_pc i WCreate s
  | WCreate =>
      match lockf s with
      | None => set_pc i WRecheck (set_lock (Some i) s)
      | Some _ => set_pc i WWait s
      end
  | WRecheck =>                                (* RLockExists again, now owning the lock file *)
      if is_nil (rls s) then set_pc i WOpen (set_acq (acq s ++ [i]) s) else set_pc i WBackChk s
  | WBackChk =>
      if is_some (lockf s) then set_pc i WBackRm s else set_pc i WWait s
  | WBackRm =>
      set_pc i WWait (set_lock None s)
  | WWait =>
      if expd s i then finish i OTimeout s else set_pc i WCheck s
  | WOpen =>                                   (* OpenToUpdateContext: open, lockContext entry check; entry check for the temp file *)
      if negb (dex s) then set_pc i WRelChk (set_out i OIOErr s)
      else if expd s i then set_pc i WRelChk (set_out i OTimeout s)
      else set_pc i WTemp (set_loc i (dval s) s)
  | WTemp =>                                   (* file.Create(temp); load; UPDATE; then COMMIT writes the temp file / ROLLBACK *)
      match tempf s with
      | None =>
          match roles c i with
          | RoleWrb => set_pc i WTmpRelChk (set_out i ORolledBack (set_temp (Some i) s))
          | _ => set_pc i (if atomic c then WRename else WCommitChk)
                   (set_tval (S (loc s i)) (set_temp (Some i) s))
          end
      | Some _ => set_pc i WTempWait s
      end
  | WTempWait =>
      if expd s i then set_pc i WRelChk (set_out i OTimeout s) else set_pc i WTemp s
  (* ---- Handler.commit ---- *)
  | WCommitChk =>                              (* Exists(path) *)
      if dex s then set_pc i WCommitRm s else set_pc i WRename s
  | WCommitRm =>                               (* os.Remove(path) *)
      set_pc i WRename (set_touched i true (set_dex false s))
  | WRename =>                                 (* os.Rename(temp, path) *)
      match tempf s with
      | Some _ =>
          set_pc i WRelChk (set_out i OCommitted (set_touched i true
            (set_log (log s ++ [(i, (loc s i, tval s))])
              (set_temp None (set_dval (tval s) (set_dex true s))))))
      | None => set_pc i WTmpRelChk (set_out i OIOErr s)
      end
  (* ---- Handler.close / closeWithErrors ---- *)
  | WTmpRelChk =>                              (* tempFile.Close(): Exists(temp path) *)
      if is_some (tempf s) then set_pc i WTmpRelRm s else set_pc i WRelChk s
  | WTmpRelRm =>
      set_pc i WRelChk (set_temp None s)
  | WRelChk =>                                 (* lockFile.Close(): Exists(lock path) *)
      if is_some (lockf s) then set_pc i WRelRm s else set_pc i Done s
  | WRelRm =>
      set_pc i Done (set_lock None s)
  end.

Inductive event := Step (i : nat) | Expire (i : nat).

Definition step (c : cfg) (e : event) (s : st) : st :=
  match e with
  | Step i => step_proc c i s
  | Expire i => set_expd i true s
  end.

Fixpoint run (c : cfg) (es : list event) (s : st) : st :=
  match es with
  | [] => s
  | e :: r => run c r (step c e s)
  end.

(* the table holds the counter n0; nobody has started; no control files *)
Definition init (n0 : nat) : st :=
  mkSt None [] None 0 true n0 (fun _ => Start) (fun _ => ORunning) (fun _ => 0) (fun _ => 0)
       (fun _ => false) [] [] (fun _ => false).

(* ---- vocabulary of the property ------------------------------------------------------------ *)
(* the process created the lock file and has not removed it yet *)
Definition owns_lock (p : pc) : bool :=
  match p with
  | RCreate | RUnlChk | RUnlRm
  | WRecheck | WBackChk | WBackRm
  | WOpen | WTemp | WTempWait | WCommitChk | WCommitRm | WRename | WTmpRelChk | WTmpRelRm | WRelChk | WRelRm => true
  | _ => false
  end.
(* the process has its read-lock file: it is reading the table *)
Definition reader_holds (p : pc) : bool :=
  match p with RUnlChk | RUnlRm | ROpen | RRelChk | RRelRm => true | _ => false end.
(* the process holds the table for update: from passing the re-check until its lock file is gone *)
Definition writer_holds (p : pc) : bool :=
  match p with
  | WOpen | WTemp | WTempWait | WCommitChk | WCommitRm | WRename | WTmpRelChk | WTmpRelRm | WRelChk | WRelRm => true
  | _ => false
  end.
Definition has_temp (p : pc) : bool :=
  match p with WCommitChk | WCommitRm | WRename | WTmpRelChk | WTmpRelRm => true | _ => false end.
(* the updating transaction has loaded the table *)
Definition loaded (p : pc) : bool :=
  match p with WTemp | WTempWait | WCommitChk | WCommitRm | WRename | WTmpRelChk | WTmpRelRm => true | _ => false end.

(* the history of commits is a chain: every committed transaction read what its predecessor wrote
   (the first one the initial value) and wrote that value + 1 *)
Fixpoint chain (v : nat) (l : list (nat * (nat * nat))) : Prop :=
  match l with
  | [] => True
  | (_, (r, w)) :: t => r = v /\ w = S r /\ chain w t
  end.
Fixpoint last_val (v : nat) (l : list (nat * (nat * nat))) : nat :=
  match l with
  | [] => v
  | (_, (_, w)) :: t => last_val w t
  end.
Definition is_committed (o : outcome) : bool := match o with OCommitted => true | _ => false end.
(* the process has not started or is through *)
Definition idle (p : pc) : bool := match p with Start | Done => true | _ => false end.

(* name (code) of the yield point a pc is parked at; harness/c09.go pointCode *)
Definition pc_point (p : pc) : nat :=
  match p with
  | Start => 0 | Done => 1
  | RExists => 2 | RCheck => 3 | RLock => 4 | RCreate => 5 | ROpen => 6
  | WExists => 7 | WCheck => 8 | WCreate => 9 | WRecheck => 10 | WOpen => 11 | WTemp => 12
  | WCommitChk => 13 | WCommitRm => 14 | WRename => 15
  | RUnlChk | RRelChk | WBackChk | WTmpRelChk | WRelChk => 16
  | RUnlRm | RRelRm | WBackRm | WTmpRelRm | WRelRm => 17
  | RWait | WWait | WTempWait => 18
  end.

Definition outcome_code (o : outcome) : nat :=
  match o with
  | ORunning => 0 | OCommitted => 1 | ORolledBack => 2 | ORead => 3 | OTimeout => 4 | ONotExist => 5 | OIOErr => 6
  end.

(* what an observer of the process sees: the outcome only once it is done *)
Definition obs_out (s : st) (i : nat) : outcome :=
  match pcs s i with Done => outs s i | _ => ORunning end.

Definition role_of (l : list role) (i : nat) : role := nth i l RoleR.
