(* Ltsv.v -- LTSV text layer of csvq on code-point lists.  Definitions only (no proofs).

   Writer : go-text ltsv/writer.go (NewWriter checks the labels against LabelTable, Write checks
            every value against FieldValueTable, then label ':' value joined by TAB; the line break is
            written before every record but the first) under csvq's encodeLTSV
            (lib/query/encode.go:423-455: no record => DataEmpty, nothing written).
   Reader : go-text ltsv/reader.go (Read / parseField) as one left-to-right machine, and csvq's
            loadViewFromLTSVFile (lib/query/load_view.go:1161-1205): header = labels in order of first
            appearance, short records padded with NULL (or the empty string under without-null).
   Quirks kept as they are: every colon after the first of a field is dropped (F-C02-2); a line
   with exactly ONE field is skipped like a blank line and its label is not recorded; CR directly
   before the end of input is an error (bufio UnreadRune). *)
Require Import Csvq.Model.Base Csvq.Model.Csv.
Open Scope N_scope.

Definition COLON : N := 58.

(* ================================================================================== writer == *)
Definition label_ok (c : N) : bool :=
  (c =? 45) || (c =? 46) || ((48 <=? c) && (c <=? 57)) || ((65 <=? c) && (c <=? 90))
  || (c =? 95) || ((97 <=? c) && (c <=? 122)).
Definition value_ok (c : N) : bool :=
  ((1 <=? c) && (c <=? 8)) || (c =? 11) || (c =? 12) || ((14 <=? c) && (c <=? 65535))
  || ((65536 <=? c) && (c <=? 1048575)).

Inductive lwerr := LDataEmpty | LBadLabel | LBadValue.

Fixpoint ltsv_record (hdr : list str) (vals : list str) : str :=
  match hdr, vals with
  | [h], [v] => h ++ COLON :: v
  | h :: hs, v :: vs => h ++ COLON :: v ++ TAB :: ltsv_record hs vs
  | _, _ => []
  end.

Fixpoint ltsv_records (lb : linebreak) (hdr : list str) (rows : list (list str)) : str :=
  match rows with
  | [] => []
  | [r] => ltsv_record hdr r
  | r :: t => ltsv_record hdr r ++ lb_str lb ++ ltsv_records lb hdr t
  end.

(* encodeLTSV; the cells are rendered like for CSV (NULL -> empty text) *)
Definition ltsv_encode (lb : linebreak) (hdr : list str) (rows : list (list cell)) : lwerr + str :=
  match rows with
  | [] => inl LDataEmpty
  | _ =>
    if negb (forallb (forallb label_ok) hdr) then inl LBadLabel
    else if negb (forallb (forallb (fun c => forallb value_ok (cell_text c))) rows) then inl LBadValue
    else inr (ltsv_records lb hdr (map (map cell_text) rows))
  end.

Definition ltsv_file (lb : linebreak) (tail : option linebreak) (hdr : list str) (rows : list (list cell)) : lwerr + str :=
  match ltsv_encode lb hdr rows with
  | inl e => inl e
  | inr s => inr (s ++ tail_str tail)
  end.

(* ================================================================================== reader == *)
Inductive lrerr := LMissingSeparator | LUnreadRune.

Record lst := LS {
  lhdr  : list str;                     (* Reader.Header.list, in order *)
  lrecs : list (list (option str));     (* records returned so far, newest first *)
  lfs   : list (str * str);             (* fields of the current line, newest first *)
  lkey  : str;                          (* keyBuf, reversed *)
  lval  : str;                          (* valueBuf, reversed *)
  lrk   : bool;                         (* readingKey *)
  lcrp  : bool;
  ldet  : option linebreak;
  lpend : bool;
  lbad  : option lrerr
}.

Definition linit : lst := LS [] [] [] [] [] true false None false None.

Definition mem_str (k : str) (l : list str) : bool := existsb (str_eqb k) l.
(* Header.Add for the labels of a line, in order *)
Fixpoint add_keys (h : list str) (ks : list str) : list str :=
  match ks with
  | [] => h
  | k :: t => add_keys (if mem_str k h then h else h ++ [k]) t
  end.
(* Record.Write overwrites: the last field with the label wins; fs is newest first *)
Fixpoint lookup (k : str) (fs : list (str * str)) : option str :=
  match fs with
  | [] => None
  | (k', v) :: t => if str_eqb k k' then Some v else lookup k t
  end.
Definition lvalue (without_null : bool) (fs : list (str * str)) (k : str) : option str :=
  match lookup k fs with
  | Some (c :: v) => Some (c :: v)
  | _ => if without_null then Some [] else None
  end.

(* "missing field separator": a non-empty label that was not closed by a colon *)
Definition lfield_bad (s : lst) : bool :=
  match lkey s with [] => false | _ => lrk s end.
Definition lmark (s : lst) : option lrerr :=
  match lbad s with Some e => Some e | None => if lfield_bad s then Some LMissingSeparator else None end.

Definition lend_field (s : lst) : lst :=
  LS (lhdr s) (lrecs s) ((rev (lkey s), rev (lval s)) :: lfs s) [] [] true false (ldet s) false (lmark s).

(* a line ends: Read() continues (drops the line) when its first field is also its last *)
Definition lend_line (wn : bool) (iscr : bool) (s : lst) : lst :=
  let d := det_or (ldet s) (if iscr then LbCR else LbLF) in
  let p := iscr && is_none (ldet s) in
  match lfs s with
  | [] => LS (lhdr s) (lrecs s) [] [] [] true iscr d p (lmark s)
  | _ =>
    let fs := (rev (lkey s), rev (lval s)) :: lfs s in
    let h := add_keys (lhdr s) (map fst (rev fs)) in
    LS h (map (lvalue wn fs) h :: lrecs s) [] [] [] true iscr d p (lmark s)
  end.

Definition lswallow (s : lst) : lst :=
  LS (lhdr s) (lrecs s) (lfs s) (lkey s) (lval s) (lrk s) false (if lpend s then Some LbCRLF else ldet s) false (lbad s).

Definition lstep (wn : bool) (s : lst) (c : N) : lst :=
  if (c =? LF) && lcrp s then lswallow s
  else if c =? LF then lend_line wn false s
  else if c =? CR then lend_line wn true s
  else if c =? TAB then lend_field s
  else if c =? COLON then LS (lhdr s) (lrecs s) (lfs s) (lkey s) (lval s) false false (ldet s) false (lbad s)
  else if lrk s then LS (lhdr s) (lrecs s) (lfs s) (c :: lkey s) (lval s) true false (ldet s) false (lbad s)
  else LS (lhdr s) (lrecs s) (lfs s) (lkey s) (c :: lval s) false false (ldet s) false (lbad s).

(* end of input: a pending first field is dropped (io.EOF with fieldNum < 1) unless it is malformed *)
Definition lfinish (wn : bool) (s : lst) : lrerr + (list str * list (list (option str)) * option linebreak) :=
  match lbad s with
  | Some e => inl e
  | None =>
    if lcrp s then inl LUnreadRune
    else if lfield_bad s then inl LMissingSeparator
    else let s' := lend_line wn false s in inr (lhdr s', rev (lrecs s'), ldet s)
  end.

Definition ltsv_read (wn : bool) (inp : str) :=
  lfinish wn (fold_left (lstep wn) inp linit).

(* csvq: loadViewFromLTSVFile *)
Definition ltsv_load (wn : bool) (inp : str) : lrerr + loaded :=
  match ltsv_read wn inp with
  | inl e => inl e
  | inr (h, rs, d) =>
      inr (LD (TB h (map (pad_to (length h) (if wn then Some [] else None)) rs)) d false)
  end.

(* what the property expects: the labels, and every cell as its text, NULL for the empty text *)
Definition ltsv_expected (hdr : list str) (rows : list (list cell)) : table :=
  TB hdr (map (map (fun c => match cell_text c with [] => None | s => Some s end)) rows).
