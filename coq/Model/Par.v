(* Par.v -- how csvq splits a record set over goroutines and how the partial results are merged
   (lib/query/goroutine_manager.go, and the worker loops of eval.go, view.go, join.go,
   analytic_function.go).  Definitions only (no proofs); the theorems are in Proofs/Par.v and
   Properties/C12.v, the access summaries built on top of it in Model/Access.v (C13).

   Go's int is modelled as Z.  Nothing here can overflow: every product below is bounded by the
   record count (a slice length).  math.Floor(float64(a)/float64(b)) is modelled by Z's floor
   division, exact for 0 <= a < 2^53 (a is a slice length); this is compared with the real
   AssignRoutineNumber / CalcMinimumRequired on every run. *)
From Coq Require Import ZArith List Bool.
Import ListNotations.
Open Scope Z_scope.

(* ---- goroutine_manager.go -------------------------------------------------------------------- *)
Definition minimum_required_per_cpu_core : Z := 80.        (* MinimumRequiredPerCPUCore *)

Definition greater_than_zero (i : Z) : Z := if i <? 1 then 1 else i.
Definition zmin (a b : Z) : Z := if a <? b then a else b.

(* GoroutineManager.AssignRoutineNumber(recordLen, minimumRequiredPerCore, cpuNum) with the shared
   counter m.Count = running.  Result: (number of goroutines, new value of m.Count). *)
Definition assign_number (len min cpu running : Z) : Z * Z :=
  let min := if min <? 1 then minimum_required_per_cpu_core else min in
  let number := zmin cpu (greater_than_zero (len / min)) in
  let number := zmin number (greater_than_zero (number - running)) in
  (number, running + (number - 1)).

(* GoroutineManager.Release *)
Definition release (running : Z) : Z := if 0 <? running then running - 1 else running.

(* what a finished task manager gives back: Done() releases once per call while grCount > 0;
   grCount starts at number-1 and Done is only called when 1 < number (n calls) *)
Fixpoint done_all (calls : nat) (gr_count running : Z) : Z * Z :=
  match calls with
  | O => (gr_count, running)
  | S c => if 0 <? gr_count then done_all c (gr_count - 1) (release running)
           else done_all c gr_count running
  end.
Definition finish (number running : Z) : Z :=
  if 1 <? number then snd (done_all (Z.to_nat number) (number - 1) running) else running.

(* GoroutineTaskManager.RecordRange(routineIndex) for recordLen = len, Number = n *)
Definition record_range (len n i : Z) : Z * Z :=
  let calc := len / n in
  let start := i * calc in
  if len <=? start then (0, 0)
  else if i =? n - 1 then (start, len) else (start, (i + 1) * calc).

(* join.go CalcMinimumRequired(i1, i2, defaultMinimumRequired):
   int(math.Ceil(float64(i1) / math.Floor(float64(p)/float64(d)))) *)
Definition zceil_div (a b : Z) : Z := (a + b - 1) / b.
Definition calc_minimum_required (i1 i2 d : Z) : Z :=
  if (i1 <? 1) || (i2 <? 1) then d
  else let p := i1 * i2 in
       if p <=? d then d else zceil_div i1 (p / d).

(* the inline variant used by group (view.go:206-210), groupAll (view.go:250-254) and Analyze
   (analytic_function.go:125-129): items = number of groups/fields/partitions, recs = records;
   -1 selects the default of AssignRoutineNumber *)
Definition min_req_items (items recs : Z) : Z :=
  let calc_cnt := recs * items in
  if minimum_required_per_cpu_core <? calc_cnt
  then zceil_div items (calc_cnt / minimum_required_per_cpu_core) else -1.

(* ---- index ranges as lists ------------------------------------------------------------------ *)
(* the record indices worker i visits: for i := start; i < end; i++ *)
Definition range (len n i : nat) : list nat :=
  let r := record_range (Z.of_nat len) (Z.of_nat n) (Z.of_nat i) in
  seq (Z.to_nat (fst r)) (Z.to_nat (snd r - fst r)).

Definition ranges (len n : nat) : list (list nat) := map (range len n) (seq 0 n).

(* ---- schedules -------------------------------------------------------------------------------- *)
(* r is an interleaving of the sequences ls: every event of r is the next event of one worker.
   This is the set of all schedules of n workers that each execute their own list in order. *)
Inductive interleaving {A : Type} : list (list A) -> list A -> Prop :=
| il_done : forall ls, Forall (fun l => l = []) ls -> interleaving ls []
| il_step : forall ls1 x l ls2 r,
    interleaving (ls1 ++ l :: ls2) r -> interleaving (ls1 ++ (x :: l) :: ls2) (x :: r).

(* a schedule given as the list of worker numbers that move; None when it is not a complete
   schedule of ls (used to build concrete interleavings in examples and refutations) *)
Fixpoint pop_nth {A} (ls : list (list A)) (w : nat) : option (A * list (list A)) :=
  match ls, w with
  | [], _ => None
  | [] :: _, O => None
  | (x :: l) :: rest, O => Some (x, l :: rest)
  | l :: rest, S w' => match pop_nth rest w' with
                       | Some (x, rest') => Some (x, l :: rest')
                       | None => None
                       end
  end.
Fixpoint run_schedule {A} (ls : list (list A)) (sched : list nat) : option (list A) :=
  match sched with
  | [] => if forallb (fun l => match l with [] => true | _ => false end) ls then Some [] else None
  | w :: sched' => match pop_nth ls w with
                   | Some (x, ls') => match run_schedule ls' sched' with
                                      | Some r => Some (x :: r)
                                      | None => None
                                      end
                   | None => None
                   end
  end.

(* ---- merge pattern 1: index-addressed slots -------------------------------------------------- *)
(* results[k] = v executed in schedule order on a pre-sized slice (filter's results, the
   comparison keys, the sort values, CrossJoin's records, Fix, ExtendRecordCapacity, ...) *)
Fixpoint set_nth {A} (k : nat) (v : A) (arr : list A) : list A :=
  match arr, k with
  | [], _ => []
  | _ :: t, O => v :: t
  | h :: t, S k' => h :: set_nth k' v t
  end.
Definition apply_writes {A} (ws : list (nat * A)) (arr : list A) : list A :=
  fold_left (fun a w => set_nth (fst w) (snd w) a) ws arr.

(* the writes worker i performs, in its program order *)
Definition slot_writes {A} (f : nat -> A) (len n i : nat) : list (nat * A) :=
  map (fun k => (k, f k)) (range len n i).
Definition all_slot_writes {A} (f : nat -> A) (len n : nat) : list (list (nat * A)) :=
  map (slot_writes f len n) (seq 0 n).

(* ---- merge pattern 2: per-worker lists concatenated in worker order -------------------------- *)
(* recordsList[thIdx] = records; MergeRecordSetList(recordsList)  (InnerJoin, OuterJoin; group's
   per-thread index lists) -- g k is what record k contributes (nothing, one row, several rows) *)
Definition worker_list {A} (g : nat -> list A) (len n i : nat) : list A :=
  flat_map g (range len n i).
Definition par_concat {A} (g : nat -> list A) (len n : nat) : list A :=
  concat (map (worker_list g len n) (seq 0 n)).
(* the sequential meaning (one goroutine, one loop over all records) *)
Definition seq_flat {A} (g : nat -> list A) (len : nat) : list A := flat_map g (seq 0 len).
Definition seq_map {A} (f : nat -> A) (len : nat) : list A := map f (seq 0 len).

(* ---- merge pattern 3: shared list appended in arrival order under a mutex ---------------------- *)
(* group (view.go:117-205): each worker keeps a private map; the first time it meets a key it
   locks mtx and appends the key to the shared groupKeys unless another worker already did.
   So groupKeys = first occurrences in an interleaving of the per-worker first-occurrence lists. *)
Section Arrival.
  Context {K : Type} (keqb : K -> K -> bool).
  Definition mem (k : K) (l : list K) : bool := existsb (keqb k) l.
  (* first occurrences, in order *)
  Fixpoint dedup_from (seen : list K) (l : list K) : list K :=
    match l with
    | [] => []
    | k :: t => if mem k seen then dedup_from seen t else k :: dedup_from (k :: seen) t
    end.
  Definition dedup (l : list K) : list K := dedup_from [] l.

  (* the keys worker i announces, in order *)
  Definition worker_keys (key : nat -> K) (len n i : nat) : list K :=
    dedup (map key (range len n i)).
  Definition all_worker_keys (key : nat -> K) (len n : nat) : list (list K) :=
    map (worker_keys key len n) (seq 0 n).
  (* groupKeys after an arrival order [arrivals] (an interleaving of all_worker_keys) *)
  Definition group_keys_of (arrivals : list K) : list K := dedup arrivals.
  (* what one goroutine produces *)
  Definition group_keys_seq (key : nat -> K) (len : nat) : list K := dedup (map key (seq 0 len)).

  (* the members of group k: for j := range groupsList { indices of groupsList[j][k] } *)
  Definition group_members (key : nat -> K) (len n : nat) (k : K) : list nat :=
    par_concat (fun r => if keqb (key r) k then [r] else []) len n.
  Definition group_members_seq (key : nat -> K) (len : nat) (k : K) : list nat :=
    filter (fun r => keqb (key r) k) (seq 0 len).
End Arrival.

(* ---- merge pattern 4: Go map iteration order (REPLACE, view.go:974-1006) ---------------------- *)
(* insertRecords are appended while ranging over map[int]bool replacedRecord: the unmatched
   indices in an arbitrary order *)
Definition unmatched (replaced : nat -> bool) (m : nat) : list nat :=
  filter (fun j => negb (replaced j)) (seq 0 m).
(* order is one iteration order of the map's keys 0..m-1 *)
Definition replace_inserts (replaced : nat -> bool) (order : list nat) : list nat :=
  filter (fun j => negb (replaced j)) order.
