(* ParSites.v -- hand-written access summaries of the parallel sites that do not fall under the
   syntactic discipline of Model/Access.v (site_ok): CrossJoin (arithmetic index), Analyze
   (partition members), the LATERAL join (one guarded write), the two file loaders (producer and
   consumer goroutines talking over a channel) and the signal goroutine of the command line.
   Definitions only. *)
From Coq Require Import List Bool String Arith.
Require Import Csvq.Model.Par Csvq.Model.Access.
Import ListNotations.
Open Scope nat_scope.
Open Scope string_scope.

(* ---- join.go CrossJoin: records[index*m + i] = ... for i < m (m = joinView.RecordLen()) ---------- *)
Definition crossjoin_body (m : nat) (k : nat) : list acc :=
  mkAcc Rd (Idx "view.RecordSet" k) [] ::
  map (fun i => mkAcc Wr (Idx "records" (k * m + i)) []) (seq 0 m).

(* ---- analytic_function.go Analyze, second phase: goroutines split the PARTITIONS; for partition p
   they read the records of p and append a cell to each record of p ------------------------------ *)
Section Analyze.
  Variable key : nat -> nat.          (* partition key of record r (serialized PARTITION BY values) *)
  Variable nrec : nat.
  (* partitionMapKeys: distinct keys in order of first appearance; partitions[key]: its records *)
  Definition partition_keys : list nat := group_keys_seq Nat.eqb key nrec.
  Definition partition (p : nat) : list nat :=
    match nth_error partition_keys p with
    | Some kp => group_members_seq Nat.eqb key nrec kp
    | None => []
    end.
  Definition analyze_body (p : nat) : list acc :=
    flat_map (fun r => [mkAcc Rd (Idx "view.RecordSet" r) []; mkAcc Wr (Idx "view.RecordSet" r) []]) (partition p).
End Analyze.

(* ---- load_view.go:340 LATERAL: resultSetList[rIdx] = ...; if rIdx == 0 { hfields = ... } -------- *)
Definition lateral_body (k : nat) : list acc :=
  mkAcc Wr (Idx "resultSetList" k) [] :: (if Nat.eqb k 0 then [mkAcc Wr (Var "hfields") []] else []).

(* ---- reference_scope.go: the field-index cache of OUTER records ------------------------------------
   CreateScopeForRecordEvaluation copies the outer ReferenceRecords - and with them the pointer to
   their FieldIndexCache - into the scope of every goroutine.  While the goroutines of an inner
   query (a correlated subquery, a LATERAL operand) evaluate a reference to an outer field they call
   cache.Get (reads exprs/indices/m) and, when the expression is not cached yet, cache.Add (appends /
   converts the slices to a map), with no lock.  misses k: evaluating record k does not find it. *)
Definition outer_cache_body (misses : nat -> bool) (k : nat) : list acc :=
  mkAcc Rd (Var "outer.cache") [] :: (if misses k then [mkAcc Wr (Var "outer.cache") []] else []).

(* since d44f076 every scope created for a goroutine has its own cache for the outer records:
   goroutine i only touches cache i *)
Definition outer_cache_workers (misses : nat -> bool) (len n : nat) : list (list acc) :=
  map (fun i => flat_map (fun k => mkAcc Rd (Idx "outer.cache" i) [] ::
                                   (if misses k then [mkAcc Wr (Idx "outer.cache" i) []] else []))
                         (range len n i)) (seq 0 n).

(* ---- load_view.go readRecordSet / loadViewFromJsonLinesFile ----------------------------------------
   thread 1 = consumer (go#0): for { row, ok := <-rowch; ...; if 0 < fileSize && 0 < pos && ... ;
                                      recordSet = append(recordSet, record) }; defer: err == nil?; panicCh <- true
   thread 2 = producer (go#1): for { row := reader.Read(); if i < 300 { pos += ... }; rowch <- row };
                                defer: err == nil?; close(rowch)
   thread 0 = the loading function: pos := 0; go; go; wg.Wait(); return recordSet, err *)
Definition loader_cap (c : string) : nat :=
  if String.eqb c "rowch" then 300 else if String.eqb c "panicCh" then 1 else 0.
Definition prepared_cap : nat := 300.     (* fileLoadingPreparedRecordSetCap *)

Definition rd (x : string) : step := SAcc (mkAcc Rd (Var x) []).
Definition wr (x : string) : step := SAcc (mkAcc Wr (Var x) []).

(* when the consumer looks at pos: at every row (the code as it stands: `0 < pos` is tested before
   `len(recordSet) == cap`), only when exactly cap rows have been received (hooks/
   fix_loader_pos_read_after_handover.patch), or never (pos left out of the summary) *)
Inductive pos_read := EveryRow | AtCap | Never.
Definition consumer_iter (pr : pos_read) (pc k : nat) : list step :=
  SRecv "rowch" k ::
  (match pr with
   | EveryRow => [rd "pos"]
   | AtCap => if Nat.eqb k pc then [rd "pos"] else []
   | Never => []
   end) ++ [rd "recordSet"; wr "recordSet"].
Definition consumer (pr : pos_read) (pc m : nat) : list step :=
  flat_map (consumer_iter pr pc) (seq 0 m) ++ [SRecvClosed "rowch"; rd "err"; SSend "panicCh" 0].
Definition producer_iter (pr : pos_read) (pc k : nat) : list step :=
  (match pr with
   | Never => []
   | _ => if Nat.ltb k pc then [rd "pos"; wr "pos"] else []
   end) ++ [SSend "rowch" k].
(* fails: reader.Read returns an error after m rows (err = e; break) *)
Definition producer (pr : pos_read) (pc m : nat) (fails : bool) : list step :=
  flat_map (producer_iter pr pc) (seq 0 m) ++ (if fails then [wr "err"] else []) ++ [rd "err"; SClose "rowch"].
Definition loader_pre : list acc := [mkAcc Wr (Var "err") []; mkAcc Wr (Var "recordSet") []; mkAcc Wr (Var "pos") []].
Definition loader_post : list acc := [mkAcc Rd (Var "recordSet") []; mkAcc Rd (Var "err") []].
Definition loader_exec_gen (pr : pos_read) (pc m : nat) (fails : bool) : exec :=
  fjs_exec loader_pre loader_post [consumer pr pc m; producer pr pc m fails].
Definition loader_exec (with_pos : bool) (m : nat) (fails : bool) : exec :=
  loader_exec_gen (if with_pos then EveryRow else Never) prepared_cap m fails.
(* a scaled-down instance for the examples: buffer and prepared capacity 2 instead of 300 *)
Definition small_cap (c : string) : nat := if String.eqb c "rowch" then 2 else 1.

(* ---- cli/app.go: the signal goroutine -------------------------------------------------------------
   thread 0 = commandAction: var signalReceived error; go func(){...}(); err = fn(...);
                              if signalReceived != nil {...}
   thread 1 = go func() { sig := <-ch; signalReceived = NewSignalReceived(sig); cancel() }
   thread 2 = the runtime delivering a signal into ch (os/signal) *)
Definition signal_exec : exec :=
  [ [wr "signalReceived"; SGo 1; rd "signalReceived"];
    [SRecv "ch" 0; wr "signalReceived"];
    [SSend "ch" 0] ].
Definition signal_cap (c : string) : nat := 1.
(* hooks/fix_signal_received_mutex.patch: both accesses under signalMutex *)
Definition signal_exec_fixed : exec :=
  [ [wr "signalReceived"; SGo 1; SAcc (mkAcc Rd (Var "signalReceived") ["signalMutex"])];
    [SRecv "ch" 0; SAcc (mkAcc Wr (Var "signalReceived") ["signalMutex"])];
    [SSend "ch" 0] ].
