(* ParSites.v -- hand-written access summaries of the parallel sites that do not fall under the
   syntactic discipline of Model/Access.v (site_ok): CrossJoin (arithmetic index), Analyze
   (partition members), the LATERAL join (one guarded write), the two file loaders (producer and
   consumer goroutines talking over a channel) and the signal goroutine of the command line.
   Definitions only. *)
From Coq Require Import List Bool String Arith.
Require Import Csvq.Model.Par Csvq.Model.Access.
Import ListNotations.
Open Scope nat_scope.
Open Scope string_scope.

(* ---- join.go CrossJoin: records[index*m + i] = ... for i < m (m = joinView.RecordLen()) ---------- *)
Definition crossjoin_body (m : nat) (k : nat) : list acc :=
  mkAcc Rd (Idx "view.RecordSet" k) [] ::
  map (fun i => mkAcc Wr (Idx "records" (k * m + i)) []) (seq 0 m).

(* ---- analytic_function.go Analyze, second phase: goroutines split the PARTITIONS; for partition p
   they read the records of p and append a cell to each record of p ------------------------------ *)
Section Analyze.
  Variable key : nat -> nat.          (* partition key of record r (serialized PARTITION BY values) *)
  Variable nrec : nat.
  (* partitionMapKeys: distinct keys in order of first appearance; partitions[key]: its records *)
  Definition partition_keys : list nat := group_keys_seq Nat.eqb key nrec.
  Definition partition (p : nat) : list nat :=
    match nth_error partition_keys p with
    | Some kp => group_members_seq Nat.eqb key nrec kp
    | None => []
    end.
  Definition analyze_body (p : nat) : list acc :=
    flat_map (fun r => [mkAcc Rd (Idx "view.RecordSet" r) []; mkAcc Wr (Idx "view.RecordSet" r) []]) (partition p).
End Analyze.

(* ---- load_view.go:340 LATERAL: resultSetList[rIdx] = ...; if rIdx == 0 { hfields = ... } -------- *)
Definition lateral_body (k : nat) : list acc :=
  mkAcc Wr (Idx "resultSetList" k) [] :: (if Nat.eqb k 0 then [mkAcc Wr (Var "hfields") []] else []).

(* ---- reference_scope.go: the field-index cache of OUTER records ------------------------------------
   CreateScopeForRecordEvaluation copies the outer ReferenceRecords - and with them the pointer to
   their FieldIndexCache - into the scope of every goroutine.  While the goroutines of an inner
   query (a correlated subquery, a LATERAL operand) evaluate a reference to an outer field they call
   cache.Get (reads exprs/indices/m) and, when the expression is not cached yet, cache.Add (appends /
   converts the slices to a map), with no lock.  misses k: evaluating record k does not find it. *)
Definition outer_cache_body (misses : nat -> bool) (k : nat) : list acc :=
  mkAcc Rd (Var "outer.cache") [] :: (if misses k then [mkAcc Wr (Var "outer.cache") []] else []).

(* ---- load_view.go readRecordSet / loadViewFromJsonLinesFile ----------------------------------------
   thread 1 = consumer (go#0): for { row, ok := <-rowch; ...; if 0 < fileSize && 0 < pos && ... ;
                                      recordSet = append(recordSet, record) }; defer: err == nil?; panicCh <- true
   thread 2 = producer (go#1): for { row := reader.Read(); if i < 300 { pos += ... }; rowch <- row };
                                defer: err == nil?; close(rowch)
   thread 0 = the loading function: pos := 0; go; go; wg.Wait(); return recordSet, err *)
Definition loader_cap (c : string) : nat :=
  if String.eqb c "rowch" then 300 else if String.eqb c "panicCh" then 1 else 0.
Definition prepared_cap : nat := 300.     (* fileLoadingPreparedRecordSetCap *)

Definition rd (x : string) : step := SAcc (mkAcc Rd (Var x) []).
Definition wr (x : string) : step := SAcc (mkAcc Wr (Var x) []).

Definition consumer_iter (with_pos : bool) (k : nat) : list step :=
  SRecv "rowch" k :: (if with_pos then [rd "pos"] else []) ++ [rd "recordSet"; wr "recordSet"].
Definition consumer (with_pos : bool) (m : nat) : list step :=
  flat_map (consumer_iter with_pos) (seq 0 m) ++ [SRecvClosed "rowch"; rd "err"; SSend "panicCh" 0].
Definition producer_iter (with_pos : bool) (k : nat) : list step :=
  (if with_pos && (Nat.ltb k prepared_cap) then [rd "pos"; wr "pos"] else []) ++ [SSend "rowch" k].
(* fails = Some k: reader.Read returns an error instead of row k (err = e; break) *)
Definition producer (with_pos : bool) (m : nat) (fails : bool) : list step :=
  flat_map (producer_iter with_pos) (seq 0 m) ++ (if fails then [wr "err"] else []) ++ [rd "err"; SClose "rowch"].
Definition loader_pre : list acc := [mkAcc Wr (Var "err") []; mkAcc Wr (Var "recordSet") []; mkAcc Wr (Var "pos") []].
Definition loader_post : list acc := [mkAcc Rd (Var "recordSet") []; mkAcc Rd (Var "err") []].
Definition loader_exec (with_pos : bool) (m : nat) (fails : bool) : exec :=
  fjs_exec loader_pre loader_post [consumer with_pos m; producer with_pos m fails].

(* ---- cli/app.go: the signal goroutine -------------------------------------------------------------
   thread 0 = commandAction: var signalReceived error; go func(){...}(); err = fn(...);
                              if signalReceived != nil {...}
   thread 1 = go func() { sig := <-ch; signalReceived = NewSignalReceived(sig); cancel() }
   thread 2 = the runtime delivering a signal into ch (os/signal) *)
Definition signal_exec : exec :=
  [ [wr "signalReceived"; SGo 1; rd "signalReceived"];
    [SRecv "ch" 0; wr "signalReceived"];
    [SSend "ch" 0] ].
Definition signal_cap (c : string) : nat := 1.
