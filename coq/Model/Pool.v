(* Pool.v -- model of lib/value/pool.go and of the way evaluation uses it (C14).  Definitions only.

   lib/value keeps four sync.Pool's (String, Integer, Float, Datetime).  value.New*(v) takes an object
   from the pool -- ANY object that was put there, or a brand-new one; sync.Pool promises nothing else
   and may silently drop what it holds -- overwrites its only field and returns the pointer;
   value.Discard(p) puts the object back.  Nothing else ever writes a cell (the fields are unexported
   and only assigned in New*; the translator re-checks this: `cwrites`).  Evaluation hands pointers
   around: literals of the syntax tree, table cells, variables, cursor rows and cached views are given
   to the evaluator BY REFERENCE (eval.go:28-31,165-197), results are stored by reference.

   The machine below has pointer variables ("refs": the roots just listed are the refs bound in the
   initial state, locals/temporaries are the others), a heap of cells, and the pool.
     INew x e     x := value.New*(e) / a non-null value.To*(...)  -- cell from the pool or a fresh one
     IMove d s    d := s   (pointer copy: store into a variable/record/tree, return to the caller,
                            load a literal / table cell / variable)
     IOut e       an observable use of values (printed, compared, written to a file)
     IDiscard x   value.Discard(x)
   Two semantics: the pooled one (parameterised by an arbitrary pool policy) and the pool-free one
   in which a ref simply holds a value. *)
From Coq Require Import NArith List Bool.
Import ListNotations.
Open Scope N_scope.

Definition ref := N.
Definition loc := N.

Definition upd {A} (f : N -> A) (x : N) (a : A) : N -> A := fun y => if N.eqb y x then a else f y.

Section Machine.
  Variable cell : Type.
  (* interpretation of the operators used in expressions (any functions on cells) *)
  Variable opsem : N -> cell -> cell -> cell.

  Inductive vexp :=
  | EConst (c : cell)
  | ERead (x : ref)
  | EOp (f : N) (a b : vexp).

  Inductive instr :=
  | INew (x : ref) (e : vexp)
  | IMove (d s : ref)
  | IOut (e : vexp)
  | IDiscard (x : ref).

  (* ---- pool-free semantics: a ref holds a value ------------------------------------------ *)
  Record vstate := mkV { v_env : ref -> option cell; v_outs : list cell }.

  Fixpoint eval_v (env : ref -> option cell) (e : vexp) : option cell :=
    match e with
    | EConst c => Some c
    | ERead x => env x
    | EOp f a b => match eval_v env a, eval_v env b with
                   | Some va, Some vb => Some (opsem f va vb)
                   | _, _ => None
                   end
    end.

  (* None = stuck (use of an unbound ref): a distinguished outcome, never a default value *)
  Definition step_v (s : vstate) (i : instr) : option vstate :=
    match i with
    | INew x e => match eval_v (v_env s) e with
                  | Some v => Some (mkV (upd (v_env s) x (Some v)) (v_outs s))
                  | None => None
                  end
    | IMove d x => match v_env s x with
                   | Some v => Some (mkV (upd (v_env s) d (Some v)) (v_outs s))
                   | None => None
                   end
    | IOut e => match eval_v (v_env s) e with
                | Some v => Some (mkV (v_env s) (v_outs s ++ [v]))
                | None => None
                end
    | IDiscard _ => Some s
    end.

  Fixpoint run_v (prog : list instr) (s : vstate) : option vstate :=
    match prog with
    | [] => Some s
    | i :: rest => match step_v s i with Some s' => run_v rest s' | None => None end
    end.

  (* ---- pooled semantics ------------------------------------------------------------------ *)
  Record pstate := mkP {
    p_heap : loc -> option cell;
    p_env : ref -> option loc;
    p_pool : list loc;          (* what was Put and not yet handed out again *)
    p_next : loc;               (* every location >= p_next has never been used *)
    p_outs : list cell;
    p_clock : N }.

  (* the pool policy: at step t, which pooled objects survive (sync.Pool may drop any of them, e.g.
     at a garbage collection), and which survivor -- if any -- Get hands out.  An answer that is not
     in the pool counts as "none": New() allocates. *)
  Record policy := mkPol { pol_keep : N -> loc -> bool; pol_choose : N -> list loc -> option loc }.

  Fixpoint remove1 (l : loc) (p : list loc) : list loc :=
    match p with
    | [] => []
    | h :: t => if N.eqb h l then t else h :: remove1 l t
    end.
  Definition mem (l : loc) (p : list loc) : bool := existsb (N.eqb l) p.

  (* Get: returns the location and the remaining pool and next-fresh counter *)
  Definition pool_get (pol : policy) (t : N) (pool : list loc) (next : loc) : loc * list loc * loc :=
    let pool' := filter (pol_keep pol t) pool in
    match pol_choose pol t pool' with
    | Some l => if mem l pool' then (l, remove1 l pool', next) else (next, pool', next + 1)
    | None => (next, pool', next + 1)
    end.

  Definition deref (s : pstate) (x : ref) : option cell :=
    match p_env s x with Some l => p_heap s l | None => None end.

  Definition eval_p (s : pstate) (e : vexp) : option cell := eval_v (deref s) e.

  Definition tick (s : pstate) := p_clock s + 1.

  Definition step_p (pol : policy) (s : pstate) (i : instr) : option pstate :=
    match i with
    | INew x e =>
        match eval_p s e with
        | Some v =>
            let '(l, pool', next') := pool_get pol (p_clock s) (p_pool s) (p_next s) in
            Some (mkP (upd (p_heap s) l (Some v)) (upd (p_env s) x (Some l)) pool' next' (p_outs s) (tick s))
        | None => None
        end
    | IMove d x =>
        match p_env s x with
        | Some l => match p_heap s l with
                    | Some _ => Some (mkP (p_heap s) (upd (p_env s) d (Some l)) (p_pool s) (p_next s) (p_outs s) (tick s))
                    | None => None
                    end
        | None => None
        end
    | IOut e =>
        match eval_p s e with
        | Some v => Some (mkP (p_heap s) (p_env s) (p_pool s) (p_next s) (p_outs s ++ [v]) (tick s))
        | None => None
        end
    | IDiscard x =>
        match p_env s x with
        | Some l => Some (mkP (p_heap s) (p_env s) (l :: p_pool s) (p_next s) (p_outs s) (tick s))   (* Put *)
        | None => Some (mkP (p_heap s) (p_env s) (p_pool s) (p_next s) (p_outs s) (tick s))          (* if p != nil *)
        end
    end.

  Fixpoint run_p (pol : policy) (prog : list instr) (s : pstate) : option pstate :=
    match prog with
    | [] => Some s
    | i :: rest => match step_p pol s i with Some s' => run_p pol rest s' | None => None end
    end.

  (* the pool-free reading of a pooled state *)
  Definition abs (s : pstate) : vstate := mkV (deref s) (p_outs s).

  (* ---- the discipline: a linear ownership check over the instruction sequence ------------- *)
  Inductive status := Owned | Shared | Dead.
  Definition alive (st : status) : bool := match st with Dead => false | _ => true end.

  Fixpoint exp_ok (se : ref -> status) (e : vexp) : bool :=
    match e with
    | EConst _ => true
    | ERead x => alive (se x)
    | EOp _ a b => exp_ok se a && exp_ok se b
    end.

  Definition step_ok (se : ref -> status) (i : instr) : bool :=
    match i with
    | INew _ e => exp_ok se e
    | IMove _ x => alive (se x)
    | IOut e => exp_ok se e
    | IDiscard x => match se x with Owned => true | _ => false end
    end.

  Definition trans (se : ref -> status) (i : instr) : ref -> status :=
    match i with
    | INew x _ => upd se x Owned
    | IMove d x => upd (upd se x Shared) d Shared
    | IOut _ => se
    | IDiscard x => upd se x Dead
    end.

  Fixpoint check_prog (se : ref -> status) (prog : list instr) : bool :=
    match prog with
    | [] => true
    | i :: rest => step_ok se i && check_prog (trans se i) rest
    end.

  Definition all_shared : ref -> status := fun _ => Shared.
  Definition disciplined (prog : list instr) : bool := check_prog all_shared prog.

  (* ---- syntactic occurrences, used to say what the translator's facts mean for a trace ----- *)
  Fixpoint exp_reads (e : vexp) (x : ref) : bool :=
    match e with
    | EConst _ => false
    | ERead y => N.eqb y x
    | EOp _ a b => exp_reads a x || exp_reads b x
    end.
  Definition defines (i : instr) (x : ref) : bool :=
    match i with INew y _ => N.eqb y x | IMove d _ => N.eqb d x | _ => false end.
  Definition escapes (i : instr) (x : ref) : bool :=
    match i with IMove _ s => N.eqb s x | _ => false end.
  Definition reads (i : instr) (x : ref) : bool :=
    match i with INew _ e => exp_reads e x | IOut e => exp_reads e x | IMove _ s => N.eqb s x | IDiscard y => N.eqb y x end.
  Definition mentions (i : instr) (x : ref) : bool := defines i x || reads i x.
  Definition writes (i : instr) (x : ref) : bool := defines i x.

  Definition none_of (f : instr -> ref -> bool) (x : ref) (l : list instr) : bool :=
    forallb (fun i => negb (f i x)) l.
End Machine.

Arguments EConst {cell} c.
Arguments ERead {cell} x.
Arguments EOp {cell} f a b.
Arguments INew {cell} x e.
Arguments IMove {cell} d s.
Arguments IOut {cell} e.
Arguments IDiscard {cell} x.
Arguments mkV {cell} _ _.
Arguments v_env {cell} _.
Arguments v_outs {cell} _.
Arguments mkP {cell} _ _ _ _ _ _.
Arguments p_heap {cell} _.
Arguments p_env {cell} _.
Arguments p_pool {cell} _.
Arguments p_next {cell} _.
Arguments p_outs {cell} _.
Arguments p_clock {cell} _.
Arguments deref {cell} _ _.
Arguments abs {cell} _.
Arguments run_p {cell} _ _ _ _.
Arguments run_v {cell} _ _ _.
Arguments step_p {cell} _ _ _ _.
Arguments step_v {cell} _ _ _.
Arguments disciplined {cell} _.
Arguments check_prog {cell} _ _.
Arguments step_ok {cell} _ _.
Arguments trans {cell} _ _.
Arguments defines {cell} _ _.
Arguments escapes {cell} _ _.
Arguments reads {cell} _ _.
Arguments mentions {cell} _ _.
Arguments writes {cell} _ _.
Arguments none_of {cell} _ _ _.

(* =============================================================================================
   The fact base the translator regenerates from /repo on every run (gen/C14/Sites.v)
   ============================================================================================= *)

(* how a return statement of a constructor value.New* / value.To* produces its result *)
Inductive retk :=
| RPoolGet              (* a local obtained from getX() and only initialised: pool_get *)
| RSingleton            (* one of the shared immutable objects (NULL, TRUE/FALSE, ternaries): never pooled,
                           Discard ignores their types *)
| RCtor (c : N)         (* the result of another constructor *)
| ROther.               (* anything else -- e.g. the argument itself *)
Record ctor := mkCtor { c_id : N; c_rets : list retk }.

Fixpoint find_ctor (cs : list ctor) (c : N) : option ctor :=
  match cs with
  | [] => None
  | h :: t => if N.eqb (c_id h) c then Some h else find_ctor t c
  end.

(* a constructor is fresh when every return path yields a just-allocated object or a singleton *)
Fixpoint ctor_fresh (fuel : nat) (cs : list ctor) (c : N) : bool :=
  match fuel with
  | O => false
  | S n => match find_ctor cs c with
           | None => false
           | Some k => negb (match c_rets k with [] => true | _ => false end)
                       && forallb (fun r => match r with
                                            | RPoolGet | RSingleton => true
                                            | RCtor c' => ctor_fresh n cs c'
                                            | ROther => false
                                            end) (c_rets k)
           end
  end.

(* where the discarded variable gets its value *)
Inductive defsrc :=
| DCtor (c : N)         (* x := value.To*(..) / value.New*(..) (possibly through a local closure) *)
| DNil                  (* `var x value.Primary`: nil, for which Discard does nothing *)
| DOther.               (* a parameter, a result of Evaluate, an element of something, ... *)

Inductive shape := ShIdent | ShDefer | ShOther.

Record site := mkSite {
  s_id : N;
  s_shape : shape;            (* value.Discard(x) as a statement / deferred / anything else *)
  s_defs : list defsrc;       (* every definition and assignment of x in the function *)
  s_escapes : bool;           (* x is stored, appended, passed on, captured (or returned, if deferred) *)
  s_use_after : bool;         (* some occurrence of x can execute after the call *)
  s_allow : bool }.           (* listed in translator/allowlist_c14.json with a justification *)

Definition defs_fresh (cs : list ctor) (s : site) : bool :=
  forallb (fun d => match d with
                    | DCtor c => ctor_fresh (S (length cs)) cs c
                    | DNil => true
                    | DOther => false
                    end) (s_defs s).

Definition shape_ok (s : site) : bool := match s_shape s with ShOther => false | _ => true end.

Definition site_ok (cs : list ctor) (s : site) : bool :=
  shape_ok s && defs_fresh cs s && negb (s_escapes s) && negb (s_use_after s).

Definition site_holds (cs : list ctor) (s : site) : bool := site_ok cs s || s_allow s.

(* writes whose target is reached through a lib/parser value *)
Inductive awclass :=
| AWShared          (* through a slice, map or pointer: the storage is the stored program's *)
| AWLocalCopy       (* a field of a by-value local copy of a node *)
| AWLocalFresh.     (* an element of a container built in the same function *)
Record awrite := mkAW { aw_id : N; aw_class : awclass }.
Definition awrite_ok (w : awrite) : bool := match aw_class w with AWShared => false | _ => true end.

(* writes to a field of a pooled cell type inside lib/value *)
Record cwrite := mkCW { cw_id : N; cw_fresh : bool }.

(* ---- concrete states and policies (used by the examples and by the harness-side sanity checks) -- *)
(* the initial state of an evaluation: root i (literal, table cell, variable, ...) points to cell i *)
Definition mk_init {cell} (vals : list cell) : pstate cell :=
  mkP (fun l => nth_error vals (N.to_nat l))
      (fun x => if N.ltb x (N.of_nat (length vals)) then Some x else None)
      [] (N.of_nat (length vals)) [] 0.

(* sync.Pool as it behaves without garbage collections: last in, first out *)
Definition pol_lifo : policy := mkPol (fun _ _ => true) (fun _ p => hd_error p).
(* a pool that never hands anything back: exactly the `verif` poisoning build, which does not Put *)
Definition pol_never : policy := mkPol (fun _ _ => true) (fun _ _ => None).
(* a pool emptied by the garbage collector before every Get *)
Definition pol_gc : policy := mkPol (fun _ _ => false) (fun _ p => hd_error p).
(* first in, first out *)
Definition pol_fifo : policy := mkPol (fun _ _ => true) (fun _ p => hd_error (rev p)).
