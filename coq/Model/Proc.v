(* Proc.v -- the block-scoped procedural interpreter of csvq: lib/query/reference_scope.go
   (ReferenceScope.Blocks, Get/PutBlockScope), processor.go (ExecuteStatement, IfStmt, Case, While,
   WhileInCursor and the flow values), user_defined_function.go (Execute: CreateChild on the CALLING
   scope, parameters, defaults, RETURN), variable.go, cursor.go.  Definitions only.

   The interpreter is written once, over an abstract "scope machine" (push a block, pop it, read the
   chain of blocks innermost first, update the i-th block).  Two machines instantiate it:
     pureM  -- a stack of block contents (what the documentation describes);
     heapM  -- what the Go code does: blocks are heap objects taken from and returned to a pool
               (sync.Pool of BlockScope), the chain is a list of object identities, a released object
               is cleared and may be handed out again.
   The correspondence harness executes heapM; Proofs/Proc*.v relate the two. *)
From Coq Require Import Floats.
Require Import Csvq.Model.Base Csvq.Model.Value Csvq.Model.Compare Csvq.Model.Arith.
Open Scope Z_scope.

(* ---- names ------------------------------------------------------------------------------------
   VariableMap keys are the variable names as written (case-sensitive); CursorMap,
   UserDefinedFunctionMap and ViewMap keys are strings.ToUpper(name).  Only ASCII names are in the
   modelled fragment, for which ToUpper is this function. *)
Definition ascii_upper (s : str) : str :=
  map (fun c => if (N.leb 97 c && N.leb c 122)%bool then (c - 32)%N else c) s.

(* ---- association lists (the SyncMaps; keys are unique because every insertion checks) ---------- *)
Fixpoint alookup {A} (k : str) (l : list (str * A)) : option A :=
  match l with
  | [] => None
  | (k', v) :: l' => if str_eqb k k' then Some v else alookup k l'
  end.
Definition ahas {A} (k : str) (l : list (str * A)) : bool :=
  match alookup k l with Some _ => true | None => false end.
Fixpoint aset {A} (k : str) (v : A) (l : list (str * A)) : list (str * A) :=
  match l with
  | [] => []
  | (k', v') :: l' => if str_eqb k k' then (k', v) :: l' else (k', v') :: aset k v l'
  end.
Fixpoint aremove {A} (k : str) (l : list (str * A)) : list (str * A) :=
  match l with
  | [] => []
  | (k', v') :: l' => if str_eqb k k' then l' else (k', v') :: aremove k l'
  end.
Fixpoint mem_str (k : str) (l : list str) : bool :=
  match l with [] => false | k' :: l' => str_eqb k k' || mem_str k l' end.

(* ---- syntax ------------------------------------------------------------------------------------ *)
Inductive pexpr :=
| PLit (v : val)
| PVar (x : str)                              (* @x *)
| PAssign (x : str) (e : pexpr)               (* @x := e   (an expression in csvq) *)
| PArith (op : aop) (a b : pexpr)
| PCmp (op : cop) (a b : pexpr)
| PAnd (a b : pexpr)
| POr (a b : pexpr)
| PNot (a : pexpr)
| PCall (f : str) (args : list pexpr)         (* user-defined scalar function *)
| PCurOpen (neg : bool) (c : str)             (* CURSOR c IS [NOT] OPEN *)
| PCurCount (c : str)                         (* CURSOR c COUNT *)
| PTempCount (t : str).                       (* (SELECT COUNT( * ) FROM t) *)

Inductive stmt :=
| SVar (x : str) (init : option pexpr)        (* VAR @x [:= e] *)
| SDisposeVar (x : str)                       (* DISPOSE @x *)
| SExpr (e : pexpr)                           (* expression statement: @x := e; f(1); *)
| SPrint (e : pexpr)
| SFunc (f : str) (params : list (str * option pexpr)) (body : list stmt)
| SDisposeFunc (f : str)
| SCursor (c : str) (rows : list val)         (* DECLARE c CURSOR FOR SELECT r1 UNION ALL SELECT r2 ... *)
| SOpen (c : str)
| SClose (c : str)
| SFetch (c : str) (vars : list str)          (* FETCH c INTO @v, ... *)
| SDisposeCursor (c : str)
| STemp (t : str) (rows : list val)           (* DECLARE t VIEW (c1) [AS SELECT r1 UNION ALL ...] *)
| SInsert (t : str) (e : pexpr)               (* INSERT INTO t VALUES (e) *)
| SDisposeTemp (t : str)
| SIf (branches : list (pexpr * list stmt)) (els : list stmt)      (* els = [] : no ELSE block is run *)
| SCase (v : option pexpr) (whens : list (pexpr * list stmt)) (els : list stmt)
| SWhile (c : pexpr) (body : list stmt)
| SWhileIn (decl : bool) (vars : list str) (cur : str) (body : list stmt)
| SBreak
| SContinue
| SReturn (e : pexpr)
| SExit (code : Z).

Definition fdef : Type := (list (str * option pexpr)) * list stmt.

(* cursor.go: view == nil <-> closed; index; (fetched only matters for IS IN RANGE, not modelled) *)
Record cursor := mkCur { cu_rows : list val; cu_open : bool; cu_idx : Z }.

(* one BlockScope *)
Record cell := mkCell {
  c_vars : list (str * val);
  c_curs : list (str * cursor);
  c_temps : list (str * list val);
  c_funcs : list (str * fdef) }.
Definition empty_cell := mkCell [] [] [] [].
Definition with_vars (f : list (str * val) -> list (str * val)) (c : cell) :=
  mkCell (f (c_vars c)) (c_curs c) (c_temps c) (c_funcs c).
Definition with_curs (f : list (str * cursor) -> list (str * cursor)) (c : cell) :=
  mkCell (c_vars c) (f (c_curs c)) (c_temps c) (c_funcs c).
Definition with_temps (f : list (str * list val) -> list (str * list val)) (c : cell) :=
  mkCell (c_vars c) (c_curs c) (f (c_temps c)) (c_funcs c).
Definition with_funcs (f : list (str * fdef) -> list (str * fdef)) (c : cell) :=
  mkCell (c_vars c) (c_curs c) (c_temps c) (f (c_funcs c)).

(* ---- results ------------------------------------------------------------------------------------ *)
Inductive perr :=
| XUndeclVar | XRedeclVar
| XFuncNotExist | XFuncRedecl | XArgLen | XDupParam
| XDivZero
| XCurUndecl | XCurRedecl | XCurClosed | XCurOpen | XFetchLen
| XTempRedecl | XTempUndecl | XTableNotExist
| XExit (code : Z)                      (* EXIT n with n > 0 is an error (ForcedExit) *)
| XOther.

Inductive eres := EVal (v : val) | EErr (e : perr) | EOOF.
Inductive lres := LVals (vs : list val) | LErr (e : perr) | LOOF.

(* StatementFlow + error; OOOF = the model ran out of fuel (never a normal result) *)
Inductive outcome :=
| ONormal                 (* Terminate *)
| OBreak | OContinue
| OReturn (v : val)
| OExit
| OErr (e : perr)         (* TerminateWithError *)
| OOOF.

Definition lift_res (r : res val) : eres :=
  match r with Ok v => EVal v | Err EDivZero => EErr XDivZero | Err _ => EErr XOther end.

(* ---- the scope machine --------------------------------------------------------------------------- *)
Record machine := mkM {
  mst : Type;
  m_view : mst -> list cell;                       (* ReferenceScope.Blocks, innermost first *)
  m_push : mst -> mst;                             (* CreateChild: GetBlockScope *)
  m_pop : mst -> mst;                              (* CloseCurrentBlock: PutBlockScope *)
  m_upd : nat -> (cell -> cell) -> mst -> mst }.   (* mutate the maps of Blocks[i] *)

(* lookups walk the blocks from the innermost outward *)
Fixpoint find_frame (p : cell -> bool) (fs : list cell) : option nat :=
  match fs with
  | [] => None
  | c :: fs' => if p c then Some O else match find_frame p fs' with Some i => Some (S i) | None => None end
  end.
Fixpoint first_some {A} (g : cell -> option A) (fs : list cell) : option A :=
  match fs with
  | [] => None
  | c :: fs' => match g c with Some a => Some a | None => first_some g fs' end
  end.
Definition has_var x (c : cell) := ahas x (c_vars c).
Definition has_cur k (c : cell) := ahas k (c_curs c).
Definition has_temp k (c : cell) := ahas k (c_temps c).
Definition has_func k (c : cell) := ahas k (c_funcs c).
Definition top_cell (fs : list cell) : cell := match fs with c :: _ => c | [] => empty_cell end.

(* UserDefinedFunction.CheckArgsLen *)
Fixpoint required_args (i : nat) (ps : list (str * option pexpr)) : nat :=
  match ps with
  | [] => O
  | (_, None) :: ps' => Nat.max (S i) (required_args (S i) ps')
  | (_, Some _) :: ps' => required_args (S i) ps'
  end.
Definition has_defaults (ps : list (str * option pexpr)) : bool :=
  existsb (fun p => match snd p with Some _ => true | None => false end) ps.
Definition args_len_ok (ps : list (str * option pexpr)) (n : nat) : bool :=
  if has_defaults ps then Nat.leb (required_args O ps) n && Nat.leb n (length ps)
  else Nat.eqb n (length ps).
Fixpoint dup_names (l : list str) : bool :=
  match l with [] => false | x :: l' => mem_str x l' || dup_names l' end.

Section Interp.
  Variable M : machine.

  Record gst := mkG { ms : mst M; out : list val }.     (* out: PRINT lines, newest first *)
  Definition view (s : gst) : list cell := m_view M (ms s).
  Definition push (s : gst) : gst := mkG (m_push M (ms s)) (out s).
  Definition pop (s : gst) : gst := mkG (m_pop M (ms s)) (out s).
  Definition upd (i : nat) (f : cell -> cell) (s : gst) : gst := mkG (m_upd M i f (ms s)) (out s).
  Definition emit (v : val) (s : gst) : gst := mkG (ms s) (v :: out s).
  Definition clear_top (s : gst) : gst := upd O (fun _ => empty_cell) s.   (* ClearCurrentBlock *)

  (* ---- primitive scope operations (reference_scope.go) ---------------------------------------- *)
  (* DeclareVariableDirectly / VariableMap.Add on Blocks[0] *)
  Definition declare_var (x : str) (v : val) (s : gst) : option perr * gst :=
    if has_var x (top_cell (view s)) then (Some XRedeclVar, s)
    else (None, upd O (with_vars (cons (x, v))) s).
  (* SubstituteVariable(Directly): the innermost block that has x *)
  Definition set_var (x : str) (v : val) (s : gst) : option perr * gst :=
    match find_frame (has_var x) (view s) with
    | Some i => (None, upd i (with_vars (aset x v)) s)
    | None => (Some XUndeclVar, s)
    end.
  Definition get_var (x : str) (s : gst) : option val :=
    first_some (fun c => alookup x (c_vars c)) (view s).
  Fixpoint set_vars (xs : list str) (vs : list val) (s : gst) : option perr * gst :=
    match xs, vs with
    | x :: xs', v :: vs' =>
        match set_var x v s with
        | (None, s1) => set_vars xs' vs' s1
        | r => r
        end
    | _, _ => (None, s)
    end.
  Fixpoint declare_nulls (xs : list str) (s : gst) : option perr * gst :=
    match xs with
    | [] => (None, s)
    | x :: xs' => match declare_var x VNull s with (None, s1) => declare_nulls xs' s1 | r => r end
    end.

  (* FetchCursor with position NEXT (query.go:13, cursor.go Fetch): the cursor advances before the
     variable count is checked; out of range leaves the variables untouched *)
  Inductive fetch_res := FOk | FEnd | FErr (e : perr).
  Definition do_fetch (c : str) (vars : list str) (s : gst) : fetch_res * gst :=
    let k := ascii_upper c in
    match find_frame (has_cur k) (view s) with
    | None => (FErr XCurUndecl, s)
    | Some i =>
      match alookup k (c_curs (nth i (view s) empty_cell)) with
      | None => (FErr XCurUndecl, s)
      | Some cu =>
        if negb (cu_open cu) then (FErr XCurClosed, s) else
        let idx := cu_idx cu + 1 in
        let len := Z.of_nat (length (cu_rows cu)) in
        if idx <? 0 then (FEnd, upd i (with_curs (aset k (mkCur (cu_rows cu) true (-1)))) s)
        else if len <=? idx then (FEnd, upd i (with_curs (aset k (mkCur (cu_rows cu) true len))) s)
        else
          let s1 := upd i (with_curs (aset k (mkCur (cu_rows cu) true idx))) s in
          if negb (Nat.eqb (length vars) 1) then (FErr XFetchLen, s1) else
          match set_vars vars [nth (Z.to_nat idx) (cu_rows cu) VNull] s1 with
          | (None, s2) => (FOk, s2)
          | (Some e, s2) => (FErr e, s2)
          end
      end
    end.

  (* ---- statements without sub-blocks and without control transfer ------------------------------
     Each is: a check made before anything is evaluated, at most one expression, a state update. *)
  Definition basic_pre (t : stmt) (s : gst) : option perr :=
    match t with
    | SInsert tn _ =>       (* Insert: LoadView first, values afterwards *)
        match find_frame (has_temp (ascii_upper tn)) (view s) with Some _ => None | None => Some XTableNotExist end
    | _ => None
    end.
  Definition basic_expr (t : stmt) : option pexpr :=
    match t with
    | SVar _ (Some e) | SExpr e | SPrint e | SInsert _ e => Some e
    | _ => None
    end.
  Definition basic_post (t : stmt) (v : val) (s : gst) : option perr * gst :=
    match t with
    | SVar x _ => declare_var x v s                          (* v = NULL when there is no initial value *)
    | SDisposeVar x =>
        match find_frame (has_var x) (view s) with
        | Some i => (None, upd i (with_vars (aremove x)) s)
        | None => (Some XUndeclVar, s)
        end
    | SExpr _ => (None, s)
    | SPrint _ => (None, emit v s)
    | SFunc f params body =>                                  (* UserDefinedFunctionMap.Declare on Blocks[0] *)
        let k := ascii_upper f in
        if has_func k (top_cell (view s)) then (Some XFuncRedecl, s)
        else if dup_names (map fst params) then (Some XDupParam, s)
        else (None, upd O (with_funcs (cons (k, (params, body)))) s)
    | SDisposeFunc f =>
        let k := ascii_upper f in
        match find_frame (has_func k) (view s) with
        | Some i => (None, upd i (with_funcs (aremove k)) s)
        | None => (Some XFuncNotExist, s)
        end
    | SCursor c rows =>
        let k := ascii_upper c in
        if has_cur k (top_cell (view s)) then (Some XCurRedecl, s)
        else (None, upd O (with_curs (cons (k, mkCur rows false 0))) s)
    | SOpen c =>
        let k := ascii_upper c in
        match find_frame (has_cur k) (view s) with
        | None => (Some XCurUndecl, s)
        | Some i =>
          match alookup k (c_curs (nth i (view s) empty_cell)) with
          | Some cu => if cu_open cu then (Some XCurOpen, s)
                       else (None, upd i (with_curs (aset k (mkCur (cu_rows cu) true (-1)))) s)
          | None => (Some XCurUndecl, s)
          end
        end
    | SClose c =>
        let k := ascii_upper c in
        match find_frame (has_cur k) (view s) with
        | None => (Some XCurUndecl, s)
        | Some i =>
          match alookup k (c_curs (nth i (view s) empty_cell)) with
          | Some cu => (None, upd i (with_curs (aset k (mkCur (cu_rows cu) false 0))) s)
          | None => (Some XCurUndecl, s)
          end
        end
    | SFetch c vars =>
        match do_fetch c vars s with
        | (FErr e, s1) => (Some e, s1)
        | (_, s1) => (None, s1)
        end
    | SDisposeCursor c =>
        let k := ascii_upper c in
        match find_frame (has_cur k) (view s) with
        | Some i => (None, upd i (with_curs (aremove k)) s)
        | None => (Some XCurUndecl, s)
        end
    | STemp tn rows =>                                        (* DeclareView: TemporaryTableExists looks at ALL blocks *)
        let k := ascii_upper tn in
        match find_frame (has_temp k) (view s) with
        | Some _ => (Some XTempRedecl, s)
        | None => (None, upd O (with_temps (cons (k, rows))) s)
        end
    | SInsert tn _ =>                                         (* ReplaceTemporaryTable: the innermost block that has it *)
        let k := ascii_upper tn in
        match find_frame (has_temp k) (view s) with
        | Some i =>
            match alookup k (c_temps (nth i (view s) empty_cell)) with
            | Some rows => (None, upd i (with_temps (aset k (rows ++ [v]))) s)
            | None => (Some XTableNotExist, s)
            end
        | None => (Some XTableNotExist, s)
        end
    | SDisposeTemp tn =>
        let k := ascii_upper tn in
        match find_frame (has_temp k) (view s) with
        | Some i => (None, upd i (with_temps (aremove k)) s)
        | None => (Some XTempUndecl, s)
        end
    | _ => (None, s)
    end.
  Definition fin_basic (r : option perr * gst) : outcome * gst :=
    match r with (None, s) => (ONormal, s) | (Some e, s) => (OErr e, s) end.
  Definition exec_basic (ev : pexpr -> gst -> eres * gst) (t : stmt) (s : gst) : outcome * gst :=
    match basic_pre t s with
    | Some e => (OErr e, s)
    | None =>
      match basic_expr t with
      | None => fin_basic (basic_post t VNull s)
      | Some e =>
        match ev e s with
        | (EVal v, s1) => fin_basic (basic_post t v s1)
        | (EErr x, s1) => (OErr x, s1)
        | (EOOF, s1) => (OOOF, s1)
        end
      end
    end.

  (* expressions that only read the scope *)
  Definition eval_cur_open (neg : bool) (c : str) (s : gst) : eres :=
    let k := ascii_upper c in
    match first_some (fun cl => alookup k (c_curs cl)) (view s) with
    | Some cu => let t := of_bool (cu_open cu) in EVal (VTern (if neg then tnot t else t))
    | None => EErr XCurUndecl
    end.
  Definition eval_cur_count (c : str) (s : gst) : eres :=
    let k := ascii_upper c in
    match first_some (fun cl => alookup k (c_curs cl)) (view s) with
    | Some cu => if cu_open cu then EVal (VInt (Z.of_nat (length (cu_rows cu)))) else EErr XCurClosed
    | None => EErr XCurUndecl
    end.
  Definition eval_temp_count (t : str) (s : gst) : eres :=
    let k := ascii_upper t in
    match first_some (fun cl => alookup k (c_temps cl)) (view s) with
    | Some rows => EVal (VInt (Z.of_nat (length rows)))
    | None => EErr XTableNotExist
    end.
  Definition get_func (f : str) (s : gst) : option fdef :=
    first_some (fun cl => alookup (ascii_upper f) (c_funcs cl)) (view s).

  (* what UserDefinedFunction.execute returns for the flow its body ended with: only RETURN carries
     a value; every other flow is ignored (`if _, err := proc.execute(...)`) and yields NULL *)
  Definition call_result (o : outcome) : eres :=
    match o with
    | OReturn v => EVal v
    | OErr e => EErr e
    | OOOF => EOOF
    | ONormal | OBreak | OContinue | OExit => EVal VNull
    end.

  (* ---- the interpreter: every recursive call spends one unit of fuel ---------------------------- *)
  Fixpoint eval (n : nat) (e : pexpr) (s : gst) {struct n} : eres * gst :=
    match n with
    | O => (EOOF, s)
    | S n' =>
      match e with
      | PLit v => (EVal v, s)
      | PVar x => match get_var x s with Some v => (EVal v, s) | None => (EErr XUndeclVar, s) end
      | PAssign x e1 =>
          match eval n' e1 s with
          | (EVal v, s1) => match set_var x v s1 with (None, s2) => (EVal v, s2) | (Some er, s2) => (EErr er, s2) end
          | r => r
          end
      | PArith op a b =>
          match eval n' a s with
          | (EVal x, s1) =>
              if is_null x then (EVal VNull, s1) else
              match eval n' b s1 with
              | (EVal y, s2) => (lift_res (calculate x y op), s2)
              | r => r
              end
          | r => r
          end
      | PCmp op a b =>
          match eval n' a s with
          | (EVal x, s1) =>
              if is_null x then (EVal (VTern TU), s1) else
              match eval n' b s1 with
              | (EVal y, s2) => (EVal (VTern (compare_op op x y)), s2)
              | r => r
              end
          | r => r
          end
      | PAnd a b =>
          match eval n' a s with
          | (EVal x, s1) =>
              match ternary_of x with
              | TF => (EVal (VTern TF), s1)
              | tx => match eval n' b s1 with
                      | (EVal y, s2) => (EVal (VTern (tand tx (ternary_of y))), s2)
                      | r => r
                      end
              end
          | r => r
          end
      | POr a b =>
          match eval n' a s with
          | (EVal x, s1) =>
              match ternary_of x with
              | TT => (EVal (VTern TT), s1)
              | tx => match eval n' b s1 with
                      | (EVal y, s2) => (EVal (VTern (tor tx (ternary_of y))), s2)
                      | r => r
                      end
              end
          | r => r
          end
      | PNot a =>
          match eval n' a s with
          | (EVal x, s1) => (EVal (VTern (tnot (ternary_of x))), s1)
          | r => r
          end
      | PCall f args =>                      (* evalFunction: lookup, CheckArgsLen, arguments, Execute *)
          match get_func f s with
          | None => (EErr XFuncNotExist, s)
          | Some fd =>
            if negb (args_len_ok (fst fd) (length args)) then (EErr XArgLen, s) else
            match eval_list n' args s with
            | (LVals vs, s1) => call n' fd vs s1
            | (LErr er, s1) => (EErr er, s1)
            | (LOOF, s1) => (EOOF, s1)
            end
          end
      | PCurOpen neg c => (eval_cur_open neg c s, s)
      | PCurCount c => (eval_cur_count c s, s)
      | PTempCount t => (eval_temp_count t s, s)
      end
    end

  with eval_list (n : nat) (es : list pexpr) (s : gst) {struct n} : lres * gst :=
    match n with
    | O => (LOOF, s)
    | S n' =>
      match es with
      | [] => (LVals [], s)
      | e :: es' =>
          match eval n' e s with
          | (EVal v, s1) =>
              match eval_list n' es' s1 with
              | (LVals vs, s2) => (LVals (v :: vs), s2)
              | r => r
              end
          | (EErr er, s1) => (LErr er, s1)
          | (EOOF, s1) => (LOOF, s1)
          end
      end
    end

  (* UserDefinedFunction.Execute: child block of the CALLING scope, closed on every path *)
  with call (n : nat) (fd : fdef) (vs : list val) (s : gst) {struct n} : eres * gst :=
    match n with
    | O => (EOOF, s)
    | S n' =>
      match bind_params n' (fst fd) vs (push s) with
      | (None, s1) =>
          let (o, s2) := exec_list n' (snd fd) s1 in (call_result o, pop s2)
      | (Some r, s1) => (r, pop s1)
      end
    end

  (* parameters: given arguments are added directly; missing ones evaluate their default in the
     child scope (so a default can see the parameters bound before it) *)
  with bind_params (n : nat) (ps : list (str * option pexpr)) (vs : list val) (s : gst) {struct n}
      : option eres * gst :=
    match n with
    | O => (Some EOOF, s)
    | S n' =>
      match ps with
      | [] => (None, s)
      | (x, d) :: ps' =>
        match vs with
        | v :: vs' =>
            match declare_var x v s with
            | (None, s1) => bind_params n' ps' vs' s1
            | (Some er, s1) => (Some (EErr er), s1)
            end
        | [] =>
            match d with
            | None => (Some (EErr XArgLen), s)        (* unreachable after CheckArgsLen *)
            | Some de =>
              match eval n' de s with
              | (EVal v, s1) =>
                  match declare_var x v s1 with
                  | (None, s2) => bind_params n' ps' [] s2
                  | (Some er, s2) => (Some (EErr er), s2)
                  end
              | (r, s1) => (Some r, s1)
              end
            end
        end
      end
    end

  with exec (n : nat) (t : stmt) (s : gst) {struct n} : outcome * gst :=
    match n with
    | O => (OOOF, s)
    | S n' =>
      match t with
      | SIf brs els => exec_if n' brs els s
      | SCase v whens els =>
          match v with
          | None => exec_case n' None whens els s
          | Some ve =>
              match eval n' ve s with
              | (EVal x, s1) => exec_case n' (Some x) whens els s1
              | (EErr er, s1) => (OErr er, s1)
              | (EOOF, s1) => (OOOF, s1)
              end
          end
      | SWhile c body =>                      (* NewChildProcessor; defer Close *)
          let (o, s1) := while_loop n' c body (push s) in (o, pop s1)
      | SWhileIn decl vars cur body =>
          let (o, s1) := whilein_loop n' decl vars cur body (push s) in (o, pop s1)
      | SBreak => (OBreak, s)
      | SContinue => (OContinue, s)
      | SReturn e =>
          match eval n' e s with
          | (EVal v, s1) => (OReturn v, s1)
          | (EErr er, s1) => (OErr er, s1)
          | (EOOF, s1) => (OOOF, s1)
          end
      | SExit code => if 0 <? code then (OErr (XExit code), s) else (OExit, s)
      | _ => exec_basic (eval n') t s
      end
    end

  (* Processor.execute: stop at the first error or non-Terminate flow *)
  with exec_list (n : nat) (ts : list stmt) (s : gst) {struct n} : outcome * gst :=
    match n with
    | O => (OOOF, s)
    | S n' =>
      match ts with
      | [] => (ONormal, s)
      | t :: ts' =>
          match exec n' t s with
          | (ONormal, s1) => exec_list n' ts' s1
          | r => r
          end
      end
    end

  (* executeChild *)
  with exec_child (n : nat) (ts : list stmt) (s : gst) {struct n} : outcome * gst :=
    match n with
    | O => (OOOF, s)
    | S n' => let (o, s1) := exec_list n' ts (push s) in (o, pop s1)
    end

  with exec_if (n : nat) (brs : list (pexpr * list stmt)) (els : list stmt) (s : gst) {struct n} : outcome * gst :=
    match n with
    | O => (OOOF, s)
    | S n' =>
      match brs with
      | [] => match els with [] => (ONormal, s) | _ => exec_child n' els s end
      | (c, ts) :: brs' =>
          match eval n' c s with
          | (EVal v, s1) =>
              match ternary_of v with
              | TT => exec_child n' ts s1
              | _ => exec_if n' brs' els s1
              end
          | (EErr er, s1) => (OErr er, s1)
          | (EOOF, s1) => (OOOF, s1)
          end
      end
    end

  with exec_case (n : nat) (vv : option val) (whens : list (pexpr * list stmt)) (els : list stmt) (s : gst)
      {struct n} : outcome * gst :=
    match n with
    | O => (OOOF, s)
    | S n' =>
      match whens with
      | [] => match els with [] => (ONormal, s) | _ => exec_child n' els s end
      | (c, ts) :: whens' =>
          match eval n' c s with
          | (EVal cv, s1) =>
              match (match vv with None => ternary_of cv | Some x => op_eq x cv end) with
              | TT => exec_child n' ts s1
              | _ => exec_case n' vv whens' els s1
              end
          | (EErr er, s1) => (OErr er, s1)
          | (EOOF, s1) => (OOOF, s1)
          end
      end
    end

  (* Processor.While, with the loop's block already on top: the block is cleared at the start of
     EVERY iteration (also before the first test of the condition) *)
  with while_loop (n : nat) (c : pexpr) (body : list stmt) (s : gst) {struct n} : outcome * gst :=
    match n with
    | O => (OOOF, s)
    | S n' =>
      match eval n' c (clear_top s) with
      | (EVal v, s1) =>
          match ternary_of v with
          | TT =>
              match exec_list n' body s1 with
              | (OBreak, s2) => (ONormal, s2)
              | (ONormal, s2) | (OContinue, s2) => while_loop n' c body s2
              | r => r                        (* Exit, Return, error: leave the loop with that flow *)
              end
          | _ => (ONormal, s1)
          end
      | (EErr er, s1) => (OErr er, s1)
      | (EOOF, s1) => (OOOF, s1)
      end
    end

  (* Processor.WhileInCursor *)
  with whilein_loop (n : nat) (decl : bool) (vars : list str) (cur : str) (body : list stmt) (s : gst)
      {struct n} : outcome * gst :=
    match n with
    | O => (OOOF, s)
    | S n' =>
      let s0 := clear_top s in
      match (if decl then declare_nulls vars s0 else (None, s0)) with
      | (Some er, s1) => (OErr er, s1)
      | (None, s1) =>
        match do_fetch cur vars s1 with
        | (FErr er, s2) => (OErr er, s2)
        | (FEnd, s2) => (ONormal, s2)
        | (FOk, s2) =>
            match exec_list n' body s2 with
            | (OBreak, s3) => (ONormal, s3)
            | (ONormal, s3) | (OContinue, s3) => whilein_loop n' decl vars cur body s3
            | r => r
            end
        end
      end
    end.
End Interp.

Arguments ms {M} g.
Arguments out {M} g.
Arguments mkG {M} ms out.

(* ---- machine 1: a stack of block contents ---------------------------------------------------- *)
Fixpoint list_upd {A} (i : nat) (f : A -> A) (l : list A) : list A :=
  match l, i with
  | [], _ => []
  | x :: l', O => f x :: l'
  | x :: l', S i' => x :: list_upd i' f l'
  end.

Definition pureM : machine :=
  mkM (list cell) (fun fs => fs) (fun fs => empty_cell :: fs) (fun fs => tl fs) (fun i f fs => list_upd i f fs).

(* ---- machine 2: pooled block objects ------------------------------------------------------------
   heap: object identity -> contents; chain: ReferenceScope.Blocks as identities; pool: the objects
   sitting in blockScopePool (cleared); next: identities never handed out so far (sync.Pool.New);
   log: every Get and Put in the order they happened (newest first). *)
Inductive hevent := HGet (id : N) | HPut (id : N).
Record hstate := mkH {
  h_heap : list (N * cell);
  h_chain : list N;
  h_pool : list N;
  h_next : N;
  h_log : list hevent }.

Fixpoint hget (id : N) (h : list (N * cell)) : cell :=
  match h with
  | [] => empty_cell
  | (k, c) :: h' => if N.eqb id k then c else hget id h'
  end.
Fixpoint hset (id : N) (c : cell) (h : list (N * cell)) : list (N * cell) :=
  match h with
  | [] => [(id, c)]
  | (k, c') :: h' => if N.eqb id k then (k, c) :: h' else (k, c') :: hset id c h'
  end.
Fixpoint take_nth {A} (i : nat) (l : list A) : option (A * list A) :=
  match l, i with
  | [], _ => None
  | x :: l', O => Some (x, l')
  | x :: l', S i' => match take_nth i' l' with Some (y, r) => Some (y, x :: r) | None => None end
  end.

Section Heap.
  (* which pooled object sync.Pool.Get hands out is not specified: [policy pool] = Some i takes the
     i-th pooled object, None (or an index out of range) allocates a new one *)
  Variable policy : list N -> option nat.

  Definition h_alloc (h : hstate) : hstate :=
    let id := h_next h in
    mkH (hset id empty_cell (h_heap h)) (id :: h_chain h) (h_pool h) (id + 1)%N (HGet id :: h_log h).
  Definition h_push (h : hstate) : hstate :=
    match policy (h_pool h) with
    | Some i =>
        match take_nth i (h_pool h) with
        | Some (id, rest) => mkH (h_heap h) (id :: h_chain h) rest (h_next h) (HGet id :: h_log h)
        | None => h_alloc h
        end
    | None => h_alloc h
    end.
  (* PutBlockScope: Clear, then Put *)
  Definition h_pop (h : hstate) : hstate :=
    match h_chain h with
    | id :: rest => mkH (hset id empty_cell (h_heap h)) rest (id :: h_pool h) (h_next h) (HPut id :: h_log h)
    | [] => h
    end.
  Definition h_upd (i : nat) (f : cell -> cell) (h : hstate) : hstate :=
    match nth_error (h_chain h) i with
    | Some id => mkH (hset id (f (hget id (h_heap h))) (h_heap h)) (h_chain h) (h_pool h) (h_next h) (h_log h)
    | None => h
    end.
  Definition h_view (h : hstate) : list cell := map (fun id => hget id (h_heap h)) (h_chain h).

  Definition heapM : machine := mkM hstate h_view h_push h_pop h_upd.
End Heap.

(* NewReferenceScope: one block *)
Definition h_init : hstate := mkH [(0%N, empty_cell)] [0%N] [] 1%N [HGet 0%N].
Definition lifo (pool : list N) : option nat := match pool with [] => None | _ => Some O end.

(* ---- whole programs ------------------------------------------------------------------------------ *)
(* exit status of the csvq process: error code of the error (ForcedExit: its code; a missing table
   file: ReturnCodeIOError; everything else in this fragment: ReturnCodeApplicationError) *)
Definition exit_code (o : outcome) : Z :=
  match o with
  | OErr (XExit c) => c
  | OErr XTableNotExist => 16
  | OErr _ => 1
  | _ => 0
  end.

Definition run_heap (fuel : nat) (prog : list stmt) : outcome * gst (heapM lifo) :=
  exec_list (heapM lifo) fuel prog (mkG (M := heapM lifo) h_init []).
Definition run_pure (fuel : nat) (prog : list stmt) : outcome * gst pureM :=
  exec_list pureM fuel prog (mkG (M := pureM) [empty_cell] []).

(* user functions evaluated over the rows of a table (SELECT f(c1) FROM t WHERE g(c1)): every row is
   an invocation from the same calling scope *)
Definition call_on_rows (M : machine) (fuel : nat) (f : str) (rows : list val) (s : gst M) : list eres :=
  map (fun r => fst (eval M fuel (PCall f [PLit r]) s)) rows.

(* ---- where the grammar allows the control statements (parser.y: program / loop_program /
   function_program / function_loop_program) ------------------------------------------------------- *)
Fixpoint wf_stmt (fuel : nat) (in_loop in_func : bool) (t : stmt) {struct fuel} : bool :=
  match fuel with
  | O => false
  | S k =>
    let wf_list := fun l f ts => forallb (wf_stmt k l f) ts in
    match t with
    | SBreak | SContinue => in_loop
    | SReturn _ => in_func
    | SExit c => negb in_func && (0 <=? c)
    | SIf brs els => forallb (fun b => wf_list in_loop in_func (snd b)) brs && wf_list in_loop in_func els
    | SCase _ whens els => forallb (fun b => wf_list in_loop in_func (snd b)) whens && wf_list in_loop in_func els
    | SWhile _ body => wf_list true in_func body
    | SWhileIn _ vars _ body => negb (Nat.eqb (length vars) 0) && wf_list true in_func body
    | SFunc _ _ body => wf_list false true body
    | _ => true
    end
  end.
