(* ProcSpec.v -- the documented meaning of the control statements, written WITHOUT flow values: a
   continuation semantics of the same statement language.  Nothing here returns or inspects a
   "Break/Continue/Return/Exit" flag; a control statement simply jumps:
     BREAK     -> to what follows the innermost enclosing loop (after closing the blocks in between),
     CONTINUE  -> to the next test of that loop,
     RETURN e  -> to the caller of the innermost enclosing function invocation, with the value of e,
     EXIT      -> to the end of the run,
     an error  -> to the end of the run (closing every open block on the way).
   Proofs/ProcFlow.v proves that Processor's flow-value encoding (Model/Proc.v: exec) computes exactly
   this.  Definitions only. *)
From Coq Require Import Floats.
Require Import Csvq.Model.Base Csvq.Model.Value Csvq.Model.Compare Csvq.Model.Arith Csvq.Model.Proc.
Open Scope Z_scope.

Section Spec.
  Variable M : machine.
  Variable A : Type.                      (* the answer of a whole run: never inspected here *)
  Notation st := (gst M).

  (* where a statement can go *)
  Record konts := mkK {
    k_next : st -> A;                     (* the statement after this one *)
    k_break : st -> A;                    (* after the innermost loop *)
    k_continue : st -> A;                 (* the next test of the innermost loop *)
    k_return : val -> st -> A;            (* the caller of the innermost function *)
    k_exit : st -> A;                     (* end of the run (EXIT) *)
    k_error : perr -> st -> A;            (* end of the run (error) *)
    k_fuel : st -> A }.                   (* the model's fuel ran out *)
  (* where an expression can go *)
  Record econts := mkE { e_value : val -> st -> A; e_error : perr -> st -> A; e_fuel : st -> A }.

  (* leaving a block on any path closes it first (CloseCurrentBlock / defer Close) *)
  Definition closing (K : konts) : konts :=
    mkK (fun s => k_next K (pop M s)) (fun s => k_break K (pop M s)) (fun s => k_continue K (pop M s))
        (fun v s => k_return K v (pop M s)) (fun s => k_exit K (pop M s)) (fun e s => k_error K e (pop M s))
        (fun s => k_fuel K (pop M s)).
  Definition then_next (K : konts) (k : st -> A) : konts :=
    mkK k (k_break K) (k_continue K) (k_return K) (k_exit K) (k_error K) (k_fuel K).
  Definition econts_of (K : konts) (k : val -> st -> A) : econts := mkE k (k_error K) (k_fuel K).
  Definition with_value (E : econts) (k : val -> st -> A) : econts := mkE k (e_error E) (e_fuel E).
  Definition finish (K : konts) (r : option perr * st) : A :=
    match r with (None, s) => k_next K s | (Some e, s) => k_error K e s end.
  Definition give (E : econts) (r : eres) (s : st) : A :=
    match r with EVal v => e_value E v s | EErr e => e_error E e s | EOOF => e_fuel E s end.

  Fixpoint keval (n : nat) (e : pexpr) (E : econts) (s : st) {struct n} : A :=
    match n with
    | O => e_fuel E s
    | S n' =>
      match e with
      | PLit v => e_value E v s
      | PVar x => match get_var M x s with Some v => e_value E v s | None => e_error E XUndeclVar s end
      | PAssign x e1 =>
          keval n' e1 (with_value E (fun v s1 =>
            match set_var M x v s1 with (None, s2) => e_value E v s2 | (Some er, s2) => e_error E er s2 end)) s
      | PArith op a b =>
          keval n' a (with_value E (fun x s1 =>
            if is_null x then e_value E VNull s1
            else keval n' b (with_value E (fun y s2 => give E (lift_res (calculate x y op)) s2)) s1)) s
      | PCmp op a b =>
          keval n' a (with_value E (fun x s1 =>
            if is_null x then e_value E (VTern TU) s1
            else keval n' b (with_value E (fun y s2 => e_value E (VTern (compare_op op x y)) s2)) s1)) s
      | PAnd a b =>
          keval n' a (with_value E (fun x s1 =>
            match ternary_of x with
            | TF => e_value E (VTern TF) s1
            | tx => keval n' b (with_value E (fun y s2 => e_value E (VTern (tand tx (ternary_of y))) s2)) s1
            end)) s
      | POr a b =>
          keval n' a (with_value E (fun x s1 =>
            match ternary_of x with
            | TT => e_value E (VTern TT) s1
            | tx => keval n' b (with_value E (fun y s2 => e_value E (VTern (tor tx (ternary_of y))) s2)) s1
            end)) s
      | PNot a => keval n' a (with_value E (fun x s1 => e_value E (VTern (tnot (ternary_of x))) s1)) s
      | PCall f args =>
          match get_func M f s with
          | None => e_error E XFuncNotExist s
          | Some fd =>
            if negb (args_len_ok (fst fd) (length args)) then e_error E XArgLen s
            else keval_list n' args (fun vs s1 => kcall n' fd vs E s1) (e_error E) (e_fuel E) s
          end
      | PCurOpen neg c => give E (eval_cur_open M neg c s) s
      | PCurCount c => give E (eval_cur_count M c s) s
      | PTempCount t => give E (eval_temp_count M t s) s
      end
    end

  with keval_list (n : nat) (es : list pexpr) (k : list val -> st -> A) (ke : perr -> st -> A) (kf : st -> A) (s : st)
      {struct n} : A :=
    match n with
    | O => kf s
    | S n' =>
      match es with
      | [] => k [] s
      | e :: es' => keval n' e (mkE (fun v s1 => keval_list n' es' (fun vs s2 => k (v :: vs) s2) ke kf s1) ke kf) s
      end
    end

  (* a function invocation: a new innermost block on the CALLER's chain; the body's RETURN continuation
     is the caller (with the block closed); a body that ends in any other way gives NULL *)
  with kcall (n : nat) (fd : fdef) (vs : list val) (E : econts) (s : st) {struct n} : A :=
    match n with
    | O => e_fuel E s
    | S n' =>
      kbind n' (fst fd) vs
        (fun s1 => kexec_list n' (snd fd)
           (mkK (fun s2 => e_value E VNull (pop M s2)) (fun s2 => e_value E VNull (pop M s2))
                (fun s2 => e_value E VNull (pop M s2)) (fun v s2 => e_value E v (pop M s2))
                (fun s2 => e_value E VNull (pop M s2)) (fun er s2 => e_error E er (pop M s2))
                (fun s2 => e_fuel E (pop M s2))) s1)
        (fun r s1 => give E r (pop M s1))
        (push M s)
    end

  with kbind (n : nat) (ps : list (str * option pexpr)) (vs : list val) (kok : st -> A) (kfail : eres -> st -> A) (s : st)
      {struct n} : A :=
    match n with
    | O => kfail EOOF s
    | S n' =>
      match ps with
      | [] => kok s
      | (x, d) :: ps' =>
        match vs with
        | v :: vs' =>
            match declare_var M x v s with
            | (None, s1) => kbind n' ps' vs' kok kfail s1
            | (Some er, s1) => kfail (EErr er) s1
            end
        | [] =>
            match d with
            | None => kfail (EErr XArgLen) s
            | Some de =>
                keval n' de (mkE (fun v s1 =>
                  match declare_var M x v s1 with
                  | (None, s2) => kbind n' ps' [] kok kfail s2
                  | (Some er, s2) => kfail (EErr er) s2
                  end) (fun er s1 => kfail (EErr er) s1) (fun s1 => kfail EOOF s1)) s
            end
        end
      end
    end

  with kexec (n : nat) (t : stmt) (K : konts) (s : st) {struct n} : A :=
    match n with
    | O => k_fuel K s
    | S n' =>
      match t with
      | SIf brs els => kif n' brs els K s
      | SCase v whens els =>
          match v with
          | None => kcase n' None whens els K s
          | Some ve => keval n' ve (econts_of K (fun x s1 => kcase n' (Some x) whens els K s1)) s
          end
      | SWhile c body => kwhile n' c body (closing K) (push M s)
      | SWhileIn decl vars cur body => kwhilein n' decl vars cur body (closing K) (push M s)
      | SBreak => k_break K s
      | SContinue => k_continue K s
      | SReturn e => keval n' e (econts_of K (fun v s1 => k_return K v s1)) s
      | SExit code => if 0 <? code then k_error K (XExit code) s else k_exit K s
      | _ =>
          match basic_pre M t s with
          | Some er => k_error K er s
          | None =>
            match basic_expr t with
            | None => finish K (basic_post M t VNull s)
            | Some e => keval n' e (econts_of K (fun v s1 => finish K (basic_post M t v s1))) s
            end
          end
      end
    end

  with kexec_list (n : nat) (ts : list stmt) (K : konts) (s : st) {struct n} : A :=
    match n with
    | O => k_fuel K s
    | S n' =>
      match ts with
      | [] => k_next K s
      | t :: ts' => kexec n' t (then_next K (fun s1 => kexec_list n' ts' K s1)) s
      end
    end

  with kchild (n : nat) (ts : list stmt) (K : konts) (s : st) {struct n} : A :=
    match n with
    | O => k_fuel K s
    | S n' => kexec_list n' ts (closing K) (push M s)
    end

  with kif (n : nat) (brs : list (pexpr * list stmt)) (els : list stmt) (K : konts) (s : st) {struct n} : A :=
    match n with
    | O => k_fuel K s
    | S n' =>
      match brs with
      | [] => match els with [] => k_next K s | _ => kchild n' els K s end
      | (c, ts) :: brs' =>
          keval n' c (econts_of K (fun v s1 =>
            match ternary_of v with
            | TT => kchild n' ts K s1
            | _ => kif n' brs' els K s1
            end)) s
      end
    end

  with kcase (n : nat) (vv : option val) (whens : list (pexpr * list stmt)) (els : list stmt) (K : konts) (s : st)
      {struct n} : A :=
    match n with
    | O => k_fuel K s
    | S n' =>
      match whens with
      | [] => match els with [] => k_next K s | _ => kchild n' els K s end
      | (c, ts) :: whens' =>
          keval n' c (econts_of K (fun cv s1 =>
            match (match vv with None => ternary_of cv | Some x => op_eq x cv end) with
            | TT => kchild n' ts K s1
            | _ => kcase n' vv whens' els K s1
            end)) s
      end
    end

  (* the loop, its block on top; K = where the WHILE statement itself can go (block already closed) *)
  with kwhile (n : nat) (c : pexpr) (body : list stmt) (K : konts) (s : st) {struct n} : A :=
    match n with
    | O => k_fuel K s
    | S n' =>
      keval n' c (econts_of K (fun v s1 =>
        match ternary_of v with
        | TT =>
            kexec_list n' body
              (mkK (fun s2 => kwhile n' c body K s2)      (* end of the body: test again *)
                   (fun s2 => k_next K s2)                (* BREAK: what follows the loop *)
                   (fun s2 => kwhile n' c body K s2)      (* CONTINUE: test again *)
                   (k_return K) (k_exit K) (k_error K) (k_fuel K)) s1
        | _ => k_next K s1
        end)) (clear_top M s)
    end

  with kwhilein (n : nat) (decl : bool) (vars : list str) (cur : str) (body : list stmt) (K : konts) (s : st)
      {struct n} : A :=
    match n with
    | O => k_fuel K s
    | S n' =>
      match (if decl then declare_nulls M vars (clear_top M s) else (None, clear_top M s)) with
      | (Some er, s1) => k_error K er s1
      | (None, s1) =>
        match do_fetch M cur vars s1 with
        | (FErr er, s2) => k_error K er s2
        | (FEnd, s2) => k_next K s2
        | (FOk, s2) =>
            kexec_list n' body
              (mkK (fun s3 => kwhilein n' decl vars cur body K s3)
                   (fun s3 => k_next K s3)
                   (fun s3 => kwhilein n' decl vars cur body K s3)
                   (k_return K) (k_exit K) (k_error K) (k_fuel K)) s2
        end
      end
    end.

  (* what the flow-value interpreter's result means in terms of continuations *)
  Definition dispatch (r : outcome * st) (K : konts) : A :=
    match r with
    | (ONormal, s) => k_next K s
    | (OBreak, s) => k_break K s
    | (OContinue, s) => k_continue K s
    | (OReturn v, s) => k_return K v s
    | (OExit, s) => k_exit K s
    | (OErr e, s) => k_error K e s
    | (OOOF, s) => k_fuel K s
    end.
  Definition edispatch (r : eres * st) (E : econts) : A := match r with (x, s) => give E x s end.
End Spec.
