(* Query.v -- SELECT: sources and joins (lib/query/join.go, load_view.go), WHERE, GROUP BY and
   aggregates (view.go, aggregate_function.go), select list, DISTINCT, set operators, ORDER BY,
   OFFSET / LIMIT (query.go: Select / selectEntity / selectSet).  Definitions only. *)
From Coq Require Import Floats.
Require Import Csvq.Model.Base Csvq.Model.Value Csvq.Model.Compare Csvq.Model.Arith Csvq.Model.Expr
               Csvq.Model.Key Csvq.Model.SortVal.
Open Scope Z_scope.

Definition row := list val.

Fixpoint mapM {A B} (f : A -> res B) (l : list A) : res (list B) :=
  match l with
  | [] => Ok []
  | x :: l' => do y <- f x; do ys <- mapM f l'; Ok (y :: ys)
  end.

Definition is_true (v : val) : bool := match ternary_of v with TT => true | _ => false end.

(* keep the rows whose condition is TRUE, in order *)
Fixpoint filter_rows (cond : expr) (rows : list row) : res (list row) :=
  match rows with
  | [] => Ok []
  | r :: rows' =>
      do v <- eval r cond;
      do rest <- filter_rows cond rows';
      Ok (if is_true v then r :: rest else rest)
  end.

(* ---- joins ---------------------------------------------------------------------------------- *)
Inductive jkind := JCross | JInner | JLeft | JRight | JFull.

Definition nulls (n : nat) : row := repeat VNull n.

(* all pairs l ++ r in nested-loop order (outer: left rows) whose condition is TRUE *)
Fixpoint match_right (cond : option expr) (l : row) (rs : list row) : res (list row) :=
  match rs with
  | [] => Ok []
  | r :: rs' =>
      do keep <- (match cond with None => Ok true | Some c => do v <- eval (l ++ r) c; Ok (is_true v) end);
      do rest <- match_right cond l rs';
      Ok (if keep then (l ++ r) :: rest else rest)
  end.

Fixpoint inner_join (cond : option expr) (ls rs : list row) : res (list row) :=
  match ls with
  | [] => Ok []
  | l :: ls' => do a <- match_right cond l rs; do b <- inner_join cond ls' rs; Ok (a ++ b)
  end.

(* LEFT: every left row with its matches, or once padded with NULLs *)
Fixpoint left_join (cond : option expr) (rw : nat) (ls rs : list row) : res (list row) :=
  match ls with
  | [] => Ok []
  | l :: ls' =>
      do a <- match_right cond l rs;
      do b <- left_join cond rw ls' rs;
      Ok ((match a with [] => [l ++ nulls rw] | _ => a end) ++ b)
  end.

(* RIGHT: the same loop driven by the right rows (the merged row is still left ++ right) *)
Fixpoint match_left (cond : option expr) (ls : list row) (r : row) : res (list row) :=
  match ls with
  | [] => Ok []
  | l :: ls' =>
      do keep <- (match cond with None => Ok true | Some c => do v <- eval (l ++ r) c; Ok (is_true v) end);
      do rest <- match_left cond ls' r;
      Ok (if keep then (l ++ r) :: rest else rest)
  end.
Fixpoint right_join (cond : option expr) (lw : nat) (ls rs : list row) : res (list row) :=
  match rs with
  | [] => Ok []
  | r :: rs' =>
      do a <- match_left cond ls r;
      do b <- right_join cond lw ls rs';
      Ok ((match a with [] => [nulls lw ++ r] | _ => a end) ++ b)
  end.

(* FULL = LEFT followed by the right rows that matched nothing, padded on the left *)
Fixpoint unmatched_right (cond : option expr) (lw : nat) (ls rs : list row) : res (list row) :=
  match rs with
  | [] => Ok []
  | r :: rs' =>
      do a <- match_left cond ls r;
      do b <- unmatched_right cond lw ls rs';
      Ok (match a with [] => (nulls lw ++ r) :: b | _ => b end)
  end.

Definition join_rows (k : jkind) (cond : option expr) (lw rw : nat) (ls rs : list row) : res (list row) :=
  match k with
  | JCross => inner_join None ls rs
  | JInner => inner_join cond ls rs
  | JLeft => left_join cond rw ls rs
  | JRight => right_join cond lw ls rs
  | JFull => do a <- left_join cond rw ls rs; do b <- unmatched_right cond lw ls rs; Ok (a ++ b)
  end.

(* ---- aggregates ------------------------------------------------------------------------------ *)
Inductive aggfn := AgCount | AgSum | AgAvg | AgMin | AgMax.

Definition float_list (l : list val) : list float :=
  flat_map (fun v => match to_float v with Some f => [f] | None => [] end) l.
Definition fsum (l : list float) : float := fold_left PrimFloat.add l 0%float.

Definition agg_max (l : list val) : val :=
  fold_left (fun acc v => if is_null v then acc else if is_null acc then v
                          else match op_gt v acc with TT => v | _ => acc end) l VNull.
Definition agg_min (l : list val) : val :=
  fold_left (fun acc v => if is_null v then acc else if is_null acc then v
                          else match op_lt v acc with TT => v | _ => acc end) l VNull.

Definition apply_agg (f : aggfn) (l : list val) : val :=
  match f with
  | AgCount => VInt (Z.of_nat (length (filter (fun v => negb (is_null v)) l)))
  | AgSum => match float_list l with [] => VNull | fl => VFloat (fsum fl) end
  | AgAvg => match float_list l with
             | [] => VNull
             | fl => let s := fsum fl in
                     VFloat (if PrimFloat.eqb s 0 then 0%float else PrimFloat.div s (z2f (Z.of_nat (length fl))))
             end
  | AgMin => agg_min l
  | AgMax => agg_max l
  end.

(* Distinguish: first value of every single-column key *)
Definition distinguish (strict : bool) (l : list val) : list val :=
  let ks := map (fun v => [knorm strict v]) l in
  flat_map (fun i => match nth_error l i with Some v => [v] | None => [] end) (distinct_idx ks).

Definition pick {A} (l : list A) (idxs : list nat) : list A :=
  flat_map (fun i => match nth_error l i with Some x => [x] | None => [] end) idxs.

(* ---- LATERAL (load_view.go: loadView, case parser.Join with a LATERAL table) -------------------
   the derived table is evaluated once per left row, in order, and joined with that row alone;
   the per-row results are concatenated.  `sub` is the derived table as a function of the left row. *)
Fixpoint lateral_rows (k : jkind) (cond : option expr) (lw rw : nat) (sub : row -> res (list row))
         (ls : list row) : res (list row) :=
  match ls with
  | [] => Ok []
  | l :: ls' =>
      do rs <- sub l;
      do a <- join_rows k cond lw rw [l] rs;
      do b <- lateral_rows k cond lw rw sub ls';
      Ok (a ++ b)
  end.

(* ---- recursive common table expression (query.go: selectSet / selectSetForRecursion) -----------
   base UNION [ALL] step: the step query is evaluated with the temporary view bound first to the
   base result and then to the previous step result, until a step result is empty; all results
   are combined by UNION [ALL].  `fuel` is the number of step evaluations --limit-recursion allows. *)
Section RecLoop.
  Variable strict : bool.
  Variable all : bool.
  Variable step : list row -> res (list row).

  Definition union_rows (a b : list row) : list row :=
    pick (a ++ b) (union_idx all (map (row_key strict) a) (map (row_key strict) b)).

  Fixpoint rec_loop (fuel : nat) (acc work : list row) : res (list row) :=
    match fuel with
    | O => Err (EOther 97)                              (* iteration of recursive query exceeded the limit *)
    | S f =>
        do new <- step work;
        match new with
        | [] => Ok (union_rows acc [])
        | _ => rec_loop f (union_rows acc new) new
        end
    end.
End RecLoop.

(* ---- the query ------------------------------------------------------------------------------- *)
Inductive sitem :=
| SExpr (e : expr)                                     (* scalar over the (first) row *)
| SAgg (f : aggfn) (dist : bool) (e : expr)            (* aggregate of e over the rows of the group *)
| SCountStar.                                          (* COUNT( * ) *)

Inductive oref := OSel (i : nat) | OExpr (e : expr).
Record okey := mkO { oref_of : oref; odir : dir; onulls : option nullpos }.

Inductive setop := SUnion | SExcept | SIntersect.

Inductive source :=
| SrcTable (width : nat) (rows : list row)
| SrcJoin (k : jkind) (l r : source) (cond : option expr)
| SrcSub (q : query)
| SrcLateral (k : jkind) (l : source) (rw : nat) (sub : row -> query) (cond : option expr)
| SrcRec (all : bool) (width : nat) (base : query) (step : list row -> query) (limit : nat)
with body :=
| BSelect (src : source) (where_ : option expr) (group : option (list expr))
          (having : option (list sitem * expr))        (* HAVING h: the aggregates and key columns h mentions,
                                                          and h itself over the row of their values *)
          (items : list sitem) (distinct : bool)
| BSet (op : setop) (all : bool) (l r : body)
| BSub (q : query)
with query :=
| Q (b : body) (order : list okey) (off : option Z) (lim : option (limit_kind * bool)).

Definition item_is_agg (i : sitem) : bool := match i with SExpr _ => false | _ => true end.

Section Eval.
  Variable strict : bool.

  (* a group is the list of its rows; the first row stands for the group's key columns *)
  Definition eval_item (grp : list row) (it : sitem) : res val :=
    match it with
    | SExpr e => eval (hd [] grp) e
    | SAgg f d e =>
        do vs <- mapM (fun r => eval r e) grp;
        Ok (apply_agg f (if d then distinguish strict vs else vs))
    | SCountStar => Ok (VInt (Z.of_nat (length grp)))
    end.

  (* the buckets of GROUP BY as row positions: first-occurrence order, members in row order *)
  Definition bucket_idx (keys : list expr) (rows : list row) : res (list (list nat)) :=
    do ks <- mapM (fun r => do vs <- mapM (eval r) keys; Ok (row_key strict vs)) rows;
    Ok (group_keys ks).

  (* HAVING: a group stays iff the condition, evaluated over the values its items take on the group,
     is TRUE; the groups keep their order; the first error (group by group, items before the
     condition) is the result *)
  Fixpoint filter_groups (his : list sitem) (h : expr) (gs : list (list row)) : res (list (list row)) :=
    match gs with
    | [] => Ok []
    | g :: gs' =>
        do hv <- mapM (eval_item g) his;
        do v <- eval hv h;
        do rest <- filter_groups his h gs';
        Ok (if is_true v then g :: rest else rest)
    end.

  Definition group_rows (keys : list expr) (rows : list row) : res (list (list row)) :=
    do ks <- mapM (fun r => do vs <- mapM (eval r) keys; Ok (row_key strict vs)) rows;
    Ok (map (fun idxs => flat_map (fun i => match nth_error rows i with Some r => [r] | None => [] end) idxs)
            (group_keys ks)).

  Fixpoint src_width (s : source) : nat :=
    match s with
    | SrcTable w _ => w
    | SrcJoin _ l r _ => src_width l + src_width r
    | SrcSub q => query_width q
    | SrcLateral _ l rw _ _ => src_width l + rw
    | SrcRec _ w _ _ _ => w
    end
  with body_width (b : body) : nat :=
    match b with
    | BSelect _ _ _ _ items _ => length items
    | BSet _ _ l _ => body_width l
    | BSub q => query_width q
    end
  with query_width (q : query) : nat :=
    match q with Q b _ _ _ => body_width b end.

  (* rows of a body come with the underlying row they were computed from (for ORDER BY on
     expressions that are not in the select list); set operators and DISTINCT lose it *)
  Definition sort_keys (ord : list okey) (under out : row) : res (list sortval) :=
    mapM (fun k => do v <- (match oref_of k with
                            | OSel i => match nth_error out i with Some v => Ok v | None => Err EField end
                            | OExpr e => eval under e
                            end);
                   Ok (new_sort_value strict v)) ord.

  Definition dirs_of (ord : list okey) : list (dir * nullpos) :=
    map (fun k => (odir k, match onulls k with Some p => p | None => default_nullpos (odir k) end)) ord.

  Definition apply_order_limit (ord : list okey) (off : option Z) (lim : option (limit_kind * bool))
             (rows : list (row * row)) : res (list row) :=
    (* ORDER BY is skipped below two records (sort values stay nil, WITH TIES is then ignored) *)
    do sorted <- (match ord with
                  | [] => Ok (None, rows)
                  | _ => if Nat.ltb (length rows) 2 then Ok (None, rows) else
                         do keyed <- mapM (fun ro => do ks <- sort_keys ord (fst ro) (snd ro); Ok (ks, ro)) rows;
                         let s := isort (dirs_of ord) keyed in
                         Ok (Some (map fst s), map snd s)
                  end);
    let '(svs, rs) := sorted in
    let o := match off with Some n => Z.max 0 n | None => 0 end in
    let rs1 := offset_rows o rs in
    let svs1 := option_map (offset_rows o) svs in
    let rs2 := match lim with
               | None => rs1
               | Some (k, ties) => limit_rows k ties o svs1 rs1
               end in
    Ok (map snd rs2).

  Fixpoint eval_source (s : source) : res (list row) :=
    match s with
    | SrcTable _ rows => Ok rows
    | SrcJoin k l r cond =>
        do ls <- eval_source l; do rs <- eval_source r;
        join_rows k cond (src_width l) (src_width r) ls rs
    | SrcSub q => eval_query q
    | SrcLateral k l rw sub cond =>
        do ls <- eval_source l;
        match k with
        | JRight | JFull => Err (EOther 98)            (* LATERAL cannot be used in a RIGHT or FULL outer join *)
        | _ => lateral_rows k cond (src_width l) rw (fun o => eval_query (sub o)) ls
        end
    | SrcRec all _ base step limit =>
        do b <- eval_query base;
        rec_loop strict all (fun w => eval_query (step w)) limit b b
    end
  with eval_body (b : body) : res (list (row * row)) :=
    match b with
    | BSelect src wh grp hav items dist =>
        do rows <- eval_source src;
        do rows1 <- (match wh with None => Ok rows | Some c => filter_rows c rows end);
        do outs <- (match grp with
                    | Some keys =>
                        do gs <- group_rows keys rows1;
                        do gs1 <- (match hav with
                                   | None => Ok gs
                                   | Some (his, h) => filter_groups his h gs
                                   end);
                        mapM (fun g => do o <- mapM (eval_item g) items; Ok (hd [] g, o)) gs1
                    | None =>
                        (* HAVING without GROUP BY (one implicit group) is outside the fragment: never a silent "no HAVING" *)
                        if (match hav with Some _ => true | None => false end) then Err (EOther 99) else
                        if existsb item_is_agg items then
                          (* aggregates without GROUP BY: everything is one group, also when empty *)
                          do o <- mapM (eval_item rows1) items; Ok [(hd [] rows1, o)]
                        else mapM (fun r => do o <- mapM (eval_item [r]) items; Ok (r, o)) rows1
                    end);
        Ok (if dist then pick outs (distinct_idx (map (fun ro => row_key strict (snd ro)) outs)) else outs)
    | BSet op all l r =>
        do ls <- eval_body l; do rs <- eval_body r;
        let lo := map snd ls in let ro := map snd rs in
        let lk := map (row_key strict) lo in let rk := map (row_key strict) ro in
        let out := match op with
                   | SUnion => pick (lo ++ ro) (union_idx all lk rk)
                   | SExcept => pick lo (except_idx all lk rk)
                   | SIntersect => pick lo (intersect_idx all lk rk)
                   end in
        Ok (map (fun o => (o, o)) out)
    | BSub q => do rows <- eval_query q; Ok (map (fun o => (o, o)) rows)
    end
  with eval_query (q : query) : res (list row) :=
    match q with
    | Q b ord off lim => do rows <- eval_body b; apply_order_limit ord off lim rows
    end.
End Eval.
