(* SortVal.v -- lib/query/sort_value.go: sort values, the ORDER BY comparator, and
   LIMIT / OFFSET / PERCENT / WITH TIES of lib/query/view.go.  Definitions only. *)
From Coq Require Import Floats.
Require Import Csvq.Model.Base Csvq.Model.Value Csvq.Model.Key.
Open Scope Z_scope.

Inductive svty := TNull | TInt | TFloat | TDt | TBool | TStr.

Record sortval := mkSV {
  sty : svty; sint : Z; sflt : float; sdt : Z; stxt : str;
  skey : option kform      (* SerializedKey: only under --strict-equal *)
}.

(* text of a value as value.ToString gives it (float formatting is an oracle that is not modelled:
   a float that is not text gets the empty text; comparisons of such a float with a text value are
   outside the modelled fragment) *)
Definition sv_text (v : val) : str :=
  match v with
  | VStr s => upper s
  | VInt z => z_to_str z
  | _ => []
  end.

Definition new_sort_value (strict : bool) (v : val) : sortval :=
  let key := if strict then Some (knorm_strict v) else None in
  if is_null v then mkSV TNull 0 0%float 0 [] key else
  match to_int_strict v with
  | Some z => mkSV TInt z (z2f z) 0 (sv_text v) key
  | None =>
    match to_float v with
    | Some f => mkSV TFloat 0 f 0 (sv_text v) key
    | None =>
      match to_dt v with
      | Some d => mkSV TDt 0 0%float d [] key
      | None =>
        match to_bool v with
        | Some b => mkSV TBool (if b then 1 else 0) 0%float 0 [] key
        | None => match v with
                  | VStr s => mkSV TStr 0 0%float 0 (upper s) key
                  | _ => mkSV TNull 0 0%float 0 [] key
                  end
        end
      end
    end
  end.

Definition str_ltb (a b : str) : bool := match str_cmp a b with Lt => true | _ => false end.
Definition is_kstr (k : option kform) : bool := match k with Some (KStr _) => true | _ => false end.

(* compareIntegerWithFloat (sort_value.go, after the repair of int-float-beyond-2p53): the exact order of an
   integer and a float that is not NaN; float64(integer) would round integers of more than 53 bits *)
Definition cmp_int_float (i : Z) (f : float) : comparison :=
  match Prim2SF f with
  | S754_zero _ => Z.compare i 0
  | S754_infinity s => if s then Gt else Lt
  | S754_nan => Eq
  | S754_finite s m e =>
      let mz := if s then Z.neg m else Z.pos m in
      if 0 <=? e then Z.compare i (mz * 2 ^ e) else Z.compare (i * 2 ^ (- e)) mz
  end.
Definition tern_of_cmp (c : comparison) : tern := match c with Lt => TT | Gt => TF | Eq => TU end.
Definition cmp_is_eq (c : comparison) : bool := match c with Eq => true | _ => false end.

(* SortValue.Less: TRUE / FALSE / UNKNOWN (= cannot decide, look at the next key) *)
Definition sv_less1 (a b : sortval) : tern :=
  let strict_eq := match skey a, skey b with Some x, Some y => kform_eqb x y | _, _ => false end in
  if strict_eq then TU
  (* pinned by sort_value_test.go: FALSE, not UNKNOWN, for texts that differ only in case *)
  else if is_kstr (skey a) && is_kstr (skey b) then of_bool (str_ltb (stxt a) (stxt b))
  else
  match sty a, sty b with
  | TInt, TInt => if sint a =? sint b then TU else of_bool (sint a <? sint b)
  | TInt, TFloat => if is_nan (sflt b) then TF else tern_of_cmp (cmp_int_float (sint a) (sflt b))
  | TInt, TStr => of_bool (str_ltb (stxt a) (stxt b))
  | TFloat, TInt => if is_nan (sflt a) then TF else tern_of_cmp (CompOpp (cmp_int_float (sint b) (sflt a)))
  | TFloat, TFloat =>
      if is_nan (sflt a) || is_nan (sflt b) then
        (if is_nan (sflt a) && is_nan (sflt b) then TU else if is_nan (sflt a) then TF else TT)
      else if PrimFloat.eqb (sflt a) (sflt b) then TU
      else of_bool (PrimFloat.ltb (sflt a) (sflt b))
  | TFloat, TStr => of_bool (str_ltb (stxt a) (stxt b))
  | TDt, TDt => if sdt a =? sdt b then TU else of_bool (sdt a <? sdt b)
  | TStr, TInt | TStr, TFloat | TStr, TStr =>
      if str_eqb (stxt a) (stxt b) then TU else of_bool (str_ltb (stxt a) (stxt b))
  | _, _ => TU
  end.

Definition sv_equiv1 (a b : sortval) : bool :=
  match skey a with
  | Some x => match skey b with Some y => kform_eqb x y | None => false end
  | None =>
    match sty a, sty b with
    | TInt, TInt | TInt, TBool | TBool, TBool | TBool, TInt => sint a =? sint b
    | TFloat, TFloat => (is_nan (sflt a) && is_nan (sflt b)) || PrimFloat.eqb (sflt a) (sflt b)
    | TInt, TFloat => negb (is_nan (sflt b)) && cmp_is_eq (cmp_int_float (sint a) (sflt b))
    | TFloat, TInt => negb (is_nan (sflt a)) && cmp_is_eq (cmp_int_float (sint b) (sflt a))
    | TDt, TDt => sdt a =? sdt b
    | TStr, TStr => str_eqb (stxt a) (stxt b)
    | TNull, TNull => true
    | _, _ => false
    end
  end.

Inductive dir := Asc | Desc.
Inductive nullpos := NFirst | NLast.
Definition is_tnull (a : sortval) := match sty a with TNull => true | _ => false end.

(* SortValues.Less *)
Fixpoint svs_less (a b : list sortval) (ds : list (dir * nullpos)) : bool :=
  match a, b, ds with
  | x :: a', y :: b', (d, np) :: ds' =>
      match sv_less1 x y with
      | TT => match d with Asc => true | Desc => false end
      | TF => match d with Asc => false | Desc => true end
      | TU =>
          if is_tnull x && negb (is_tnull y) then (match np with NFirst => true | NLast => false end)
          else if negb (is_tnull x) && is_tnull y then (match np with NFirst => false | NLast => true end)
          else svs_less a' b' ds'
      end
  | _, _, _ => false
  end.

Fixpoint svs_equiv (a b : list sortval) : bool :=
  match a, b with
  | x :: a', y :: b' => sv_equiv1 x y && svs_equiv a' b'
  | [], _ => true
  | _, [] => true
  end.

(* default NULL position: FIRST for ASC, LAST for DESC *)
Definition default_nullpos (d : dir) : nullpos := match d with Asc => NFirst | Desc => NLast end.

(* ---- a reference sort: stable insertion sort on (keys, payload) ------------------------------ *)
Section Sort.
  Context {A : Type}.
  Variable ds : list (dir * nullpos).
  Fixpoint ins (x : list sortval * A) (l : list (list sortval * A)) : list (list sortval * A) :=
    match l with
    | [] => [x]
    | y :: l' => if svs_less (fst x) (fst y) ds then x :: l else y :: ins x l'
    end.
  (* insert from the right so that equal keys keep their input order *)
  Definition isort (l : list (list sortval * A)) : list (list sortval * A) := fold_right ins [] l.
End Sort.

(* ---- OFFSET / LIMIT --------------------------------------------------------------------------- *)
Inductive limit_kind := LimRows (n : Z) | LimPercent (p : float).

Definition offset_rows {A} (n : Z) (l : list A) : list A := skipn (Z.to_nat (Z.max 0 n)) l.

(* math.Ceil(float64(len+offset) * p / 100) for 0 <= p <= 100 *)
Definition f_ceil_to_Z (f : float) : Z :=
  (* f is finite and non-negative here; go through the integer part *)
  match Prim2SF f with
  | S754_finite false m e =>
      if 0 <=? e then Z.pos m * 2 ^ e
      else let q := Z.pos m / 2 ^ (- e) in if Z.pos m mod 2 ^ (- e) =? 0 then q else q + 1
  | _ => 0
  end.

(* View.Limit.  [sv] = the sort values retained from ORDER BY, aligned with the rows that are left
   after OFFSET (None when there was no ORDER BY or fewer than two records: WITH TIES is then
   ignored); [off] = the offset already applied (PERCENT counts the pre-offset rows). *)
Definition limit_count (k : limit_kind) (len off : Z) : Z :=
  match k with
  | LimRows n => Z.max 0 n
  | LimPercent p =>
      if PrimFloat.ltb 100 p then len
      else if PrimFloat.ltb p 0 then 0
      else f_ceil_to_Z (PrimFloat.div (PrimFloat.mul (z2f (len + off)) p) 100)
  end.

(* while limit < RecordLen and bottom equivalent to sv[limit]: limit++ *)
Fixpoint ties_extend (bottom : list sortval) (rest : list (list sortval)) (limit : nat) : nat :=
  match rest with
  | s :: rest' => if svs_equiv bottom s then ties_extend bottom rest' (S limit) else limit
  | [] => limit
  end.

Definition limit_rows {A} (k : limit_kind) (with_ties : bool) (off : Z) (sv : option (list (list sortval))) (l : list A) : list A :=
  let len := Z.of_nat (length l) in
  let lim := limit_count k len (Z.max 0 off) in
  if len <=? lim then l else
  match with_ties, sv with
  | true, Some svs =>
      if lim =? 0 then []
      else
        let limn := Z.to_nat lim in
        match nth_error svs (limn - 1) with
        | Some bottom => firstn (ties_extend bottom (skipn limn svs) limn) l
        | None => firstn limn l
        end
  | _, _ => firstn (Z.to_nat lim) l
  end.
