(* Txn.v -- the transaction layer of csvq: table cache, uncommitted sets, temporary tables with
   restore points, COMMIT / ROLLBACK / the ways a run ends.  Definitions only (no proofs).

   Mirrors  lib/query/transaction.go (Commit, Rollback, ReleaseResources),
            lib/query/uncommitted_views.go (SetForCreatedView, SetForUpdatedView, Clean),
            lib/query/view_map.go (Set, Dispose, Clean),
            lib/query/load_view.go (cacheViewFromFile),
            lib/query/reference_scope.go (StoreTemporaryTable, RestoreTemporaryTable),
            lib/query/processor.go (which statements mark a view uncommitted; AutoCommit),
            lib/file/handler.go (close removes a file opened ForCreate),
            lib/cli/app.go (deferred AutoRollback + ReleaseResourcesWithErrors on every exit path).

   The relational meaning of a statement is deliberately NOT modelled here (that is C05): a
   successful data-changing statement is the abstract effect "the table now is t" -- t being the
   table the implementation showed right after the statement.  What is modelled is everything
   between that effect and the files. *)
From Coq Require Import Floats DecimalString Ascii String.
Require Import Csvq.Model.Base Csvq.Model.Value.
Open Scope Z_scope.

(* a table: header row followed by the records; cells are csvq values *)
Definition tab := list (list val).
(* file tables are identified by (upper-cased absolute) path, temporary tables by upper-cased
   name; the harness numbers them *)
Definition key := N.

Definition upd {A} (m : key -> option A) (k : key) (v : option A) : key -> option A :=
  fun k' => if N.eqb k' k then v else m k'.
Definition memb (k : key) (l : list key) : bool := existsb (N.eqb k) l.
Definition is_some {A} (o : option A) : bool := match o with Some _ => true | None => false end.

(* ---- what COMMIT writes: the text of every cell (EncodeView); a re-load gives strings / NULL.
   Integer -> decimal text.  The generated fragment only has NULL, integers and non-empty
   strings in tables; other classes are left as they are (never generated). *)
Definition z_to_str (z : Z) : str :=
  map (fun a => N_of_ascii a) (list_ascii_of_string (NilEmpty.string_of_int (Z.to_int z))).
Definition str_val (z : Z) : val :=
  let d := z_to_str z in
  VStr (mkS d d d (Some z) (Some (z2f z)) None
            (if z =? 1 then Some true else if z =? 0 then Some false else None)).
Definition render_val (v : val) : val := match v with VInt z => str_val z | _ => v end.
Definition render_tab (t : tab) : tab := map (map render_val) t.

(* ---- state -------------------------------------------------------------------------------- *)
(* Transaction.CachedViews entry: the view, FileInfo.ForUpdate (loaded under the exclusive lock),
   and whether its handler was opened ForCreate (CREATE TABLE in this transaction) *)
Record cent := mkCE { ce_tab : tab; ce_fu : bool; ce_new : bool }.
(* a temporary table: the view and FileInfo.restorePoint{Header,RecordSet} *)
Record tent := mkTE { te_tab : tab; te_rp : tab }.

Record st := mkSt {
  disk : key -> option tab;      (* the table files, as a re-load would parse them *)
  cache : key -> option cent;    (* Transaction.CachedViews *)
  created : list key;            (* UncommittedViews.Created *)
  updated : list key;            (* UncommittedViews.Updated, file tables *)
  temps : key -> option tent;    (* ReferenceScope temporary tables (global block) *)
  tupdated : list key;           (* UncommittedViews.Updated, temporary tables *)
  wlog : list key                (* ghost: files written by the COMMITs of this transaction *)
}.

Definition init (d0 : key -> option tab) : st :=
  mkSt d0 (fun _ => None) [] [] (fun _ => None) [] [].

Definition set_disk (s : st) d := mkSt d (cache s) (created s) (updated s) (temps s) (tupdated s) (wlog s).
Definition set_cache (s : st) c := mkSt (disk s) c (created s) (updated s) (temps s) (tupdated s) (wlog s).
Definition set_created (s : st) l := mkSt (disk s) (cache s) l (updated s) (temps s) (tupdated s) (wlog s).
Definition set_updated (s : st) l := mkSt (disk s) (cache s) (created s) l (temps s) (tupdated s) (wlog s).
Definition set_temps (s : st) t := mkSt (disk s) (cache s) (created s) (updated s) t (tupdated s) (wlog s).
Definition set_tupdated (s : st) l := mkSt (disk s) (cache s) (created s) (updated s) (temps s) l (wlog s).

(* the path is in one of the two uncommitted maps *)
Definition marked (s : st) (p : key) : bool := memb p (created s) || memb p (updated s).
(* the transaction holds the exclusive lock file of p *)
Definition locked (s : st) (p : key) : bool :=
  match cache s p with Some e => ce_fu e | None => false end.
(* what a SELECT of p returns now *)
Definition visible (s : st) (p : key) : option tab :=
  match cache s p with Some e => Some (ce_tab e) | None => disk s p end.
Definition tvisible (s : st) (n : key) : option tab := option_map te_tab (temps s n).

(* ---- statements as abstract effects ------------------------------------------------------- *)
Inductive op :=
| SRead (p : key)                             (* plain SELECT from file table p *)
| SReadFU (p : key)                           (* SELECT ... FOR UPDATE *)
| SChange (p : key) (mk : bool) (t : tab)     (* successful INSERT/UPDATE/DELETE/REPLACE/ALTER on p:
                                                 the table now is t; mk = the processor marks it
                                                 (affected rows > 0; ALTER always) *)
| SCreate (p : key) (t : tab)                 (* successful CREATE TABLE *)
| SDeclareTemp (n : key) (t : tab)            (* DECLARE n VIEW ... *)
| SChangeTemp (n : key) (mk : bool) (t : tab) (* successful data-changing statement on a temporary table *)
| SFail (touched : list key)                  (* a statement that returned an error, after loading the
                                                 listed file tables for update *)
| SCommit
| SRollback
| ExtCommit (p : key) (t : tab).              (* environment: another process commits t to p *)

(* cacheViewFromFile, forUpdate = false: reuse the cache, else load without lock *)
Definition load_read (p : key) (s : st) : st :=
  match cache s p with
  | Some _ => s
  | None => match disk s p with
            | Some t => set_cache s (upd (cache s) p (Some (mkCE t false false)))
            | None => s
            end
  end.

(* cacheViewFromFile, forUpdate = true: reuse a copy loaded for update; a copy loaded by a plain
   SELECT is disposed and the file is loaded again under the exclusive lock *)
Definition load_fu (p : key) (s : st) : st :=
  match cache s p with
  | Some e =>
      if ce_fu e then s
      else match disk s p with
           | Some t => set_cache s (upd (cache s) p (Some (mkCE t true false)))
           | None => set_cache s (upd (cache s) p None)     (* disposed, NewHandlerForUpdate fails *)
           end
  | None => match disk s p with
            | Some t => set_cache s (upd (cache s) p (Some (mkCE t true false)))
            | None => s
            end
  end.

(* UncommittedViews.SetForUpdatedView / SetForCreatedView: first registration wins *)
Definition mark_updated (p : key) (s : st) : st :=
  if marked s p then s else set_updated s (p :: updated s).
Definition mark_created (p : key) (s : st) : st :=
  if marked s p then s else set_created s (p :: created s).
Definition mark_tupdated (n : key) (s : st) : st :=
  if memb n (tupdated s) then s else set_tupdated s (n :: tupdated s).

(* Transaction.Commit, first part: every created / updated file view is encoded into its handler
   and the handler is committed *)
Definition commit_files (s : st) : key -> option tab := fun p =>
  if marked s p
  then match cache s p with Some e => Some (render_tab (ce_tab e)) | None => disk s p end
  else disk s p.

(* ReleaseResources: CachedViews.Clean closes every handler that is still open; closing a handler
   opened ForCreate removes the file.  committed p = the handler was already committed *)
Definition release_disk (committed : key -> bool) (s : st) : key -> option tab := fun p =>
  match cache s p with
  | Some e => if ce_new e && negb (committed p) then None else disk s p
  | None => disk s p
  end.

(* StoreTemporaryTable / RestoreTemporaryTable over the uncommitted temporary views *)
Definition store_temps (s : st) : key -> option tent := fun n =>
  match temps s n with
  | Some e => if memb n (tupdated s) then Some (mkTE (te_tab e) (te_tab e)) else Some e
  | None => None
  end.
Definition restore_temps (s : st) : key -> option tent := fun n =>
  match temps s n with
  | Some e => if memb n (tupdated s) then Some (mkTE (te_rp e) (te_rp e)) else Some e
  | None => None
  end.

Definition do_commit (s : st) : st :=
  let s1 := set_disk s (commit_files s) in
  mkSt (release_disk (marked s) s1) (fun _ => None) [] [] (store_temps s) []
       (wlog s ++ created s ++ updated s).

Definition do_rollback (s : st) : st :=
  mkSt (release_disk (fun _ => false) s) (fun _ => None) [] [] (restore_temps s) [] (wlog s).

Definition exec (o : op) (s : st) : st :=
  match o with
  | SRead p => load_read p s
  | SReadFU p => load_fu p s
  | SChange p mk t =>
      let s1 := load_fu p s in
      match cache s1 p with
      | Some e =>
          (* the statement works on a copy and publishes it with CachedViews.Set; the FileInfo
             (ForUpdate, handler) stays the one of the loaded view *)
          let s2 := set_cache s1 (upd (cache s1) p (Some (mkCE t (ce_fu e) (ce_new e)))) in
          if mk then mark_updated p s2 else s2
      | None => s1
      end
  | SCreate p t =>
      match disk s p with
      | Some _ => s                                  (* file already exists: error *)
      | None =>
          (* the empty, locked file is created at once *)
          mark_created p (set_cache (set_disk s (upd (disk s) p (Some [])))
                                    (upd (cache s) p (Some (mkCE t true true))))
      end
  | SDeclareTemp n t =>
      match temps s n with
      | Some _ => s                                  (* redeclared: error *)
      | None => set_temps s (upd (temps s) n (Some (mkTE t t)))   (* CreateRestorePoint *)
      end
  | SChangeTemp n mk t =>
      match temps s n with
      | Some e =>
          let s1 := set_temps s (upd (temps s) n (Some (mkTE t (te_rp e)))) in
          if mk then mark_tupdated n s1 else s1
      | None => s
      end
  | SFail touched => fold_left (fun s' p => load_fu p s') touched s
  | SCommit => do_commit s
  | SRollback => do_rollback s
  | ExtCommit p t =>
      (* another process needs the exclusive lock file of p for its own commit *)
      if locked s p then s
      else match disk s p with
           | Some _ => set_disk s (upd (disk s) p (Some (render_tab t)))
           | None => s
           end
  end.

Definition execs (ops : list op) (s : st) : st := fold_left (fun s' o => exec o s') ops s.

(* ---- how a run ends (lib/action/run.go, lib/cli/app.go) ------------------------------------ *)
Inductive mode := Normal | Error | Exit | Interrupt.

(* only a statement list that ends with flow Terminate and without error is committed
   automatically; on every path the deferred AutoRollback + ReleaseResources run afterwards *)
Definition finish (m : mode) (s : st) : st :=
  match m with
  | Normal => do_rollback (do_commit s)
  | Error | Exit | Interrupt => do_rollback s
  end.

Definition run (d0 : key -> option tab) (ops : list op) (m : mode) : st :=
  finish m (execs ops (init d0)).

(* ---- FINDING (kept bug-compatible): a COMMIT that runs under an already cancelled context.
   Processor.Execute calls AutoCommit without looking at the context again, so a signal that
   arrives after the last statement's last cancellation check reaches Transaction.Commit with a
   cancelled context.  encodeCSV (lib/query/encode.go) notices the cancellation at record 0,
   `break`s out of the record loop and then overwrites the error with the result of Flush: it
   returns nil after writing the header only, and Commit goes on to swap the files in. *)
Definition truncated (t : tab) : tab := firstn 1 t.
Definition commit_files_cancelled (s : st) : key -> option tab := fun p =>
  if marked s p
  then match cache s p with Some e => Some (truncated (render_tab (ce_tab e))) | None => disk s p end
  else disk s p.
Definition do_commit_cancelled (s : st) : st :=
  let s1 := set_disk s (commit_files_cancelled s) in
  mkSt (release_disk (marked s) s1) (fun _ => None) [] [] (store_temps s) []
       (wlog s ++ created s ++ updated s).
Definition run_cancelled_commit (d0 : key -> option tab) (ops : list op) : st :=
  do_rollback (do_commit_cancelled (execs ops (init d0))).

(* exit status class: 0 = success *)
Definition exit_ok (m : mode) : bool :=
  match m with Normal | Exit => true | Error | Interrupt => false end.

(* ---- well-formed traces -------------------------------------------------------------------- *)
(* a statement that is not marked (0 affected rows) must have left the table as it was.  This is a
   fact about the statement layer (checked on every observed statement by the harness); the
   theorems that speak about "the state the procedure last saw" assume it. *)
Definition tab_eqb (a b : tab) : bool := list_eqb (list_eqb val_same) a b.
Definition otab_eqb (a b : option tab) : bool := option_eqb tab_eqb a b.

Definition wf1 (o : op) (s : st) : Prop :=
  match o with
  | SChange p false t => visible (load_fu p s) p = Some t \/ visible (load_fu p s) p = None
  | SChangeTemp n false t => tvisible s n = Some t \/ tvisible s n = None
  | _ => True
  end.

Fixpoint ops_wf (ops : list op) (s : st) : Prop :=
  match ops with
  | [] => True
  | o :: r => wf1 o s /\ ops_wf r (exec o s)
  end.
