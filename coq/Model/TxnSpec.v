(* TxnSpec.v -- the SPECIFICATION side of C01 / C20, written independently of the cache model of
   Txn.v: no cache, no uncommitted maps, no handlers.  Definitions only.

   spec_disk: "the files are what the statements of the committed prefixes made them" -- a
   pending-writes machine: a data-changing statement is remembered; COMMIT applies what is
   pending, ROLLBACK forgets it; another process can commit to a file unless this transaction has
   accessed it for update since its last COMMIT / ROLLBACK.

   track: what a read of ONE table must return, given the value first loaded. *)
Require Import Csvq.Model.Base Csvq.Model.Value Csvq.Model.Txn.

Fixpoint lookup {A} (k : key) (l : list (key * A)) : option A :=
  match l with
  | [] => None
  | (k', v) :: r => if N.eqb k k' then Some v else lookup k r
  end.

Record sp := mkSp {
  sd : key -> option tab;      (* files as of the most recent COMMIT (plus other processes' commits) *)
  pend : list (key * tab);     (* effects of the data-changing statements since then, latest first *)
  pcre : list key;             (* files created since then *)
  held : list key;             (* files accessed for update since then *)
  stv : key -> option tab;     (* temporary tables as of the most recent COMMIT / their declaration *)
  tpend : list (key * tab);    (* effects on temporary tables since then, latest first *)
  swr : list key               (* files written so far *)
}.

Definition sp_init (d0 : key -> option tab) : sp := mkSp d0 [] [] [] (fun _ => None) [] [].

Definition exists_now (x : sp) (p : key) : bool := is_some (sd x p) || memb p (pcre x).

Definition hold (p : key) (x : sp) : sp :=
  if exists_now x p
  then mkSp (sd x) (pend x) (pcre x) (p :: held x) (stv x) (tpend x) (swr x)
  else x.

Definition apply_pend (pd : list (key * tab)) (d : key -> option tab) : key -> option tab :=
  fun p => match lookup p pd with Some t => Some (render_tab t) | None => d p end.
Definition apply_tpend (pd : list (key * tab)) (d : key -> option tab) : key -> option tab :=
  fun n => match d n with
           | Some t0 => match lookup n pd with Some t => Some t | None => Some t0 end
           | None => None
           end.

Definition spec_step (o : op) (x : sp) : sp :=
  match o with
  | SRead _ => x
  | SReadFU p => hold p x
  | SChange p mk t =>
      if exists_now x p
      then let x' := hold p x in
           if mk then mkSp (sd x') ((p, t) :: pend x') (pcre x') (held x') (stv x') (tpend x') (swr x')
           else x'
      else x
  | SCreate p t =>
      if exists_now x p then x
      else mkSp (sd x) ((p, t) :: pend x) (p :: pcre x) (p :: held x) (stv x) (tpend x) (swr x)
  | SDeclareTemp n t =>
      match stv x n with
      | Some _ => x
      | None => mkSp (sd x) (pend x) (pcre x) (held x) (upd (stv x) n (Some t)) (tpend x) (swr x)
      end
  | SChangeTemp n mk t =>
      match stv x n with
      | Some _ => if mk then mkSp (sd x) (pend x) (pcre x) (held x) (stv x) ((n, t) :: tpend x) (swr x) else x
      | None => x
      end
  | SFail touched => fold_left (fun x' p => hold p x') touched x
  | SCommit =>
      mkSp (apply_pend (pend x) (sd x)) [] [] [] (apply_tpend (tpend x) (stv x)) []
           (swr x ++ map fst (pend x))
  | SRollback => mkSp (sd x) [] [] [] (stv x) [] (swr x)
  | ExtCommit p t =>
      if memb p (held x) then x
      else match sd x p with
           | Some _ => mkSp (upd (sd x) p (Some (render_tab t))) (pend x) (pcre x) (held x) (stv x) (tpend x) (swr x)
           | None => x
           end
  end.

Definition spec_steps (ops : list op) (x : sp) : sp := fold_left (fun x' o => spec_step o x') ops x.

Definition spec_end (m : mode) (x : sp) : sp :=
  match m with
  | Normal => spec_step SCommit x
  | Error | Exit | Interrupt => spec_step SRollback x
  end.

(* the files after a run: the statements of the committed prefixes only (all of them when the run
   ends normally) *)
Definition spec_disk (d0 : key -> option tab) (ops : list op) (m : mode) : key -> option tab :=
  sd (spec_end m (spec_steps ops (sp_init d0))).
Definition spec_written (d0 : key -> option tab) (ops : list op) (m : mode) : list key :=
  swr (spec_end m (spec_steps ops (sp_init d0))).
Definition spec_temps (d0 : key -> option tab) (ops : list op) (m : mode) : key -> option tab :=
  stv (spec_end m (spec_steps ops (sp_init d0))).

(* ---- C20: what later reads of one table p return, given that the transaction holds the value v,
   loaded for update (fu = true) or by a plain SELECT (fu = false), while d is the file's current
   content.  The only place where the file shows through is the first access for update to a copy
   loaded by a plain SELECT. *)
Definition tstep (p : key) (o : op) (x : tab * bool * tab) : tab * bool * tab :=
  let '(v, fu, d) := x in
  match o with
  | ExtCommit q t =>
      (* another process can only commit while this transaction does not hold the lock *)
      if N.eqb q p then (if fu then (v, fu, d) else (v, fu, render_tab t)) else (v, fu, d)
  | SChange q _ t =>
      if N.eqb q p then (t, true, d) else (v, fu, d)      (* own change (after the reload, if any) *)
  | SReadFU q =>
      if N.eqb q p then (if fu then (v, true, d) else (d, true, d))   (* THE EXCEPTION: reload *)
      else (v, fu, d)
  | SFail touched =>
      if memb p touched then (if fu then (v, true, d) else (d, true, d)) else (v, fu, d)
  | _ => (v, fu, d)
  end.
Definition track_st (p : key) (x : tab * bool * tab) (mid : list op) : tab * bool * tab :=
  fold_left (fun x' o => tstep p o x') mid x.
Definition track (p : key) (v : tab) (fu : bool) (d : tab) (mid : list op) : tab :=
  fst (fst (track_st p (v, fu, d) mid)).

Definition is_end (o : op) : bool := match o with SCommit | SRollback => true | _ => false end.
Definition no_end (mid : list op) : bool := forallb (fun o => negb (is_end o)) mid.
(* an access for update to p *)
Definition touches_fu (p : key) (o : op) : bool :=
  match o with
  | SReadFU q | SChange q _ _ => N.eqb q p
  | SFail touched => memb p touched
  | _ => false
  end.
Definition changes (p : key) (o : op) : bool :=
  match o with SChange q _ _ => N.eqb q p | _ => false end.
