(* USING / NATURAL joins as a derived form of the query model (C03).

   A JOIN B USING (c1, .., cn): join on  A.c1 = B.c1 AND .. AND A.cn = B.cn ; the result has one merged column
   per name - the left operand's (the right operand's for a RIGHT join), or the other side's value where
   that one is NULL - followed by the remaining columns of A and of B in their order.  NATURAL is USING over
   the common column names in the left operand's order (the harness computes the pairs from the names). *)
From Coq Require Import ZArith List Bool.
Require Import Csvq.Model.Base Csvq.Model.Value Csvq.Model.Compare Csvq.Model.Arith Csvq.Model.Expr Csvq.Model.Key
               Csvq.Model.SortVal Csvq.Model.Query.
Import ListNotations.
Local Open Scope nat_scope.

(* pairs (li, ri): position of the column in the left / in the right operand *)
Definition using_eq (nl : nat) (p : nat * nat) : expr := ECmp OpEq (ECol (fst p)) (ECol (nl + snd p)).
Definition using_cond (nl : nat) (pairs : list (nat * nat)) : option expr :=
  match pairs with
  | [] => None
  | p :: ps => Some (fold_left (fun acc q => EAnd acc (using_eq nl q)) ps (using_eq nl p))
  end.

Definition is_right (k : jkind) : bool := match k with JRight => true | _ => false end.
Definition inc_alt (k : jkind) (nl : nat) (p : nat * nat) : nat * nat :=
  if is_right k then (nl + snd p, fst p) else (fst p, nl + snd p).
(* inc if it is not NULL, else alt *)
Definition merged_col (k : jkind) (nl : nat) (p : nat * nat) : expr :=
  let '(inc, alt) := inc_alt k nl p in
  ECase None [(EIs false (ECol inc) (ELit VNull), ECol alt)] (Some (ECol inc)).
Definition using_taken (nl : nat) (pairs : list (nat * nat)) (i : nat) : bool :=
  existsb (fun p => Nat.eqb i (fst p) || Nat.eqb i (nl + snd p)) pairs.
Definition using_rest (nl nr : nat) (pairs : list (nat * nat)) : list nat :=
  filter (fun i => negb (using_taken nl pairs i)) (seq 0 (nl + nr)).
Definition using_items (k : jkind) (nl nr : nat) (pairs : list (nat * nat)) : list sitem :=
  map (fun p => SExpr (merged_col k nl p)) pairs ++ map (fun i => SExpr (ECol i)) (using_rest nl nr pairs).

Definition src_using (k : jkind) (l r : source) (pairs : list (nat * nat)) : source :=
  let nl := src_width l in let nr := src_width r in
  SrcSub (Q (BSelect (SrcJoin k l r (using_cond nl pairs)) None None None (using_items k nl nr pairs) false) [] None None).

(* what one joined row becomes *)
Definition merge_row (k : jkind) (nl nr : nat) (pairs : list (nat * nat)) (row : list val) : list val :=
  map (fun p => let '(inc, alt) := inc_alt k nl p in
                let v := nth inc row VNull in if is_null v then nth alt row VNull else v) pairs
  ++ map (fun i => nth i row VNull) (using_rest nl nr pairs).
