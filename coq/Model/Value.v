(* Value.v -- csvq's seven value classes (lib/value/type.go) and the conversions of lib/value/conv.go.
   Definitions only. *)
From Coq Require Import Floats.
Require Import Csvq.Model.Base.
Open Scope Z_scope.

(* A text value together with what the string oracles say about it (DESIGN.md section 3):
   trimmed = option.TrimSpace(raw)            (modelled in Conv.v, checked on every case)
   upper   = strings.ToUpper(trimmed)         (oracle: Go standard library)
   oint    = strconv.ParseInt(trimmed,10,64)  (modelled in Conv.v, checked on every case)
   ofloat  = strconv.ParseFloat(trimmed,64)   (oracle)
   odt     = value.StrToTime(raw)  in UnixNano (oracle: csvq's own format list)
   obool   = strconv.ParseBool(trimmed)       (modelled in Conv.v, checked on every case) *)
Record sinfo := mkS {
  raw : str; trimmed : str; upper : str;
  oint : option Z; ofloat : option float; odt : option Z; obool : option bool }.

Inductive val :=
| VNull
| VInt (z : Z)
| VFloat (f : float)
| VStr (s : sinfo)
| VBool (b : bool)
| VTern (t : tern)
| VDt (nanos : Z).

(* ---- floats --------------------------------------------------------------------------- *)
Definition is_nan (f : float) : bool := negb (PrimFloat.eqb f f).
Definition f_is_inf (f : float) : bool := PrimFloat.eqb f infinity || PrimFloat.eqb f neg_infinity.
Definition f_signbit (f : float) : bool :=
  match Prim2SF f with
  | S754_zero s | S754_infinity s | S754_finite s _ _ => s
  | S754_nan => false
  end.

(* float64(int64): round to nearest even.  of_uint63 is exact on the argument and rounds once. *)
Definition z2f (z : Z) : float :=
  if z =? min_int64 then (-0x1p+63)%float
  else if z <? 0 then PrimFloat.opp (PrimFloat.of_uint63 (Uint63.of_Z (- z)))
  else PrimFloat.of_uint63 (Uint63.of_Z z).

(* bit-level identity of floats with one canonical NaN: what the correspondence compares *)
Definition float_same (a b : float) : bool :=
  if is_nan a then is_nan b
  else if is_nan b then false
  else PrimFloat.eqb a b && Bool.eqb (f_signbit a) (f_signbit b).

(* ---- conversions (conv.go) ------------------------------------------------------------ *)
Definition to_int_strict (v : val) : option Z :=
  match v with VInt z => Some z | VStr s => oint s | _ => None end.

Definition to_float (v : val) : option float :=
  match v with VInt z => Some (z2f z) | VFloat f => Some f | VStr s => ofloat s | _ => None end.

Definition to_dt (v : val) : option Z :=
  match v with VDt n => Some n | VStr s => odt s | _ => None end.

(* Primary.Ternary() *)
Definition ternary_of (v : val) : tern :=
  match v with
  | VStr s => match obool s with Some b => of_bool b | None => TU end
  | VInt z => if z =? 0 then TF else if z =? 1 then TT else TU
  | VFloat f => if PrimFloat.eqb f 0 then TF else if PrimFloat.eqb f 1 then TT else TU
  | VBool b => of_bool b
  | VTern t => t
  | VDt _ | VNull => TU
  end.

Definition to_bool (v : val) : option bool :=
  match v with
  | VBool b => Some b
  | VStr _ | VInt _ | VFloat _ | VTern _ =>
      match ternary_of v with TT => Some true | TF => Some false | TU => None end
  | _ => None
  end.

Definition is_null (v : val) : bool := match v with VNull => true | _ => false end.

(* observable equality of values, used by the correspondence only *)
Definition val_same (a b : val) : bool :=
  match a, b with
  | VNull, VNull => true
  | VInt x, VInt y => x =? y
  | VFloat x, VFloat y => float_same x y
  | VStr x, VStr y => str_eqb (raw x) (raw y)
  | VBool x, VBool y => Bool.eqb x y
  | VTern x, VTern y => tern_eqb x y
  | VDt x, VDt y => x =? y
  | _, _ => false
  end.
