(* Proofs/Access.v -- race freedom of fork/join sites whose workers split the records by
   RecordRange, of mutex-guarded state, and the machinery for the refutations (C13). *)
From Coq Require Import ZArith List Bool String Relations Lia Arith.
Require Import Csvq.Model.Par Csvq.Model.Access Csvq.Proofs.Par.
Import ListNotations.
Open Scope nat_scope.

(* ================================================================================================ *)
(* conflicts                                                                                         *)
(* ================================================================================================ *)
Lemma loc_eqb_eq : forall l1 l2, loc_eqb l1 l2 = true <-> l1 = l2.
Proof.
  intros [a i|x] [b j|y]; cbn; split; intros H; try discriminate.
  - apply andb_true_iff in H. destruct H as [H1 H2]. apply String.eqb_eq in H1. apply Nat.eqb_eq in H2. subst. reflexivity.
  - inversion H; subst. rewrite String.eqb_refl, Nat.eqb_refl. reflexivity.
  - apply String.eqb_eq in H. subst. reflexivity.
  - inversion H; subst. apply String.eqb_refl.
Qed.

Lemma conflict_sym : forall a b, conflict a b -> conflict b a.
Proof.
  intros a b H. unfold conflict, conflictb in *.
  apply andb_true_iff in H. destruct H as [H H3]. apply andb_true_iff in H. destruct H as [H1 H2].
  apply loc_eqb_eq in H1. rewrite H1.
  replace (loc_eqb (a_loc b) (a_loc b)) with true by (symmetry; apply loc_eqb_eq; reflexivity).
  rewrite (orb_comm (is_write b)). rewrite H2. cbn.
  apply negb_true_iff in H3. apply negb_true_iff.
  destruct (share_lock b a) eqn:E; [|reflexivity].
  unfold share_lock in E. apply existsb_exists in E. destruct E as [m [Hm E]].
  apply existsb_exists in E. destruct E as [m' [Hm' E]]. apply String.eqb_eq in E. subst m'.
  assert (share_lock a b = true).
  { unfold share_lock. apply existsb_exists. exists m. split; [exact Hm'|].
    apply existsb_exists. exists m. split; [exact Hm|apply String.eqb_refl]. }
  congruence.
Qed.

Lemma conflict_loc : forall a b, conflict a b -> a_loc a = a_loc b.
Proof.
  intros a b H. unfold conflict, conflictb in H.
  apply andb_true_iff in H. destruct H as [H _]. apply andb_true_iff in H. destruct H as [H _].
  apply loc_eqb_eq. exact H.
Qed.

Lemma conflict_write : forall a b, conflict a b -> a_mode a = Wr \/ a_mode b = Wr.
Proof.
  intros a b H. unfold conflict, conflictb in H.
  apply andb_true_iff in H. destruct H as [H _]. apply andb_true_iff in H. destruct H as [_ H].
  apply orb_true_iff in H. unfold is_write in H.
  destruct H as [H|H]; [left|right]; destruct (a_mode _); congruence.
Qed.

(* accesses made under a common mutex never conflict *)
Lemma drf_mutex : forall a b m, In m (a_locks a) -> In m (a_locks b) -> ~ conflict a b.
Proof.
  intros a b m Ha Hb H. unfold conflict, conflictb in H.
  apply andb_true_iff in H. destruct H as [_ H]. apply negb_true_iff in H.
  assert (share_lock a b = true).
  { unfold share_lock. apply existsb_exists. exists m. split; [exact Ha|].
    apply existsb_exists. exists m. split; [exact Hb|apply String.eqb_refl]. }
  congruence.
Qed.

Lemma reads_no_conflict : forall a b, a_mode a = Rd -> a_mode b = Rd -> ~ conflict a b.
Proof. intros a b Ha Hb H. apply conflict_write in H. destruct H; congruence. Qed.

(* ================================================================================================ *)
(* shape of a fork/join execution                                                                    *)
(* ================================================================================================ *)
Section FJ.
  Variables (pre post : list acc) (ws : list (list acc)).
  Let n := List.length ws.
  Let P := List.length pre.
  Let x := fj_exec pre post ws.

  Lemma fj_worker_step : forall t q, step_at x (S t, q) = option_map SAcc (nth_error (nth t ws []) q).
  Proof.
    intros t q. unfold step_at, x, fj_exec. cbn [fst snd nth].
    destruct (Nat.lt_ge_cases t (List.length ws)) as [Hlt|Hge].
    - rewrite (nth_indep _ [] (map SAcc [])) by (rewrite map_length; exact Hlt).
      rewrite map_nth. apply nth_error_map.
    - rewrite !nth_overflow by (try rewrite map_length; exact Hge). destruct q; reflexivity.
  Qed.

  Lemma fj_worker_acc : forall t q s, step_at x (S t, q) = Some s ->
    exists a, s = SAcc a /\ nth_error (nth t ws []) q = Some a /\ In a (nth t ws []) /\ t < n.
  Proof.
    intros t q s H. rewrite fj_worker_step in H.
    destruct (nth_error (nth t ws []) q) as [a|] eqn:E; [|discriminate].
    cbn in H. inversion H; subst. exists a. repeat split; try reflexivity.
    - eapply nth_error_In; eauto.
    - destruct (Nat.lt_ge_cases t n) as [Hlt|Hge]; [exact Hlt|].
      unfold n in Hge. rewrite nth_overflow in E by exact Hge. destruct q; discriminate.
  Qed.

  Lemma fj_parent_step : forall p, step_at x (0, p) = nth_error (fj_parent pre post n) p.
  Proof. intros p. reflexivity. Qed.

  Lemma nth_error_map_seq : forall (A : Type) (f : nat -> A) s c i, i < c -> nth_error (map f (seq s c)) i = Some (f (s + i)).
  Proof.
    intros A f s c i Hi. rewrite nth_error_map. rewrite (nth_error_nth' _ 0) by (rewrite seq_length; exact Hi).
    rewrite seq_nth by exact Hi. reflexivity.
  Qed.

  Lemma parent_pre : forall p, p < P -> exists a, step_at x (0, p) = Some (SAcc a) /\ In a pre.
  Proof.
    intros p Hp. rewrite fj_parent_step. unfold fj_parent.
    rewrite nth_error_app1 by (rewrite map_length; exact Hp).
    rewrite nth_error_map. destruct (nth_error pre p) as [a|] eqn:E.
    - exists a. split; [reflexivity|eapply nth_error_In; eauto].
    - apply nth_error_None in E. unfold P in Hp. lia.
  Qed.

  Lemma parent_go : forall j, j < n -> step_at x (0, P + j) = Some (SGo (S j)).
  Proof.
    intros j Hj. rewrite fj_parent_step. unfold fj_parent.
    rewrite nth_error_app2 by (rewrite map_length; unfold P; lia).
    rewrite map_length. replace (P + j - List.length pre) with j by (unfold P; lia).
    rewrite nth_error_app1 by (rewrite map_length, seq_length; exact Hj).
    rewrite nth_error_map_seq by exact Hj. reflexivity.
  Qed.

  Lemma parent_wait : forall j, j < n -> step_at x (0, P + n + j) = Some (SWait (S j)).
  Proof.
    intros j Hj. rewrite fj_parent_step. unfold fj_parent.
    rewrite nth_error_app2 by (rewrite map_length; unfold P; lia).
    rewrite map_length. replace (P + n + j - List.length pre) with (n + j) by (unfold P; lia).
    rewrite nth_error_app2 by (rewrite map_length, seq_length; lia).
    rewrite map_length, seq_length. replace (n + j - n) with j by lia.
    rewrite nth_error_app1 by (rewrite map_length, seq_length; exact Hj).
    rewrite nth_error_map_seq by exact Hj. reflexivity.
  Qed.

  (* what the parent's step at position p is *)
  Lemma parent_cases : forall p s, step_at x (0, p) = Some s ->
    (p < P /\ exists a, s = SAcc a) \/
    (P <= p < P + n /\ s = SGo (S (p - P))) \/
    (P + n <= p < P + n + n /\ s = SWait (S (p - P - n))) \/
    (P + n + n <= p /\ exists a, s = SAcc a).
  Proof.
    intros p s H.
    destruct (Nat.lt_ge_cases p P) as [H1|H1].
    - left. split; [exact H1|]. destruct (parent_pre p H1) as [a [Ha _]]. rewrite Ha in H. inversion H. eauto.
    - destruct (Nat.lt_ge_cases p (P + n)) as [H2|H2].
      + right. left. split; [lia|]. pose proof (parent_go (p - P) ltac:(lia)) as Hg.
        replace (P + (p - P)) with p in Hg by lia. rewrite Hg in H. inversion H. reflexivity.
      + destruct (Nat.lt_ge_cases p (P + n + n)) as [H3|H3].
        * right. right. left. split; [lia|]. pose proof (parent_wait (p - P - n) ltac:(lia)) as Hw.
          replace (P + n + (p - P - n)) with p in Hw by lia. rewrite Hw in H. inversion H. reflexivity.
        * right. right. right. split; [exact H3|].
          rewrite fj_parent_step in H. unfold fj_parent in H.
          rewrite nth_error_app2 in H by (rewrite map_length; unfold P in *; lia).
          rewrite nth_error_app2 in H by (rewrite !map_length, seq_length; unfold P in *; lia).
          rewrite nth_error_app2 in H by (rewrite !map_length, !seq_length; unfold P in *; lia).
          rewrite nth_error_map in H. destruct (nth_error post _) as [a|]; [|discriminate].
          inversion H. eauto.
  Qed.

  (* program order paths *)
  Lemma step_before : forall t i j s, i <= j -> step_at x (t, j) = Some s -> exists s', step_at x (t, i) = Some s'.
  Proof.
    intros t i j s Hij H. unfold step_at in *. cbn [fst snd] in *.
    destruct (nth_error (nth t x []) i) as [s'|] eqn:E; [eauto|].
    apply nth_error_None in E. assert (nth_error (nth t x []) j = None) by (apply nth_error_None; lia). congruence.
  Qed.

  Lemma po_path : forall cap t i j s, i < j -> step_at x (t, j) = Some s -> hb cap x (t, i) (t, j).
  Proof.
    intros cap t i j s Hij H. revert s H. induction j as [|j IH]; intros s H; [lia|].
    destruct (Nat.eq_dec i j) as [->|Hne].
    - apply t_step. eapply E_po; eauto.
    - destruct (step_before t j (S j) s ltac:(lia) H) as [s' Hs'].
      eapply t_trans; [apply (IH ltac:(lia) s' Hs')|]. apply t_step. eapply E_po; eauto.
  Qed.

  Lemma po_path_refl : forall cap t i j s e, i <= j -> step_at x (t, j) = Some s ->
    hb cap x (t, j) e -> hb cap x (t, i) e.
  Proof.
    intros cap t i j s e Hij H Hhb. destruct (Nat.eq_dec i j) as [->|Hne]; [exact Hhb|].
    eapply t_trans; [apply (po_path cap t i j s); [lia|exact H]|exact Hhb].
  Qed.

  (* a parent access before the go statements happens before every worker step *)
  Lemma pre_hb_worker : forall cap p t q s, p < P -> step_at x (S t, q) = Some s -> hb cap x (0, p) (S t, q).
  Proof.
    intros cap p t q s Hp Hs.
    destruct (fj_worker_acc t q s Hs) as [a [_ [_ [_ Ht]]]].
    destruct (step_before (S t) 0 q s ltac:(lia) Hs) as [s0 Hs0].
    assert (Hgo : hb cap x (0, P + t) (S t, 0)).
    { apply t_step. eapply E_go; [apply parent_go; exact Ht|exact Hs0]. }
    assert (H1 : hb cap x (0, p) (S t, 0)).
    { eapply po_path_refl; [|apply parent_go; exact Ht|exact Hgo]. lia. }
    destruct q as [|q]; [exact H1|].
    eapply t_trans; [exact H1|]. eapply po_path; eauto. lia.
  Qed.

  (* every worker step happens before a parent access after the Wait *)
  Lemma worker_hb_post : forall cap p t q s sp, P + n + n <= p -> step_at x (S t, q) = Some s ->
    step_at x (0, p) = Some sp -> hb cap x (S t, q) (0, p).
  Proof.
    intros cap p t q s sp Hp Hs Hsp.
    destruct (fj_worker_acc t q s Hs) as [a [_ [Hq [_ Ht]]]].
    set (L := List.length (nth t ws [])).
    assert (HL : q < L) by (apply nth_error_Some; congruence).
    assert (Hlen : List.length (nth (S t) x []) = S (L - 1)).
    { unfold x, fj_exec. cbn [nth].
      rewrite (nth_indep _ [] (map SAcc [])) by (rewrite map_length; exact Ht).
      rewrite map_nth, map_length. fold L. lia. }
    assert (Hlast : exists sl, step_at x (S t, L - 1) = Some sl).
    { rewrite fj_worker_step. destruct (nth_error (nth t ws []) (L - 1)) eqn:E; [cbn; eauto|].
      apply nth_error_None in E. fold L in E. lia. }
    destruct Hlast as [sl Hsl].
    assert (Hw : hb cap x (S t, L - 1) (0, P + n + t)).
    { apply t_step. eapply E_wait; [apply parent_wait; exact Ht|exact Hlen]. }
    assert (H1 : hb cap x (S t, q) (0, P + n + t)).
    { eapply po_path_refl; [|exact Hsl|exact Hw]. lia. }
    eapply t_trans; [exact H1|]. eapply po_path; eauto. lia.
  Qed.

  (* ---- race freedom from pairwise non-conflicting workers ------------------------------------ *)
  Theorem fj_race_free : forall cap,
    (forall i j a b, i <> j -> In a (nth i ws []) -> In b (nth j ws []) -> ~ conflict a b) ->
    race_free cap x.
  Proof.
    intros cap Hdis [e1 [e2 [a [b [Hne [H1 [H2 [Hc [Hn1 Hn2]]]]]]]]].
    destruct e1 as [t1 p1], e2 as [t2 p2]. cbn [fst] in Hne.
    destruct t1 as [|t1], t2 as [|t2]; [lia| | |].
    - (* parent vs worker *)
      destruct (parent_cases p1 _ H1) as [[Hp _]|[[_ Hs]|[[_ Hs]|[Hp _]]]]; try discriminate.
      + apply Hn1. eapply pre_hb_worker; eauto.
      + apply Hn2. eapply worker_hb_post; eauto.
    - destruct (parent_cases p2 _ H2) as [[Hp _]|[[_ Hs]|[[_ Hs]|[Hp _]]]]; try discriminate.
      + apply Hn2. eapply pre_hb_worker; eauto.
      + apply Hn1. eapply worker_hb_post; eauto.
    - destruct (fj_worker_acc t1 p1 _ H1) as [a' [Ea [_ [Ha _]]]].
      destruct (fj_worker_acc t2 p2 _ H2) as [b' [Eb [_ [Hb _]]]].
      inversion Ea; inversion Eb; subst a' b'.
      apply (Hdis t1 t2 a b); try assumption. lia.
  Qed.

  (* ---- and conversely: a conflicting pair in two different workers IS a race ---------------- *)
  (* everything reachable from a step of worker t1 is in worker t1 or in the parent after the go statements *)
  Let inv (t1 : nat) (e : ev) : Prop := fst e = S t1 \/ (fst e = 0 /\ P + n <= snd e).

  Lemma inv_edge : forall cap t1 e e', edge cap x e e' -> inv t1 e -> inv t1 e'.
  Proof.
    intros cap t1 e e' He Hi. unfold inv in *. destruct He as [t i s Hs | e t s Hg Hs | e t i Hw Hl | e1 e2 c k H1 H2 | e1 e2 c H1 H2 | e1 e2 c k H1 H2].
    - destruct Hi as [Hi|[Hi1 Hi2]]; cbn [fst snd] in *; [left; exact Hi|right; split; [exact Hi1|lia]].
    - exfalso. destruct e as [te pe]. destruct Hi as [Hi|[Hi1 Hi2]]; cbn [fst snd] in *; subst te.
      + destruct (fj_worker_acc _ _ _ Hg) as [a [Ea _]]. discriminate.
      + destruct (parent_cases pe _ Hg) as [[Hp _]|[[Hp _]|[[_ Hs']|[_ [a Ha]]]]]; try discriminate; lia.
    - destruct e as [te pe]. destruct te as [|te].
      + destruct (parent_cases pe _ Hw) as [[_ [a Ha]]|[[_ Hs']|[[Hp Hs']|[_ [a Ha]]]]]; try discriminate.
        right. cbn [fst snd]. split; [reflexivity|lia].
      + destruct (fj_worker_acc _ _ _ Hw) as [a [Ea _]]. discriminate.
    - exfalso. destruct e1 as [[|te] pe].
      + destruct (parent_cases pe _ H1) as [[_ [a Ha]]|[[_ Hs']|[[_ Hs']|[_ [a Ha]]]]]; discriminate.
      + destruct (fj_worker_acc _ _ _ H1) as [a [Ea _]]. discriminate.
    - exfalso. destruct e1 as [[|te] pe].
      + destruct (parent_cases pe _ H1) as [[_ [a Ha]]|[[_ Hs']|[[_ Hs']|[_ [a Ha]]]]]; discriminate.
      + destruct (fj_worker_acc _ _ _ H1) as [a [Ea _]]. discriminate.
    - exfalso. destruct e1 as [[|te] pe].
      + destruct (parent_cases pe _ H1) as [[_ [a Ha]]|[[_ Hs']|[[_ Hs']|[_ [a Ha]]]]]; discriminate.
      + destruct (fj_worker_acc _ _ _ H1) as [a [Ea _]]. discriminate.
  Qed.

  Lemma inv_hb : forall cap t1 e e', hb cap x e e' -> inv t1 e -> inv t1 e'.
  Proof.
    intros cap t1 e e' H. induction H as [e e' He | e e' e'' _ IH1 _ IH2]; intros Hi.
    - eapply inv_edge; eauto.
    - auto.
  Qed.

  Lemma workers_unordered : forall cap t1 t2 p1 p2, t1 <> t2 -> ~ hb cap x (S t1, p1) (S t2, p2).
  Proof.
    intros cap t1 t2 p1 p2 Hne H.
    assert (Hi : inv t1 (S t2, p2)) by (eapply inv_hb; [exact H|left; reflexivity]).
    destruct Hi as [Hi|[Hi _]]; cbn [fst] in Hi; [lia|discriminate].
  Qed.

  Theorem fj_race : forall cap i j a b, i <> j -> In a (nth i ws []) -> In b (nth j ws []) -> conflict a b ->
    race cap x.
  Proof.
    intros cap i j a b Hne Ha Hb Hc.
    apply In_nth_error in Ha. destruct Ha as [p1 Hp1].
    apply In_nth_error in Hb. destruct Hb as [p2 Hp2].
    exists (S i, p1), (S j, p2), a, b. cbn [fst].
    split; [lia|]. split; [rewrite fj_worker_step, Hp1; reflexivity|].
    split; [rewrite fj_worker_step, Hp2; reflexivity|].
    split; [exact Hc|]. split; apply workers_unordered; auto.
  Qed.
End FJ.

(* ================================================================================================ *)
(* workers that split the records by RecordRange                                                     *)
(* ================================================================================================ *)
Lemma nth_range_workers : forall body epi len n i, i < n ->
  nth i (range_workers body epi len n) [] = flat_map body (range len n i) ++ epi i.
Proof.
  intros body epi len n i Hi. unfold range_workers.
  apply (nth_map_seq _ (fun i => flat_map body (range len n i) ++ epi i) n i [] Hi).
Qed.

Lemma nth_range_workers_out : forall body epi len n i, n <= i -> nth i (range_workers body epi len n) [] = [].
Proof.
  intros body epi len n i Hi. apply nth_overflow. unfold range_workers. rewrite map_length, seq_length. exact Hi.
Qed.

Lemma in_worker : forall body epi len n i a, In a (nth i (range_workers body epi len n) []) ->
  i < n /\ ((exists k, In k (range len n i) /\ In a (body k)) \/ In a (epi i)).
Proof.
  intros body epi len n i a H.
  destruct (Nat.lt_ge_cases i n) as [Hi|Hi].
  - split; [exact Hi|]. rewrite nth_range_workers in H by exact Hi.
    apply in_app_or in H. destruct H as [H|H]; [left|right; exact H].
    apply in_flat_map in H. exact H.
  - rewrite nth_range_workers_out in H by exact Hi. destruct H.
Qed.

(* DESIGN.md `drf_by_ranges`: workers whose accesses to different records never conflict are race
   free, for every record count and every number of goroutines *)
Theorem drf_by_ranges : forall cap pre post body epi len n, 1 <= n ->
  record_local body -> epilogue_local body epi ->
  race_free cap (fj_exec pre post (range_workers body epi len n)).
Proof.
  intros cap pre post body epi len n Hn Hrl [He1 He2]. apply fj_race_free.
  intros i j a b Hne Ha Hb.
  apply in_worker in Ha. destruct Ha as [Hi Ha]. apply in_worker in Hb. destruct Hb as [Hj Hb].
  destruct Ha as [[k1 [Hk1 Ha]]|Ha], Hb as [[k2 [Hk2 Hb]]|Hb].
  - apply (Hrl k1 k2 a b); try assumption.
    intros ->. exact (ranges_disjoint len n i j k2 Hn Hi Hj Hne Hk1 Hk2).
  - intros Hc. apply conflict_sym in Hc. exact (He2 j k1 b a Hb Ha Hc).
  - exact (He2 i k2 a b Ha Hb).
  - exact (He1 i j a b Hne Ha Hb).
Qed.

(* the simple discipline implies record locality *)
Lemma own_index_record_local : forall body, writes_own_index body -> reads_unwritten body -> record_local body.
Proof.
  intros body Hw Hr k1 k2 a1 a2 Hne H1 H2 Hc.
  pose proof (conflict_loc _ _ Hc) as Hl.
  destruct (conflict_write _ _ Hc) as [Hm|Hm].
  - destruct (a_mode a2) eqn:E2.
    + apply Hne. symmetry. apply (Hr k2 k1 a2 a1); auto.
    + destruct (Hw k1 a1 H1 Hm) as [arr1 Ha1]. destruct (Hw k2 a2 H2 E2) as [arr2 Ha2].
      rewrite Ha1, Ha2 in Hl. inversion Hl. contradiction.
  - destruct (a_mode a1) eqn:E1.
    + apply Hne. apply (Hr k1 k2 a1 a2); auto.
    + destruct (Hw k1 a1 H1 E1) as [arr1 Ha1]. destruct (Hw k2 a2 H2 Hm) as [arr2 Ha2].
      rewrite Ha1, Ha2 in Hl. inversion Hl. contradiction.
Qed.

(* ================================================================================================ *)
(* the task manager around a body                                                                    *)
(* ================================================================================================ *)
Definition avoids_tm (a : acc) : Prop :=
  a_loc a <> tm_err /\ a_loc a <> Var "gm.grCount" /\ a_loc a <> Var "GoroutineManager.Count".

Lemma tm_done_no_conflict : forall a b, In a tm_done -> In b tm_done -> ~ conflict a b.
Proof.
  intros a b Ha Hb. apply (drf_mutex a b "gm.grTaskMutex"%string).
  - cbn in Ha. destruct Ha as [<-|[<-|[<-|[<-|[]]]]]; cbn; auto.
  - cbn in Hb. destruct Hb as [<-|[<-|[<-|[<-|[]]]]]; cbn; auto.
Qed.

Lemma avoid_not_conflict_tm : forall a b, avoids_tm a -> (b = has_error \/ In b set_error \/ In b tm_done) -> ~ conflict a b.
Proof.
  intros a b [H1 [H2 H3]] Hb Hc. apply conflict_loc in Hc.
  destruct Hb as [->|[Hb|Hb]].
  - cbn in Hc. contradiction.
  - cbn in Hb. destruct Hb as [<-|[<-|[]]]; cbn in Hc; contradiction.
  - cbn in Hb. destruct Hb as [<-|[<-|[<-|[<-|[]]]]]; cbn in Hc; contradiction.
Qed.

(* error-free runs of a task-manager site are race free *)
Theorem tm_drf : forall cap pre post body epi fails len n, 1 <= n ->
  (forall k, fails k = false) ->
  record_local body -> epilogue_local body epi ->
  (forall k a, In a (body k) -> avoids_tm a) -> (forall i a, In a (epi i) -> avoids_tm a) ->
  race_free cap (tm_exec pre post body epi fails len n).
Proof.
  intros cap pre post body epi fails len n Hn Hf Hrl [He1 He2] Hab Hae.
  unfold tm_exec, tm_workers. apply drf_by_ranges; [exact Hn| |].
  - (* record_local (tm_iter body fails) *)
    intros k1 k2 a1 a2 Hne H1 H2. unfold tm_iter in H1, H2. rewrite Hf, app_nil_r in H1, H2.
    destruct H1 as [<-|H1], H2 as [<-|H2].
    + apply reads_no_conflict; reflexivity.
    + intros Hc. apply conflict_sym in Hc. revert Hc. apply avoid_not_conflict_tm; [eapply Hab; eauto|left; reflexivity].
    + apply avoid_not_conflict_tm; [eapply Hab; eauto|left; reflexivity].
    + apply (Hrl k1 k2); assumption.
  - split.
    + intros i j a b Hne Ha Hb. unfold tm_epi in Ha, Hb.
      apply in_app_or in Ha. apply in_app_or in Hb.
      destruct Ha as [Ha|[<-|Ha]], Hb as [Hb|[<-|Hb]].
      * apply (He1 i j); assumption.
      * apply avoid_not_conflict_tm; [eapply Hae; eauto|left; reflexivity].
      * apply avoid_not_conflict_tm; [eapply Hae; eauto|right; right; exact Hb].
      * intros Hc. apply conflict_sym in Hc. revert Hc. apply avoid_not_conflict_tm; [eapply Hae; eauto|left; reflexivity].
      * apply reads_no_conflict; reflexivity.
      * intros Hc. apply conflict_loc in Hc. cbn in Hb. destruct Hb as [<-|[<-|[<-|[<-|[]]]]]; cbn in Hc; discriminate.
      * intros Hc. apply conflict_sym in Hc. revert Hc. apply avoid_not_conflict_tm; [eapply Hae; eauto|right; right; exact Ha].
      * intros Hc. apply conflict_loc in Hc. cbn in Ha. destruct Ha as [<-|[<-|[<-|[<-|[]]]]]; cbn in Hc; discriminate.
      * apply tm_done_no_conflict; assumption.
    + intros i k a b Ha Hb. unfold tm_epi in Ha. unfold tm_iter in Hb. rewrite Hf, app_nil_r in Hb.
      apply in_app_or in Ha.
      destruct Ha as [Ha|[<-|Ha]], Hb as [<-|Hb].
      * apply avoid_not_conflict_tm; [eapply Hae; eauto|left; reflexivity].
      * apply (He2 i k); assumption.
      * apply reads_no_conflict; reflexivity.
      * intros Hc. apply conflict_sym in Hc. revert Hc. apply avoid_not_conflict_tm; [eapply Hab; eauto|left; reflexivity].
      * intros Hc. apply conflict_loc in Hc. cbn in Ha. destruct Ha as [<-|[<-|[<-|[<-|[]]]]]; cbn in Hc; discriminate.
      * intros Hc. apply conflict_sym in Hc. revert Hc. apply avoid_not_conflict_tm; [eapply Hab; eauto|right; right; exact Ha].
Qed.

(* F-C13-1: as soon as one record raises an error while another goroutine is still looping, the
   unsynchronised read in HasError races with the write in SetError *)
Theorem tm_error_race : forall cap pre post body epi fails len n i j k kj,
  i <> j -> i < n -> j < n -> In k (range len n i) -> In kj (range len n j) -> fails k = true ->
  race cap (tm_exec pre post body epi fails len n).
Proof.
  intros cap pre post body epi fails len n i j k kj Hne Hi Hj Hk Hkj Hf.
  unfold tm_exec, tm_workers.
  apply (fj_race pre (tm_post ++ post) _ cap i j (mkAcc Wr tm_err ["gm.grTaskMutex"%string]) has_error Hne).
  - rewrite nth_range_workers by exact Hi. apply in_or_app. left. apply in_flat_map.
    exists k. split; [exact Hk|]. unfold tm_iter. rewrite Hf. right. apply in_or_app. right. cbn. auto.
  - rewrite nth_range_workers by exact Hj. apply in_or_app. left. apply in_flat_map.
    exists kj. split; [exact Hkj|]. unfold tm_iter. left. reflexivity.
  - reflexivity.
Qed.

(* ================================================================================================ *)
(* the syntactic discipline checked on the extracted fact base                                      *)
(* ================================================================================================ *)
Lemma shape_eqb_eq : forall a b, shape_eqb a b = true -> a = b.
Proof.
  intros [| |m| | |e] [| |m'| | |e'] H; cbn in H; try discriminate; try reflexivity.
  - apply String.eqb_eq in H. subst. reflexivity.
  - apply String.eqb_eq in H. subst. reflexivity.
Qed.

Lemma uniform_same : forall fs f g, uniform fs = true -> In f fs -> In g fs -> f_shape f = f_shape g.
Proof.
  intros fs f g Hu Hf Hg. destruct fs as [|h t]; [destruct Hf|].
  cbn [uniform] in Hu.
  assert (Hall : forallb (fun g0 => shape_eqb (f_shape g0) (f_shape h)) (h :: t) = true).
  { destruct (f_shape h); try discriminate; exact Hu. }
  rewrite forallb_forall in Hall.
  rewrite (shape_eqb_eq _ _ (Hall f Hf)), (shape_eqb_eq _ _ (Hall g Hg)). reflexivity.
Qed.

Lemma uniform_good : forall fs f, uniform fs = true -> In f fs ->
  f_shape f = ShIdx \/ f_shape f = ShWorker \/ exists m, f_shape f = ShLocked m.
Proof.
  intros fs f Hu Hf. destruct fs as [|h t]; [destruct Hf|].
  rewrite (uniform_same _ f h Hu Hf (or_introl eq_refl)).
  cbn [uniform] in Hu. destruct (f_shape h); try discriminate; eauto.
Qed.

Section Discipline.
  Variable s : site.
  Hypothesis Hok : site_ok s = true.

  Let wp := written_paths s.
  Let is_w (f : fact) := existsb (String.eqb (f_path f)) wp.

  Lemma ok_uniform : forall f, In f (s_facts s) -> is_w f = true -> uniform (facts_of s (f_path f)) = true.
  Proof.
    intros f Hf Hw. unfold site_ok in Hok. apply andb_true_iff in Hok. destruct Hok as [_ H2].
    rewrite forallb_forall in H2. unfold is_w in Hw. apply existsb_exists in Hw.
    destruct Hw as [p [Hp He]]. apply String.eqb_eq in He. rewrite He. apply H2. exact Hp.
  Qed.

  Lemma ok_not_reserved : forall f, In f (s_facts s) -> reserved (f_path f) = false.
  Proof.
    intros f Hf. unfold site_ok in Hok. apply andb_true_iff in Hok. destruct Hok as [H1 _].
    rewrite forallb_forall in H1. specialize (H1 f Hf). apply negb_true_iff in H1. exact H1.
  Qed.

  Lemma in_facts_of : forall f, In f (s_facts s) -> In f (facts_of s (f_path f)).
  Proof. intros f Hf. unfold facts_of. apply filter_In. split; [exact Hf|apply String.eqb_refl]. Qed.

  (* the accesses of a body / an epilogue, classified *)
  Inductive body_acc (k : nat) (a : acc) : Prop :=
  | BA_idx : forall f, In f (s_facts s) -> is_w f = true -> f_shape f = ShIdx ->
      a = mkAcc (f_mode f) (Idx (f_path f) k) [] -> body_acc k a
  | BA_lock : forall f m, In f (s_facts s) -> is_w f = true -> f_shape f = ShLocked m ->
      a = mkAcc (f_mode f) (Var (f_path f)) [m] -> body_acc k a
  | BA_ro : forall f, In f (s_facts s) -> is_w f = false ->
      a = mkAcc Rd (Var (f_path f)) [] -> body_acc k a.

  Lemma site_body_acc : forall k a, In a (site_body s k) -> body_acc k a.
  Proof.
    intros k a H. unfold site_body in H. apply in_app_or in H. destruct H as [H|H].
    - apply in_flat_map in H. destruct H as [f [Hf Ha]]. apply filter_In in Hf. destruct Hf as [Hf Hw].
      unfold fact_body in Ha. destruct (f_shape f) eqn:E; try (exfalso; exact Ha); destruct Ha as [<-|[]].
      + eapply BA_idx; eauto.
      + eapply BA_lock; eauto.
    - apply in_flat_map in H. destruct H as [f [Hf Ha]]. unfold fact_ro in Ha.
      fold wp in Ha. destruct (existsb (String.eqb (f_path f)) wp) eqn:E; [destruct Ha|].
      destruct Ha as [<-|[]]. eapply BA_ro; eauto.
  Qed.

  Lemma site_epi_acc : forall i a, In a (site_epi s i) ->
    exists f, In f (s_facts s) /\ is_w f = true /\ f_shape f = ShWorker /\ a = mkAcc (f_mode f) (Idx (f_path f) i) [].
  Proof.
    intros i a H. unfold site_epi in H. apply in_flat_map in H. destruct H as [f [Hf Ha]].
    apply filter_In in Hf. destruct Hf as [Hf Hw]. unfold fact_epi in Ha.
    destruct (f_shape f) eqn:E; try (exfalso; exact Ha); destruct Ha as [<-|[]]. exists f. auto.
  Qed.

  Lemma same_path_same_shape : forall f g, In f (s_facts s) -> In g (s_facts s) -> is_w f = true ->
    f_path f = f_path g -> f_shape f = f_shape g.
  Proof.
    intros f g Hf Hg Hw Hp. apply (uniform_same (facts_of s (f_path f))).
    - apply ok_uniform; assumption.
    - apply in_facts_of. exact Hf.
    - rewrite Hp. apply in_facts_of. exact Hg.
  Qed.

  Lemma site_record_local : record_local (site_body s).
  Proof.
    intros k1 k2 a1 a2 Hne H1 H2 Hc.
    apply site_body_acc in H1. apply site_body_acc in H2.
    pose proof (conflict_loc _ _ Hc) as Hl.
    destruct H1 as [f Hf Hw Hs ->|f m Hf Hw Hs ->|f Hf Hw ->];
    destruct H2 as [g Hg Hw' Hs' ->|g m' Hg Hw' Hs' ->|g Hg Hw' ->]; cbn in Hl; try discriminate.
    - inversion Hl. contradiction.
    - inversion Hl as [Hp].
      pose proof (same_path_same_shape f g Hf Hg Hw Hp) as E. rewrite Hs, Hs' in E. inversion E; subst m'.
      revert Hc. apply (drf_mutex _ _ m); cbn; auto.
    - inversion Hl as [Hp]. unfold is_w in Hw, Hw'. rewrite Hp in Hw. congruence.
    - inversion Hl as [Hp]. unfold is_w in Hw, Hw'. rewrite Hp in Hw. congruence.
    - revert Hc. apply reads_no_conflict; reflexivity.
  Qed.

  Lemma site_epilogue_local : epilogue_local (site_body s) (site_epi s).
  Proof.
    split.
    - intros i j a b Hne Ha Hb Hc. apply site_epi_acc in Ha. apply site_epi_acc in Hb.
      destruct Ha as [f [_ [_ [_ ->]]]]. destruct Hb as [g [_ [_ [_ ->]]]].
      apply conflict_loc in Hc. cbn in Hc. inversion Hc. contradiction.
    - intros i k a b Ha Hb Hc. apply site_epi_acc in Ha. destruct Ha as [f [Hf [Hw [Hs ->]]]].
      apply site_body_acc in Hb. apply conflict_loc in Hc.
      destruct Hb as [g Hg Hw' Hs' ->|g m' Hg Hw' Hs' ->|g Hg Hw' ->]; cbn in Hc; try discriminate.
      inversion Hc as [[Hp Hik]].
      pose proof (same_path_same_shape f g Hf Hg Hw Hp) as E. rewrite Hs, Hs' in E. discriminate.
  Qed.

  Lemma not_reserved_avoids : forall p m l, reserved p = false -> avoids_tm (mkAcc m (Var p) l).
  Proof.
    intros p m l H. unfold reserved in H. cbn in H.
    apply orb_false_iff in H. destruct H as [H1 H]. apply orb_false_iff in H. destruct H as [H2 H].
    apply orb_false_iff in H. destruct H as [H3 _].
    apply String.eqb_neq in H1, H2, H3.
    unfold avoids_tm, tm_err. cbn. repeat split; intros E; inversion E; contradiction.
  Qed.

  Lemma site_body_avoids : forall k a, In a (site_body s k) -> avoids_tm a.
  Proof.
    intros k a H. apply site_body_acc in H.
    destruct H as [f Hf Hw Hs ->|f m Hf Hw Hs ->|f Hf Hw ->].
    - unfold avoids_tm, tm_err. cbn. repeat split; discriminate.
    - apply not_reserved_avoids. apply ok_not_reserved. exact Hf.
    - apply not_reserved_avoids. apply ok_not_reserved. exact Hf.
  Qed.

  Lemma site_epi_avoids : forall i a, In a (site_epi s i) -> avoids_tm a.
  Proof.
    intros i a H. apply site_epi_acc in H. destruct H as [f [_ [_ [_ ->]]]].
    unfold avoids_tm, tm_err. cbn. repeat split; discriminate.
  Qed.

  (* a site that passes the syntactic check is race free on every error-free run, for every record
     count and every number of goroutines *)
  Theorem discipline_sound : forall cap pre post fails len n, 1 <= n -> (forall k, fails k = false) ->
    race_free cap (site_exec s pre post fails len n).
  Proof.
    intros cap pre post fails len n Hn Hf. unfold site_exec. apply tm_drf; try assumption.
    - apply site_record_local.
    - apply site_epilogue_local.
    - apply site_body_avoids.
    - apply site_epi_avoids.
  Qed.
End Discipline.
