(* Proofs/Access.v -- race freedom of fork/join sites whose workers split the records by
   RecordRange, of mutex-guarded state, and the machinery for the refutations (C13). *)
From Coq Require Import ZArith List Bool String Relations Lia Arith.
Require Import Csvq.Model.Par Csvq.Model.Access Csvq.Proofs.Par.
Import ListNotations.
Open Scope nat_scope.

(* ================================================================================================ *)
(* conflicts                                                                                         *)
(* ================================================================================================ *)
Lemma loc_eqb_eq : forall l1 l2, loc_eqb l1 l2 = true <-> l1 = l2.
Proof.
  intros [a i|x] [b j|y]; cbn; split; intros H; try discriminate.
  - apply andb_true_iff in H. destruct H as [H1 H2]. apply String.eqb_eq in H1. apply Nat.eqb_eq in H2. subst. reflexivity.
  - inversion H; subst. rewrite String.eqb_refl, Nat.eqb_refl. reflexivity.
  - apply String.eqb_eq in H. subst. reflexivity.
  - inversion H; subst. apply String.eqb_refl.
Qed.

Lemma conflict_sym : forall a b, conflict a b -> conflict b a.
Proof.
  intros a b H. unfold conflict, conflictb in *.
  apply andb_true_iff in H. destruct H as [H H3]. apply andb_true_iff in H. destruct H as [H1 H2].
  apply loc_eqb_eq in H1. rewrite H1.
  replace (loc_eqb (a_loc b) (a_loc b)) with true by (symmetry; apply loc_eqb_eq; reflexivity).
  rewrite (orb_comm (is_write b)). rewrite H2. cbn.
  apply negb_true_iff in H3. apply negb_true_iff.
  destruct (share_lock b a) eqn:E; [|reflexivity].
  unfold share_lock in E. apply existsb_exists in E. destruct E as [m [Hm E]].
  apply existsb_exists in E. destruct E as [m' [Hm' E]]. apply String.eqb_eq in E. subst m'.
  assert (share_lock a b = true).
  { unfold share_lock. apply existsb_exists. exists m. split; [exact Hm'|].
    apply existsb_exists. exists m. split; [exact Hm|apply String.eqb_refl]. }
  congruence.
Qed.

Lemma conflict_loc : forall a b, conflict a b -> a_loc a = a_loc b.
Proof.
  intros a b H. unfold conflict, conflictb in H.
  apply andb_true_iff in H. destruct H as [H _]. apply andb_true_iff in H. destruct H as [H _].
  apply loc_eqb_eq. exact H.
Qed.

Lemma conflict_write : forall a b, conflict a b -> a_mode a = Wr \/ a_mode b = Wr.
Proof.
  intros a b H. unfold conflict, conflictb in H.
  apply andb_true_iff in H. destruct H as [H _]. apply andb_true_iff in H. destruct H as [_ H].
  apply orb_true_iff in H. unfold is_write in H.
  destruct H as [H|H]; [left|right]; destruct (a_mode _); congruence.
Qed.

(* accesses made under a common mutex never conflict *)
Lemma drf_mutex : forall a b m, In m (a_locks a) -> In m (a_locks b) -> ~ conflict a b.
Proof.
  intros a b m Ha Hb H. unfold conflict, conflictb in H.
  apply andb_true_iff in H. destruct H as [_ H]. apply negb_true_iff in H.
  assert (share_lock a b = true).
  { unfold share_lock. apply existsb_exists. exists m. split; [exact Ha|].
    apply existsb_exists. exists m. split; [exact Hb|apply String.eqb_refl]. }
  congruence.
Qed.

Lemma reads_no_conflict : forall a b, a_mode a = Rd -> a_mode b = Rd -> ~ conflict a b.
Proof. intros a b Ha Hb H. apply conflict_write in H. destruct H; congruence. Qed.

(* ================================================================================================ *)
(* shape of a fork/join execution                                                                    *)
(* ================================================================================================ *)
Definition sync_free (s : step) : Prop := match s with SGo _ | SWait _ => False | _ => True end.

Section FJ.
  Variables (pre post : list acc) (ws : list (list step)).
  Hypothesis Hsf : forall t s, In s (nth t ws []) -> sync_free s.   (* workers neither fork nor join *)
  Let n := List.length ws.
  Let P := List.length pre.
  Let x := fjs_exec pre post ws.

  Lemma fj_worker_step : forall t q, step_at x (S t, q) = nth_error (nth t ws []) q.
  Proof. intros t q. reflexivity. Qed.

  Lemma fj_worker_in : forall t q s, step_at x (S t, q) = Some s ->
    nth_error (nth t ws []) q = Some s /\ In s (nth t ws []) /\ t < n.
  Proof.
    intros t q s H. rewrite fj_worker_step in H. split; [exact H|]. split; [eapply nth_error_In; eauto|].
    destruct (Nat.lt_ge_cases t n) as [Hlt|Hge]; [exact Hlt|].
    unfold n in Hge. rewrite nth_overflow in H by exact Hge. destruct q; discriminate.
  Qed.

  Lemma fj_parent_step : forall p, step_at x (0, p) = nth_error (fj_parent pre post n) p.
  Proof. intros p. reflexivity. Qed.

  Lemma nth_error_map_seq : forall (A : Type) (f : nat -> A) s c i, i < c -> nth_error (map f (seq s c)) i = Some (f (s + i)).
  Proof.
    intros A f s c i Hi. rewrite nth_error_map. rewrite (nth_error_nth' _ 0) by (rewrite seq_length; exact Hi).
    rewrite seq_nth by exact Hi. reflexivity.
  Qed.

  Lemma parent_pre : forall p, p < P -> exists a, step_at x (0, p) = Some (SAcc a) /\ In a pre.
  Proof.
    intros p Hp. rewrite fj_parent_step. unfold fj_parent.
    rewrite nth_error_app1 by (rewrite map_length; exact Hp).
    rewrite nth_error_map. destruct (nth_error pre p) as [a|] eqn:E.
    - exists a. split; [reflexivity|eapply nth_error_In; eauto].
    - apply nth_error_None in E. unfold P in Hp. lia.
  Qed.

  Lemma parent_go : forall j, j < n -> step_at x (0, P + j) = Some (SGo (S j)).
  Proof.
    intros j Hj. rewrite fj_parent_step. unfold fj_parent.
    rewrite nth_error_app2 by (rewrite map_length; unfold P; lia).
    rewrite map_length. replace (P + j - List.length pre) with j by (unfold P; lia).
    rewrite nth_error_app1 by (rewrite map_length, seq_length; exact Hj).
    rewrite nth_error_map_seq by exact Hj. reflexivity.
  Qed.

  Lemma parent_wait : forall j, j < n -> step_at x (0, P + n + j) = Some (SWait (S j)).
  Proof.
    intros j Hj. rewrite fj_parent_step. unfold fj_parent.
    rewrite nth_error_app2 by (rewrite map_length; unfold P; lia).
    rewrite map_length. replace (P + n + j - List.length pre) with (n + j) by (unfold P; lia).
    rewrite nth_error_app2 by (rewrite map_length, seq_length; lia).
    rewrite map_length, seq_length. replace (n + j - n) with j by lia.
    rewrite nth_error_app1 by (rewrite map_length, seq_length; exact Hj).
    rewrite nth_error_map_seq by exact Hj. reflexivity.
  Qed.

  (* what the parent's step at position p is *)
  Lemma parent_cases : forall p s, step_at x (0, p) = Some s ->
    (p < P /\ exists a, s = SAcc a) \/
    (P <= p < P + n /\ s = SGo (S (p - P))) \/
    (P + n <= p < P + n + n /\ s = SWait (S (p - P - n))) \/
    (P + n + n <= p /\ exists a, s = SAcc a).
  Proof.
    intros p s H.
    destruct (Nat.lt_ge_cases p P) as [H1|H1].
    - left. split; [exact H1|]. destruct (parent_pre p H1) as [a [Ha _]]. rewrite Ha in H. inversion H. eauto.
    - destruct (Nat.lt_ge_cases p (P + n)) as [H2|H2].
      + right. left. split; [lia|]. pose proof (parent_go (p - P) ltac:(lia)) as Hg.
        replace (P + (p - P)) with p in Hg by lia. rewrite Hg in H. inversion H. reflexivity.
      + destruct (Nat.lt_ge_cases p (P + n + n)) as [H3|H3].
        * right. right. left. split; [lia|]. pose proof (parent_wait (p - P - n) ltac:(lia)) as Hw.
          replace (P + n + (p - P - n)) with p in Hw by lia. rewrite Hw in H. inversion H. reflexivity.
        * right. right. right. split; [exact H3|].
          rewrite fj_parent_step in H. unfold fj_parent in H.
          rewrite nth_error_app2 in H by (rewrite map_length; unfold P in *; lia).
          rewrite nth_error_app2 in H by (rewrite !map_length, seq_length; unfold P in *; lia).
          rewrite nth_error_app2 in H by (rewrite !map_length, !seq_length; unfold P in *; lia).
          rewrite nth_error_map in H. destruct (nth_error post _) as [a|]; [|discriminate].
          inversion H. eauto.
  Qed.

  (* program order paths *)
  Lemma step_before : forall t i j s, i <= j -> step_at x (t, j) = Some s -> exists s', step_at x (t, i) = Some s'.
  Proof.
    intros t i j s Hij H. unfold step_at in *. cbn [fst snd] in *.
    destruct (nth_error (nth t x []) i) as [s'|] eqn:E; [eauto|].
    apply nth_error_None in E. assert (nth_error (nth t x []) j = None) by (apply nth_error_None; lia). congruence.
  Qed.

  Lemma po_path : forall cap t i j s, i < j -> step_at x (t, j) = Some s -> hb cap x (t, i) (t, j).
  Proof.
    intros cap t i j s Hij H. revert s H. induction j as [|j IH]; intros s H; [lia|].
    destruct (Nat.eq_dec i j) as [->|Hne].
    - apply t_step. eapply E_po; eauto.
    - destruct (step_before t j (S j) s ltac:(lia) H) as [s' Hs'].
      eapply t_trans; [apply (IH ltac:(lia) s' Hs')|]. apply t_step. eapply E_po; eauto.
  Qed.

  Lemma po_path_refl : forall cap t i j s e, i <= j -> step_at x (t, j) = Some s ->
    hb cap x (t, j) e -> hb cap x (t, i) e.
  Proof.
    intros cap t i j s e Hij H Hhb. destruct (Nat.eq_dec i j) as [->|Hne]; [exact Hhb|].
    eapply t_trans; [apply (po_path cap t i j s); [lia|exact H]|exact Hhb].
  Qed.

  (* a parent access before the go statements happens before every worker step *)
  Lemma pre_hb_worker : forall cap p t q s, p < P -> step_at x (S t, q) = Some s -> hb cap x (0, p) (S t, q).
  Proof.
    intros cap p t q s Hp Hs.
    destruct (fj_worker_in t q s Hs) as [_ [_ Ht]].
    destruct (step_before (S t) 0 q s ltac:(lia) Hs) as [s0 Hs0].
    assert (Hgo : hb cap x (0, P + t) (S t, 0)).
    { apply t_step. eapply E_go; [apply parent_go; exact Ht|exact Hs0]. }
    assert (H1 : hb cap x (0, p) (S t, 0)).
    { eapply po_path_refl; [|apply parent_go; exact Ht|exact Hgo]. lia. }
    destruct q as [|q]; [exact H1|].
    eapply t_trans; [exact H1|]. eapply po_path; eauto. lia.
  Qed.

  (* every worker step happens before a parent access after the Wait *)
  Lemma worker_hb_post : forall cap p t q s sp, P + n + n <= p -> step_at x (S t, q) = Some s ->
    step_at x (0, p) = Some sp -> hb cap x (S t, q) (0, p).
  Proof.
    intros cap p t q s sp Hp Hs Hsp.
    destruct (fj_worker_in t q s Hs) as [Hq [_ Ht]].
    set (L := List.length (nth t ws [])).
    assert (HL : q < L) by (apply nth_error_Some; congruence).
    assert (Hlen : List.length (nth (S t) x []) = S (L - 1)).
    { unfold x, fjs_exec. cbn [nth]. fold L. lia. }
    assert (Hlast : exists sl, step_at x (S t, L - 1) = Some sl).
    { rewrite fj_worker_step. destruct (nth_error (nth t ws []) (L - 1)) eqn:E; [eauto|].
      apply nth_error_None in E. fold L in E. lia. }
    destruct Hlast as [sl Hsl].
    assert (Hw : hb cap x (S t, L - 1) (0, P + n + t)).
    { apply t_step. eapply E_wait; [apply parent_wait; exact Ht|exact Hlen]. }
    assert (H1 : hb cap x (S t, q) (0, P + n + t)).
    { eapply po_path_refl; [|exact Hsl|exact Hw]. lia. }
    eapply t_trans; [exact H1|]. eapply po_path; eauto. lia.
  Qed.

  (* ---- race freedom from pairwise non-conflicting workers ------------------------------------ *)
  (* (channel edges between the workers can only order more accesses) *)
  Theorem fjs_race_free : forall cap,
    (forall i j a b, i <> j -> In (SAcc a) (nth i ws []) -> In (SAcc b) (nth j ws []) -> ~ conflict a b) ->
    race_free cap x.
  Proof.
    intros cap Hdis [e1 [e2 [a [b [Hne [H1 [H2 [Hc [Hn1 Hn2]]]]]]]]].
    destruct e1 as [t1 p1], e2 as [t2 p2]. cbn [fst] in Hne.
    destruct t1 as [|t1], t2 as [|t2]; [lia| | |].
    - (* parent vs worker *)
      destruct (parent_cases p1 _ H1) as [[Hp _]|[[_ Hs]|[[_ Hs]|[Hp _]]]]; try discriminate.
      + apply Hn1. eapply pre_hb_worker; eauto.
      + apply Hn2. eapply worker_hb_post; eauto.
    - destruct (parent_cases p2 _ H2) as [[Hp _]|[[_ Hs]|[[_ Hs]|[Hp _]]]]; try discriminate.
      + apply Hn2. eapply pre_hb_worker; eauto.
      + apply Hn1. eapply worker_hb_post; eauto.
    - destruct (fj_worker_in t1 p1 _ H1) as [_ [Ha _]].
      destruct (fj_worker_in t2 p2 _ H2) as [_ [Hb _]].
      apply (Hdis t1 t2 a b); try assumption. lia.
  Qed.

  (* ---- and conversely, for workers that only access memory: a conflicting pair in two different
          workers IS a race ----------------------------------------------------------------------- *)
  Hypothesis Hacc : forall t s, In s (nth t ws []) -> exists a, s = SAcc a.

  Lemma fj_worker_acc : forall t q s, step_at x (S t, q) = Some s -> exists a, s = SAcc a.
  Proof. intros t q s H. destruct (fj_worker_in t q s H) as [_ [Hin _]]. eapply Hacc; eauto. Qed.

  (* everything reachable from a step of worker t1 is in worker t1 or in the parent after the go statements *)
  Let inv (t1 : nat) (e : ev) : Prop := fst e = S t1 \/ (fst e = 0 /\ P + n <= snd e).

  Lemma inv_edge : forall cap t1 e e', edge cap x e e' -> inv t1 e -> inv t1 e'.
  Proof.
    intros cap t1 e e' He Hi. unfold inv in *. destruct He as [t i s Hs | e t s Hg Hs | e t i Hw Hl | e1 e2 c k H1 H2 | e1 e2 c H1 H2 | e1 e2 c k H1 H2].
    - destruct Hi as [Hi|[Hi1 Hi2]]; cbn [fst snd] in *; [left; exact Hi|right; split; [exact Hi1|lia]].
    - exfalso. destruct e as [te pe]. destruct Hi as [Hi|[Hi1 Hi2]]; cbn [fst snd] in *; subst te.
      + destruct (fj_worker_acc _ _ _ Hg) as [a Ea]. discriminate.
      + destruct (parent_cases pe _ Hg) as [[Hp _]|[[Hp _]|[[_ Hs']|[_ [a Ha]]]]]; try discriminate; lia.
    - destruct e as [te pe]. destruct te as [|te].
      + destruct (parent_cases pe _ Hw) as [[_ [a Ha]]|[[_ Hs']|[[Hp Hs']|[_ [a Ha]]]]]; try discriminate.
        right. cbn [fst snd]. split; [reflexivity|lia].
      + destruct (fj_worker_acc _ _ _ Hw) as [a Ea]. discriminate.
    - exfalso. destruct e1 as [[|te] pe].
      + destruct (parent_cases pe _ H1) as [[_ [a Ha]]|[[_ Hs']|[[_ Hs']|[_ [a Ha]]]]]; discriminate.
      + destruct (fj_worker_acc _ _ _ H1) as [a Ea]. discriminate.
    - exfalso. destruct e1 as [[|te] pe].
      + destruct (parent_cases pe _ H1) as [[_ [a Ha]]|[[_ Hs']|[[_ Hs']|[_ [a Ha]]]]]; discriminate.
      + destruct (fj_worker_acc _ _ _ H1) as [a Ea]. discriminate.
    - exfalso. destruct e1 as [[|te] pe].
      + destruct (parent_cases pe _ H1) as [[_ [a Ha]]|[[_ Hs']|[[_ Hs']|[_ [a Ha]]]]]; discriminate.
      + destruct (fj_worker_acc _ _ _ H1) as [a Ea]. discriminate.
  Qed.

  Lemma inv_hb : forall cap t1 e e', hb cap x e e' -> inv t1 e -> inv t1 e'.
  Proof.
    intros cap t1 e e' H. induction H as [e e' He | e e' e'' _ IH1 _ IH2]; intros Hi.
    - eapply inv_edge; eauto.
    - auto.
  Qed.

  Lemma workers_unordered : forall cap t1 t2 p1 p2, t1 <> t2 -> ~ hb cap x (S t1, p1) (S t2, p2).
  Proof.
    intros cap t1 t2 p1 p2 Hne H.
    assert (Hi : inv t1 (S t2, p2)) by (eapply inv_hb; [exact H|left; reflexivity]).
    destruct Hi as [Hi|[Hi _]]; cbn [fst] in Hi; [lia|discriminate].
  Qed.

  Theorem fjs_race : forall cap i j a b, i <> j -> In (SAcc a) (nth i ws []) -> In (SAcc b) (nth j ws []) -> conflict a b ->
    race cap x.
  Proof.
    intros cap i j a b Hne Ha Hb Hc.
    apply In_nth_error in Ha. destruct Ha as [p1 Hp1].
    apply In_nth_error in Hb. destruct Hb as [p2 Hp2].
    exists (S i, p1), (S j, p2), a, b. cbn [fst].
    split; [lia|]. split; [rewrite fj_worker_step; exact Hp1|].
    split; [rewrite fj_worker_step; exact Hp2|].
    split; [exact Hc|]. split; apply workers_unordered; auto.
  Qed.
End FJ.

(* workers that only access memory *)
Lemma nth_map_map : forall (aws : list (list acc)) i, nth i (map (map SAcc) aws) [] = map SAcc (nth i aws []).
Proof.
  intros aws i. destruct (Nat.lt_ge_cases i (List.length aws)) as [Hlt|Hge].
  - rewrite (nth_indep _ [] (map SAcc [])) by (rewrite map_length; exact Hlt). apply map_nth.
  - rewrite !nth_overflow by (try rewrite map_length; exact Hge). reflexivity.
Qed.

Lemma in_map_sacc : forall a l, In (SAcc a) (map SAcc l) <-> In a l.
Proof.
  intros a l. rewrite in_map_iff. split.
  - intros [b [Hb Hin]]. inversion Hb; subst. exact Hin.
  - intros H. exists a. auto.
Qed.

Theorem fj_race_free : forall pre post aws cap,
  (forall i j a b, i <> j -> In a (nth i aws []) -> In b (nth j aws []) -> ~ conflict a b) ->
  race_free cap (fj_exec pre post aws).
Proof.
  intros pre post aws cap H. unfold fj_exec. apply fjs_race_free.
  intros i j a b Hne Ha Hb. rewrite nth_map_map in Ha, Hb. apply in_map_sacc in Ha. apply in_map_sacc in Hb.
  eapply H; eauto.
Qed.

Theorem fj_race : forall pre post aws cap i j a b, i <> j -> In a (nth i aws []) -> In b (nth j aws []) -> conflict a b ->
  race cap (fj_exec pre post aws).
Proof.
  intros pre post aws cap i j a b Hne Ha Hb Hc. unfold fj_exec.
  apply (fjs_race pre post (map (map SAcc) aws)) with (i := i) (j := j) (a := a) (b := b); try assumption.
  - intros t s Hs. rewrite nth_map_map in Hs. apply in_map_iff in Hs. destruct Hs as [a0 [Ha0 _]]. eauto.
  - rewrite nth_map_map. apply in_map_sacc. exact Ha.
  - rewrite nth_map_map. apply in_map_sacc. exact Hb.
Qed.

(* ================================================================================================ *)
(* workers that split the records by RecordRange                                                     *)
(* ================================================================================================ *)
Lemma nth_range_workers : forall body epi len n i, i < n ->
  nth i (range_workers body epi len n) [] = flat_map body (range len n i) ++ epi i.
Proof.
  intros body epi len n i Hi. unfold range_workers.
  apply (nth_map_seq _ (fun i => flat_map body (range len n i) ++ epi i) n i [] Hi).
Qed.

Lemma nth_range_workers_out : forall body epi len n i, n <= i -> nth i (range_workers body epi len n) [] = [].
Proof.
  intros body epi len n i Hi. apply nth_overflow. unfold range_workers. rewrite map_length, seq_length. exact Hi.
Qed.

Lemma in_worker : forall body epi len n i a, In a (nth i (range_workers body epi len n) []) ->
  i < n /\ ((exists k, In k (range len n i) /\ In a (body k)) \/ In a (epi i)).
Proof.
  intros body epi len n i a H.
  destruct (Nat.lt_ge_cases i n) as [Hi|Hi].
  - split; [exact Hi|]. rewrite nth_range_workers in H by exact Hi.
    apply in_app_or in H. destruct H as [H|H]; [left|right; exact H].
    apply in_flat_map in H. exact H.
  - rewrite nth_range_workers_out in H by exact Hi. destruct H.
Qed.

(* DESIGN.md `drf_by_ranges`: workers whose accesses to different records never conflict are race
   free, for every record count and every number of goroutines *)
Theorem drf_by_ranges : forall cap pre post body epi len n, 1 <= n ->
  record_local body -> epilogue_local body epi ->
  race_free cap (fj_exec pre post (range_workers body epi len n)).
Proof.
  intros cap pre post body epi len n Hn Hrl [He1 He2]. apply fj_race_free.
  intros i j a b Hne Ha Hb.
  apply in_worker in Ha. destruct Ha as [Hi Ha]. apply in_worker in Hb. destruct Hb as [Hj Hb].
  destruct Ha as [[k1 [Hk1 Ha]]|Ha], Hb as [[k2 [Hk2 Hb]]|Hb].
  - apply (Hrl k1 k2 a b); try assumption.
    intros ->. exact (ranges_disjoint len n i j k2 Hn Hi Hj Hne Hk1 Hk2).
  - intros Hc. apply conflict_sym in Hc. exact (He2 j k1 b a Hb Ha Hc).
  - exact (He2 i k2 a b Ha Hb).
  - exact (He1 i j a b Hne Ha Hb).
Qed.

(* the simple discipline implies record locality *)
Lemma own_index_record_local : forall body, writes_own_index body -> reads_unwritten body -> record_local body.
Proof.
  intros body Hw Hr k1 k2 a1 a2 Hne H1 H2 Hc.
  pose proof (conflict_loc _ _ Hc) as Hl.
  destruct (conflict_write _ _ Hc) as [Hm|Hm].
  - destruct (a_mode a2) eqn:E2.
    + apply Hne. symmetry. apply (Hr k2 k1 a2 a1); auto.
    + destruct (Hw k1 a1 H1 Hm) as [arr1 Ha1]. destruct (Hw k2 a2 H2 E2) as [arr2 Ha2].
      rewrite Ha1, Ha2 in Hl. inversion Hl. contradiction.
  - destruct (a_mode a1) eqn:E1.
    + apply Hne. apply (Hr k1 k2 a1 a2); auto.
    + destruct (Hw k1 a1 H1 E1) as [arr1 Ha1]. destruct (Hw k2 a2 H2 Hm) as [arr2 Ha2].
      rewrite Ha1, Ha2 in Hl. inversion Hl. contradiction.
Qed.

(* ================================================================================================ *)
(* the task manager around a body                                                                    *)
(* ================================================================================================ *)
Definition avoids_tm (a : acc) : Prop :=
  a_loc a <> tm_err /\ a_loc a <> Var "gm.grCount" /\ a_loc a <> Var "GoroutineManager.Count".

(* the accesses the task manager itself makes *)
Definition tm_acc (hl : list string) (fails_somewhere : bool) (b : acc) : Prop :=
  b = has_error_with hl \/ (fails_somewhere = true /\ In b set_error) \/ In b tm_done.

Lemma in_set_error_lock : forall b, In b set_error -> In "gm.grTaskMutex"%string (a_locks b) /\ a_loc b = tm_err.
Proof. intros b [<-|[<-|[]]]; cbn; auto. Qed.
Lemma in_tm_done_lock : forall b, In b tm_done -> In "gm.grTaskMutex"%string (a_locks b) /\ a_loc b <> tm_err.
Proof. intros b [<-|[<-|[<-|[<-|[]]]]]; cbn; split; auto; discriminate. Qed.

(* two task-manager accesses never conflict when either nothing fails (the slot is only read) or
   HasError holds the mutex *)
Lemma tm_accs_no_conflict : forall hl fs a b,
  (fs = false \/ In "gm.grTaskMutex"%string hl) -> tm_acc hl fs a -> tm_acc hl fs b -> ~ conflict a b.
Proof.
  intros hl fs a b Hcase Ha Hb.
  destruct Ha as [->|[[Hfa Ha]|Ha]], Hb as [->|[[Hfb Hb]|Hb]].
  - apply reads_no_conflict; reflexivity.
  - destruct Hcase as [->|Hl]; [discriminate|].
    destruct (in_set_error_lock b Hb) as [Lb _]. apply (drf_mutex _ _ "gm.grTaskMutex"%string); cbn; auto.
  - destruct (in_tm_done_lock b Hb) as [_ Nb]. intros Hc. apply conflict_loc in Hc. cbn in Hc. congruence.
  - destruct Hcase as [->|Hl]; [discriminate|].
    destruct (in_set_error_lock a Ha) as [La _]. apply (drf_mutex _ _ "gm.grTaskMutex"%string); cbn; auto.
  - destruct (in_set_error_lock a Ha) as [La _]. destruct (in_set_error_lock b Hb) as [Lb _].
    apply (drf_mutex _ _ "gm.grTaskMutex"%string); auto.
  - destruct (in_set_error_lock a Ha) as [La _]. destruct (in_tm_done_lock b Hb) as [Lb _].
    apply (drf_mutex _ _ "gm.grTaskMutex"%string); auto.
  - destruct (in_tm_done_lock a Ha) as [_ Na]. intros Hc. apply conflict_loc in Hc. cbn in Hc. congruence.
  - destruct (in_tm_done_lock a Ha) as [La _]. destruct (in_set_error_lock b Hb) as [Lb _].
    apply (drf_mutex _ _ "gm.grTaskMutex"%string); auto.
  - destruct (in_tm_done_lock a Ha) as [La _]. destruct (in_tm_done_lock b Hb) as [Lb _].
    apply (drf_mutex _ _ "gm.grTaskMutex"%string); auto.
Qed.

Lemma avoid_not_conflict_tm : forall hl fs a b, avoids_tm a -> tm_acc hl fs b -> ~ conflict a b.
Proof.
  intros hl fs a b [H1 [H2 H3]] Hb Hc. apply conflict_loc in Hc.
  destruct Hb as [->|[[_ Hb]|Hb]].
  - cbn in Hc. contradiction.
  - cbn in Hb. destruct Hb as [<-|[<-|[]]]; cbn in Hc; contradiction.
  - cbn in Hb. destruct Hb as [<-|[<-|[<-|[<-|[]]]]]; cbn in Hc; contradiction.
Qed.

Lemma tm_iter_in : forall hl body fails fs k a, (forall k, fails k = true -> fs = true) ->
  In a (tm_iter hl body fails k) -> In a (body k) \/ tm_acc hl fs a.
Proof.
  intros hl body fails fs k a Hfs H. unfold tm_iter in H. destruct H as [<-|H]; [right; left; reflexivity|].
  apply in_app_or in H. destruct H as [H|H]; [left; exact H|].
  destruct (fails k) eqn:E; [|destruct H]. right. right. left. split; [apply (Hfs k E)|exact H].
Qed.

Lemma tm_epi_in : forall hl epi fs i a, In a (tm_epi hl epi i) -> In a (epi i) \/ tm_acc hl fs a.
Proof.
  intros hl epi fs i a H. unfold tm_epi in H. apply in_app_or in H. destruct H as [H|[<-|H]].
  - left. exact H.
  - right. left. reflexivity.
  - right. right. right. exact H.
Qed.

(* a task-manager site is race free when no record raises an error, or - whatever the records do -
   when HasError reads the slot under the mutex *)
Lemma tm_drf_aux : forall fs hl cap pre post body epi fails len n, 1 <= n ->
  (forall k, fails k = true -> fs = true) -> (fs = false \/ In "gm.grTaskMutex"%string hl) ->
  record_local body -> epilogue_local body epi ->
  (forall k a, In a (body k) -> avoids_tm a) -> (forall i a, In a (epi i) -> avoids_tm a) ->
  race_free cap (tm_exec_with hl pre post body epi fails len n).
Proof.
  intros fs hl cap pre post body epi fails len n Hn Hfs Hc' Hrl [He1 He2] Hab Hae.
  unfold tm_exec_with, tm_workers. apply drf_by_ranges; [exact Hn| |].
  - intros k1 k2 a1 a2 Hne H1 H2.
    apply (tm_iter_in hl body fails fs) in H1; [|exact Hfs]. apply (tm_iter_in hl body fails fs) in H2; [|exact Hfs].
    destruct H1 as [H1|H1], H2 as [H2|H2].
    + apply (Hrl k1 k2); assumption.
    + eapply avoid_not_conflict_tm; eauto.
    + intros Hc. apply conflict_sym in Hc. revert Hc. eapply avoid_not_conflict_tm; eauto.
    + eapply tm_accs_no_conflict; eauto.
  - split.
    + intros i j a b Hne Ha Hb.
      apply (tm_epi_in hl epi fs) in Ha. apply (tm_epi_in hl epi fs) in Hb.
      destruct Ha as [Ha|Ha], Hb as [Hb|Hb].
      * apply (He1 i j); assumption.
      * eapply avoid_not_conflict_tm; eauto.
      * intros Hc. apply conflict_sym in Hc. revert Hc. eapply avoid_not_conflict_tm; eauto.
      * eapply tm_accs_no_conflict; eauto.
    + intros i k a b Ha Hb.
      apply (tm_epi_in hl epi fs) in Ha. apply (tm_iter_in hl body fails fs) in Hb; [|exact Hfs].
      destruct Ha as [Ha|Ha], Hb as [Hb|Hb].
      * apply (He2 i k); assumption.
      * eapply avoid_not_conflict_tm; eauto.
      * intros Hc. apply conflict_sym in Hc. revert Hc. eapply avoid_not_conflict_tm; eauto.
      * eapply tm_accs_no_conflict; eauto.
Qed.

Theorem tm_drf_gen : forall hl cap pre post body epi fails len n, 1 <= n ->
  ((forall k, fails k = false) \/ In "gm.grTaskMutex"%string hl) ->
  record_local body -> epilogue_local body epi ->
  (forall k a, In a (body k) -> avoids_tm a) -> (forall i a, In a (epi i) -> avoids_tm a) ->
  race_free cap (tm_exec_with hl pre post body epi fails len n).
Proof.
  intros hl cap pre post body epi fails len n Hn [Hf|Hl] Hrl Hel Hab Hae.
  - apply (tm_drf_aux false); auto. intros k Hk. rewrite Hf in Hk. discriminate.
  - apply (tm_drf_aux true); auto.
Qed.

(* the code as it stands: error-free runs *)
Theorem tm_drf : forall cap pre post body epi fails len n, 1 <= n ->
  (forall k, fails k = false) ->
  record_local body -> epilogue_local body epi ->
  (forall k a, In a (body k) -> avoids_tm a) -> (forall i a, In a (epi i) -> avoids_tm a) ->
  race_free cap (tm_exec pre post body epi fails len n).
Proof. intros. apply tm_drf_gen; auto. Qed.

(* with HasError under the mutex: every run *)
Theorem tm_drf_locked : forall cap pre post body epi fails len n, 1 <= n ->
  record_local body -> epilogue_local body epi ->
  (forall k a, In a (body k) -> avoids_tm a) -> (forall i a, In a (epi i) -> avoids_tm a) ->
  race_free cap (tm_exec_with hl_locked pre post body epi fails len n).
Proof. intros. apply tm_drf_gen; auto. right. cbn. auto. Qed.

(* F-C13-1: as soon as one record raises an error while another goroutine is still looping, the
   unsynchronised read in HasError races with the write in SetError *)
Theorem tm_error_race : forall cap pre post body epi fails len n i j k kj,
  i <> j -> i < n -> j < n -> In k (range len n i) -> In kj (range len n j) -> fails k = true ->
  race cap (tm_exec pre post body epi fails len n).
Proof.
  intros cap pre post body epi fails len n i j k kj Hne Hi Hj Hk Hkj Hf.
  unfold tm_exec, tm_exec_with, tm_workers.
  apply (fj_race pre (tm_post hl_current ++ post) _ cap i j (mkAcc Wr tm_err ["gm.grTaskMutex"%string]) has_error Hne).
  - rewrite nth_range_workers by exact Hi. apply in_or_app. left. apply in_flat_map.
    exists k. split; [exact Hk|]. unfold tm_iter. rewrite Hf. right. apply in_or_app. right. cbn. auto.
  - rewrite nth_range_workers by exact Hj. apply in_or_app. left. apply in_flat_map.
    exists kj. split; [exact Hkj|]. unfold tm_iter. left. reflexivity.
  - reflexivity.
Qed.

(* ================================================================================================ *)
(* the syntactic discipline checked on the extracted fact base                                      *)
(* ================================================================================================ *)
Lemma shape_eqb_eq : forall a b, shape_eqb a b = true -> a = b.
Proof.
  intros [| |m| | |e] [| |m'| | |e'] H; cbn in H; try discriminate; try reflexivity.
  - apply String.eqb_eq in H. subst. reflexivity.
  - apply String.eqb_eq in H. subst. reflexivity.
Qed.

Lemma uniform_nd_same : forall fs f g, uniform fs = true -> In f fs -> In g fs ->
  is_direct_read f = false -> is_direct_read g = false -> f_shape f = f_shape g.
Proof.
  intros fs f g Hu Hf Hg Df Dg. unfold uniform in Hu.
  assert (Hf' : In f (filter (fun f => negb (is_direct_read f)) fs)) by (apply filter_In; rewrite Df; auto).
  assert (Hg' : In g (filter (fun f => negb (is_direct_read f)) fs)) by (apply filter_In; rewrite Dg; auto).
  destruct (filter (fun f => negb (is_direct_read f)) fs) as [|h t] eqn:E; [destruct Hf'|].
  assert (Hall : forall q, In q (h :: t) -> shape_eqb (f_shape q) (f_shape h) = true).
  { destruct (f_shape h) eqn:Eh; try discriminate; rewrite forallb_forall in Hu.
    - intros q [<-|Hq]; [rewrite Eh; reflexivity|apply Hu; exact Hq].
    - intros q [<-|Hq]; [rewrite Eh; reflexivity|apply Hu; exact Hq].
    - intros q Hq. apply Hu. rewrite <- E in Hq. apply filter_In in Hq. tauto. }
  rewrite (shape_eqb_eq _ _ (Hall f Hf')), (shape_eqb_eq _ _ (Hall g Hg')). reflexivity.
Qed.

Lemma uniform_locked_all : forall fs g m, uniform fs = true -> In g fs -> f_shape g = ShLocked m ->
  forall f, In f fs -> f_shape f = ShLocked m.
Proof.
  intros fs g m Hu Hg Hs f Hf. unfold uniform in Hu.
  assert (Dg : is_direct_read g = false) by (unfold is_direct_read; rewrite Hs; destruct (f_mode g); reflexivity).
  assert (Hg' : In g (filter (fun f => negb (is_direct_read f)) fs)) by (apply filter_In; rewrite Dg; auto).
  destruct (filter (fun f => negb (is_direct_read f)) fs) as [|h t] eqn:E; [destruct Hg'|].
  destruct (f_shape h) eqn:Eh; try discriminate; rewrite forallb_forall in Hu.
  - destruct Hg' as [<-|Hg']; [congruence|]. apply Hu in Hg'. rewrite Hs in Hg'. discriminate.
  - destruct Hg' as [<-|Hg']; [congruence|]. apply Hu in Hg'. rewrite Hs in Hg'. discriminate.
  - assert (Hgh : shape_eqb (f_shape g) (ShLocked m0) = true) by (apply Hu; exact Hg).
    rewrite Hs in Hgh. apply shape_eqb_eq in Hgh. rewrite Hgh.
    apply shape_eqb_eq. apply Hu. exact Hf.
Qed.

Section Discipline.
  Variable s : site.
  Hypothesis Hok : site_ok s = true.

  Let wp := written_paths s.
  Let is_w (f : fact) := existsb (String.eqb (f_path f)) wp.

  Lemma ok_uniform : forall f, In f (s_facts s) -> is_w f = true -> uniform (facts_of s (f_path f)) = true.
  Proof.
    intros f Hf Hw. unfold site_ok in Hok. apply andb_true_iff in Hok. destruct Hok as [_ H2].
    rewrite forallb_forall in H2. unfold is_w in Hw. apply existsb_exists in Hw.
    destruct Hw as [p [Hp He]]. apply String.eqb_eq in He. rewrite He. apply H2. exact Hp.
  Qed.

  Lemma ok_not_reserved : forall f, In f (s_facts s) -> reserved (f_path f) = false.
  Proof.
    intros f Hf. unfold site_ok in Hok. apply andb_true_iff in Hok. destruct Hok as [H1 _].
    rewrite forallb_forall in H1. specialize (H1 f Hf). apply negb_true_iff in H1. exact H1.
  Qed.

  Lemma in_facts_of : forall f, In f (s_facts s) -> In f (facts_of s (f_path f)).
  Proof. intros f Hf. unfold facts_of. apply filter_In. split; [exact Hf|apply String.eqb_refl]. Qed.

  (* the accesses of a body / an epilogue, classified *)
  Inductive body_acc (k : nat) (a : acc) : Prop :=
  | BA_idx : forall f, In f (s_facts s) -> is_w f = true -> f_shape f = ShIdx ->
      a = mkAcc (f_mode f) (Idx (f_path f) k) [] -> body_acc k a
  | BA_lock : forall f m, In f (s_facts s) -> is_w f = true -> f_shape f = ShLocked m ->
      a = mkAcc (f_mode f) (Var (f_path f)) [m] -> body_acc k a
  | BA_hdr : forall f, In f (s_facts s) -> is_w f = true -> is_direct_read f = true ->
      a = mkAcc Rd (Var (f_path f)) [] -> body_acc k a
  | BA_ro : forall f, In f (s_facts s) -> is_w f = false ->
      a = mkAcc Rd (Var (f_path f)) [] -> body_acc k a.

  Lemma site_body_acc : forall k a, In a (site_body s k) -> body_acc k a.
  Proof.
    intros k a H. unfold site_body in H. apply in_app_or in H. destruct H as [H|H].
    - apply in_flat_map in H. destruct H as [f [Hf Ha]]. apply filter_In in Hf. destruct Hf as [Hf Hw].
      unfold fact_body in Ha. destruct (f_shape f) eqn:E; try (exfalso; exact Ha).
      + destruct Ha as [<-|[]]. eapply BA_idx; eauto.
      + destruct Ha as [<-|[]]. eapply BA_lock; eauto.
      + destruct (is_direct_read f) eqn:D; [|destruct Ha]. destruct Ha as [<-|[]]. eapply BA_hdr; eauto.
    - apply in_flat_map in H. destruct H as [f [Hf Ha]]. unfold fact_ro in Ha.
      fold wp in Ha. destruct (existsb (String.eqb (f_path f)) wp) eqn:E; [destruct Ha|].
      destruct Ha as [<-|[]]. eapply BA_ro; eauto.
  Qed.

  Lemma site_epi_acc : forall i a, In a (site_epi s i) ->
    exists f, In f (s_facts s) /\ is_w f = true /\ f_shape f = ShWorker /\ a = mkAcc (f_mode f) (Idx (f_path f) i) [].
  Proof.
    intros i a H. unfold site_epi in H. apply in_flat_map in H. destruct H as [f [Hf Ha]].
    apply filter_In in Hf. destruct Hf as [Hf Hw]. unfold fact_epi in Ha.
    destruct (f_shape f) eqn:E; try (exfalso; exact Ha); destruct Ha as [<-|[]]. exists f. auto.
  Qed.

  Lemma nd_of_shape : forall f, f_shape f = ShIdx \/ f_shape f = ShWorker \/ (exists m, f_shape f = ShLocked m) ->
    is_direct_read f = false.
  Proof.
    intros f [H|[H|[m H]]]; unfold is_direct_read; rewrite H; destruct (f_mode f); reflexivity.
  Qed.

  Lemma same_path_same_shape : forall f g, In f (s_facts s) -> In g (s_facts s) -> is_w f = true ->
    f_path f = f_path g -> is_direct_read f = false -> is_direct_read g = false -> f_shape f = f_shape g.
  Proof.
    intros f g Hf Hg Hw Hp Df Dg. apply (uniform_nd_same (facts_of s (f_path f))); try assumption.
    - apply ok_uniform; assumption.
    - apply in_facts_of. exact Hf.
    - rewrite Hp. apply in_facts_of. exact Hg.
  Qed.

  Lemma locked_path_all_locked : forall f g m, In f (s_facts s) -> In g (s_facts s) -> is_w f = true ->
    f_path f = f_path g -> f_shape f = ShLocked m -> f_shape g = ShLocked m.
  Proof.
    intros f g m Hf Hg Hw Hp Hs. apply (uniform_locked_all (facts_of s (f_path f)) f m); try assumption.
    - apply ok_uniform; assumption.
    - apply in_facts_of. exact Hf.
    - rewrite Hp. apply in_facts_of. exact Hg.
  Qed.

  Lemma site_record_local : record_local (site_body s).
  Proof.
    intros k1 k2 a1 a2 Hne H1 H2 Hc.
    apply site_body_acc in H1. apply site_body_acc in H2.
    pose proof (conflict_loc _ _ Hc) as Hl.
    destruct H1 as [f Hf Hw Hs ->|f m Hf Hw Hs ->|f Hf Hw Hd ->|f Hf Hw ->];
    destruct H2 as [g Hg Hw' Hs' ->|g m' Hg Hw' Hs' ->|g Hg Hw' Hd' ->|g Hg Hw' ->]; cbn in Hl; try discriminate.
    - inversion Hl. contradiction.
    - inversion Hl as [Hp].
      pose proof (locked_path_all_locked f g m Hf Hg Hw Hp Hs) as E. rewrite Hs' in E. inversion E; subst m'.
      revert Hc. apply (drf_mutex _ _ m); cbn; auto.
    - inversion Hl as [Hp].
      pose proof (locked_path_all_locked f g m Hf Hg Hw Hp Hs) as E.
      unfold is_direct_read in Hd'. rewrite E in Hd'. destruct (f_mode g); discriminate.
    - inversion Hl as [Hp]. unfold is_w in Hw, Hw'. rewrite Hp in Hw. congruence.
    - inversion Hl as [Hp]. symmetry in Hp.
      pose proof (locked_path_all_locked g f m' Hg Hf Hw' Hp Hs') as E.
      unfold is_direct_read in Hd. rewrite E in Hd. destruct (f_mode f); discriminate.
    - revert Hc. apply reads_no_conflict; reflexivity.
    - revert Hc. apply reads_no_conflict; reflexivity.
    - inversion Hl as [Hp]. unfold is_w in Hw, Hw'. rewrite Hp in Hw. congruence.
    - revert Hc. apply reads_no_conflict; reflexivity.
    - revert Hc. apply reads_no_conflict; reflexivity.
  Qed.

  Lemma site_epilogue_local : epilogue_local (site_body s) (site_epi s).
  Proof.
    split.
    - intros i j a b Hne Ha Hb Hc. apply site_epi_acc in Ha. apply site_epi_acc in Hb.
      destruct Ha as [f [_ [_ [_ ->]]]]. destruct Hb as [g [_ [_ [_ ->]]]].
      apply conflict_loc in Hc. cbn in Hc. inversion Hc. contradiction.
    - intros i k a b Ha Hb Hc. apply site_epi_acc in Ha. destruct Ha as [f [Hf [Hw [Hs ->]]]].
      apply site_body_acc in Hb. apply conflict_loc in Hc.
      destruct Hb as [g Hg Hw' Hs' ->|g m' Hg Hw' Hs' ->|g Hg Hw' Hd' ->|g Hg Hw' ->]; cbn in Hc; try discriminate.
      inversion Hc as [[Hp Hik]].
      assert (E : f_shape f = f_shape g).
      { apply same_path_same_shape; try assumption; apply nd_of_shape; [right; left; exact Hs|left; exact Hs']. }
      rewrite Hs, Hs' in E. discriminate.
  Qed.

  Lemma not_reserved_avoids : forall p m l, reserved p = false -> avoids_tm (mkAcc m (Var p) l).
  Proof.
    intros p m l H. unfold reserved in H. cbn in H.
    apply orb_false_iff in H. destruct H as [H1 H]. apply orb_false_iff in H. destruct H as [H2 H].
    apply orb_false_iff in H. destruct H as [H3 _].
    apply String.eqb_neq in H1, H2, H3.
    unfold avoids_tm, tm_err. cbn. repeat split; intros E; inversion E; contradiction.
  Qed.

  Lemma site_body_avoids : forall k a, In a (site_body s k) -> avoids_tm a.
  Proof.
    intros k a H. apply site_body_acc in H.
    destruct H as [f Hf Hw Hs ->|f m Hf Hw Hs ->|f Hf Hw Hd ->|f Hf Hw ->].
    - unfold avoids_tm, tm_err. cbn. repeat split; discriminate.
    - apply not_reserved_avoids. apply ok_not_reserved. exact Hf.
    - apply not_reserved_avoids. apply ok_not_reserved. exact Hf.
    - apply not_reserved_avoids. apply ok_not_reserved. exact Hf.
  Qed.

  Lemma site_epi_avoids : forall i a, In a (site_epi s i) -> avoids_tm a.
  Proof.
    intros i a H. apply site_epi_acc in H. destruct H as [f [_ [_ [_ ->]]]].
    unfold avoids_tm, tm_err. cbn. repeat split; discriminate.
  Qed.

  (* a site that passes the syntactic check is race free on every error-free run - and on every run
     once HasError takes the lock - for every record count and every number of goroutines *)
  Theorem discipline_sound_gen : forall hl cap pre post fails len n, 1 <= n ->
    ((forall k, fails k = false) \/ In "gm.grTaskMutex"%string hl) ->
    race_free cap (site_exec_with hl s pre post fails len n).
  Proof.
    intros hl cap pre post fails len n Hn Hf. unfold site_exec_with. apply tm_drf_gen; try assumption.
    - apply site_record_local.
    - apply site_epilogue_local.
    - apply site_body_avoids.
    - apply site_epi_avoids.
  Qed.

  Theorem discipline_sound : forall cap pre post fails len n, 1 <= n -> (forall k, fails k = false) ->
    race_free cap (site_exec s pre post fails len n).
  Proof. intros. apply discipline_sound_gen; auto. Qed.
End Discipline.

(* ================================================================================================ *)
(* deciding "does not happen before" on a concrete execution (for the refutations)                  *)
(* ================================================================================================ *)
Definition step_eqb (a b : step) : bool :=
  match a, b with
  | SGo t, SGo t' => Nat.eqb t t'
  | SWait t, SWait t' => Nat.eqb t t'
  | SSend c k, SSend c' k' => String.eqb c c' && Nat.eqb k k'
  | SRecv c k, SRecv c' k' => String.eqb c c' && Nat.eqb k k'
  | SClose c, SClose c' => String.eqb c c'
  | SRecvClosed c, SRecvClosed c' => String.eqb c c'
  | _, _ => false
  end.

Definition ev_eqb (a b : ev) : bool := Nat.eqb (fst a) (fst b) && Nat.eqb (snd a) (snd b).
Lemma ev_eqb_eq : forall a b, ev_eqb a b = true <-> a = b.
Proof.
  intros [a1 a2] [b1 b2]. unfold ev_eqb. cbn. rewrite andb_true_iff, !Nat.eqb_eq. split.
  - intros [-> ->]. reflexivity.
  - intros H. inversion H. auto.
Qed.
Definition ev_mem (e : ev) (l : list ev) : bool := existsb (ev_eqb e) l.

Section Decide.
  Variable cap : string -> nat.
  Variable x : exec.

  (* a boolean that is true on every edge (and possibly more: more edges only hide races) *)
  Definition edgeb (e e' : ev) : bool :=
    match step_at x e, step_at x e' with
    | Some s, Some s' =>
        (Nat.eqb (fst e) (fst e') && Nat.eqb (snd e') (S (snd e)))
        || (match s with SGo t => ev_eqb e' (t, 0) | _ => false end)
        || (match s' with SWait t => Nat.eqb (fst e) t && Nat.eqb (List.length (nth t x [])) (S (snd e)) | _ => false end)
        || (match s, s' with
            | SSend c k, SRecv c' k' => String.eqb c c' && Nat.eqb k k'
            | SClose c, SRecvClosed c' => String.eqb c c'
            | SRecv c k, SSend c' k' => String.eqb c c' && Nat.eqb k' (k + cap c)
            | _, _ => false
            end)
    | _, _ => false
    end.

  Lemma edge_edgeb : forall e e', edge cap x e e' -> edgeb e e' = true.
  Proof.
    intros e e' H. unfold edgeb.
    destruct H as [t i s Hs | e t s Hg Hs | e t i Hw Hl | e1 e2 c k H1 H2 | e1 e2 c H1 H2 | e1 e2 c k H1 H2].
    - assert (Hp : exists s0, step_at x (t, i) = Some s0).
      { unfold step_at in *. cbn [fst snd] in *. destruct (nth_error (nth t x []) i) eqn:E; [eauto|].
        apply nth_error_None in E. assert (nth_error (nth t x []) (S i) = None) by (apply nth_error_None; lia). congruence. }
      destruct Hp as [s0 Hs0]. rewrite Hs0, Hs. cbn [fst snd]. rewrite !Nat.eqb_refl. reflexivity.
    - rewrite Hg, Hs. unfold ev_eqb. cbn [fst snd]. rewrite !Nat.eqb_refl. cbn. rewrite orb_true_r. reflexivity.
    - assert (Hp : exists s0, step_at x (t, i) = Some s0).
      { unfold step_at. cbn [fst snd]. destruct (nth_error (nth t x []) i) eqn:E; [eauto|].
        apply nth_error_None in E. lia. }
      destruct Hp as [s0 Hs0]. rewrite Hs0, Hw. cbn [fst snd]. rewrite Hl, !Nat.eqb_refl. cbn.
      rewrite !orb_true_r. reflexivity.
    - rewrite H1, H2. rewrite String.eqb_refl, Nat.eqb_refl. cbn. rewrite !orb_true_r. reflexivity.
    - rewrite H1, H2. rewrite String.eqb_refl. cbn. rewrite !orb_true_r. reflexivity.
    - rewrite H1, H2. rewrite String.eqb_refl, Nat.eqb_refl. cbn. rewrite !orb_true_r. reflexivity.
  Qed.

  Lemma edge_target_step : forall e e', edge cap x e e' -> exists s, step_at x e' = Some s.
  Proof.
    intros e e' H. destruct H; eauto.
  Qed.

  (* all positions that hold a step *)
  Definition events : list ev :=
    List.concat (map (fun t => map (fun i => (t, i)) (seq 0 (List.length (nth t x [])))) (seq 0 (List.length x))).

  Lemma events_complete : forall e s, step_at x e = Some s -> In e events.
  Proof.
    intros [t i] s H. unfold step_at in H. cbn [fst snd] in H.
    assert (Hi : i < List.length (nth t x [])) by (apply nth_error_Some; congruence).
    assert (Ht : t < List.length x).
    { destruct (Nat.lt_ge_cases t (List.length x)) as [Hlt|Hge]; [exact Hlt|].
      rewrite nth_overflow in Hi by exact Hge. cbn in Hi. lia. }
    unfold events. apply List.in_concat. exists (map (fun i => (t, i)) (seq 0 (List.length (nth t x [])))).
    split.
    - apply in_map_iff. exists t. split; [reflexivity|apply in_seq; lia].
    - apply in_map_iff. exists i. split; [reflexivity|apply in_seq; lia].
  Qed.

  (* S is closed under the edges *)
  Definition closedb (Q : list ev) : bool :=
    forallb (fun e => forallb (fun e' => negb (edgeb e e') || ev_mem e' Q) events) Q.

  Lemma closed_edge : forall Q e e', closedb Q = true -> ev_mem e Q = true -> edge cap x e e' -> ev_mem e' Q = true.
  Proof.
    intros Q e e' Hc He Hedge. unfold closedb in Hc. rewrite forallb_forall in Hc.
    unfold ev_mem in He. apply existsb_exists in He. destruct He as [e0 [He0 Heq]].
    apply ev_eqb_eq in Heq. subst e0. specialize (Hc e He0). rewrite forallb_forall in Hc.
    destruct (edge_target_step _ _ Hedge) as [s Hs].
    specialize (Hc e' (events_complete e' s Hs)).
    rewrite (edge_edgeb _ _ Hedge) in Hc. cbn in Hc. exact Hc.
  Qed.

  Lemma closed_hb : forall Q e e', closedb Q = true -> hb cap x e e' -> ev_mem e Q = true -> ev_mem e' Q = true.
  Proof.
    intros Q e e' Hc H. induction H as [e e' He | e e' e'' _ IH1 _ IH2]; intros Hm.
    - eapply closed_edge; eauto.
    - auto.
  Qed.

  (* a closed set that contains e but not e' witnesses that e does not happen before e' *)
  Lemma not_hb_by_closed_set : forall Q e e', closedb Q = true -> ev_mem e Q = true -> ev_mem e' Q = false ->
    ~ hb cap x e e'.
  Proof.
    intros Q e e' Hc He He' H. rewrite (closed_hb Q e e' Hc H He) in He'. discriminate.
  Qed.

  (* everything reachable from e along edgeb, by saturation (fuel = number of rounds) *)
  Fixpoint saturate (fuel : nat) (Q : list ev) : list ev :=
    match fuel with
    | O => Q
    | S f =>
        let new := filter (fun e' => negb (ev_mem e' Q) && existsb (fun e => edgeb e e') Q) events in
        match new with [] => Q | _ => saturate f (Q ++ new) end
    end.
  Definition reach (e : ev) : list ev := saturate (List.length events) [e].

  (* decidable race witness: conflicting accesses in different threads, unordered both ways *)
  Definition race_witnessb (e1 e2 : ev) : bool :=
    match step_at x e1, step_at x e2 with
    | Some (SAcc a), Some (SAcc b) =>
        negb (Nat.eqb (fst e1) (fst e2)) && conflictb a b
        && closedb (reach e1) && negb (ev_mem e2 (reach e1))
        && closedb (reach e2) && negb (ev_mem e1 (reach e2))
    | _, _ => false
    end.

  Lemma saturate_keeps : forall fuel Q e, ev_mem e Q = true -> ev_mem e (saturate fuel Q) = true.
  Proof.
    induction fuel as [|f IH]; intros Q e H; [exact H|]. cbn [saturate].
    destruct (filter _ events) as [|h t] eqn:E; [exact H|].
    apply IH. unfold ev_mem in *. rewrite existsb_app, H. reflexivity.
  Qed.

  Lemma race_witness_sound : forall e1 e2, race_witnessb e1 e2 = true -> race cap x.
  Proof.
    intros e1 e2 H. unfold race_witnessb in H.
    destruct (step_at x e1) as [[a| | | | | |]|] eqn:E1; try discriminate.
    destruct (step_at x e2) as [[b| | | | | |]|] eqn:E2; try discriminate.
    repeat (apply andb_true_iff in H; destruct H as [H ?]).
    exists e1, e2, a, b. split; [apply Nat.eqb_neq; apply negb_true_iff; assumption|].
    split; [exact E1|]. split; [exact E2|]. split; [assumption|].
    split.
    - apply (not_hb_by_closed_set (reach e1)); try assumption.
      + unfold reach. apply saturate_keeps. unfold ev_mem. cbn. rewrite (proj2 (ev_eqb_eq e1 e1) eq_refl). reflexivity.
      + apply negb_true_iff. assumption.
    - apply (not_hb_by_closed_set (reach e2)); try assumption.
      + unfold reach. apply saturate_keeps. unfold ev_mem. cbn. rewrite (proj2 (ev_eqb_eq e2 e2) eq_refl). reflexivity.
      + apply negb_true_iff. assumption.
  Qed.

  (* ---- and the converse direction: deciding race FREEDOM of a concrete execution ---------------- *)
  Lemma edgeb_edge : forall e e', edgeb e e' = true -> edge cap x e e'.
  Proof.
    intros [t i] [t' i'] H. unfold edgeb in H.
    destruct (step_at x (t, i)) as [s|] eqn:E1; [|discriminate].
    destruct (step_at x (t', i')) as [s'|] eqn:E2; [|discriminate].
    cbn [fst snd] in H.
    apply orb_true_iff in H. destruct H as [H|H].
    - apply orb_true_iff in H. destruct H as [H|H].
      + apply orb_true_iff in H. destruct H as [H|H].
        * apply andb_true_iff in H. destruct H as [H1 H2]. apply Nat.eqb_eq in H1, H2. subst t' i'.
          eapply E_po; eauto.
        * destruct s; try discriminate. apply ev_eqb_eq in H. inversion H; subst.
          eapply E_go; eauto.
      + destruct s'; try discriminate. apply andb_true_iff in H. destruct H as [H1 H2].
        apply Nat.eqb_eq in H1, H2. subst t. eapply E_wait; eauto.
    - destruct s; try discriminate; destruct s'; try discriminate.
      + apply andb_true_iff in H. destruct H as [H1 H2]. apply String.eqb_eq in H1. apply Nat.eqb_eq in H2. subst.
        eapply E_chan; eauto.
      + apply andb_true_iff in H. destruct H as [H1 H2]. apply String.eqb_eq in H1. apply Nat.eqb_eq in H2. subst.
        eapply E_cap; eauto.
      + apply String.eqb_eq in H. subst. eapply E_close; eauto.
  Qed.

  Lemma ev_mem_app : forall e l1 l2, ev_mem e (l1 ++ l2) = (ev_mem e l1 || ev_mem e l2)%bool.
  Proof. intros. unfold ev_mem. apply existsb_app. Qed.

  Lemma saturate_sound : forall fuel Q e,
    (forall q, ev_mem q Q = true -> q = e \/ hb cap x e q) ->
    forall q, ev_mem q (saturate fuel Q) = true -> q = e \/ hb cap x e q.
  Proof.
    induction fuel as [|f IH]; intros Q e HQ q Hq; [apply HQ; exact Hq|].
    cbn [saturate] in Hq.
    destruct (filter (fun e' => negb (ev_mem e' Q) && existsb (fun e0 => edgeb e0 e') Q) events) as [|h t] eqn:E.
    - apply HQ. exact Hq.
    - apply (IH (Q ++ h :: t) e); [|exact Hq].
      intros q' Hq'. rewrite ev_mem_app in Hq'. apply orb_true_iff in Hq'. destruct Hq' as [Hq'|Hq']; [apply HQ; exact Hq'|].
      unfold ev_mem in Hq'. apply existsb_exists in Hq'. destruct Hq' as [q0 [Hin Heq]].
      apply ev_eqb_eq in Heq. subst q0. rewrite <- E in Hin. apply filter_In in Hin. destruct Hin as [_ Hin].
      apply andb_true_iff in Hin. destruct Hin as [_ Hin]. apply existsb_exists in Hin.
      destruct Hin as [e0 [He0 Hedge]]. apply edgeb_edge in Hedge.
      assert (Hm : ev_mem e0 Q = true).
      { unfold ev_mem. apply existsb_exists. exists e0. split; [exact He0|apply ev_eqb_eq; reflexivity]. }
      right. destruct (HQ e0 Hm) as [->|Hhb]; [apply t_step; exact Hedge|].
      eapply t_trans; [exact Hhb|apply t_step; exact Hedge].
  Qed.

  Lemma reach_sound : forall e q, ev_mem q (reach e) = true -> q = e \/ hb cap x e q.
  Proof.
    intros e q H. unfold reach in H. apply (saturate_sound (List.length events) [e] e); [|exact H].
    intros q' Hq'. unfold ev_mem in Hq'. cbn in Hq'. rewrite orb_false_r in Hq'. apply ev_eqb_eq in Hq'. left. exact Hq'.
  Qed.

  Definition pair_okb (e1 e2 : ev) : bool :=
    match step_at x e1, step_at x e2 with
    | Some (SAcc a), Some (SAcc b) =>
        Nat.eqb (fst e1) (fst e2) || negb (conflictb a b) || ev_mem e2 (reach e1) || ev_mem e1 (reach e2)
    | _, _ => true
    end.
  Definition race_freeb : bool := forallb (fun e1 => forallb (pair_okb e1) events) events.

  Lemma race_freeb_sound : race_freeb = true -> race_free cap x.
  Proof.
    intros H [e1 [e2 [a [b [Hne [H1 [H2 [Hc [Hn1 Hn2]]]]]]]]].
    unfold race_freeb in H. rewrite forallb_forall in H.
    specialize (H e1 (events_complete e1 _ H1)). rewrite forallb_forall in H.
    specialize (H e2 (events_complete e2 _ H2)). unfold pair_okb in H. rewrite H1, H2 in H.
    apply orb_true_iff in H. destruct H as [H|H].
    - apply orb_true_iff in H. destruct H as [H|H].
      + apply orb_true_iff in H. destruct H as [H|H].
        * apply Nat.eqb_eq in H. contradiction.
        * unfold conflict in Hc. rewrite Hc in H. discriminate.
      + apply reach_sound in H. destruct H as [->|H]; [apply Hne; reflexivity|contradiction].
    - apply reach_sound in H. destruct H as [->|H]; [apply Hne; reflexivity|contradiction].
  Qed.
End Decide.
