(* Proofs for C17. *)
From Coq Require Import ZArith List Bool Lia Permutation Floats.
Require Import Csvq.Model.Base Csvq.Model.Value Csvq.Model.Compare Csvq.Model.Arith Csvq.Model.Expr
               Csvq.Model.Key Csvq.Model.SortVal Csvq.Model.Query Csvq.Model.Analytic.
Require Import Csvq.Proofs.Key Csvq.Proofs.Order Csvq.Proofs.Query.
Import ListNotations.
Open Scope Z_scope.
Local Arguments Z.add : simpl never.
Local Arguments Z.sub : simpl never.
Local Arguments Z.of_nat : simpl never.

(* ---- positions --------------------------------------------------------------------------------- *)
Lemma zseq_length s n : length (zseq s n) = n.
Proof. revert s. induction n as [|n IH]; intros s; simpl; [reflexivity|]. rewrite IH. reflexivity. Qed.

Lemma zseq_nth : forall n s k, (k < n)%nat -> nth k (zseq s n) 0 = s + Z.of_nat k.
Proof.
  induction n as [|n IH]; intros s k H; [lia|]. destruct k as [|k]; simpl.
  - lia.
  - rewrite IH by lia. lia.
Qed.

(* ---- frames ------------------------------------------------------------------------------------ *)
Lemma nth_error_skipn' {A} : forall (l : list A) n k, nth_error (skipn n l) k = nth_error l (n + k).
Proof.
  induction l as [|x l IH]; intros n k.
  - rewrite skipn_nil. destruct k, n; reflexivity.
  - destruct n as [|n]; [reflexivity|]. simpl. apply IH.
Qed.

Lemma nth_error_firstn' {A} : forall (l : list A) n k, (k < n)%nat -> nth_error (firstn n l) k = nth_error l k.
Proof.
  induction l as [|x l IH]; intros n k H.
  - rewrite firstn_nil. reflexivity.
  - destruct n as [|n]; [lia|]. destruct k as [|k]; [reflexivity|]. simpl. apply IH. lia.
Qed.

(* the values of a frame are exactly the partition members at the positions max(low,0) ..
   min(high,n-1), in order *)
Theorem frame_slice_spec {A} (l : list A) low high :
  let lo := Z.max low 0 in let hi := Z.min high (Z.of_nat (length l) - 1) in
  length (frame_slice l low high) = Z.to_nat (Z.max 0 (hi - lo + 1)) /\
  forall k, (Z.of_nat k <= hi - lo) -> nth_error (frame_slice l low high) k = nth_error l (Z.to_nat lo + k).
Proof.
  intros lo hi. unfold frame_slice. fold lo. fold hi.
  destruct (Z.ltb_spec hi lo) as [H|H].
  - split; [simpl; lia|]. intros k Hk. lia.
  - split.
    + rewrite firstn_length, skipn_length. lia.
    + intros k Hk. rewrite nth_error_firstn' by lia. apply nth_error_skipn'.
Qed.

Lemma frame_slice_whole {A} (l : list A) : frame_slice l 0 (Z.of_nat (length l) - 1) = l.
Proof.
  unfold frame_slice. rewrite Z.max_id, Z.min_id.
  destruct (Z.ltb_spec (Z.of_nat (length l) - 1) 0) as [H|H].
  - destruct l; [reflexivity | simpl in H; lia].
  - simpl. replace (Z.to_nat (Z.of_nat (length l) - 1 - 0 + 1)) with (length l) by lia. apply firstn_all.
Qed.

(* ---- FIRST_VALUE / NTH_VALUE ---------------------------------------------------------------------- *)
Lemma nth_in_frame_spec : forall vals n count, count < n ->
  nth_in_frame vals false n count = nth (Z.to_nat (n - count - 1)) vals VNull.
Proof.
  induction vals as [|v vals IH]; intros n count H; simpl.
  - destruct (Z.to_nat (n - count - 1)); reflexivity.
  - destruct (Z.eqb_spec (count + 1) n) as [E|E].
    + replace (Z.to_nat (n - count - 1)) with 0%nat by lia. reflexivity.
    + rewrite IH by lia. replace (Z.to_nat (n - count - 1)) with (S (Z.to_nat (n - (count + 1) - 1))) by lia. reflexivity.
Qed.

Lemma nth_in_frame_ignore_nulls : forall vals n count,
  nth_in_frame vals true n count = nth_in_frame (filter (fun v => negb (is_null v)) vals) false n count.
Proof.
  induction vals as [|v vals IH]; intros n count; simpl; [reflexivity|].
  destruct (is_null v) eqn:E; simpl.
  - apply IH.
  - destruct (count + 1 =? n); [reflexivity | apply IH].
Qed.

Theorem nth_value_spec vals ign n : 1 <= n ->
  nth_in_frame vals ign n 0 =
  nth (Z.to_nat (n - 1)) (if ign then filter (fun v => negb (is_null v)) vals else vals) VNull.
Proof.
  intros H. destruct ign.
  - rewrite nth_in_frame_ignore_nulls. rewrite nth_in_frame_spec by lia. f_equal. lia.
  - rewrite nth_in_frame_spec by lia. f_equal. lia.
Qed.

(* ---- LAG ------------------------------------------------------------------------------------------- *)
Lemma rev_firstn_head {A} : forall (l : list A) k d, (k < length l)%nat ->
  exists r, rev (firstn (S k) l) = nth k l d :: r.
Proof.
  induction l as [|x l IH]; intros k d H; [simpl in H; lia|].
  destruct k as [|k].
  - exists []. reflexivity.
  - simpl in H. destruct (IH k d ltac:(lia)) as [r Hr].
    change (firstn (S (S k)) (x :: l)) with (x :: firstn (S k) l). cbn [rev]. rewrite Hr.
    exists (r ++ [x]). reflexivity.
Qed.

Theorem lag_spec vals i offset d : 0 <= i < Z.of_nat (length vals) ->
  lag_at vals i offset false d =
  if (0 <=? i - offset) && (i - offset <=? i) then nth (Z.to_nat (i - offset)) vals VNull else d.
Proof.
  intros Hi. unfold lag_at.
  destruct ((0 <=? i - offset) && (i - offset <=? i)) eqn:E; [|reflexivity].
  apply andb_true_iff in E. destruct E as [E1 E2]. apply Z.leb_le in E1, E2.
  replace (Z.to_nat (i - offset + 1)) with (S (Z.to_nat (i - offset))) by lia.
  destruct (rev_firstn_head vals (Z.to_nat (i - offset)) VNull ltac:(lia)) as [r Hr].
  rewrite Hr. reflexivity.
Qed.

(* ---- ROW_NUMBER ------------------------------------------------------------------------------------ *)
Theorem row_number_spec strict ac ho p :
  analyze_partition strict ARowNumber ac ho p = Ok (map (fun c => VInt (c + 1)) (zseq 0 (length p))) /\
  forall k, (k < length p)%nat -> nth k (map (fun c => VInt (c + 1)) (zseq 0 (length p))) VNull = VInt (Z.of_nat k + 1).
Proof.
  split; [reflexivity|]. intros k H.
  set (g := fun c : Z => VInt (c + 1)).
  rewrite (nth_indep (map g (zseq 0 (length p))) VNull (g 0)) by (rewrite map_length, zseq_length; exact H).
  rewrite map_nth. rewrite zseq_nth by exact H. unfold g. f_equal.
Qed.

(* ---- aggregates with OVER: the aggregate of the frame's values --------------------------------------- *)
Theorem windowed_aggregate_spec strict g dist e ac ho p vals :
  mapM (fun r => eval r e) (map fst p) = Ok vals ->
  analyze_partition strict (AAgg g dist e) ac ho p =
  Ok (map (fun c => let '(lo, hi) := frame_of ho (a_frame ac) c (Z.of_nat (length p)) in
                    let fr := frame_slice vals lo hi in
                    apply_agg g (if dist then distinguish strict fr else fr)) (zseq 0 (length p))).
Proof.
  intros H. unfold analyze_partition. cbv zeta. unfold pmember, row in *. rewrite H. cbn [bind]. f_equal. rewrite map_map. apply map_ext.
  intros c. destruct (frame_of ho (a_frame ac) c (Z.of_nat (length p))). reflexivity.
Qed.

(* without ORDER BY, and for UNBOUNDED PRECEDING .. UNBOUNDED FOLLOWING, the frame is the partition *)
Lemma frame_of_whole fs c len : frame_of false fs c len = (0, len - 1).
Proof. reflexivity. Qed.
Lemma frame_of_unbounded c len : frame_of true (Some (FUnbPreceding, Some FUnbFollowing)) c len = (0, len - 1).
Proof. reflexivity. Qed.

(* ---- rows and other columns are preserved ------------------------------------------------------------ *)
Lemma zip_exact_fst {A B} : forall (a : list A) (b : list B) r, zip_exact a b = Ok r -> map fst r = a.
Proof.
  induction a as [|x a IH]; destruct b as [|y b]; simpl; intros r H; try discriminate.
  - inversion H. reflexivity.
  - destruct (zip_exact a b) eqn:E; simpl in H; [|discriminate]. inversion H. simpl. f_equal. apply IH with (b := b). exact E.
Qed.

Lemma mapM_parts (f : list nat -> res (list (row * val))) (g : list nat -> list row) :
  (forall idxs r, f idxs = Ok r -> map fst r = g idxs) ->
  forall ll parts, mapM f ll = Ok parts -> map (map fst) parts = map g ll.
Proof.
  intros Hf. induction ll as [|idxs ll IH]; simpl; intros parts H; [inversion H; reflexivity|].
  destruct (f idxs) as [r|] eqn:E; simpl in H; [|discriminate].
  destruct (mapM f ll) as [ps|] eqn:E2; simpl in H; [|discriminate].
  inversion H. simpl. f_equal; [apply Hf; exact E | apply IH; reflexivity].
Qed.

Lemma removelast_app_one {A} (l : list A) x : removelast (l ++ [x]) = l.
Proof. rewrite removelast_app by discriminate. simpl. apply app_nil_r. Qed.

Lemma pick_perm {A} (l : list A) idxs : Permutation idxs (seq 0 (length l)) -> Permutation (pick l idxs) l.
Proof.
  intros P. unfold pick. eapply Permutation_trans; [apply Permutation_flat_map; exact P|].
  rewrite pick_seq. reflexivity.
Qed.

Theorem analyze_preserves_rows strict f ac rows out :
  analyze strict f ac rows = Ok out ->
  Permutation (map (fun r => removelast r) out) rows /\ length out = length rows.
Proof.
  unfold analyze.
  match goal with |- (bind ?S _) = _ -> _ => remember S as srt eqn:Esrt end.
  assert (Hs : forall sorted, srt = Ok sorted -> Permutation (map fst sorted) rows).
  { intros sorted Hso. rewrite Esrt in Hso. clear Esrt. destruct (a_order ac) as [|o os].
    - inversion Hso. rewrite map_map. simpl. rewrite map_id. reflexivity.
    - destruct (Nat.ltb (length rows) 2).
      + inversion Hso. rewrite map_map. simpl. rewrite map_id. reflexivity.
      + destruct (mapM (fun r => do ks <- sort_keys strict (o :: os) r r; Ok (ks, r)) rows) as [keyed|] eqn:E; cbn [bind] in Hso; [|discriminate Hso].
        inversion Hso. rewrite map_map. simpl.
        assert (K : map snd keyed = rows).
        { clear -E. revert keyed E. induction rows as [|r rows IH]; simpl; intros keyed E; [inversion E; reflexivity|].
          destruct (sort_keys strict (o :: os) r r); simpl in E; [|discriminate].
          destruct (mapM _ rows) as [k2|] eqn:E2; simpl in E; [|discriminate].
          inversion E. simpl. f_equal. apply IH. reflexivity. }
        rewrite <- K. apply Permutation_map. apply isort_perm. }
  clear Esrt.
  destruct srt as [sorted|]; cbn [bind]; [|intros H; discriminate H].
  specialize (Hs sorted eq_refl).
  match goal with |- (bind ?S _) = _ -> _ => destruct S as [pkeys|] eqn:Ek end; cbn [bind]; [|intros H; discriminate H].
  match goal with |- context [mapM ?f (group_keys pkeys)] => destruct (mapM f (group_keys pkeys)) as [parts|] eqn:Ep end; cbn [bind]; [|intros H; discriminate H].
  intros H. inversion H. subst out. clear H.
  assert (Hlen : length pkeys = length sorted) by (eapply mapM_length; exact Ek).
  assert (Hparts : map (map fst) parts = map (fun idxs => map fst (pick sorted idxs)) (group_keys pkeys)).
  { eapply mapM_parts; [|exact Ep]. intros idxs r Hr. simpl in Hr.
    destruct (analyze_partition strict f ac _ (pick sorted idxs)) as [vals|]; simpl in Hr; [|discriminate].
    eapply zip_exact_fst. exact Hr. }
  assert (P : Permutation (concat (group_keys pkeys)) (seq 0 (length sorted))).
  { unfold group_keys. rewrite <- Hlen.
    assert (F : map fst (indexed pkeys) = seq 0 (length pkeys)) by (unfold indexed; apply combine_seq_fst).
    rewrite <- F. apply group_partition. }
  assert (E1 : map (fun r => removelast r) (map (fun rv : row * val => fst rv ++ [snd rv]) (concat parts)) = map fst (concat parts)).
  { rewrite map_map. apply map_ext. intros rv. apply removelast_app_one. }
  assert (E2 : map fst (concat parts) = map fst (pick sorted (concat (group_keys pkeys)))).
  { assert (PC : forall ll, pick sorted (concat ll) = concat (map (pick sorted) ll)).
    { induction ll as [|a ll IH]; simpl; [reflexivity|]. unfold pick in *. rewrite flat_map_app. rewrite IH. reflexivity. }
    rewrite concat_map, Hparts, PC, concat_map, map_map. reflexivity. }
  unfold row in *. split.
  - rewrite E1, E2. eapply Permutation_trans; [apply Permutation_map; apply pick_perm; exact P|]. exact Hs.
  - rewrite map_length. rewrite <- (map_length fst (concat parts)). rewrite E2.
    rewrite (Permutation_length (Permutation_map fst (pick_perm sorted _ P))).
    rewrite (Permutation_length Hs). reflexivity.
Qed.
