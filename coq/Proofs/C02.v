(* Proofs/C02.v -- the statements of Properties/C02.v and their proofs from Proofs/Csv.v, Proofs/Ltsv.v *)
From Coq Require Import NArith List Lia Bool Arith.
Require Import Csvq.Model.Base Csvq.Model.Csv Csvq.Model.Ltsv Csvq.Proofs.Csv Csvq.Proofs.Ltsv.
Import ListNotations.
Open Scope N_scope.
Local Arguments N.eqb : simpl never.

(* ================================================================================================ *)
(* statements                                                                                       *)
(* ================================================================================================ *)
(* C02 for CSV/TSV at full strength: every well-shaped table that is written loads back, under the same
   settings, as the same table (records, fields, header, cell texts; NULL for an unquoted empty text) *)
Definition csv_roundtrip (repaired : bool) : Prop :=
  forall delim lb enclose noheader tail hdr rows letter bytes,
    let o := WO delim lb enclose noheader repaired in
    delim_ok delim -> well_shaped hdr rows ->
    csv_file o tail hdr rows = Some bytes ->
    exists l, csv_load (ropts_of o) letter bytes = inr l /\ l_table l = expected_table o hdr rows.

(* ... or at least: what cannot be read back as written is an error, never another table *)
Definition csv_no_shift (repaired : bool) : Prop :=
  forall delim lb enclose noheader tail hdr rows letter bytes,
    let o := WO delim lb enclose noheader repaired in
    delim_ok delim -> well_shaped hdr rows ->
    csv_file o tail hdr rows = Some bytes ->
    match csv_load (ropts_of o) letter bytes with
    | inl _ => True
    | inr l => l_table l = expected_table o hdr rows
    end.

(* an updated file keeps its delimiter, encoding, header convention and line break: the file is
   re-written with dialect o (what was detected when it was loaded), the session's --line-break is flb, the
   line break [tailf o flb] is appended unless strip, and the file is loaded again.  COMMIT appends the
   file's own line break (tail_of_file: transaction.go since ec68d2d); before that it appended the
   session's (tail_of_session).  The last hypothesis says that the convention is observable at all: the
   re-written file contains a line break, or the session's default is the file's. *)
Definition dialect_after (o : wopts) (flb : linebreak) (enc : N) (sess_enclose : bool) (l : loaded) : file_info :=
  load_file_info (FI (o_delim o) enc flb (o_noheader o) sess_enclose) l.
Definition same_dialect (o : wopts) (enc : N) (fi : file_info) : Prop :=
  let e := export_options (o_repaired o) fi in
  o_delim e = o_delim o /\ o_noheader e = o_noheader o /\ o_lb e = o_lb o /\ fi_encoding fi = enc.
Definition tail_of_file (o : wopts) (flb : linebreak) : linebreak := o_lb o.
Definition tail_of_session (o : wopts) (flb : linebreak) : linebreak := flb.
Definition dialect_preserved_for (tailf : wopts -> linebreak -> linebreak) : Prop :=
  forall o flb strip hdr rows letter bytes enc sess_enclose l,
    delim_ok (o_delim o) -> well_shaped hdr rows -> spellable o hdr rows = true ->
    (strip = true \/ tailf o flb <> LbCR) ->
    (strip = false \/ (2 <= lines_written o rows)%nat \/ flb = o_lb o) ->
    csv_file o (ending_line_break strip (tailf o flb)) hdr rows = Some bytes ->
    csv_load (ropts_of o) letter bytes = inr l ->
    same_dialect o enc (dialect_after o flb enc sess_enclose l).
Definition dialect_preserved : Prop := dialect_preserved_for tail_of_file.

Definition ltsv_roundtrip : Prop :=
  forall lb tail hdr rows bytes,
    NoDup hdr -> hdr <> [] -> Forall (fun r : list cell => length r = length hdr) rows ->
    ltsv_file lb tail hdr rows = inr bytes ->
    exists l, ltsv_load false bytes = inr l /\ l_table l = ltsv_expected hdr rows.

(* ================================================================================================ *)
(* CSV/TSV                                                                                          *)
(* ================================================================================================ *)
Lemma delim_ok_44 : delim_ok 44.
Proof. repeat split; intro E; discriminate E. Qed.

Definition s_a : str := [97]. Definition s_b : str := [98].

(* instantiate a universally quantified statement H at a concrete table written with delimiter 44;
   the written bytes are computed once by vm_compute *)
Ltac witness H lb en nh rp tl hdr rows H1 :=
  let b := eval vm_compute in (csv_file (WO 44 lb en nh rp) tl hdr rows) in
  match b with
  | Some ?bb =>
      let Hf := fresh "Hf" in
      let Hw := fresh "Hw" in
      assert (Hf : csv_file (WO 44 lb en nh rp) tl hdr rows = Some bb) by (vm_compute; reflexivity);
      assert (Hw : well_shaped hdr rows) by (split; [discriminate | repeat constructor]);
      pose proof (H 44 lb en nh tl hdr rows (fun _ : N => false) bb delim_ok_44 Hw Hf) as H1
  end.

(* F-C02-1: a text with a line break is written bare and splits the record *)
Lemma csv_roundtrip_false_refuted : ~ csv_roundtrip false.
Proof.
  intros H. witness H LbLF false false false (Some LbLF) [s_a; s_b] [[CText [120; 10; 121]; CText [122]]] H1.
  destruct H1 as (l & H1 & _). vm_compute in H1. discriminate H1.
Qed.

(* F-C02-3: a one-column table with a NULL cell loses the row, in both variants of the writer *)
Lemma csv_roundtrip_blank_refuted repaired : ~ csv_roundtrip repaired.
Proof.
  intros H. destruct repaired.
  - witness H LbLF false false true (Some LbLF) [s_a] [[CText [120]]; [CNull]; [CText [121]]] H1.
    destruct H1 as (l & H1 & H2). vm_compute in H1; injection H1 as <-; vm_compute in H2; discriminate H2.
  - witness H LbLF false false false (Some LbLF) [s_a] [[CText [120]]; [CNull]; [CText [121]]] H1.
    destruct H1 as (l & H1 & H2). vm_compute in H1; injection H1 as <-; vm_compute in H2; discriminate H2.
Qed.

(* new: CR directly before the end of input cannot be read (bufio.UnreadRune after EOF) *)
Lemma csv_roundtrip_cr_tail_refuted repaired : ~ csv_roundtrip repaired.
Proof.
  intros H. destruct repaired.
  - witness H LbCR false false true (Some LbCR) [s_a; s_b] [[CText [120]; CText [121]]] H1.
    destruct H1 as (l & H1 & _). vm_compute in H1; discriminate H1.
  - witness H LbCR false false false (Some LbCR) [s_a; s_b] [[CText [120]; CText [121]]] H1.
    destruct H1 as (l & H1 & _). vm_compute in H1; discriminate H1.
Qed.

Lemma csv_roundtrip_partial_lemma o tail hdr rows letter bytes :
  delim_ok (o_delim o) -> well_shaped hdr rows -> spellable o hdr rows = true -> tail <> Some LbCR ->
  csv_file o tail hdr rows = Some bytes ->
  csv_load (ropts_of o) letter bytes =
    inr (LD (expected_table o hdr rows) (detected_written o tail rows) (enclosed_all (o_delim o) letter bytes)).
Proof. apply csv_roundtrip_general. Qed.

(* ---- the repaired writer: only blank records and a final CR remain ---- *)
Definition no_blank_records (o : wopts) (hdr : list str) (rows : list (list cell)) : bool :=
  forallb (fun r => negb (blank_record r)) (csv_wrows o hdr rows).

Lemma good_field_cell o c : o_repaired o = true -> good_field (o_delim o) (cell_field o c) = true.
Proof.
  intros Hr. unfold good_field, wquoted, cell_field; cbn [wq wtext]. rewrite Hr. cbn [andb].
  destruct (has_break (cell_text c)); [rewrite orb_true_r; reflexivity | rewrite orb_true_r; reflexivity].
Qed.
Lemma good_field_header o h : o_repaired o = true -> good_field (o_delim o) (header_field o h) = true.
Proof.
  intros Hr. unfold good_field, wquoted, header_field; cbn [wq wtext]. rewrite Hr. cbn [andb].
  destruct (has_break h); [rewrite orb_true_r; reflexivity | rewrite orb_true_r; reflexivity].
Qed.

Lemma spellable_repaired o hdr rows :
  o_repaired o = true -> well_shaped hdr rows -> no_blank_records o hdr rows = true -> spellable o hdr rows = true.
Proof.
  intros Hr [Hh Hrows] Hb. unfold spellable, no_blank_records in *.
  apply forallb_forall. intros r Hin. rewrite forallb_forall in Hb. specialize (Hb r Hin).
  unfold good_record. rewrite Hb. rewrite andb_true_r.
  unfold csv_wrows in Hin. apply in_app_or in Hin as [Hin|Hin].
  - destruct (o_noheader o); [contradiction|]. destruct Hin as [<-|[]].
    apply andb_true_iff. split.
    + destruct hdr; [congruence | reflexivity].
    + apply forallb_forall. intros f Hf. apply in_map_iff in Hf as (h & <- & _). apply good_field_header, Hr.
  - apply in_map_iff in Hin as (row & <- & Hrow). apply andb_true_iff. split.
    + rewrite Forall_forall in Hrows. specialize (Hrows row Hrow). destruct row; [|reflexivity].
      destruct hdr; [congruence | discriminate].
    + apply forallb_forall. intros f Hf. apply in_map_iff in Hf as (c & <- & _). apply good_field_cell, Hr.
Qed.

Lemma blank_record_two (r : list wfield) : (2 <= length r)%nat -> blank_record r = false.
Proof. destruct r as [|f [|g t]]; cbn; intros H; try lia; reflexivity. Qed.

Lemma no_blank_multicolumn o hdr rows : well_shaped hdr rows -> (2 <= length hdr)%nat -> no_blank_records o hdr rows = true.
Proof.
  intros [_ Hrows] H2. unfold no_blank_records. apply forallb_forall. intros r Hin.
  apply negb_true_iff, blank_record_two. unfold csv_wrows in Hin. apply in_app_or in Hin as [Hin|Hin].
  - destruct (o_noheader o); [contradiction|]. destruct Hin as [<-|[]]. rewrite map_length. exact H2.
  - apply in_map_iff in Hin as (row & <- & Hrow). rewrite map_length.
    rewrite Forall_forall in Hrows. rewrite (Hrows row Hrow). exact H2.
Qed.

Lemma csv_roundtrip_repaired_lemma o tail hdr rows letter bytes :
  o_repaired o = true ->
  delim_ok (o_delim o) -> well_shaped hdr rows -> no_blank_records o hdr rows = true -> tail <> Some LbCR ->
  csv_file o tail hdr rows = Some bytes ->
  csv_load (ropts_of o) letter bytes =
    inr (LD (expected_table o hdr rows) (detected_written o tail rows) (enclosed_all (o_delim o) letter bytes)).
Proof.
  intros Hr Hd Hw Hb Ht Hf. apply csv_roundtrip_general; try assumption. apply spellable_repaired; assumption.
Qed.

(* ---- no shift ---- *)
Lemma csv_no_shift_false_refuted : ~ csv_no_shift false.
Proof.
  intros H. witness H LbLF false false false (Some LbLF) [s_a; s_b] [[CText [10; 120]; CText [121]]] H1.
  vm_compute in H1. discriminate H1.
Qed.

Lemma csv_no_shift_blank_refuted repaired : ~ csv_no_shift repaired.
Proof.
  intros H. destruct repaired.
  - witness H LbLF false false true (Some LbLF) [s_a] [[CText [120]]; [CNull]; [CText [121]]] H1.
    vm_compute in H1; discriminate H1.
  - witness H LbLF false false false (Some LbLF) [s_a] [[CText [120]]; [CNull]; [CText [121]]] H1.
    vm_compute in H1; discriminate H1.
Qed.

Lemma csv_file_inv o tail hdr rows bytes : csv_file o tail hdr rows = Some bytes ->
  csv_wrows o hdr rows <> [] /\ bytes = wrecords (o_delim o) (o_lb o) (csv_wrows o hdr rows) ++ tail_str tail.
Proof.
  unfold csv_file, csv_encode, csv_wrows. destruct (o_noheader o).
  - destruct rows; [discriminate|]. intros H. injection H as <-. split; [discriminate | reflexivity].
  - intros H. injection H as <-. split; [discriminate | reflexivity].
Qed.

Lemma csv_no_shift_repaired_multicolumn_lemma delim lb enclose noheader tail hdr rows letter bytes :
  let o := WO delim lb enclose noheader true in
  delim_ok delim -> well_shaped hdr rows -> (2 <= length hdr)%nat ->
  csv_file o tail hdr rows = Some bytes ->
  match csv_load (ropts_of o) letter bytes with
  | inl _ => True
  | inr l => l_table l = expected_table o hdr rows
  end.
Proof.
  intros o Hd Hw H2 Hf.
  assert (Hs : spellable o hdr rows = true).
  { apply spellable_repaired; [reflexivity | exact Hw | apply no_blank_multicolumn; assumption]. }
  destruct tail as [[| |]|].
  - rewrite (csv_roundtrip_general o (Some LbLF) hdr rows letter bytes Hd Hw Hs ltac:(discriminate) Hf). reflexivity.
  - apply csv_file_inv in Hf as (Hne & ->). destruct (split_last _ Hne) as (rs & r & Ers).
    unfold spellable in Hs. unfold csv_load, ropts_of; cbn [r_delim]. rewrite Ers in *.
    cbn [tail_str lb_str].
    rewrite (tokenize_cr_tail (o_delim o) Hd (o_lb o) rs r Hs). exact I.
  - rewrite (csv_roundtrip_general o (Some LbCRLF) hdr rows letter bytes Hd Hw Hs ltac:(discriminate) Hf). reflexivity.
  - rewrite (csv_roundtrip_general o None hdr rows letter bytes Hd Hw Hs ltac:(discriminate) Hf). reflexivity.
Qed.

(* whatever comes after well-spelled records -- e.g. a record with an unspellable cell -- the records
   before it are read as written (or the load fails): damage never travels backwards *)
Lemma csv_no_shift_prefix_lemma delim lb (good : list (list wfield)) rest recs' dt :
  delim_ok delim -> forallb (good_record delim) good = true ->
  tokenize delim (wterminated delim lb good ++ rest) = inr (recs', dt) ->
  map (map (field_value false)) (firstn (length good) recs') = map (map (readback delim)) good.
Proof.
  intros Hd Hg Ht. rewrite (tokenize_prefix delim Hd lb good rest recs' dt Hg Ht).
  rewrite map_map. apply map_ext. intros r. rewrite map_map. apply map_ext. intros f. apply field_value_rf.
Qed.

(* ---- dialect ---- *)
(* the code before ec68d2d: a CRLF file that is left with its header line only, session line break LF *)
Lemma dialect_session_tail_refuted : ~ dialect_preserved_for tail_of_session.
Proof.
  intros H.
  pose (o := WO 44 LbCRLF false false false).
  assert (Hl : exists l, csv_load (ropts_of o) (fun _ => false) [97; 44; 98; 10] = inr l /\ l_lb l = Some LbLF).
  { eexists. split; [vm_compute; reflexivity | reflexivity]. }
  destruct Hl as (l & Hl & Hlb).
  assert (Hw : well_shaped [s_a; s_b] []) by (split; [discriminate | constructor]).
  assert (Hs : spellable o [s_a; s_b] [] = true) by (vm_compute; reflexivity).
  assert (Hcr : false = true \/ tail_of_session o LbLF <> LbCR) by (right; discriminate).
  assert (Hobs : false = false \/ (2 <= lines_written o [])%nat \/ LbLF = o_lb o) by (left; reflexivity).
  assert (Hf : csv_file o (ending_line_break false (tail_of_session o LbLF)) [s_a; s_b] [] = Some [97; 44; 98; 10]) by (vm_compute; reflexivity).
  pose proof (H o LbLF false [s_a; s_b] [] (fun _ : N => false) [97; 44; 98; 10] 0 false l delim_ok_44 Hw Hs Hcr Hobs Hf Hl) as (_ & _ & H3 & _).
  unfold dialect_after, load_file_info, export_options in H3; cbn [o_lb fi_lb] in H3. rewrite Hlb in H3. discriminate H3.
Qed.

Lemma dialect_preserved_lemma : dialect_preserved.
Proof.
  intros o flb strip hdr rows letter bytes enc sess_enclose l Hd Hw Hs Hcr Hobs Hf Hl.
  unfold tail_of_file in *.
  assert (Ht : ending_line_break strip (o_lb o) <> Some LbCR).
  { unfold ending_line_break. destruct strip; [discriminate|]. destruct Hcr as [Hcr|Hcr]; [discriminate | congruence]. }
  rewrite (csv_roundtrip_general o _ hdr rows letter bytes Hd Hw Hs Ht Hf) in Hl.
  injection Hl as <-. unfold same_dialect, dialect_after, load_file_info, export_options;
  cbn [o_delim o_noheader o_lb fi_delim fi_noheader fi_lb fi_encoding l_lb].
  repeat split; try reflexivity.
  unfold detected_written.
  destruct (lines_written o rows - 1)%nat eqn:E; [|reflexivity]. cbn [det_file]. unfold ending_line_break.
  destruct strip; [|reflexivity].
  destruct Hobs as [Hobs|[Hobs|Hobs]]; [discriminate | lia | exact Hobs].
Qed.

(* the observability hypothesis is needed: a file without any line break says nothing about its convention *)
Lemma dialect_unobservable_example :
  let o := WO 44 LbCRLF false false false in
  exists l, csv_file o (ending_line_break true (tail_of_file o LbLF)) [s_a; s_b] [] = Some [97; 44; 98] /\
            csv_load (ropts_of o) (fun _ => false) [97; 44; 98] = inr l /\
            ~ same_dialect o 0 (dialect_after o LbLF 0 false l).
Proof.
  cbn zeta. eexists. split; [vm_compute; reflexivity|]. split; [vm_compute; reflexivity|].
  intros (_ & _ & H & _). vm_compute in H. discriminate H.
Qed.

(* ================================================================================================ *)
(* LTSV                                                                                             *)
(* ================================================================================================ *)
Definition l_k1 : str := [107; 49]. Definition l_k2 : str := [107; 50].

Lemma nodup2 : NoDup [l_k1; l_k2].
Proof. constructor; [intros [E|[]]; discriminate E | constructor; [intros [] | constructor]]. Qed.

(* F-C02-2: 12:30 comes back as 1230 *)
Lemma ltsv_roundtrip_refuted : ~ ltsv_roundtrip.
Proof.
  intros H.
  destruct (H LbLF (Some LbLF) [l_k1; l_k2] [[CText [49; 50; 58; 51; 48]; CText [120]]] _ nodup2 ltac:(discriminate)
              ltac:(repeat constructor) eq_refl) as (l & H1 & H2).
  vm_compute in H1. injection H1 as <-. vm_compute in H2. discriminate H2.
Qed.

(* new: a line with one field is skipped like a blank line -- one-column LTSV tables come back empty *)
Lemma ltsv_single_column_refuted : ~ ltsv_roundtrip.
Proof.
  intros H.
  destruct (H LbLF (Some LbLF) [l_k1] [[CText [120]]; [CText [121]]] _ ltac:(repeat constructor; intros []) ltac:(discriminate)
              ltac:(repeat constructor) eq_refl) as (l & H1 & H2).
  vm_compute in H1. injection H1 as <-. vm_compute in H2. discriminate H2.
Qed.

Lemma ltsv_roundtrip_partial_lemma lb tail hdr rows bytes :
  NoDup hdr -> (2 <= length hdr)%nat -> Forall (fun r : list cell => length r = length hdr) rows ->
  no_colon rows = true -> tail <> Some LbCR ->
  ltsv_file lb tail hdr rows = inr bytes ->
  ltsv_load false bytes = inr (LD (ltsv_expected hdr rows) (det_file lb (length rows - 1) tail) false).
Proof. apply ltsv_roundtrip_general. Qed.
