(* Proofs for C06: consistency laws of the comparison operators, Kleene logic, documented
   expansions of BETWEEN / IN / ANY / ALL / IS / CASE, typing laws of arithmetic. *)
From Coq Require Import ZArith Floats Bool Lia List.
Require Import Csvq.Model.Base Csvq.Model.Value Csvq.Model.Compare Csvq.Model.Arith Csvq.Model.Expr.
Require Import Csvq.Proofs.FloatFacts.
Import ListNotations.
Open Scope Z_scope.

(* ---- the ladder is anti-symmetric: swapping the operands swaps Less and Greater ------------ *)
Lemma compare_combinedly_swap a b : compare_combinedly b a = swap_res (compare_combinedly a b).
Proof.
  unfold compare_combinedly.
  rewrite (orb_comm (is_null b) (is_null a)).
  destruct (is_null a || is_null b); [reflexivity|].
  destruct (to_int_strict a) as [ia|], (to_int_strict b) as [ib|]; try apply compare_int_swap;
  (destruct (to_float a) as [fa|], (to_float b) as [fb|]; try apply compare_float_swap;
   (destruct (to_dt a) as [da|], (to_dt b) as [db|]; try apply compare_int_swap;
    (destruct (to_bool a) as [ba|], (to_bool b) as [bb|];
     try (destruct ba, bb; reflexivity);
     (destruct a as [| | |sa| | |], b as [| | |sb| | |]; try reflexivity;
      rewrite (str_cmp_swap (upper sa) (upper sb)); destruct (str_cmp (upper sa) (upper sb)); reflexivity)))).
Qed.

Lemma lt_gt_swap a b : op_lt a b = op_gt b a.
Proof. unfold op_lt, op_gt. rewrite (compare_combinedly_swap a b). destruct (compare_combinedly a b); reflexivity. Qed.

Lemma le_ge_swap a b : op_le a b = op_ge b a.
Proof. unfold op_le, op_ge. rewrite (compare_combinedly_swap a b). destruct (compare_combinedly a b); reflexivity. Qed.

Lemma ne_is_not_eq a b : op_ne a b = tnot (op_eq a b).
Proof. unfold op_ne, op_eq. destruct (compare_combinedly a b); reflexivity. Qed.

Lemma eq_sym a b : op_eq a b = op_eq b a.
Proof. unfold op_eq. rewrite (compare_combinedly_swap a b). destruct (compare_combinedly a b); reflexivity. Qed.

Lemma ne_sym a b : op_ne a b = op_ne b a.
Proof. rewrite !ne_is_not_eq, eq_sym. reflexivity. Qed.

(* operands "have an order" when the ladder answers Equal / Less / Greater *)
Definition ordered (a b : val) : Prop := ordered_res (compare_combinedly a b) = true.

Lemma le_is_lt_or_eq a b : ordered a b -> op_le a b = tor (op_lt a b) (op_eq a b).
Proof. unfold ordered, op_le, op_lt, op_eq. destruct (compare_combinedly a b); simpl; intros; try discriminate; reflexivity. Qed.

Lemma ge_is_gt_or_eq a b : ordered a b -> op_ge a b = tor (op_gt a b) (op_eq a b).
Proof. unfold ordered, op_ge, op_gt, op_eq. destruct (compare_combinedly a b); simpl; intros; try discriminate; reflexivity. Qed.

(* an order exists exactly when < is decided *)
Lemma ordered_iff_lt_decided a b : ordered a b <-> op_lt a b <> TU.
Proof. unfold ordered, op_lt. destruct (compare_combinedly a b); simpl; split; intros; try discriminate; try reflexivity; congruence. Qed.

(* trichotomy on ordered operands *)
Lemma ordered_trichotomy a b : ordered a b ->
  (op_lt a b = TT /\ op_eq a b = TF /\ op_gt a b = TF) \/
  (op_lt a b = TF /\ op_eq a b = TT /\ op_gt a b = TF) \/
  (op_lt a b = TF /\ op_eq a b = TF /\ op_gt a b = TT).
Proof. unfold ordered, op_lt, op_eq, op_gt. destruct (compare_combinedly a b); simpl; intros; try discriminate; tauto. Qed.

Lemma null_unknown_l op b : op <> OpIdent -> compare_op op VNull b = TU.
Proof. destruct op; intros H; try congruence; reflexivity. Qed.
Lemma null_unknown_r op a : compare_op op a VNull = TU.
Proof.
  destruct op; simpl; unfold op_eq, op_gt, op_lt, op_ge, op_le, op_ne, compare_combinedly;
    try (rewrite orb_true_r; reflexivity).
  destruct a as [| | | | |[]|]; reflexivity.
Qed.
Lemma identical_null_l b : identical VNull b = TU.
Proof. reflexivity. Qed.

Lemma incomm_unknown op a b : op <> OpIdent -> compare_combinedly a b = CIncomm -> compare_op op a b = TU.
Proof.
  intros Hop H. destruct op; try congruence; simpl; unfold op_eq, op_gt, op_lt, op_ge, op_le, op_ne; rewrite H; reflexivity.
Qed.

(* ---- Kleene logic ------------------------------------------------------------------------ *)
(* numeric reading used by the ternary package: FALSE = -1, UNKNOWN = 0, TRUE = 1 *)
Definition tnum t := match t with TF => -1 | TU => 0 | TT => 1 end.
Lemma tand_is_min a b : tnum (tand a b) = Z.min (tnum a) (tnum b).
Proof. destruct a, b; reflexivity. Qed.
Lemma tor_is_max a b : tnum (tor a b) = Z.max (tnum a) (tnum b).
Proof. destruct a, b; reflexivity. Qed.
Lemma tnot_is_neg a : tnum (tnot a) = - tnum a.
Proof. destruct a; reflexivity. Qed.
Lemma tnum_inj a b : tnum a = tnum b -> a = b.
Proof. destruct a, b; simpl; intros; congruence || lia. Qed.

(* the evaluator's short-circuits are invisible: AND / OR / NOT are Kleene on the operands' ternaries *)
Lemma eval_and_kleene row a b x y :
  eval row a = Ok x -> eval row b = Ok y ->
  eval row (EAnd a b) = Ok (VTern (tand (ternary_of x) (ternary_of y))).
Proof. intros Ha Hb. simpl. rewrite Ha. simpl. destruct (ternary_of x) eqn:E; simpl; rewrite ?Hb; simpl; try reflexivity; try (destruct (ternary_of y); reflexivity). Qed.
Lemma eval_or_kleene row a b x y :
  eval row a = Ok x -> eval row b = Ok y ->
  eval row (EOr a b) = Ok (VTern (tor (ternary_of x) (ternary_of y))).
Proof. intros Ha Hb. simpl. rewrite Ha. simpl. destruct (ternary_of x) eqn:E; simpl; rewrite ?Hb; simpl; try reflexivity; try (destruct (ternary_of y); reflexivity). Qed.
Lemma eval_not_kleene row a x : eval row a = Ok x -> eval row (ENot a) = Ok (VTern (tnot (ternary_of x))).
Proof. intros Ha. simpl. rewrite Ha. reflexivity. Qed.
(* the right operand of a decided AND / OR is not evaluated (so it cannot raise its error) *)
Lemma eval_and_shortcut row a b x : eval row a = Ok x -> ternary_of x = TF -> eval row (EAnd a b) = Ok (VTern TF).
Proof. intros Ha Hx. simpl. rewrite Ha. simpl. rewrite Hx. reflexivity. Qed.
Lemma eval_or_shortcut row a b x : eval row a = Ok x -> ternary_of x = TT -> eval row (EOr a b) = Ok (VTern TT).
Proof. intros Ha Hx. simpl. rewrite Ha. simpl. rewrite Hx. reflexivity. Qed.

(* ---- BETWEEN ------------------------------------------------------------------------------ *)
Lemma between_expansion row neg a lo hi x l h :
  eval row a = Ok x -> eval row lo = Ok l -> eval row hi = Ok h ->
  eval row (EBetween neg a lo hi) =
  Ok (VTern (let t := tand (op_ge x l) (op_le x h) in if neg then tnot t else t)).
Proof.
  intros Ha Hl Hh. simpl. rewrite Ha. simpl.
  destruct (is_null x) eqn:Nx.
  - destruct x; try discriminate. destruct neg; reflexivity.
  - rewrite Hl. simpl. destruct (op_ge x l) eqn:G; simpl; rewrite ?Hh; simpl; try reflexivity.
Qed.

(* BETWEEN is the conjunction of the two comparison expressions *)
Lemma between_as_expr row a lo hi x l h :
  eval row a = Ok x -> eval row lo = Ok l -> eval row hi = Ok h ->
  eval row (EBetween false a lo hi) = eval row (EAnd (ECmp OpGe a lo) (ECmp OpLe a hi)).
Proof.
  intros Ha Hl Hh. rewrite (between_expansion row false a lo hi x l h Ha Hl Hh).
  cbn [eval]. rewrite Ha. cbn [bind].
  destruct (is_null x) eqn:Nx.
  - destruct x; try discriminate. reflexivity.
  - rewrite Hl. cbn [bind compare_op ternary_of]. destruct (op_ge x l); cbn; rewrite ?Ha; cbn; rewrite ?Nx, ?Hh; cbn; try reflexivity;
      destruct (op_le x h); reflexivity.
Qed.

(* ---- IN / ANY / ALL ------------------------------------------------------------------------ *)
Lemma tor_TT_r a : tor a TT = TT. Proof. destruct a; reflexivity. Qed.
Lemma tand_TF_r a : tand a TF = TF. Proof. destruct a; reflexivity. Qed.

Lemma fold_tor_TT l : fold_left tor l TT = TT.
Proof. induction l as [|t l IH]; simpl; auto. Qed.
Lemma fold_tand_TF l : fold_left tand l TF = TF.
Proof. induction l as [|t l IH]; simpl; auto. Qed.

Lemma any_loop_fold op v l acc : any_loop op v l acc = fold_left tor (map (compare_op op v) l) acc \/ False \/
  any_loop op v l acc = fold_left tor (map (compare_op op v) l) acc.
Proof. left. revert acc. induction l as [|x l IH]; intros acc; simpl; [reflexivity|].
  destruct (compare_op op v x) eqn:E.
  - rewrite tor_TT_r, fold_tor_TT. reflexivity.
  - apply IH.
  - apply IH.
Qed.

Lemma any_is_fold op v l : any_op op v l = tany (map (compare_op op v) l).
Proof. unfold any_op, tany. destruct (any_loop_fold op v l TF) as [H|[[]|H]]; exact H. Qed.

Lemma all_is_fold op v l : all_op op v l = tall (map (compare_op op v) l).
Proof.
  unfold all_op, tall. generalize TT as acc. induction l as [|x l IH]; intros acc; simpl; [reflexivity|].
  destruct (compare_op op v x) eqn:E.
  - apply IH.
  - rewrite tand_TF_r, fold_tand_TF. reflexivity.
  - apply IH.
Qed.

Lemma fold_tor_TT_iff l : forall acc, fold_left tor l acc = TT <-> acc = TT \/ In TT l.
Proof.
  induction l as [|x l IH]; intros acc; simpl.
  - split; [auto | intros [H|[]]; exact H].
  - rewrite IH. split.
    + intros [H|H]; [|auto]. destruct acc, x; simpl in H; try discriminate; auto.
    + intros [H|[H|H]]; subst; [left; destruct x; reflexivity | left; apply tor_TT_r | right; exact H].
Qed.
Lemma fold_tor_TF_iff l : forall acc, fold_left tor l acc = TF <-> acc = TF /\ forall t, In t l -> t = TF.
Proof.
  induction l as [|x l IH]; intros acc; simpl.
  - split; [intros H; split; [exact H | intros t []] | intros [H _]; exact H].
  - rewrite IH. split.
    + intros [H1 H2]. destruct acc, x; simpl in H1; try discriminate. split; [reflexivity|].
      intros t [<-|Ht]; [reflexivity | apply H2; exact Ht].
    + intros [-> H]. split.
      * rewrite (H x (or_introl eq_refl)). reflexivity.
      * intros t Ht. apply H. right. exact Ht.
Qed.
Lemma fold_tand_TF_iff l : forall acc, fold_left tand l acc = TF <-> acc = TF \/ In TF l.
Proof.
  induction l as [|x l IH]; intros acc; simpl.
  - split; [auto | intros [H|[]]; exact H].
  - rewrite IH. split.
    + intros [H|H]; [|auto]. destruct acc, x; simpl in H; try discriminate; auto.
    + intros [H|[H|H]]; subst; [left; destruct x; reflexivity | left; apply tand_TF_r | right; exact H].
Qed.
Lemma fold_tand_TT_iff l : forall acc, fold_left tand l acc = TT <-> acc = TT /\ forall t, In t l -> t = TT.
Proof.
  induction l as [|x l IH]; intros acc; simpl.
  - split; [intros H; split; [exact H | intros t []] | intros [H _]; exact H].
  - rewrite IH. split.
    + intros [H1 H2]. destruct acc, x; simpl in H1; try discriminate. split; [reflexivity|].
      intros t [<-|Ht]; [reflexivity | apply H2; exact Ht].
    + intros [-> H]. split.
      * rewrite (H x (or_introl eq_refl)). reflexivity.
      * intros t Ht. apply H. right. exact Ht.
Qed.

Lemma tany_rule l :
  (tany l = TT <-> In TT l) /\ (tany l = TF <-> forall t, In t l -> t = TF).
Proof.
  unfold tany. split.
  - rewrite fold_tor_TT_iff. split; [intros [H|H]; [discriminate|exact H] | intros H; right; exact H].
  - rewrite fold_tor_TF_iff. split; [intros [_ H]; exact H | intros H; split; [reflexivity|exact H]].
Qed.

Lemma tall_rule l :
  (tall l = TF <-> In TF l) /\ (tall l = TT <-> forall t, In t l -> t = TT).
Proof.
  unfold tall. split.
  - rewrite fold_tand_TF_iff. split; [intros [H|H]; [discriminate|exact H] | intros H; right; exact H].
  - rewrite fold_tand_TT_iff. split; [intros [_ H]; exact H | intros H; split; [reflexivity|exact H]].
Qed.

(* ANY: TRUE iff some element compares TRUE, FALSE iff every element compares FALSE (in particular
   for the empty list), UNKNOWN otherwise; ALL dually *)
Lemma any_rule op v l :
  (any_op op v l = TT <-> exists x, In x l /\ compare_op op v x = TT) /\
  (any_op op v l = TF <-> forall x, In x l -> compare_op op v x = TF).
Proof.
  rewrite any_is_fold. destruct (tany_rule (map (compare_op op v) l)) as [A B]. split.
  - rewrite A, in_map_iff. split; intros [x [H1 H2]]; exists x; tauto.
  - rewrite B. split.
    + intros H x Hx. apply H. apply in_map. exact Hx.
    + intros H t Ht. apply in_map_iff in Ht. destruct Ht as [x [<- Hx]]. apply H. exact Hx.
Qed.

Lemma all_rule op v l :
  (all_op op v l = TF <-> exists x, In x l /\ compare_op op v x = TF) /\
  (all_op op v l = TT <-> forall x, In x l -> compare_op op v x = TT).
Proof.
  rewrite all_is_fold. destruct (tall_rule (map (compare_op op v) l)) as [A B]. split.
  - rewrite A, in_map_iff. split; intros [x [H1 H2]]; exists x; tauto.
  - rewrite B. split.
    + intros H x Hx. apply H. apply in_map. exact Hx.
    + intros H t Ht. apply in_map_iff in Ht. destruct Ht as [x [<- Hx]]. apply H. exact Hx.
Qed.

Fixpoint eval_list (row : list val) (l : list expr) : res (list val) :=
  match l with
  | [] => Ok []
  | x :: l' => do v <- eval row x; do vs <- eval_list row l'; Ok (v :: vs)
  end.

Lemma in_is_eq_any row a l : eval row (EIn false a l) = eval row (EAny OpEq a l).
Proof. reflexivity. Qed.
Lemma not_in_is_ne_all row a l : eval row (EIn true a l) = eval row (EAll OpNe a l).
Proof. reflexivity. Qed.
(* NOT IN is the negation of IN *)
Lemma tnot_fold_tor l acc : tnot (fold_left tor l acc) = fold_left tand (map tnot l) (tnot acc).
Proof. revert acc. induction l as [|x l IH]; intros acc; simpl; [reflexivity|]. rewrite IH. f_equal. destruct acc, x; reflexivity. Qed.
Lemma not_in_is_not_in x l : all_op OpNe x l = tnot (any_op OpEq x l).
Proof.
  rewrite all_is_fold, any_is_fold. unfold tall, tany. rewrite tnot_fold_tor, map_map. simpl.
  f_equal. apply map_ext. intros y. simpl. apply ne_is_not_eq.
Qed.

(* ---- IS ------------------------------------------------------------------------------------ *)
Lemma is_null_rule p : is_op p VNull = of_bool (is_null p).
Proof. reflexivity. Qed.
Lemma is_ternary_rule p t : is_op p (VTern t) = of_bool (tern_eqb (ternary_of p) t).
Proof. reflexivity. Qed.

(* ---- CASE ---------------------------------------------------------------------------------- *)
(* first WHEN whose condition is TRUE (or equal to the CASE value), else ELSE, else NULL *)
Fixpoint case_spec (vv : option val) (ws : list (val * val)) (els : option val) : val :=
  match ws with
  | [] => match els with Some e => e | None => VNull end
  | (c, r) :: ws' =>
      match (match vv with None => ternary_of c | Some x => op_eq x c end) with
      | TT => r
      | _ => case_spec vv ws' els
      end
  end.

Lemma case_rule_literals row vv ws els :
  eval row (ECase (option_map ELit vv) (map (fun cr => (ELit (fst cr), ELit (snd cr))) ws) (option_map ELit els))
  = Ok (case_spec vv ws els).
Proof.
  cbn [eval]. destruct vv as [x|]; cbn [option_map bind eval].
  - induction ws as [|[c r] ws IH]; cbn [map fst snd].
    + destruct els; reflexivity.
    + cbn [eval bind case_spec]. destruct (op_eq x c); try exact IH. reflexivity.
  - induction ws as [|[c r] ws IH]; cbn [map fst snd].
    + destruct els; reflexivity.
    + cbn [eval bind case_spec]. destruct (ternary_of c); try exact IH. reflexivity.
Qed.

(* ---- arithmetic: NULL / integer / float typing -------------------------------------------- *)
Definition numeric (v : val) : Prop := to_float v <> None.
Definition integral (v : val) : Prop := to_int_strict v <> None.

Lemma integral_numeric_sinfo_free v : (forall s, v <> VStr s) -> integral v -> numeric v.
Proof. destruct v; unfold integral, numeric; simpl; intros H; try congruence. exfalso; eapply H; reflexivity. Qed.

Lemma calc_null_iff a b op :
  calculate a b op = Ok VNull <->
  (to_int_strict a = None \/ to_int_strict b = None) /\ (to_float a = None \/ to_float b = None).
Proof.
  unfold calculate.
  destruct (to_int_strict a) as [ia|] eqn:Ia, (to_int_strict b) as [ib|] eqn:Ib.
  1: { split; [unfold calc_int; destruct op; try discriminate; destruct (ib =? 0); discriminate
              | intros [[H|H] _]; discriminate]. }
  all: destruct (to_float a) as [fa|] eqn:Fa, (to_float b) as [fb|] eqn:Fb; unfold calc_float;
    (split; [ try discriminate; intros _; split; auto | intros [_ [H|H]]; try discriminate; reflexivity ]).
Qed.

Lemma calc_int_iff a b op z : calculate a b op = Ok (VInt z) -> integral a /\ integral b.
Proof.
  unfold calculate, integral.
  destruct (to_int_strict a) as [ia|], (to_int_strict b) as [ib|]; intros H;
    try (split; congruence);
    destruct (to_float a), (to_float b); simpl in H; discriminate.
Qed.

Lemma calc_both_int a b op : integral a -> integral b ->
  (exists z, calculate a b op = Ok (VInt z)) \/ (calculate a b op = Err EDivZero /\ (op = ADiv \/ op = AMod)).
Proof.
  unfold calculate, integral.
  destruct (to_int_strict a) as [ia|], (to_int_strict b) as [ib|]; try congruence. intros _ _.
  unfold calc_int. destruct op; try (left; eexists; reflexivity);
    destruct (ib =? 0); try (left; eexists; reflexivity); right; auto.
Qed.

Lemma calc_float_otherwise a b op : numeric a -> numeric b -> ~ (integral a /\ integral b) ->
  exists f, calculate a b op = Ok (VFloat f).
Proof.
  unfold calculate, integral, numeric. intros Ha Hb Hi.
  destruct (to_float a) as [fa|], (to_float b) as [fb|]; try congruence.
  destruct (to_int_strict a) as [ia|], (to_int_strict b) as [ib|];
    try (eexists; reflexivity).
  exfalso. apply Hi. split; congruence.
Qed.

Lemma int_div_zero_is_error a b op : integral a -> to_int_strict b = Some 0 -> (op = ADiv \/ op = AMod) ->
  calculate a b op = Err EDivZero.
Proof.
  unfold calculate, integral. intros Ha Hb Hop. rewrite Hb.
  destruct (to_int_strict a); try congruence. destruct Hop; subst; reflexivity.
Qed.

Lemma calc_error_only_div_zero a b op e : calculate a b op = Err e -> e = EDivZero /\ to_int_strict b = Some 0.
Proof.
  unfold calculate. destruct (to_int_strict a) as [ia|], (to_int_strict b) as [ib|];
    try (destruct (to_float a), (to_float b); discriminate).
  unfold calc_int. destruct op; try discriminate; destruct (Z.eqb_spec ib 0); try discriminate;
    intros H; inversion H; subst; auto.
Qed.

(* a left NULL ends arithmetic and comparison before the right operand is looked at *)
Lemma arith_null_left row op a b : eval row a = Ok VNull -> eval row (EArith op a b) = Ok VNull.
Proof. intros H. simpl. rewrite H. reflexivity. Qed.
Lemma cmp_null_left row op a b : eval row a = Ok VNull -> eval row (ECmp op a b) = Ok (VTern TU).
Proof. intros H. simpl. rewrite H. reflexivity. Qed.

(* ---- integer % : sign of the dividend, magnitude below the divisor ------------------------- *)
Lemma wrap64_id z : in_int64 z = true -> wrap64 z = z.
Proof.
  unfold in_int64, wrap64, min_int64, max_int64, two63, two64. intros H.
  apply andb_true_iff in H. destruct H as [H1 H2]. apply Z.leb_le in H1. apply Z.leb_le in H2.
  rewrite Z.mod_small; lia.
Qed.

Lemma int_mod_sign_magnitude a b r :
  in_int64 a = true -> in_int64 b = true -> calc_int a b AMod = Ok (VInt r) ->
  Z.abs r < Z.abs b /\ (r = 0 \/ (r < 0 <-> a < 0)) /\ a = b * Z.quot a b + r.
Proof.
  intros Ha Hb. unfold calc_int. destruct (Z.eqb_spec b 0) as [|Hb0]; [discriminate|].
  intros H. inversion H as [H1]. clear H.
  assert (Hr : in_int64 (Z.rem a b) = true).
  { unfold in_int64, min_int64, max_int64, two63 in *.
    apply andb_true_iff in Ha. destruct Ha as [Ha1 Ha2]. apply Z.leb_le in Ha1. apply Z.leb_le in Ha2.
    apply andb_true_iff in Hb. destruct Hb as [Hb1 Hb2]. apply Z.leb_le in Hb1. apply Z.leb_le in Hb2.
    pose proof (Z.rem_bound_abs a b Hb0). apply andb_true_iff. split; apply Z.leb_le; lia. }
  rewrite (wrap64_id _ Hr).
  pose proof (Z.rem_bound_abs a b Hb0) as Habs.
  pose proof (Z.quot_rem' a b) as Hqr.
  split; [exact Habs|]. split; [|exact Hqr].
  destruct (Z.eq_dec (Z.rem a b) 0) as [E|E]; [left; exact E|right].
  pose proof (Z.rem_sign_nz a b Hb0 E) as Hs.
  destruct (Z.sgn_spec (Z.rem a b)) as [[? S]|[[? S]|[? S]]], (Z.sgn_spec a) as [[? S']|[[? S']|[? S']]]; rewrite S, S' in Hs; try discriminate; lia.
Qed.

(* integer + - * are the mathematical operations whenever the result fits in 64 bits *)
Lemma int_arith_exact a b :
  (in_int64 (a + b) = true -> calc_int a b APlus = Ok (VInt (a + b))) /\
  (in_int64 (a - b) = true -> calc_int a b AMinus = Ok (VInt (a - b))) /\
  (in_int64 (a * b) = true -> calc_int a b AMul = Ok (VInt (a * b))).
Proof. unfold calc_int. repeat split; intros H; rewrite (wrap64_id _ H); reflexivity. Qed.
