(* Proofs/C09.v -- invariants of the lock-file protocol model (Model/Lock.v), by induction over
   arbitrary schedules, for any number of processes. *)
From Coq Require Import Arith List Bool Lia Permutation.
Require Import Csvq.Model.Lock.
Import ListNotations.

(* ---- small facts ---------------------------------------------------------------------------- *)
Lemma upd_same {A} (f : nat -> A) i a : upd f i a i = a.
Proof. unfold upd. rewrite Nat.eqb_refl. reflexivity. Qed.
Lemma upd_other {A} (f : nat -> A) i a j : j <> i -> upd f i a j = f j.
Proof. intros H. unfold upd. destruct (Nat.eqb_spec j i); [contradiction | reflexivity]. Qed.

Lemma mem_In i l : mem i l = true <-> In i l.
Proof.
  induction l as [|x l IH]; simpl; [split; [discriminate | tauto]|].
  rewrite orb_true_iff, IH, Nat.eqb_eq. tauto.
Qed.
Lemma mem_false i l : mem i l = false <-> ~ In i l.
Proof. rewrite <- mem_In. destruct (mem i l); split; intros H; congruence. Qed.
Lemma In_del j i l : In j (del i l) <-> In j l /\ j <> i.
Proof.
  induction l as [|x l IH]; simpl; [tauto|].
  destruct (Nat.eqb_spec x i); simpl; rewrite IH; intuition congruence.
Qed.
Lemma NoDup_del i l : NoDup l -> NoDup (del i l).
Proof.
  induction 1 as [|x l Hx Hl IH]; simpl; [constructor|].
  destruct (Nat.eqb_spec x i); [exact IH|]. constructor; [|exact IH].
  rewrite In_del. tauto.
Qed.
Lemma is_nil_true {A} (l : list A) : is_nil l = true <-> l = [].
Proof. destruct l; simpl; split; congruence. Qed.
Lemma is_some_true {A} (o : option A) : is_some o = true <-> o <> None.
Proof. destruct o; simpl; split; congruence. Qed.
Lemma is_some_false {A} (o : option A) : is_some o = false <-> o = None.
Proof. destruct o; simpl; split; congruence. Qed.

Lemma run_app c es1 es2 s : run c (es1 ++ es2) s = run c es2 (run c es1 s).
Proof. revert s. induction es1 as [|e r IH]; intros s; simpl; [reflexivity | apply IH]. Qed.

(* ---- the history of commits ------------------------------------------------------------------ *)
Lemma chain_app v l i r w : chain v l -> r = last_val v l -> w = S r -> chain v (l ++ [(i, (r, w))]).
Proof.
  revert v. induction l as [|[j [r' w']] t IH]; intros v Hc Hr Hw; simpl in *.
  - auto.
  - destruct Hc as (H1 & H2 & H3). repeat split; auto.
Qed.
Lemma last_val_app v l i r w : last_val v (l ++ [(i, (r, w))]) = w.
Proof. revert v. induction l as [|[j [r' w']] t IH]; intros v; simpl; auto. Qed.
Lemma chain_last v l : chain v l -> last_val v l = v + length l.
Proof.
  revert v. induction l as [|[j [r w]] t IH]; intros v Hc; simpl in *; [lia|].
  destruct Hc as (H1 & H2 & H3). rewrite (IH _ H3). lia.
Qed.

(* pcs at which the outcome of the process is still open *)
Definition undecided (p : pc) : bool :=
  match p with
  | Done | RRelChk | RRelRm | WRelChk | WRelRm | WTmpRelChk | WTmpRelRm => false
  | _ => true
  end.
Definition after_commit (p : pc) : bool := match p with WRelChk | WRelRm | Done => true | _ => false end.
Definition pre_acq (p : pc) : bool :=
  match p with
  | Start | RExists | RCheck | RLock | RCreate | RUnlChk | RUnlRm | ROpen | RRelChk | RRelRm | RWait
  | WExists | WCheck | WCreate | WRecheck | WBackChk | WBackRm | WWait => true
  | _ => false
  end.
Definition committing (p : pc) : bool := match p with WCommitChk | WCommitRm | WRename => true | _ => false end.

(* ---- the invariant ----------------------------------------------------------------------------- *)
Definition inv_lock s := forall i, owns_lock (pcs s i) = true <-> lockf s = Some i.
Definition inv_rls s := NoDup (rls s) /\ forall i, In i (rls s) <-> reader_holds (pcs s i) = true.
Definition inv_whold s := forall i, writer_holds (pcs s i) = true -> rls s = [].
Definition inv_temp s := forall i, has_temp (pcs s i) = true <-> tempf s = Some i.
Definition inv_dex c s :=
  (dex s = false -> exists i, pcs s i = WRename) /\
  (atomic c = true -> dex s = true /\ forall i, pcs s i <> WCommitChk /\ pcs s i <> WCommitRm).
Definition inv_data s :=
  (forall i, loaded (pcs s i) = true -> loc s i = dval s) /\
  (forall i, committing (pcs s i) = true -> tval s = S (loc s i)).
Definition inv_log n0 s := chain n0 (log s) /\ dval s = last_val n0 (log s).
(* outcomes and ghost history *)
Definition H1 s := forall i, undecided (pcs s i) = true -> outs s i = ORunning.
Definition H2 s := forall i, outs s i = OCommitted -> after_commit (pcs s i) = true.
Definition H3 s := forall i, In i (map fst (log s)) <-> outs s i = OCommitted.
Definition H4 s := NoDup (map fst (log s)).
Definition H5 s := forall i, touched s i = true -> (pcs s i = WRename /\ outs s i = ORunning) \/ outs s i = OCommitted.
Definition H6 s := forall i, outs s i <> OIOErr.
Definition J1 s := NoDup (acq s).
Definition J2 s := forall i, pre_acq (pcs s i) = true -> ~ In i (acq s).
Definition J3 s := forall i, writer_holds (pcs s i) = true -> exists l, acq s = l ++ [i].
Definition J4 s := map fst (log s) = filter (fun i => is_committed (outs s i)) (acq s).
Definition inv_out s := H1 s /\ H2 s /\ H3 s /\ H4 s /\ H5 s /\ H6 s.
Definition inv_acq s := J1 s /\ J2 s /\ J3 s /\ J4 s.

Definition Inv c n0 s :=
  inv_lock s /\ inv_rls s /\ inv_whold s /\ inv_temp s /\ inv_dex c s /\ inv_data s /\ inv_log n0 s /\ inv_out s /\ inv_acq s.

Lemma inv_init c n0 : Inv c n0 (init n0).
Proof.
  unfold Inv, inv_out, inv_acq, H1, H2, H3, H4, H5, H6, J1, J2, J3, J4, init.
  repeat split; simpl; intros; try discriminate; try tauto; try constructor; try congruence.
Qed.

(* ---- one step of one process preserves every clause ------------------------------------------ *)
Ltac sset := cbn [set_lock set_rls set_temp set_tval set_dex set_dval set_pc set_out set_loc set_seen set_expd set_acq set_log set_touched finish
                  lockf rls tempf tval dex dval pcs outs loc seen expd acq log touched] in *.

(* split step_proc into its branches *)
Ltac branches :=
  repeat match goal with
  | |- context [if ?b then _ else _] => let E := fresh "E" in destruct b eqn:E
  | |- context [match ?x with _ => _ end] => let E := fresh "E" in destruct x eqn:E
  end.

Ltac norm :=
  repeat match goal with
  | H : is_some ?o = _ |- _ => destruct o eqn:?; simpl in H; try discriminate; clear H
  | H : is_nil ?o = _ |- _ => destruct o eqn:?; simpl in H; try discriminate; clear H
  | H : mem _ _ = true |- _ => apply mem_In in H
  | H : mem _ _ = false |- _ => apply mem_false in H
  | H : negb ?b = true |- _ => apply negb_true_iff in H
  | H : negb ?b = false |- _ => apply negb_false_iff in H
  | H : _ || _ = false |- _ => apply orb_false_iff in H; destruct H
  end.

Lemma lock_step c i s : inv_lock s -> inv_lock (step_proc c i s).
Proof.
  intros A. unfold step_proc, r_finish. pose proof (A i) as Ai.
  destruct (pcs s i) eqn:Hpc; simpl in Ai; branches; sset; try exact A;
  intros j; pose proof (A j) as Aj; sset; unfold upd;
  destruct (Nat.eqb_spec j i) as [->|Hji]; try rewrite Hpc in *; simpl in *;
  try tauto; try (intuition congruence); norm; try (intuition congruence).
Qed.

Lemma rls_step c i s : inv_rls s -> inv_rls (step_proc c i s).
Proof.
  intros [N B]. unfold step_proc, r_finish. pose proof (B i) as Bi.
  destruct (pcs s i) eqn:Hpc; simpl in Bi; branches; sset; try (split; assumption);
  (split; [ sset; try assumption |
    intros j; pose proof (B j) as Bj; sset; unfold upd;
    destruct (Nat.eqb_spec j i) as [->|Hji]; try rewrite Hpc in *; simpl in *;
    try tauto; try (intuition congruence) ]);
  norm; rewrite ?In_del; try (intuition congruence);
  try (apply NoDup_del; assumption); try (constructor; [intuition congruence | assumption]).
Qed.

Lemma writer_owns p : writer_holds p = true -> owns_lock p = true.
Proof. destruct p; simpl; congruence. Qed.

Lemma whold_step c i s : inv_lock s -> inv_whold s -> inv_whold (step_proc c i s).
Proof.
  intros A C. unfold step_proc, r_finish. pose proof (A i) as Ai. pose proof (C i) as Ci.
  destruct (pcs s i) eqn:Hpc; simpl in Ai, Ci; branches; sset; try exact C;
  intros j; pose proof (A j) as Aj; pose proof (C j) as Cj; pose proof (writer_owns (pcs s j)) as Wj; sset; unfold upd;
  destruct (Nat.eqb_spec j i) as [->|Hji]; try rewrite Hpc in *; simpl in *;
  try tauto; try (intuition congruence); norm; try (intuition congruence);
  try (intros Hw; rewrite (Cj Hw); reflexivity).
Qed.

Lemma temp_step c i s : inv_temp s -> inv_temp (step_proc c i s).
Proof.
  intros D. unfold step_proc, r_finish. pose proof (D i) as Di.
  destruct (pcs s i) eqn:Hpc; simpl in Di; branches; sset; try exact D;
  intros j; pose proof (D j) as Dj; sset; unfold upd;
  destruct (Nat.eqb_spec j i) as [->|Hji]; try rewrite Hpc in *; simpl in *;
  try tauto; try (intuition congruence); norm; try (intuition congruence).
Qed.

Lemma holds_temp_owns p : has_temp p = true -> owns_lock p = true.
Proof. destruct p; simpl; congruence. Qed.

Lemma dex_step c i s : inv_temp s -> inv_dex c s -> inv_dex c (step_proc c i s).
Proof.
  intros D [E1 E2]. unfold step_proc, r_finish. pose proof (D i) as Di.
  destruct (pcs s i) eqn:Hpc; simpl in Di; branches; sset; try (split; assumption);
  (split; sset;
   [ intros Hd; try discriminate;
     try (first [destruct (E1 Hd) as [k Hk] | destruct (E1 eq_refl) as [k Hk]]; exists k; unfold upd; destruct (Nat.eqb_spec k i) as [->|]; congruence);
     try (exists i; apply upd_same); norm; try (intuition congruence)
   | intros Ha; first [destruct (E2 Ha) as [Hd Hn] | destruct (E2 eq_refl) as [Hd Hn] | (exfalso; congruence)]; pose proof (Hn i) as Hni; rewrite Hpc in Hni;
     (split; [ try assumption; try congruence; try reflexivity; try tauto
            | intros k; specialize (Hn k); unfold upd; destruct (Nat.eqb_spec k i) as [->|];
              [ try solve [split; congruence]; try solve [exfalso; intuition congruence] | assumption ] ]) ]).
Qed.

Lemma loaded_owns p : loaded p = true -> owns_lock p = true.
Proof. destruct p; simpl; congruence. Qed.
Lemma committing_owns p : committing p = true -> owns_lock p = true.
Proof. destruct p; simpl; congruence. Qed.
Lemma committing_loaded p : committing p = true -> loaded p = true.
Proof. destruct p; simpl; congruence. Qed.

Lemma data_step c i s : inv_lock s -> inv_data s -> inv_data (step_proc c i s).
Proof.
  intros A [F1 F2]. unfold step_proc, r_finish. pose proof (A i) as Ai. pose proof (F1 i) as F1i. pose proof (F2 i) as F2i.
  destruct (pcs s i) eqn:Hpc; simpl in Ai, F1i, F2i; branches; sset; try (split; assumption);
  (split; intros j; pose proof (A j) as Aj; pose proof (F1 j) as F1j; pose proof (F2 j) as F2j;
   pose proof (loaded_owns (pcs s j)) as Lj; pose proof (committing_owns (pcs s j)) as Cj;
   sset; unfold upd;
   destruct (Nat.eqb_spec j i) as [->|Hji]; try rewrite Hpc in *; simpl in *;
   try tauto; try (intuition congruence); norm; try (intuition congruence)).
Qed.

Lemma log_step c n0 i s : inv_data s -> inv_log n0 s -> inv_log n0 (step_proc c i s).
Proof.
  intros [F1 F2] [G1 G2]. unfold step_proc, r_finish. pose proof (F1 i) as F1i. pose proof (F2 i) as F2i.
  destruct (pcs s i) eqn:Hpc; simpl in F1i, F2i; branches; sset; try (split; assumption).
  split; sset.
  - apply chain_app; [assumption | rewrite <- G2; apply F1i; reflexivity | apply F2i; reflexivity].
  - rewrite last_val_app. reflexivity.
Qed.


Lemma H1_step c i s : H1 s -> H1 (step_proc c i s).
Proof.
  intros H. unfold step_proc, r_finish. pose proof (H i) as Hi.
  destruct (pcs s i) eqn:Hpc; simpl in Hi; branches; sset; try exact H;
  intros j; pose proof (H j) as Hj; sset; unfold upd;
  destruct (Nat.eqb_spec j i) as [->|Hji]; try rewrite Hpc in *; simpl in *;
  try tauto; try (intuition congruence).
Qed.

Lemma H2_step c i s : H1 s -> H2 s -> H2 (step_proc c i s).
Proof.
  intros H K. unfold step_proc, r_finish. pose proof (H i) as Hi. pose proof (K i) as Ki.
  destruct (pcs s i) eqn:Hpc; simpl in Hi, Ki; branches; sset; try exact K;
  intros j; pose proof (K j) as Kj; sset; unfold upd;
  destruct (Nat.eqb_spec j i) as [->|Hji]; try rewrite Hpc in *; simpl in *;
  try tauto; try (intuition congruence).
Qed.

Lemma H3_step c i s : H1 s -> H3 s -> H3 (step_proc c i s).
Proof.
  intros H K. unfold step_proc, r_finish. pose proof (H i) as Hi. pose proof (K i) as Ki.
  destruct (pcs s i) eqn:Hpc; simpl in Hi, Ki; branches; sset; try exact K;
  intros j; pose proof (K j) as Kj; sset; unfold upd; rewrite ?map_app, ?in_app_iff; simpl;
  destruct (Nat.eqb_spec j i) as [->|Hji]; try rewrite Hpc in *; simpl in *;
  try tauto; try (intuition congruence).
Qed.

Lemma NoDup_snoc (l : list nat) i : NoDup l -> ~ In i l -> NoDup (l ++ [i]).
Proof.
  induction l as [|x l IH]; simpl; intros N Hn.
  - constructor; [intros [] | constructor].
  - inversion N as [|y l' Hx Hl]; subst. constructor.
    + rewrite in_app_iff. simpl. intros [H|[H|[]]]; [exact (Hx H) | apply Hn; left; symmetry; exact H].
    + apply IH; [exact Hl | intros H; apply Hn; right; exact H].
Qed.

Lemma H4_step c i s : H1 s -> H3 s -> H4 s -> H4 (step_proc c i s).
Proof.
  intros H K N. unfold step_proc, r_finish. pose proof (H i) as Hi. pose proof (K i) as Ki.
  destruct (pcs s i) eqn:Hpc; simpl in Hi, Ki; branches; unfold H4; sset; try exact N.
  rewrite map_app. simpl. apply NoDup_snoc; [exact N|]. rewrite Ki, Hi; congruence.
Qed.

Lemma H5_step c i s : inv_temp s -> H1 s -> H5 s -> H5 (step_proc c i s).
Proof.
  intros D H K. unfold step_proc, r_finish. pose proof (H i) as Hi. pose proof (K i) as Ki. pose proof (D i) as Di.
  destruct (pcs s i) eqn:Hpc; simpl in Hi, Ki, Di; branches; sset; try exact K;
  intros j; pose proof (K j) as Kj; sset; unfold upd;
  destruct (Nat.eqb_spec j i) as [->|Hji]; try rewrite Hpc in *; simpl in *;
  try tauto; try (intuition congruence).
Qed.

Lemma H6_step c i s : inv_lock s -> inv_rls s -> inv_whold s -> inv_temp s -> inv_dex c s -> H6 s -> H6 (step_proc c i s).
Proof.
  intros A [_ B] C D [E1 _] K. unfold step_proc, r_finish.
  pose proof (A i) as Ai. pose proof (B i) as Bi. pose proof (D i) as Di. pose proof (K i) as Ki.
  destruct (pcs s i) eqn:Hpc; simpl in Ai, Bi, Di; branches; sset; try exact K;
  intros j; pose proof (K j) as Kj; sset; unfold upd;
  destruct (Nat.eqb_spec j i) as [->|Hji]; try rewrite Hpc in *; simpl in *;
  try tauto; try congruence; try (intuition congruence); norm; exfalso;
  destruct (E1 E) as [k Hk]; pose proof (A k) as Ak; pose proof (C k) as Ck; rewrite Hk in Ak, Ck; simpl in Ak, Ck.
  - rewrite (Ck eq_refl) in Bi. simpl in Bi. tauto.
  - assert (k = i) by intuition congruence. subst k. congruence.
Qed.


Lemma J1_step c i s : J2 s -> J1 s -> J1 (step_proc c i s).
Proof.
  intros K N. unfold step_proc, r_finish. pose proof (K i) as Ki.
  destruct (pcs s i) eqn:Hpc; simpl in Ki; branches; unfold J1; sset; try exact N.
  apply NoDup_snoc; [exact N | apply Ki; reflexivity].
Qed.

Lemma J2_step c i s : J2 s -> J2 (step_proc c i s).
Proof.
  intros K. unfold step_proc, r_finish. pose proof (K i) as Ki.
  destruct (pcs s i) eqn:Hpc; simpl in Ki; branches; sset; try exact K;
  intros j; pose proof (K j) as Kj; sset; unfold upd; rewrite ?in_app_iff; simpl;
  destruct (Nat.eqb_spec j i) as [->|Hji]; try rewrite Hpc in *; simpl in *;
  try tauto; try (intuition congruence).
Qed.

Lemma J3_step c i s : inv_lock s -> J3 s -> J3 (step_proc c i s).
Proof.
  intros A K. unfold step_proc, r_finish. pose proof (K i) as Ki. pose proof (A i) as Ai.
  destruct (pcs s i) eqn:Hpc; simpl in Ki, Ai; branches; sset; try exact K;
  intros j; pose proof (K j) as Kj; pose proof (A j) as Aj; pose proof (writer_owns (pcs s j)) as Wj; sset; unfold upd;
  destruct (Nat.eqb_spec j i) as [->|Hji]; try rewrite Hpc in *; simpl in *;
  try tauto; try (intuition congruence); try (intros _; eexists; reflexivity).
Qed.

Lemma filter_upd_same (o : nat -> outcome) i v l :
  is_committed v = is_committed (o i) ->
  filter (fun x => is_committed (upd o i v x)) l = filter (fun x => is_committed (o x)) l.
Proof.
  intros H. apply filter_ext. intros x. unfold upd. destruct (Nat.eqb_spec x i) as [->|]; auto.
Qed.

Lemma filter_upd_notin (o : nat -> outcome) i v l :
  ~ In i l ->
  filter (fun x => is_committed (upd o i v x)) l = filter (fun x => is_committed (o x)) l.
Proof.
  intros H. apply filter_ext_in. intros x Hx. unfold upd. destruct (Nat.eqb_spec x i) as [->|]; [contradiction | reflexivity].
Qed.

Lemma J4_step c i s : H1 s -> J1 s -> J3 s -> J4 s -> J4 (step_proc c i s).
Proof.
  intros H N K3 K. unfold step_proc, r_finish. pose proof (H i) as Hi. pose proof (K3 i) as K3i.
  destruct (pcs s i) eqn:Hpc; simpl in Hi, K3i; branches; unfold J4 in *; sset; try exact K;
  try (rewrite filter_upd_same; [exact K | rewrite Hi; reflexivity]).
  - rewrite filter_app. simpl. rewrite (Hi eq_refl). simpl. rewrite app_nil_r. exact K.
  - destruct (K3i eq_refl) as [l Hl]. unfold J1 in N. rewrite Hl in *.
    assert (Hni : ~ In i l).
    { clear - N. induction l as [|x l IH]; simpl in *; [tauto|].
      inversion N as [|y l' Hx Hl']; subst. intros [->|Hin]; [|exact (IH Hl' Hin)].
      apply Hx. rewrite in_app_iff. simpl. tauto. }
    rewrite map_app, K. simpl. rewrite !filter_app. simpl. rewrite upd_same, (Hi eq_refl). simpl.
    rewrite app_nil_r. rewrite (filter_upd_notin _ _ _ _ Hni). reflexivity.
Qed.

(* ---- the invariant holds along every schedule ---------------------------------------------------- *)
Lemma inv_step_proc c n0 i s : Inv c n0 s -> Inv c n0 (step_proc c i s).
Proof.
  intros (A & B & C & D & E & F & G & (h1 & h2 & h3 & h4 & h5 & h6) & (j1 & j2 & j3 & j4)).
  split; [apply lock_step; assumption|].
  split; [apply rls_step; assumption|].
  split; [apply whold_step; assumption|].
  split; [apply temp_step; assumption|].
  split; [apply (dex_step c i s D E)|].
  split; [apply (data_step c i s A F)|].
  split; [apply (log_step c n0 i s F G)|].
  split.
  - split; [apply H1_step; assumption|].
    split; [apply H2_step; assumption|].
    split; [apply H3_step; assumption|].
    split; [apply H4_step; assumption|].
    split; [apply H5_step; assumption|].
    apply (H6_step c i s A B C D E h6).
  - split; [apply J1_step; assumption|].
    split; [apply J2_step; assumption|].
    split; [apply J3_step; assumption|].
    apply J4_step; assumption.
Qed.

Lemma inv_step c n0 e s : Inv c n0 s -> Inv c n0 (step c e s).
Proof.
  destruct e as [i|i]; simpl; [apply inv_step_proc|].
  intros H. exact H.
Qed.

Lemma inv_run c n0 es s : Inv c n0 s -> Inv c n0 (run c es s).
Proof.
  revert s. induction es as [|e r IH]; intros s H; simpl; [exact H|].
  apply IH. apply inv_step. exact H.
Qed.

Lemma inv_reach c n0 es : Inv c n0 (run c es (init n0)).
Proof. apply inv_run. apply inv_init. Qed.

(* ---- consequences ---------------------------------------------------------------------------------- *)
Definition lock_inv (s : st) : Prop :=
  (forall i j, owns_lock (pcs s i) = true -> owns_lock (pcs s j) = true -> i = j) /\
  (forall i, owns_lock (pcs s i) = true <-> lockf s = Some i) /\
  (forall i, writer_holds (pcs s i) = true -> lockf s = Some i /\ rls s = []) /\
  (NoDup (rls s) /\ forall i, In i (rls s) <-> reader_holds (pcs s i) = true) /\
  (forall i, tempf s = Some i <-> has_temp (pcs s i) = true) /\
  (forall i, tempf s = Some i -> lockf s = Some i) /\
  (dex s = false -> exists i, pcs s i = WRename /\ lockf s = Some i).

Lemma lock_inv_of_Inv c n0 s : Inv c n0 s -> lock_inv s.
Proof.
  intros (A & B & C & D & (E1 & E2) & _).
  unfold lock_inv. split; [|split; [|split; [|split; [|split; [|split]]]]].
  - intros i j Hi Hj. apply A in Hi. apply A in Hj. congruence.
  - exact A.
  - intros i Hi. split; [apply A, writer_owns, Hi | exact (C i Hi)].
  - exact B.
  - intros i. split; apply D.
  - intros i Hi. apply A, holds_temp_owns, D, Hi.
  - intros Hd. destruct (E1 Hd) as [k Hk]. exists k. split; [exact Hk|]. apply A. rewrite Hk. reflexivity.
Qed.

Lemma mutual_exclusion_of_Inv c n0 s i j :
  Inv c n0 s -> writer_holds (pcs s i) = true -> j <> i ->
  writer_holds (pcs s j) = false /\ reader_holds (pcs s j) = false.
Proof.
  intros (A & (_ & B) & C & _) Hi Hji. split.
  - destruct (writer_holds (pcs s j)) eqn:Hj; [|reflexivity].
    apply writer_owns, A in Hi. apply writer_owns, A in Hj. congruence.
  - destruct (reader_holds (pcs s j)) eqn:Hj; [|reflexivity].
    apply B in Hj. rewrite (C i Hi) in Hj. destruct Hj.
Qed.

Lemma step_proc_other c k s i : i <> k -> pcs (step_proc c k s) i = pcs s i.
Proof.
  intros Hik. unfold step_proc, r_finish.
  destruct (pcs s k) eqn:Hpc; branches; sset; try reflexivity; apply upd_other; exact Hik.
Qed.

Lemma enter_whold c i s :
  writer_holds (pcs s i) = false -> writer_holds (pcs (step_proc c i s) i) = true -> rls s = [].
Proof.
  unfold step_proc, r_finish.
  destruct (pcs s i) eqn:Hpc; simpl; try discriminate; branches; sset; rewrite ?upd_same, ?Hpc; simpl;
  try discriminate; intros _ _; norm; reflexivity.
Qed.

Lemma no_writer_starts_of_Inv c n0 s e i j :
  Inv c n0 s -> reader_holds (pcs s j) = true ->
  writer_holds (pcs (step c e s) i) = true -> writer_holds (pcs s i) = true.
Proof.
  intros (A & (_ & B) & C & _) Hj Hi'.
  destruct (writer_holds (pcs s i)) eqn:Hi; [reflexivity|]. exfalso.
  destruct e as [k|k]; simpl in Hi'; [|congruence].
  destruct (Nat.eq_dec i k) as [->|Hik].
  - pose proof (enter_whold c k s Hi Hi') as Hr. apply B in Hj. rewrite Hr in Hj. destruct Hj.
  - rewrite (step_proc_other c k s i Hik) in Hi'. congruence.
Qed.

Definition serialised (n0 : nat) (s : st) : Prop :=
  chain n0 (log s) /\
  dval s = n0 + length (log s) /\
  (forall i, In i (map fst (log s)) <-> outs s i = OCommitted) /\
  NoDup (map fst (log s)) /\
  map fst (log s) = filter (fun i => is_committed (outs s i)) (acq s).

Lemma serialised_of_Inv c n0 s : Inv c n0 s -> serialised n0 s.
Proof.
  intros (_ & _ & _ & _ & _ & _ & (G1 & G2) & (_ & _ & h3 & h4 & _) & (_ & _ & _ & j4)).
  unfold serialised. repeat split; try assumption.
  - rewrite G2. apply chain_last. exact G1.
  - apply h3.
  - apply h3.
Qed.

Lemma is_committed_true o : is_committed o = true <-> o = OCommitted.
Proof. destruct o; simpl; split; congruence. Qed.

Lemma committed_count_of_Inv c n0 s ps :
  Inv c n0 s -> NoDup ps -> (forall i, outs s i = OCommitted -> In i ps) ->
  dval s = n0 + length (filter (fun i => is_committed (outs s i)) ps).
Proof.
  intros HI Hnd Hall. destruct (serialised_of_Inv c n0 s HI) as (_ & Hd & H3 & H4 & _).
  rewrite Hd. f_equal. rewrite <- (map_length fst (log s)).
  apply Permutation_length. apply NoDup_Permutation.
  - exact H4.
  - apply NoDup_filter. exact Hnd.
  - intros x. rewrite filter_In, is_committed_true, H3. split; [intros H; split; [apply Hall, H | exact H] | tauto].
Qed.

Lemma quiescent_clean_of_Inv c n0 s :
  Inv c n0 s -> (forall i, idle (pcs s i) = true) ->
  lockf s = None /\ rls s = [] /\ tempf s = None /\ dex s = true.
Proof.
  intros (A & (_ & B) & _ & D & (E1 & _) & _) Hq.
  assert (Hno : forall i p, pcs s i = p -> idle p = false -> False).
  { intros i p <- Hp. rewrite Hq in Hp. discriminate. }
  repeat split.
  - destruct (lockf s) as [k|] eqn:Hl; [|reflexivity]. exfalso.
    apply A in Hl. specialize (Hq k). destruct (pcs s k); simpl in *; congruence.
  - destruct (rls s) as [|k l] eqn:Hr; [reflexivity|]. exfalso.
    assert (Hin : In k (k :: l)) by (left; reflexivity).
    apply B in Hin. specialize (Hq k). destruct (pcs s k); simpl in *; congruence.
  - destruct (tempf s) as [k|] eqn:Hl; [|reflexivity]. exfalso.
    apply D in Hl. specialize (Hq k). destruct (pcs s k); simpl in *; congruence.
  - destruct (dex s) eqn:Hd; [reflexivity|]. exfalso.
    destruct (E1 eq_refl) as [k Hk]. specialize (Hq k). rewrite Hk in Hq. discriminate.
Qed.

(* ---- giving up / failing changes nothing ------------------------------------------------------------ *)
Lemma done_holds_nothing_of_Inv c n0 s i :
  Inv c n0 s -> pcs s i = Done ->
  lockf s <> Some i /\ ~ In i (rls s) /\ tempf s <> Some i.
Proof.
  intros (A & (_ & B) & _ & D & _) Hd. repeat split; intros H.
  - apply A in H. rewrite Hd in H. discriminate.
  - apply B in H. rewrite Hd in H. discriminate.
  - apply D in H. rewrite Hd in H. discriminate.
Qed.

Lemma untouched_of_Inv c n0 s i :
  Inv c n0 s -> pcs s i = Done -> outs s i <> OCommitted -> touched s i = false /\ ~ In i (map fst (log s)).
Proof.
  intros (_ & _ & _ & _ & _ & _ & _ & (_ & _ & h3 & _ & h5 & _) & _) Hd Ho. split.
  - destruct (touched s i) eqn:Ht; [|reflexivity]. exfalso.
    destruct (h5 i Ht) as [[Hp _]|Hc]; congruence.
  - intros H. apply h3 in H. contradiction.
Qed.

(* the table file changes only in a step that marks the stepping process as `touched` *)
Lemma data_change_touches c e s :
  (dex (step c e s) <> dex s \/ dval (step c e s) <> dval s) ->
  exists i, e = Step i /\ touched (step c e s) i = true.
Proof.
  destruct e as [i|i]; simpl; [|intros [H|H]; congruence].
  intros H. exists i. split; [reflexivity|]. revert H. unfold step_proc, r_finish.
  destruct (pcs s i) eqn:Hpc; branches; sset; rewrite ?upd_same; try reflexivity; intros [H|H]; congruence.
Qed.

Lemma touched_mono_step c e s i : touched s i = true -> touched (step c e s) i = true.
Proof.
  destruct e as [k|k]; simpl; [|tauto]. unfold step_proc, r_finish.
  destruct (pcs s k) eqn:Hpc; branches; sset; try tauto; unfold upd; destruct (Nat.eqb i k); tauto.
Qed.

Lemma touched_mono_run c es s i : touched s i = true -> touched (run c es s) i = true.
Proof.
  revert s. induction es as [|e r IH]; intros s H; simpl; [exact H|]. apply IH, touched_mono_step, H.
Qed.

Lemma step_other_touched c e s i : (forall k, e = Step k -> k <> i) -> touched (step c e s) i = touched s i.
Proof.
  destruct e as [k|k]; simpl; [|reflexivity]. intros H. specialize (H k eq_refl).
  unfold step_proc, r_finish.
  destruct (pcs s k) eqn:Hpc; branches; sset; try reflexivity; apply upd_other; congruence.
Qed.

(* a process that ends without having committed never changed the table in any of its steps *)
Lemma no_commit_no_change c n0 es1 e es2 i :
  let a := run c es1 (init n0) in
  let s := run c (es1 ++ e :: es2) (init n0) in
  pcs s i = Done -> outs s i <> OCommitted -> (e = Step i \/ e = Expire i) ->
  dex (step c e a) = dex a /\ dval (step c e a) = dval a.
Proof.
  intros a s Hd Ho He.
  assert (HI : Inv c n0 s) by apply inv_reach.
  destruct (untouched_of_Inv c n0 s i HI Hd Ho) as [Ht _].
  destruct (Bool.bool_dec (dex (step c e a)) (dex a)) as [H1|H1];
  destruct (Nat.eq_dec (dval (step c e a)) (dval a)) as [H2|H2]; try (split; assumption); exfalso.
  all: destruct (data_change_touches c e a) as [k [Hk Hto]]; [tauto|];
    assert (k = i) by (destruct He as [He|He]; congruence); subst k;
    assert (Hs : s = run c es2 (step c e a)) by (unfold s, a; rewrite run_app; reflexivity);
    rewrite Hs in Ht; rewrite (touched_mono_run c es2 _ i Hto) in Ht; discriminate.
Qed.

(* ---- failures other than the lock timeout -------------------------------------------------------------- *)
Lemma never_ioerr_of_Inv c n0 s i : Inv c n0 s -> outs s i <> OIOErr.
Proof. intros (_ & _ & _ & _ & _ & _ & _ & (_ & _ & _ & _ & _ & h6) & _). apply h6. Qed.

Lemma step_proc_other_out c k s i : i <> k -> outs (step_proc c k s) i = outs s i.
Proof.
  intros Hik. unfold step_proc, r_finish.
  destruct (pcs s k) eqn:Hpc; branches; sset; try reflexivity; apply upd_other; exact Hik.
Qed.

(* "file does not exist" is decided only in a step taken while another process sits between the
   os.Remove and the os.Rename of its COMMIT -- and only in the remove-then-rename COMMIT *)
Lemma notexist_step c n0 e s i :
  Inv c n0 s -> outs s i <> ONotExist -> outs (step c e s) i = ONotExist ->
  e = Step i /\ atomic c = false /\ exists j, j <> i /\ pcs s j = WRename.
Proof.
  intros (_ & _ & _ & _ & (E1 & E2) & _) Hn Hs.
  destruct e as [k|k]; simpl in Hs; [|congruence].
  destruct (Nat.eq_dec i k) as [<-|Hik]; [|rewrite (step_proc_other_out c k s i Hik) in Hs; congruence].
  split; [reflexivity|].
  assert (Hd : dex s = false /\ pcs s i <> WRename).
  { revert Hs. unfold step_proc, r_finish.
    destruct (pcs s i) eqn:Hpc; branches; sset; rewrite ?upd_same; try congruence; norm; split; congruence. }
  destruct Hd as [Hd Hp]. split.
  - destruct (atomic c) eqn:Ha; [|reflexivity]. destruct (E2 eq_refl) as [Ht _]. congruence.
  - destruct (E1 Hd) as [j Hj]. exists j. split; [congruence | exact Hj].
Qed.

Lemma atomic_never_notexist c n0 es i :
  atomic c = true -> outs (run c es (init n0)) i <> ONotExist.
Proof.
  intros Ha.
  assert (G : forall es s, Inv c n0 s -> outs s i <> ONotExist -> outs (run c es s) i <> ONotExist).
  { clear es. induction es as [|e r IH]; intros s HI Hn; simpl; [exact Hn|].
    apply IH; [apply inv_step, HI|].
    intros Hs. destruct (notexist_step c n0 e s i HI Hn Hs) as (_ & Hf & _). congruence. }
  apply G; [apply inv_init | simpl; congruence].
Qed.

(* a lock-timeout failure is decided only after the wait timeout of that process has elapsed *)
Lemma timeout_needs_expiry_step c e s :
  (forall i, outs s i = OTimeout -> expd s i = true) ->
  (forall i, outs (step c e s) i = OTimeout -> expd (step c e s) i = true).
Proof.
  intros H. destruct e as [k|k]; simpl.
  - unfold step_proc, r_finish. pose proof (H k) as Hk.
    destruct (pcs s k) eqn:Hpc; branches; sset; try exact H;
    intros j; pose proof (H j) as Hj; unfold upd; destruct (Nat.eqb_spec j k) as [->|]; try tauto; try congruence.
  - intros j. unfold upd. destruct (Nat.eqb_spec j k) as [->|]; [reflexivity | apply H].
Qed.

Lemma timeout_needs_expiry c n0 es i :
  outs (run c es (init n0)) i = OTimeout -> expd (run c es (init n0)) i = true.
Proof.
  assert (G : forall es s, (forall i, outs s i = OTimeout -> expd s i = true) ->
                           forall i, outs (run c es s) i = OTimeout -> expd (run c es s) i = true).
  { clear. induction es as [|e r IH]; intros s H; simpl; [exact H|]. apply IH, timeout_needs_expiry_step, H. }
  apply G. simpl. congruence.
Qed.
