(* Proofs/C10.v -- crash during COMMIT: every prefix of the commit op list leaves each
   pre-existing table old or new (for the rename-over variant), and what holds for the
   remove-then-rename variant the tree implements today. *)
From Coq Require Import Lia.
Require Import Csvq.Model.Base Csvq.Model.Fs Csvq.Model.Commit Csvq.Proofs.FsFacts.

(* ---- the statements -------------------------------------------------------------------------- *)
(* table t, which existed when COMMIT started, has its complete old or its complete new contents *)
Definition table_ok (up : list tchange) (s0 s : fs) (t : N) : Prop :=
  forall old, lookup s0 (data t) = Some old ->
    lookup s (data t) = Some old
    \/ exists u, In u up /\ tid u = t /\ lookup s (data t) = Some (new_content u).

(* ... or is missing while the temp file holds the complete new contents *)
Definition table_ok_or_temp (up : list tchange) (s0 s : fs) (t : N) : Prop :=
  forall old, lookup s0 (data t) = Some old ->
    lookup s (data t) = Some old
    \/ (exists u, In u up /\ tid u = t /\ lookup s (data t) = Some (new_content u))
    \/ (exists u, In u up /\ tid u = t /\ lookup s (data t) = None /\ lookup s (tempp t) = Some (new_content u)).

Definition crash_old_or_new_stmt (rename_over : bool) : Prop :=
  forall cr up idle s0 k t,
    commit_ready s0 cr up idle = true -> ~ In t (map tid cr) ->
    table_ok up s0 (run s0 (firstn k (commit_ops rename_over cr up idle))) t.

Definition recoverable_stmt (rename_over : bool) : Prop :=
  forall cr up idle s0 k,
    commit_ready s0 cr up idle = true ->
    let s := delete_control_files (run s0 (firstn k (commit_ops rename_over cr up idle))) in
    (forall p, is_control p = true -> lookup s p = None)
    /\ (forall t, ~ In t (map tid cr) -> table_ok up s0 s t).

(* ---- blocks are local to their table ----------------------------------------------------------- *)
Lemma wr_tbl : forall p d o, In o (wr p d) -> op_tbl o = snd p /\ op_local o = true /\ op_paths o = [p].
Proof. intros p [|x d] o H; simpl in H; [contradiction|]. destruct H as [H|[]]. subst o. auto. Qed.

Lemma encode_ops_spec : forall p body lb o, In o (encode_ops p body lb) ->
  op_tbl o = snd p /\ op_local o = true /\ op_paths o = [p].
Proof.
  intros p body lb o H. unfold encode_ops in H. destruct H as [H|H]; [subst o; auto|].
  apply in_app_or in H. destruct H as [H|H]; eapply wr_tbl; exact H.
Qed.

Lemma write_created_tbl : forall c o, In o (write_created c) -> op_tbl o = tid c.
Proof. intros c o H. apply encode_ops_spec in H. tauto. Qed.
Lemma write_updated_tbl : forall c o, In o (write_updated c) -> op_tbl o = tid c.
Proof. intros c o H. apply encode_ops_spec in H. tauto. Qed.
Lemma commit_created_tbl : forall c o, In o (commit_created c) -> op_tbl o = tid c.
Proof. intros c o H. simpl in H. repeat (destruct H as [H|H]; [subst o; reflexivity|]). contradiction. Qed.
Lemma commit_updated_tbl : forall ro c o, In o (commit_updated ro c) -> op_tbl o = tid c.
Proof. intros ro c o H. destruct ro; simpl in H; repeat (destruct H as [H|H]; [subst o; reflexivity|]); contradiction. Qed.
Lemma release_idle_tbl : forall t o, In o (release_idle t) -> op_tbl o = t.
Proof. intros t o H. simpl in H. repeat (destruct H as [H|H]; [subst o; reflexivity|]). contradiction. Qed.

Lemma forallb_flat_map : forall {A} (P : op -> bool) (f : A -> list op) l,
  (forall x, forallb P (f x) = true) -> forallb P (flat_map f l) = true.
Proof.
  intros A P f l H. induction l as [|a l IH]; [reflexivity|].
  simpl. rewrite forallb_app, H, IH. reflexivity.
Qed.

Lemma encode_local : forall p body lb, forallb op_local (encode_ops p body lb) = true.
Proof. intros. apply forallb_forall. intros o H. apply encode_ops_spec in H. tauto. Qed.

Lemma commit_ops_local : forall ro cr up idle, forallb op_local (commit_ops ro cr up idle) = true.
Proof.
  intros. unfold commit_ops. rewrite !forallb_app.
  rewrite (forallb_flat_map op_local write_created) by (intros; apply encode_local).
  rewrite (forallb_flat_map op_local write_updated) by (intros; apply encode_local).
  rewrite (forallb_flat_map op_local commit_created) by (intros; reflexivity).
  rewrite (forallb_flat_map op_local (commit_updated ro)) by (intros x; destruct ro; simpl; rewrite N.eqb_refl; reflexivity).
  rewrite (forallb_flat_map op_local release_idle) by (intros; reflexivity).
  reflexivity.
Qed.

(* ---- the calls about one table, extracted from the whole list ----------------------------------- *)
Lemma ready_nodup : forall s cr up idle, commit_ready s cr up idle = true ->
  NoDup (map tid cr ++ map tid up ++ idle).
Proof.
  intros s cr up idle H. unfold commit_ready in H. rewrite !andb_true_iff in H.
  apply nodup_b_NoDup. tauto.
Qed.

Lemma filter_updated : forall ro cr up idle u,
  NoDup (map tid cr ++ map tid up ++ idle) -> In u up ->
  filter (on_tbl (tid u)) (commit_ops ro cr up idle) = write_updated u ++ commit_updated ro u.
Proof.
  intros ro cr up idle u Hnd Hin. unfold commit_ops. rewrite !filter_app.
  assert (Hup : NoDup (map tid up)) by (apply NoDup_app_r in Hnd; apply NoDup_app_l in Hnd; exact Hnd).
  assert (Hiu : In (tid u) (map tid up)) by (apply in_map; exact Hin).
  assert (Hncr : ~ In (tid u) (map tid cr)).
  { intros H. apply (NoDup_app_disj _ _ (tid u) Hnd H). apply in_or_app. left. exact Hiu. }
  assert (Hnid : ~ In (tid u) idle).
  { apply NoDup_app_r in Hnd. apply (NoDup_app_disj _ _ (tid u) Hnd Hiu). }
  rewrite (filter_flat_map_none write_created tid cr (tid u) (write_created_tbl ) Hncr).
  rewrite (filter_flat_map_none commit_created tid cr (tid u) commit_created_tbl Hncr).
  rewrite (filter_flat_map_one write_updated tid up u (write_updated_tbl ) Hup Hin).
  rewrite (filter_flat_map_one (commit_updated ro) tid up u (commit_updated_tbl ro) Hup Hin).
  assert (Hid : filter (on_tbl (tid u)) (flat_map release_idle idle) = []).
  { apply (filter_flat_map_none release_idle (fun x => x)); [apply release_idle_tbl | rewrite map_id; exact Hnid]. }
  rewrite Hid. simpl. rewrite app_nil_r. reflexivity.
Qed.

Lemma filter_idle : forall ro cr up idle t,
  NoDup (map tid cr ++ map tid up ++ idle) -> In t idle ->
  filter (on_tbl t) (commit_ops ro cr up idle) = release_idle t.
Proof.
  intros ro cr up idle t Hnd Hin. unfold commit_ops. rewrite !filter_app.
  assert (Hnup : ~ In t (map tid up)).
  { intros H. apply NoDup_app_r in Hnd. apply (NoDup_app_disj _ _ t Hnd H). exact Hin. }
  assert (Hncr : ~ In t (map tid cr)).
  { intros H. apply (NoDup_app_disj _ _ t Hnd H). apply in_or_app. right. exact Hin. }
  assert (Hid : NoDup idle) by (apply NoDup_app_r in Hnd; apply NoDup_app_r in Hnd; exact Hnd).
  rewrite (filter_flat_map_none write_created tid cr t (write_created_tbl ) Hncr).
  rewrite (filter_flat_map_none commit_created tid cr t commit_created_tbl Hncr).
  rewrite (filter_flat_map_none write_updated tid up t (write_updated_tbl ) Hnup).
  rewrite (filter_flat_map_none (commit_updated ro) tid up t (commit_updated_tbl ro) Hnup).
  assert (G : filter (on_tbl t) (flat_map release_idle idle) = release_idle t).
  { apply (filter_flat_map_one release_idle (fun x => x) idle t); [apply release_idle_tbl | rewrite map_id; exact Hid | exact Hin]. }
  rewrite G. reflexivity.
Qed.

Lemma filter_untouched : forall ro cr up idle t,
  ~ In t (map tid cr) -> ~ In t (map tid up) -> ~ In t idle ->
  filter (on_tbl t) (commit_ops ro cr up idle) = [].
Proof.
  intros ro cr up idle t Hncr Hnup Hnid. unfold commit_ops. rewrite !filter_app.
  rewrite (filter_flat_map_none write_created tid cr t (write_created_tbl ) Hncr).
  rewrite (filter_flat_map_none commit_created tid cr t commit_created_tbl Hncr).
  rewrite (filter_flat_map_none write_updated tid up t (write_updated_tbl ) Hnup).
  rewrite (filter_flat_map_none (commit_updated ro) tid up t (commit_updated_tbl ro) Hnup).
  assert (G : filter (on_tbl t) (flat_map release_idle idle) = []).
  { apply (filter_flat_map_none release_idle (fun x => x)); [apply release_idle_tbl | rewrite map_id; exact Hnid]. }
  rewrite G. reflexivity.
Qed.

(* the binding of a path of table t after a crash = the binding after a prefix of t's own calls *)
Lemma crash_reduces_to_table : forall ro cr up idle s0 k t kd, exists k',
  lookup (run s0 (firstn k (commit_ops ro cr up idle))) (kd, t)
  = lookup (run s0 (firstn k' (filter (on_tbl t) (commit_ops ro cr up idle)))) (kd, t).
Proof.
  intros. destruct (filter_firstn (on_tbl t) (commit_ops ro cr up idle) k) as [k' Hk'].
  exists k'. rewrite <- Hk'. apply run_filter_tbl. apply forallb_firstn. apply commit_ops_local.
Qed.

(* ---- one table ------------------------------------------------------------------------------- *)
Lemma firstn_app_cases : forall {A} k (a b : list A),
  (exists k', firstn k (a ++ b) = firstn k' a) \/ (exists j, firstn k (a ++ b) = a ++ firstn j b).
Proof.
  intros A k a b. rewrite firstn_app. destruct (Nat.le_gt_cases k (length a)) as [H|H].
  - left. exists k. replace (k - length a)%nat with 0%nat by lia. simpl. apply app_nil_r.
  - right. exists (k - length a)%nat. rewrite firstn_all2 by lia. reflexivity.
Qed.

Lemma encode_prefix_frame : forall p body lb k s q, q <> p ->
  lookup (run s (firstn k (encode_ops p body lb))) q = lookup s q.
Proof.
  intros p body lb k s q H. apply run_frame. intros o Ho Hq.
  apply firstn_In in Ho. apply encode_ops_spec in Ho. destruct Ho as [_ [_ Hp]].
  rewrite Hp in Hq. destruct Hq as [Hq|[]]. congruence.
Qed.

Lemma encode_frame : forall p body lb s q, q <> p -> lookup (run s (encode_ops p body lb)) q = lookup s q.
Proof.
  intros p body lb s q H.
  rewrite <- (firstn_all (encode_ops p body lb)). apply encode_prefix_frame. exact H.
Qed.

Lemma encode_result : forall p body lb s c0, lookup s p = Some c0 ->
  lookup (run s (encode_ops p body lb)) p = Some (body ++ lb).
Proof.
  intros p body lb s c0 H. unfold encode_ops. simpl. rewrite H.
  assert (H1 : lookup (set s p []) p = Some []) by apply lookup_set_same.
  remember (set s p []) as s1 eqn:E1. clear E1 H.
  rewrite run_app.
  assert (H2 : lookup (run s1 (wr p body)) p = Some body).
  { destruct body as [|x body]; [exact H1|]. simpl. rewrite H1. simpl. apply lookup_set_same. }
  remember (run s1 (wr p body)) as s2 eqn:E2. clear E2 H1.
  destruct lb as [|x lb]; simpl.
  - rewrite app_nil_r. exact H2.
  - rewrite H2. apply lookup_set_same.
Qed.

Ltac pth := try discriminate; try (intros HH; inversion HH; fail).
Ltac fs_norm := repeat first
  [ rewrite lookup_set_same | rewrite lookup_del_same
  | rewrite lookup_set_other by (unfold data, tempp, lockp, rlockp; pth)
  | rewrite lookup_del_other by (unfold data, tempp, lockp, rlockp; pth) ].
Ltac stepn := cbn [firstn app run fold_left step]; rewrite ?firstn_nil; cbn [fold_left].

(* rename over the file: every prefix leaves the table old or new *)
Lemma single_table_rename_over : forall u s old tc k,
  lookup s (data (tid u)) = Some old -> lookup s (tempp (tid u)) = Some tc ->
  let s' := run s (firstn k (write_updated u ++ commit_updated true u)) in
  lookup s' (data (tid u)) = Some old \/ lookup s' (data (tid u)) = Some (new_content u).
Proof.
  intros u s old tc k Hd Ht. cbv zeta.
  destruct (firstn_app_cases k (write_updated u) (commit_updated true u)) as [[k' E]|[j E]]; rewrite E; clear E.
  - left. unfold write_updated. rewrite encode_prefix_frame by (unfold data, tempp; pth). exact Hd.
  - rewrite run_app.
    assert (H1 : lookup (run s (write_updated u)) (data (tid u)) = Some old).
    { unfold write_updated. rewrite encode_frame by (unfold data, tempp; pth). exact Hd. }
    assert (H2 : lookup (run s (write_updated u)) (tempp (tid u)) = Some (new_content u)).
    { unfold write_updated. apply (encode_result _ _ _ _ tc). exact Ht. }
    remember (run s (write_updated u)) as s1 eqn:E1. clear E1.
    unfold commit_updated, swap_ops, release_lock. cbn [app].
    destruct j as [|[|[|[|[|j]]]]]; stepn; try (left; exact H1); right; rewrite H2; stepn; fs_norm; reflexivity.
Qed.

(* remove, then rename: old, new, or missing with the new contents complete in the temp file *)
Lemma single_table_remove_rename : forall u s old tc k,
  lookup s (data (tid u)) = Some old -> lookup s (tempp (tid u)) = Some tc ->
  let s' := run s (firstn k (write_updated u ++ commit_updated false u)) in
  lookup s' (data (tid u)) = Some old \/ lookup s' (data (tid u)) = Some (new_content u)
  \/ (lookup s' (data (tid u)) = None /\ lookup s' (tempp (tid u)) = Some (new_content u)).
Proof.
  intros u s old tc k Hd Ht. cbv zeta.
  destruct (firstn_app_cases k (write_updated u) (commit_updated false u)) as [[k' E]|[j E]]; rewrite E; clear E.
  - left. unfold write_updated. rewrite encode_prefix_frame by (unfold data, tempp; pth). exact Hd.
  - rewrite run_app.
    assert (H1 : lookup (run s (write_updated u)) (data (tid u)) = Some old).
    { unfold write_updated. rewrite encode_frame by (unfold data, tempp; pth). exact Hd. }
    assert (H2 : lookup (run s (write_updated u)) (tempp (tid u)) = Some (new_content u)).
    { unfold write_updated. apply (encode_result _ _ _ _ tc). exact Ht. }
    remember (run s (write_updated u)) as s1 eqn:E1. clear E1.
    unfold commit_updated, swap_ops, release_lock. cbn [app].
    assert (H3 : lookup (del s1 (data (tid u))) (tempp (tid u)) = Some (new_content u)).
    { rewrite lookup_del_other by (unfold data, tempp; pth). exact H2. }
    destruct j as [|[|[|[|[|[|j]]]]]]; stepn; try (left; exact H1).
    + right. right. split; [apply lookup_del_same | exact H3].
    + right. left. rewrite H3. stepn. fs_norm. reflexivity.
    + right. left. rewrite H3. stepn. fs_norm. reflexivity.
    + right. left. rewrite H3. stepn. fs_norm. reflexivity.
Qed.

Lemma release_idle_prefix_data : forall t k s, lookup (run s (firstn k (release_idle t))) (data t) = lookup s (data t).
Proof.
  intros t k s. apply run_frame. intros o Ho Hq. apply firstn_In in Ho.
  simpl in Ho. repeat (destruct Ho as [Ho|Ho]; [subst o; simpl in Hq; repeat (destruct Hq as [Hq|Hq]; [discriminate Hq|]); contradiction|]).
  contradiction.
Qed.

(* ---- the theorems ----------------------------------------------------------------------------- *)
Lemma ready_updated_held : forall s cr up idle u, commit_ready s cr up idle = true -> In u up ->
  (exists old, lookup s (data (tid u)) = Some old) /\ (exists tc, lookup s (tempp (tid u)) = Some tc).
Proof.
  intros s cr up idle u H Hin. unfold commit_ready in H. rewrite !andb_true_iff in H.
  destruct H as [[[_ _] Hu] _]. rewrite forallb_forall in Hu. specialize (Hu u Hin).
  unfold held_update in Hu. rewrite !andb_true_iff in Hu. destruct Hu as [[Hd Ht] _].
  split; apply exists_b_true; assumption.
Qed.

Lemma in_map_tid : forall (up : list tchange) t, In t (map tid up) -> exists u, In u up /\ tid u = t.
Proof. intros up t H. apply in_map_iff in H. destruct H as [u [E Hu]]. exists u. auto. Qed.

Lemma crash_table_cases : forall ro cr up idle s0 k t,
  commit_ready s0 cr up idle = true -> ~ In t (map tid cr) ->
  (exists u k', In u up /\ tid u = t /\
     lookup (run s0 (firstn k (commit_ops ro cr up idle))) (data t)
     = lookup (run s0 (firstn k' (write_updated u ++ commit_updated ro u))) (data t) /\
     lookup (run s0 (firstn k (commit_ops ro cr up idle))) (tempp t)
     = lookup (run s0 (firstn k' (write_updated u ++ commit_updated ro u))) (tempp t))
  \/ (~ In t (map tid up) /\ lookup (run s0 (firstn k (commit_ops ro cr up idle))) (data t) = lookup s0 (data t)).
Proof.
  intros ro cr up idle s0 k t Hr Hncr.
  pose proof (ready_nodup _ _ _ _ Hr) as Hnd.
  destruct (in_dec N.eq_dec t (map tid up)) as [Hup|Hnup].
  - left. destruct (in_map_tid up t Hup) as [u [Hu Et]]. subst t.
    destruct (filter_firstn (on_tbl (tid u)) (commit_ops ro cr up idle) k) as [k' Hk'].
    exists u, k'. split; [exact Hu|]. split; [reflexivity|].
    rewrite <- (filter_updated ro cr up idle u Hnd Hu), <- Hk'.
    split; apply run_filter_tbl; apply forallb_firstn; apply commit_ops_local.
  - right. split; [exact Hnup|].
    destruct (crash_reduces_to_table ro cr up idle s0 k t KData) as [k' Hk'].
    unfold data. rewrite Hk'.
    destruct (in_dec N.eq_dec t idle) as [Hid|Hnid].
    + rewrite (filter_idle ro cr up idle t Hnd Hid). apply release_idle_prefix_data.
    + rewrite (filter_untouched ro cr up idle t Hncr Hnup Hnid). destruct k'; reflexivity.
Qed.

Theorem crash_old_or_new_rename_over : crash_old_or_new_stmt true.
Proof.
  intros cr up idle s0 k t Hr Hncr old Hold.
  destruct (crash_table_cases true cr up idle s0 k t Hr Hncr) as [[u [k' [Hu [Et [Hd _]]]]]|[_ Hd]].
  - subst t. rewrite Hd.
    destruct (ready_updated_held _ _ _ _ u Hr Hu) as [_ [tc Htc]].
    destruct (single_table_rename_over u s0 old tc k' Hold Htc) as [H|H].
    + left. exact H.
    + right. exists u. auto.
  - left. rewrite Hd. exact Hold.
Qed.

Theorem crash_old_new_or_temp : forall cr up idle s0 k t,
  commit_ready s0 cr up idle = true -> ~ In t (map tid cr) ->
  table_ok_or_temp up s0 (run s0 (firstn k (commit_ops false cr up idle))) t.
Proof.
  intros cr up idle s0 k t Hr Hncr old Hold.
  destruct (crash_table_cases false cr up idle s0 k t Hr Hncr) as [[u [k' [Hu [Et [Hd Ht]]]]]|[_ Hd]].
  - subst t. rewrite Hd, Ht.
    destruct (ready_updated_held _ _ _ _ u Hr Hu) as [_ [tc Htc]].
    destruct (single_table_remove_rename u s0 old tc k' Hold Htc) as [H|[H|[H1 H2]]].
    + left. exact H.
    + right. left. exists u. auto.
    + right. right. exists u. auto.
  - left. rewrite Hd. exact Hold.
Qed.

(* tables the transaction does not write are exactly as before, whatever the variant *)
Theorem crash_unwritten_unchanged : forall ro cr up idle s0 k t,
  commit_ready s0 cr up idle = true -> ~ In t (map tid cr) -> ~ In t (map tid up) ->
  lookup (run s0 (firstn k (commit_ops ro cr up idle))) (data t) = lookup s0 (data t).
Proof.
  intros ro cr up idle s0 k t Hr Hncr Hnup.
  destruct (crash_table_cases ro cr up idle s0 k t Hr Hncr) as [[u [k' [Hu [Et _]]]]|[_ Hd]].
  - exfalso. apply Hnup. rewrite <- Et. apply in_map. exact Hu.
  - exact Hd.
Qed.

(* nothing at all happens to the files of tables outside the transaction (no file appears either) *)
Theorem crash_foreign_untouched : forall ro cr up idle s0 k t kd,
  ~ In t (map tid cr) -> ~ In t (map tid up) -> ~ In t idle ->
  lookup (run s0 (firstn k (commit_ops ro cr up idle))) (kd, t) = lookup s0 (kd, t).
Proof.
  intros ro cr up idle s0 k t kd Hncr Hnup Hnid.
  destruct (crash_reduces_to_table ro cr up idle s0 k t kd) as [k' Hk'].
  rewrite Hk', (filter_untouched ro cr up idle t Hncr Hnup Hnid). destruct k'; reflexivity.
Qed.

(* the witness: one table, killed between unlinkat and renameat *)
Definition w_s0 : fs := [(data 1, [107; 10; 49; 10]); (lockp 1, []); (tempp 1, [])]%N.
Definition w_up : list tchange := [mkT 1 [107; 10; 50] [10]]%N.

Theorem crash_old_or_new_refuted : ~ crash_old_or_new_stmt false.
Proof.
  intros H. specialize (H [] w_up [] w_s0 6%nat 1%N eq_refl (fun f => f) [107; 10; 49; 10]%N eq_refl).
  vm_compute in H. destruct H as [H|[u [_ [_ H]]]]; discriminate H.
Qed.

Theorem recoverable_rename_over : recoverable_stmt true.
Proof.
  intros cr up idle s0 k Hr. cbv zeta. split.
  - intros p Hp. apply lookup_filter_control. unfold is_control in Hp. destruct (is_data p); [discriminate|reflexivity].
  - intros t Hncr old Hold. unfold delete_control_files. rewrite lookup_filter_data by reflexivity.
    apply (crash_old_or_new_rename_over cr up idle s0 k t Hr Hncr old Hold).
Qed.

(* with remove-then-rename, following the manual after a crash in the window deletes the only copy *)
Theorem recoverable_refuted : ~ recoverable_stmt false.
Proof.
  intros H. destruct (H [] w_up [] w_s0 6%nat eq_refl) as [_ H2].
  specialize (H2 1%N (fun f => f) [107; 10; 49; 10]%N eq_refl).
  vm_compute in H2. destruct H2 as [H2|[u [_ [_ H2]]]]; discriminate H2.
Qed.

Theorem recoverable_partial : forall cr up idle s0 k,
  commit_ready s0 cr up idle = true ->
  let s := run s0 (firstn k (commit_ops false cr up idle)) in
  (forall p, is_control p = true -> lookup (delete_control_files s) p = None)
  /\ (forall t, ~ In t (map tid cr) -> forall old, lookup s0 (data t) = Some old ->
        lookup (delete_control_files s) (data t) = lookup s (data t)
        /\ (lookup s (data t) = None -> exists u, In u up /\ tid u = t /\ lookup s (tempp t) = Some (new_content u))).
Proof.
  intros cr up idle s0 k Hr. cbv zeta. split.
  - intros p Hp. apply lookup_filter_control. unfold is_control in Hp. destruct (is_data p); [discriminate|reflexivity].
  - intros t Hncr old Hold. split.
    + unfold delete_control_files. apply lookup_filter_data. reflexivity.
    + intros Hnone.
      destruct (crash_old_new_or_temp cr up idle s0 k t Hr Hncr old Hold) as [H|[[u [_ [_ H]]]|[u [Hu [Et [_ H]]]]]].
      * congruence.
      * congruence.
      * exists u. auto.
Qed.

(* the complete commit: every updated table has its new contents, every created table its contents,
   and no control file of the transaction is left *)
Lemma full_table_updated : forall ro u s old tc lc,
  lookup s (data (tid u)) = Some old -> lookup s (tempp (tid u)) = Some tc -> lookup s (lockp (tid u)) = Some lc ->
  let s' := run s (write_updated u ++ commit_updated ro u) in
  lookup s' (data (tid u)) = Some (new_content u) /\ lookup s' (tempp (tid u)) = None /\ lookup s' (lockp (tid u)) = None.
Proof.
  intros ro u s old tc lc Hd Ht Hl. cbv zeta. rewrite run_app.
  assert (H2 : lookup (run s (write_updated u)) (tempp (tid u)) = Some (new_content u)).
  { unfold write_updated. apply (encode_result _ _ _ _ tc). exact Ht. }
  remember (run s (write_updated u)) as s1 eqn:E1. clear E1.
  destruct ro; unfold commit_updated, swap_ops, release_lock; cbn [app]; stepn.
  - rewrite H2. stepn. repeat split; fs_norm; reflexivity.
  - assert (H3 : lookup (del s1 (data (tid u))) (tempp (tid u)) = Some (new_content u)).
    { rewrite lookup_del_other by (unfold data, tempp; pth). exact H2. }
    rewrite H3. stepn. repeat split; fs_norm; reflexivity.
Qed.

Theorem commit_complete_updated : forall ro cr up idle s0 u,
  commit_ready s0 cr up idle = true -> In u up ->
  let s := run s0 (commit_ops ro cr up idle) in
  lookup s (data (tid u)) = Some (new_content u) /\ lookup s (tempp (tid u)) = None /\ lookup s (lockp (tid u)) = None.
Proof.
  intros ro cr up idle s0 u Hr Hu. cbv zeta.
  pose proof (ready_nodup _ _ _ _ Hr) as Hnd.
  unfold data, tempp, lockp.
  rewrite !(run_filter_tbl (commit_ops ro cr up idle) s0 (tid u)) by apply commit_ops_local.
  rewrite (filter_updated ro cr up idle u Hnd Hu).
  destruct (ready_updated_held _ _ _ _ u Hr Hu) as [[old Hold] [tc Htc]].
  assert (Hl : exists lc, lookup s0 (lockp (tid u)) = Some lc).
  { unfold commit_ready in Hr. rewrite !andb_true_iff in Hr. destruct Hr as [[[_ _] Hup] _].
    rewrite forallb_forall in Hup. specialize (Hup u Hu). unfold held_update in Hup.
    rewrite !andb_true_iff in Hup. apply exists_b_true. tauto. }
  destruct Hl as [lc Hlc].
  apply (full_table_updated ro u s0 old tc lc Hold Htc Hlc).
Qed.

(* ---- the decidable checker says the same as the Prop ------------------------------------------- *)
Lemma table_old_or_new_spec : forall up s0 s t,
  table_old_or_new up s0 s t = true <-> table_ok up s0 s t.
Proof.
  intros up s0 s t. unfold table_old_or_new, table_ok. split.
  - intros H old Hold. rewrite Hold in H. destruct (lookup s (data t)) as [c|]; [|discriminate].
    apply orb_true_iff in H. destruct H as [H|H].
    + left. apply content_eqb_eq in H. subst. reflexivity.
    + right. apply existsb_exists in H. destruct H as [u [Hu H]]. apply andb_true_iff in H.
      destruct H as [H1 H2]. apply N.eqb_eq in H1. apply content_eqb_eq in H2. subst. exists u. auto.
  - intros H. destruct (lookup s0 (data t)) as [old|]; [|reflexivity].
    destruct (H old eq_refl) as [H1|[u [Hu [Et H1]]]]; rewrite H1.
    + apply orb_true_iff. left. apply content_eqb_eq. reflexivity.
    + apply orb_true_iff. right. apply existsb_exists. exists u. split; [exact Hu|].
      apply andb_true_iff. split; [apply N.eqb_eq; exact Et | apply content_eqb_eq; reflexivity].
Qed.

Lemma old_or_new_spec : forall cr up s0 s,
  old_or_new cr up s0 s = true <-> (forall t, ~ In t (map tid cr) -> table_ok up s0 s t).
Proof.
  intros cr up s0 s. unfold old_or_new. rewrite forallb_forall. split.
  - intros H t Hncr. apply table_old_or_new_spec.
    unfold table_old_or_new. destruct (lookup s0 (data t)) as [old|] eqn:E; [|reflexivity].
    destruct (lookup_In_key s0 (data t) old E) as [c' Hin].
    specialize (H _ Hin). simpl in H.
    assert (Hm : mem t (map tid cr) = false).
    { destruct (mem t (map tid cr)) eqn:Em; [|reflexivity]. apply mem_In in Em. contradiction. }
    rewrite Hm in H. simpl in H. unfold table_old_or_new in H. rewrite E in H. exact H.
  - intros H [[kd t] c] Hin. simpl.
    destruct (is_data (kd, t)) eqn:Ed; [|reflexivity]. simpl.
    destruct (mem t (map tid cr)) eqn:Em; [reflexivity|]. simpl.
    apply table_old_or_new_spec. apply H. intros Hc. apply mem_In in Hc. congruence.
Qed.
