(* Proofs/C11.v -- the handler life cycle of Model/Cleanup.v: every file the process made is owned by
   a live handler (invariant), the deferred release leaves nothing behind, reads mutate nothing. *)
From Coq Require Import Lia.
Require Import Csvq.Model.Base Csvq.Model.Fs Csvq.Model.Commit Csvq.Model.Cleanup.
Require Import Csvq.Proofs.FsFacts Csvq.Proofs.C10.

Ltac pne := first [ assumption | congruence | discriminate | (intros HHne; inversion HHne; fail) ].
Ltac fsn := repeat first
  [ rewrite lookup_set_same | rewrite lookup_del_same
  | rewrite lookup_set_other by (unfold data, tempp, lockp, rlockp in *; pne)
  | rewrite lookup_del_other by (unfold data, tempp, lockp, rlockp in *; pne) ].
Ltac stp := cbn [run fold_left step app].

(* ---- op sequences without a net effect ---------------------------------------------------------- *)
Lemma exists_b_false : forall s p, exists_b s p = false -> lookup s p = None.
Proof. intros s p H. unfold exists_b in H. destruct (lookup s p); [discriminate | reflexivity]. Qed.

Lemma lookup_exists : forall s p c, lookup s p = Some c -> exists_b s p = true.
Proof. intros s p c H. unfold exists_b. rewrite H. reflexivity. Qed.

Lemma net_read : forall s t fp, lookup s (lockp t) = None -> lookup s (rlockp t) = None ->
  forall q, lookup (run (run s (read_acquire t)) (close_ops (run s (read_acquire t)) (rd_handler t fp))) q = lookup s q.
Proof.
  intros s t fp Hl Hr q. unfold read_acquire, close_ops, rd_handler. cbn [h_fp h_create h_temp h_lock h_rlock h_tbl andb app].
  stp. rewrite Hl. stp.
  assert (E1 : lookup (set s (lockp t) []) (rlockp t) = None) by (fsn; exact Hr).
  rewrite E1. stp.
  destruct fp; stp;
    (destruct (path_eq_dec q (rlockp t)) as [E|E]; [subst q; fsn; symmetry; exact Hr|];
     destruct (path_eq_dec q (lockp t)) as [E2|E2]; [subst q; fsn; symmetry; exact Hl|];
     fsn; reflexivity).
Qed.

Lemma net_lock_only : forall s t pre, lookup s (lockp t) = None -> (forall o, In o pre -> op_paths o = []) ->
  forall q, lookup (run (run s [OCreate (lockp t)]) (pre ++ [OClose (lockp t); ORemove (lockp t)])) q = lookup s q.
Proof.
  intros s t pre Hl Hpre q. stp. rewrite Hl. rewrite run_app.
  assert (F : forall x, lookup (run (set s (lockp t) []) pre) x = lookup (set s (lockp t) []) x).
  { intros x. apply run_frame. intros o Ho. rewrite (Hpre o Ho). intros []. }
  stp. destruct (path_eq_dec q (lockp t)) as [E|E].
  - subst q. fsn. symmetry. exact Hl.
  - fsn. rewrite F. fsn. reflexivity.
Qed.

Lemma net_update_full : forall s t, lookup s (lockp t) = None -> lookup s (tempp t) = None ->
  let s2 := run (run s [OCreate (lockp t)]) [OCreate (tempp t)] in
  forall q, lookup (run s2 (close_ops s2 (up_handler t true true))) q = lookup s q.
Proof.
  intros s t Hl Ht s2 q. subst s2. unfold close_ops, up_handler.
  cbn [h_fp h_create h_temp h_lock h_rlock h_tbl andb app]. stp. rewrite Hl. stp.
  assert (E1 : lookup (set s (lockp t) []) (tempp t) = None) by (fsn; exact Ht).
  rewrite E1. stp.
  destruct (path_eq_dec q (lockp t)) as [E|E]; [subst q; fsn; symmetry; exact Hl|].
  destruct (path_eq_dec q (tempp t)) as [E2|E2]; [subst q; fsn; symmetry; exact Ht|].
  fsn. reflexivity.
Qed.

Lemma net_create_full : forall s t b, lookup s (lockp t) = None -> lookup s (data t) = None ->
  let s2 := run (run s [OCreate (lockp t)]) [OCreate (data t)] in
  forall q, lookup (run s2 (close_ops s2 (cr_handler t true b))) q = lookup s q.
Proof.
  intros s t b Hl Hd s2 q. subst s2. unfold close_ops, cr_handler.
  cbn [h_fp h_create h_temp h_lock h_rlock h_tbl andb app]. stp. rewrite Hl. stp.
  assert (E1 : lookup (set s (lockp t) []) (data t) = None) by (fsn; exact Hd).
  rewrite E1. stp.
  assert (E2 : exists_b (set (set s (lockp t) []) (data t) []) (data t) = true).
  { unfold exists_b. fsn. reflexivity. }
  rewrite E2. stp.
  destruct (path_eq_dec q (lockp t)) as [E|E]; [subst q; fsn; symmetry; exact Hl|].
  destruct (path_eq_dec q (data t)) as [E3|E3]; [subst q; fsn; symmetry; exact Hd|].
  fsn. reflexivity.
Qed.

(* successful acquisitions *)
Lemma acq_two : forall s p1 p2, p1 <> p2 -> lookup s p1 = None -> lookup s p2 = None ->
  let s2 := run (run s [OCreate p1]) [OCreate p2] in
  lookup s2 p1 = Some [] /\ lookup s2 p2 = Some [] /\ (forall q, q <> p1 -> q <> p2 -> lookup s2 q = lookup s q).
Proof.
  intros s p1 p2 Hne H1 H2 s2. subst s2. stp. rewrite H1. stp.
  assert (E1 : lookup (set s p1 []) p2 = None) by (fsn; exact H2).
  rewrite E1. repeat split.
  - fsn. reflexivity.
  - fsn. reflexivity.
  - intros q Hq1 Hq2. fsn. reflexivity.
Qed.

(* ---- the invariant ------------------------------------------------------------------------------- *)
Definition owned (c : list handler) : list path := flat_map refs c.
(* a handler stored in the container holds everything its kind needs *)
Definition full (h : handler) : Prop :=
  h_fp h = true /\ h_lock h = true /\ h_rlock h = false /\ h_temp h = negb (h_create h).
(* p is a table written by a completed COMMIT and has the committed contents *)
Definition committed (done : list (N * content)) (s : fs) (p : path) : Prop :=
  exists t c, p = data t /\ In (t, c) done /\ lookup s p = Some c.

Record Inv (s0 s : fs) (c : list handler) (done : list (N * content)) : Prop := mkInv {
  inv_nodup : NoDup (map h_tbl c);
  inv_full : forall h, In h c -> full h;
  inv_owned : forall p, In p (owned c) -> lookup s0 p = None /\ exists_b s p = true;
  inv_data : forall h, In h c -> exists_b s (data (h_tbl h)) = true;
  inv_rest : forall p, ~ In p (owned c) -> lookup s p = lookup s0 p \/ committed done s p
}.
Definition InvP (s0 : fs) (s : pst) : Prop := Inv s0 (p_fs s) (p_cont s) (p_done s).
Definition fresh (s0 : fs) : Prop := forall t, lookup s0 (rlockp t) = None.

Lemma committed_ext : forall done s s' p, lookup s' p = lookup s p -> committed done s p -> committed done s' p.
Proof. intros done s s' p E [t [c [H1 [H2 H3]]]]. exists t, c. rewrite E. auto. Qed.

Lemma Inv_ext : forall s0 s s' c done, (forall p, lookup s' p = lookup s p) -> Inv s0 s c done -> Inv s0 s' c done.
Proof.
  intros s0 s s' c done E [H1 H2 H3 H4 H5]. constructor; auto.
  - intros p Hp. destruct (H3 p Hp) as [A B]. split; [exact A|]. unfold exists_b in *. rewrite E. exact B.
  - intros h Hh. specialize (H4 h Hh). unfold exists_b in *. rewrite E. exact H4.
  - intros p Hp. destruct (H5 p Hp) as [A|A]; [left; rewrite E; exact A | right; apply (committed_ext done s); auto].
Qed.

Lemma owned_tbl : forall c p, In p (owned c) -> exists h, In h c /\ In p (refs h) /\ snd p = h_tbl h.
Proof.
  intros c p H. unfold owned in H. apply in_flat_map in H. destruct H as [h [Hh Hp]].
  exists h. split; [exact Hh|]. split; [exact Hp|].
  unfold refs in Hp. repeat (apply in_app_or in Hp; destruct Hp as [Hp|Hp]);
    match type of Hp with In _ (if ?b then _ else _) => destruct b end;
    simpl in Hp; try contradiction; destruct Hp as [Hp|[]]; subst p; reflexivity.
Qed.

Lemma not_in_cont : forall c t, existsb (fun h => N.eqb (h_tbl h) t) c = false -> ~ In t (map h_tbl c).
Proof.
  intros c t H Hin. apply in_map_iff in Hin. destruct Hin as [h [E Hh]].
  assert (existsb (fun h => N.eqb (h_tbl h) t) c = true).
  { apply existsb_exists. exists h. split; [exact Hh | apply N.eqb_eq; exact E]. }
  congruence.
Qed.

Lemma not_owned_other_tbl : forall c p, ~ In (snd p) (map h_tbl c) -> ~ In p (owned c).
Proof.
  intros c p H Hin. destruct (owned_tbl c p Hin) as [h [Hh [_ E]]]. apply H. rewrite E. apply in_map. exact Hh.
Qed.

(* a control path that no handler owns has its initial binding *)
Lemma rest_control : forall s0 s c done p, Inv s0 s c done -> ~ In p (owned c) -> is_data p = false ->
  lookup s p = lookup s0 p.
Proof.
  intros s0 s c done p I Hn Hd. destruct (inv_rest _ _ _ _ I p Hn) as [A|[t [x [E _]]]]; [exact A|].
  subst p. discriminate Hd.
Qed.

Lemma full_no_rlock : forall c t, (forall h, In h c -> full h) -> ~ In (rlockp t) (owned c).
Proof.
  intros c t Hf Hin. destruct (owned_tbl c _ Hin) as [h [Hh [Hp _]]].
  destruct (Hf h Hh) as [_ [_ [Hr Ht]]]. unfold refs in Hp. rewrite Hr in Hp.
  repeat (apply in_app_or in Hp; destruct Hp as [Hp|Hp]);
    try match type of Hp with In _ (if ?b then _ else _) => destruct b end;
    simpl in Hp; try contradiction; destruct Hp as [Hp|[]]; discriminate Hp.
Qed.

(* ---- actions preserve the invariant ---------------------------------------------------------------- *)
Lemma read_inv : forall s0 s t f, fresh s0 -> InvP s0 s -> InvP s0 (fst (exec_read s t f)).
Proof.
  intros s0 s t f Hfr I. unfold exec_read.
  destruct (mem t (p_ro s) || in_cont s t); [exact I|].
  destruct (negb (exists_b (p_fs s) (data t))); [exact I|].
  destruct (fails f 0 || exists_b (p_fs s) (lockp t)) eqn:E0; [exact I|].
  apply orb_false_iff in E0. destruct E0 as [_ El]. apply exists_b_false in El.
  assert (Er : lookup (p_fs s) (rlockp t) = None).
  { rewrite (rest_control s0 (p_fs s) (p_cont s) (p_done s) (rlockp t) I); [apply Hfr | | reflexivity].
    apply full_no_rlock. apply (inv_full _ _ _ _ I). }
  destruct (fails f 1).
  - unfold InvP. cbn [fst emit p_fs p_cont p_done]. eapply Inv_ext; [|exact I].
    intros p. apply net_read; assumption.
  - destruct (fails f 2); unfold InvP; cbn [fst emit with_ro p_fs p_cont p_done];
      (eapply Inv_ext; [|exact I]; intros p; apply net_read; assumption).
Qed.

Lemma net_retry : forall n s t, lookup s (lockp t) = None ->
  forall q, lookup (run s (repeat_ops n (rlock_retry t))) q = lookup s q.
Proof.
  induction n as [|n IH]; intros s t Hl q; [reflexivity|].
  change (repeat_ops (S n) (rlock_retry t)) with (rlock_retry t ++ repeat_ops n (rlock_retry t)). rewrite run_app.
  assert (E : forall x, lookup (run s (rlock_retry t)) x = lookup s x).
  { intros x. unfold rlock_retry. stp. rewrite Hl. stp.
    destruct (path_eq_dec x (lockp t)) as [Ex|Ex]; [subst x; fsn; symmetry; exact Hl | fsn; reflexivity]. }
  rewrite IH by (rewrite E; exact Hl). apply E.
Qed.

Lemma retry_read_inv : forall s0 s t n, InvP s0 s -> InvP s0 (fst (exec_retry_read s t n)).
Proof.
  intros s0 s t n I. unfold exec_retry_read. destruct (exists_b (p_fs s) (lockp t)) eqn:El; [exact I|].
  apply exists_b_false in El. unfold InvP. cbn [fst emit p_fs p_cont p_done]. eapply Inv_ext; [|exact I].
  intros p. apply net_retry. exact El.
Qed.

Lemma mark_same : forall nb h, h_tbl (mark nb h) = h_tbl h /\ refs (mark nb h) = refs h /\ (full h -> full (mark nb h)).
Proof. intros [b|] h; simpl; auto. Qed.

Lemma mark_tbl_map : forall t nb c, map h_tbl (mark_tbl t nb c) = map h_tbl c.
Proof.
  intros t nb c. unfold mark_tbl. rewrite map_map. apply map_ext. intros h.
  destruct (N.eqb (h_tbl h) t); [apply mark_same | reflexivity].
Qed.

Lemma mark_tbl_owned : forall t nb c, owned (mark_tbl t nb c) = owned c.
Proof.
  intros t nb c. unfold owned, mark_tbl. induction c as [|h c IH]; [reflexivity|].
  simpl. rewrite IH. f_equal. destruct (N.eqb (h_tbl h) t); [apply mark_same | reflexivity].
Qed.

Lemma mark_tbl_inv : forall s0 s c done t nb, Inv s0 s c done -> Inv s0 s (mark_tbl t nb c) done.
Proof.
  intros s0 s c done t nb [H1 H2 H3 H4 H5]. constructor.
  - rewrite mark_tbl_map. exact H1.
  - intros h Hh. unfold mark_tbl in Hh. apply in_map_iff in Hh. destruct Hh as [h' [E Hh']].
    destruct (N.eqb (h_tbl h') t); subst h; [apply mark_same; auto | auto].
  - rewrite mark_tbl_owned. exact H3.
  - intros h Hh. unfold mark_tbl in Hh. apply in_map_iff in Hh. destruct Hh as [h' [E Hh']].
    destruct (N.eqb (h_tbl h') t); subst h; [|auto].
    destruct (mark_same nb h') as [Et _]. rewrite Et. auto.
  - rewrite mark_tbl_owned. exact H5.
Qed.

(* adding a freshly made handler whose files did not exist *)
Lemma add_handler_inv : forall s0 s s' c done h,
  Inv s0 s c done -> full h -> ~ In (h_tbl h) (map h_tbl c) ->
  (forall p, In p (refs h) -> lookup s p = None /\ exists_b s' p = true) ->
  (forall p, ~ In p (refs h) -> lookup s' p = lookup s p) ->
  (forall p, In p (refs h) -> snd p = h_tbl h) ->
  exists_b s' (data (h_tbl h)) = true ->
  Inv s0 s' (h :: c) done.
Proof.
  intros s0 s s' c done h I Hfull Hnew Hrefs Hframe Htbl Hdata.
  assert (Hdisj : forall p, In p (owned c) -> ~ In p (refs h)).
  { intros p Hp Hr. destruct (owned_tbl c p Hp) as [h' [Hh' [_ E]]]. apply Hnew.
    rewrite <- (Htbl p Hr), E. apply in_map. exact Hh'. }
  constructor.
  - simpl. constructor; [exact Hnew | apply (inv_nodup _ _ _ _ I)].
  - intros h' [E|Hh']; [subst; exact Hfull | apply (inv_full _ _ _ _ I); exact Hh'].
  - intros p Hp. unfold owned in Hp. simpl in Hp. apply in_app_or in Hp. destruct Hp as [Hp|Hp].
    + destruct (Hrefs p Hp) as [A B]. split; [|exact B].
      assert (Hno : ~ In p (owned c)).
      { apply not_owned_other_tbl. rewrite (Htbl p Hp). exact Hnew. }
      destruct (inv_rest _ _ _ _ I p Hno) as [R|[t [x [E [_ R]]]]]; congruence.
    + destruct (inv_owned _ _ _ _ I p Hp) as [A B]. split; [exact A|].
      unfold exists_b in *. rewrite (Hframe p (Hdisj p Hp)). exact B.
  - intros h' [E|Hh']; [subst; exact Hdata|].
    pose proof (inv_data _ _ _ _ I h' Hh') as B. unfold exists_b in *.
    rewrite Hframe; [exact B|]. intros Hr. apply Hnew. rewrite <- (Htbl _ Hr). simpl. apply in_map. exact Hh'.
  - intros p Hp. unfold owned in Hp. simpl in Hp.
    assert (Hn1 : ~ In p (refs h)) by (intros H; apply Hp; apply in_or_app; left; exact H).
    assert (Hn2 : ~ In p (owned c)) by (intros H; apply Hp; apply in_or_app; right; exact H).
    destruct (inv_rest _ _ _ _ I p Hn2) as [R|R].
    + left. rewrite Hframe by exact Hn1. exact R.
    + right. apply (committed_ext done s); [apply Hframe; exact Hn1 | exact R].
Qed.

Lemma update_inv : forall s0 s t nb f, InvP s0 s -> InvP s0 (fst (exec_update s t nb f)).
Proof.
  intros s0 s t nb f I. unfold exec_update.
  destruct (in_cont s t) eqn:Ec.
  { unfold InvP. cbn [fst with_cont p_fs p_cont p_done]. apply mark_tbl_inv. exact I. }
  destruct (negb (exists_b (p_fs s) (data t))) eqn:Ed; [exact I|].
  apply negb_false_iff in Ed.
  destruct (fails f 0 || exists_b (p_fs s) (lockp t) || rlock_exists (p_fs s) t) eqn:E0; [exact I|].
  apply orb_false_iff in E0. destruct E0 as [E0 _]. apply orb_false_iff in E0. destruct E0 as [_ El].
  apply exists_b_false in El.
  destruct (fails f 1).
  { unfold InvP. cbn [fst emit p_fs p_cont p_done]. eapply Inv_ext; [|exact I]. intros p.
    unfold close_ops, up_handler. cbn [h_fp h_create h_temp h_lock h_rlock h_tbl andb app].
    apply (net_lock_only (p_fs s) t [] El). intros o []. }
  destruct (fails f 2 || exists_b (p_fs (emit s [OCreate (lockp t)])) (tempp t)) eqn:E2.
  { unfold InvP. cbn [fst emit p_fs p_cont p_done]. eapply Inv_ext; [|exact I]. intros p.
    unfold close_ops, up_handler. cbn [h_fp h_create h_temp h_lock h_rlock h_tbl andb app].
    apply (net_lock_only (p_fs s) t [OClose (data t)] El). intros o [E|[]]. subst o. reflexivity. }
  apply orb_false_iff in E2. destruct E2 as [_ Et]. cbn [emit p_fs] in Et. apply exists_b_false in Et.
  assert (Et0 : lookup (p_fs s) (tempp t) = None).
  { revert Et. stp. rewrite El. fsn. auto. }
  destruct (fails f 3).
  { unfold InvP. cbn [fst emit p_fs p_cont p_done]. eapply Inv_ext; [|exact I]. intros p.
    apply (net_update_full (p_fs s) t El Et0). }
  unfold InvP. cbn [fst emit with_cont with_ro p_fs p_cont p_done].
  destruct (acq_two (p_fs s) (lockp t) (tempp t)) as [A1 [A2 A3]]; [discriminate | exact El | exact Et0 |].
  destruct (mark_same nb (up_handler t true true)) as [Mt [Mr Mf]].
  apply (add_handler_inv s0 (p_fs s)); try exact I.
  - apply Mf. unfold full, up_handler. simpl. auto.
  - rewrite Mt. simpl. apply not_in_cont. exact Ec.
  - rewrite Mr. intros p Hp. simpl in Hp. destruct Hp as [Hp|[Hp|[]]]; subst p.
    + split; [exact Et0 | apply (lookup_exists _ _ _ A2)].
    + split; [exact El | apply (lookup_exists _ _ _ A1)].
  - rewrite Mr. intros p Hp. simpl in Hp. apply A3; intros E; apply Hp; subst p; auto.
  - rewrite Mr, Mt. intros p Hp. simpl in Hp. destruct Hp as [Hp|[Hp|[]]]; subst p; reflexivity.
  - rewrite Mt. simpl. unfold exists_b. rewrite A3 by discriminate. exact Ed.
Qed.

Lemma create_inv : forall s0 s t b f, InvP s0 s -> InvP s0 (fst (exec_create s t b f)).
Proof.
  intros s0 s t b f I. unfold exec_create.
  destruct (exists_b (p_fs s) (data t)) eqn:Ed; [exact I|].
  apply exists_b_false in Ed.
  destruct (fails f 0 || exists_b (p_fs s) (lockp t) || rlock_exists (p_fs s) t) eqn:E0; [exact I|].
  apply orb_false_iff in E0. destruct E0 as [E0 _]. apply orb_false_iff in E0. destruct E0 as [_ El].
  apply exists_b_false in El.
  assert (Enew : ~ In t (map h_tbl (p_cont s))).
  { intros Hin. apply in_map_iff in Hin. destruct Hin as [h [E Hh]].
    pose proof (inv_data _ _ _ _ I h Hh) as B. rewrite E in B. unfold exists_b in B. rewrite Ed in B. discriminate. }
  destruct (fails f 1).
  { unfold InvP. cbn [fst emit p_fs p_cont p_done]. eapply Inv_ext; [|exact I]. intros p.
    unfold close_ops, cr_handler. cbn [h_fp h_create h_temp h_lock h_rlock h_tbl andb app].
    assert (Ex : exists_b (run (p_fs s) [OCreate (lockp t)]) (data t) = false).
    { unfold exists_b. stp. rewrite El. fsn. rewrite Ed. reflexivity. }
    rewrite Ex. cbn [app].
    apply (net_lock_only (p_fs s) t [] El). intros o []. }
  destruct (fails f 2).
  { unfold InvP. cbn [fst emit p_fs p_cont p_done]. eapply Inv_ext; [|exact I]. intros p.
    apply (net_create_full (p_fs s) t b El Ed). }
  unfold InvP. cbn [fst emit with_cont p_fs p_cont p_done].
  destruct (acq_two (p_fs s) (lockp t) (data t)) as [A1 [A2 A3]]; [discriminate | exact El | exact Ed |].
  apply (add_handler_inv s0 (p_fs s)); try exact I.
  - unfold full, cr_handler. simpl. auto.
  - exact Enew.
  - intros p Hp. simpl in Hp. destruct Hp as [Hp|[Hp|[]]]; subst p.
    + split; [exact Ed | apply (lookup_exists _ _ _ A2)].
    + split; [exact El | apply (lookup_exists _ _ _ A1)].
  - intros p Hp. simpl in Hp. apply A3; intros E; apply Hp; subst p; auto.
  - intros p Hp. simpl in Hp. destruct Hp as [Hp|[Hp|[]]]; subst p; reflexivity.
  - simpl. apply (lookup_exists _ _ _ A2).
Qed.

(* ---- closing a handler ------------------------------------------------------------------------------ *)
Lemma close_ops_full : forall s h, full h -> exists_b s (data (h_tbl h)) = true ->
  (forall o p, In o (close_ops s h) -> In p (op_paths o) -> In p (refs h)) /\
  (forall p, In p (refs h) -> lookup (run s (close_ops s h)) p = None).
Proof.
  intros s [t cr fp lk tm rl dr bd] [Hfp [Hlk [Hrl Htm]]] Hd. simpl in *. subst fp lk rl tm.
  unfold close_ops, refs. cbn [h_fp h_create h_temp h_lock h_rlock h_tbl]. rewrite Hd.
  destruct cr; cbn [negb andb app]; split.
  - intros o p Ho Hp. simpl in Ho. repeat (destruct Ho as [Ho|Ho]; [subst o; simpl in Hp|]); try contradiction;
      repeat (destruct Hp as [Hp|Hp]; [subst p; simpl; auto|]); contradiction.
  - intros p Hp. simpl in Hp. destruct Hp as [Hp|[Hp|[]]]; subst p; stp; fsn; reflexivity.
  - intros o p Ho Hp. simpl in Ho. repeat (destruct Ho as [Ho|Ho]; [subst o; simpl in Hp|]); try contradiction;
      repeat (destruct Hp as [Hp|Hp]; [subst p; simpl; auto|]); contradiction.
  - intros p Hp. simpl in Hp. destruct Hp as [Hp|[Hp|[]]]; subst p; stp; fsn; reflexivity.
Qed.

Lemma nodup_inj : forall {A B} (f : A -> B) l a b, NoDup (map f l) -> In a l -> In b l -> f a = f b -> a = b.
Proof.
  intros A B f l. induction l as [|x l IH]; intros a b Hnd Ha Hb E; [contradiction|].
  simpl in Hnd. inversion Hnd as [|y m Hn Hd]; subst.
  destruct Ha as [Ha|Ha]; destruct Hb as [Hb|Hb]; subst.
  - reflexivity.
  - exfalso. apply Hn. rewrite E. apply in_map. exact Hb.
  - exfalso. apply Hn. rewrite <- E. apply in_map. exact Ha.
  - apply IH; assumption.
Qed.

Lemma In_remove_tbl : forall t c x, In x (remove_tbl t c) <-> In x c /\ h_tbl x <> t.
Proof.
  intros t c x. unfold remove_tbl. rewrite filter_In. rewrite negb_true_iff, N.eqb_neq. tauto.
Qed.

Lemma NoDup_map_filter : forall {A B} (f : A -> B) (P : A -> bool) l, NoDup (map f l) -> NoDup (map f (filter P l)).
Proof.
  intros A B f P l. induction l as [|x l IH]; intros H; [constructor|].
  simpl in H. inversion H as [|y m Hn Hd]; subst. simpl. destruct (P x); [|apply IH; exact Hd].
  simpl. constructor; [|apply IH; exact Hd].
  intros Hin. apply Hn. apply in_map_iff in Hin. destruct Hin as [z [E Hz]]. apply filter_In in Hz.
  rewrite <- E. apply in_map. tauto.
Qed.

Lemma close_one : forall s0 s c done h, Inv s0 s c done -> In h c ->
  Inv s0 (run s (close_ops s h)) (remove_tbl (h_tbl h) c) done.
Proof.
  intros s0 s c done h I Hh.
  pose proof (inv_full _ _ _ _ I h Hh) as Hf.
  pose proof (inv_data _ _ _ _ I h Hh) as Hd.
  destruct (close_ops_full s h Hf Hd) as [Hpaths Hnone].
  assert (Hframe : forall p, ~ In p (refs h) -> lookup (run s (close_ops s h)) p = lookup s p).
  { intros p Hp. apply run_frame. intros o Ho Hq. apply Hp. apply (Hpaths o p Ho Hq). }
  assert (Hsplit : forall p, In p (owned c) -> In p (refs h) \/ In p (owned (remove_tbl (h_tbl h) c))).
  { intros p Hp. destruct (owned_tbl c p Hp) as [h' [Hh' [Hr E]]].
    destruct (N.eq_dec (h_tbl h') (h_tbl h)) as [Et|Et].
    - left. rewrite <- (nodup_inj h_tbl c h' h (inv_nodup _ _ _ _ I) Hh' Hh Et). exact Hr.
    - right. unfold owned. apply in_flat_map. exists h'. split; [apply In_remove_tbl; auto | exact Hr]. }
  assert (Hother : forall p, In p (owned (remove_tbl (h_tbl h) c)) -> In p (owned c) /\ ~ In p (refs h)).
  { intros p Hp. destruct (owned_tbl _ p Hp) as [h' [Hh' [Hr E]]]. apply In_remove_tbl in Hh'. destruct Hh' as [Hc Hne].
    split; [unfold owned; apply in_flat_map; exists h'; auto|].
    intros Hr2. apply Hne. rewrite <- E.
    assert (Ho : In p (owned [h])) by (unfold owned; simpl; rewrite app_nil_r; exact Hr2).
    destruct (owned_tbl [h] p Ho) as [h2 [[E2|[]] [_ E3]]]. subst h2. exact E3. }
  constructor.
  - apply NoDup_map_filter. apply (inv_nodup _ _ _ _ I).
  - intros h' Hh'. apply In_remove_tbl in Hh'. apply (inv_full _ _ _ _ I). tauto.
  - intros p Hp. destruct (Hother p Hp) as [Hc Hn]. destruct (inv_owned _ _ _ _ I p Hc) as [A B].
    split; [exact A|]. unfold exists_b in *. rewrite Hframe by exact Hn. exact B.
  - intros h' Hh'. apply In_remove_tbl in Hh'. destruct Hh' as [Hc Hne].
    pose proof (inv_data _ _ _ _ I h' Hc) as B. unfold exists_b in *. rewrite Hframe; [exact B|].
    intros Hr. apply Hne.
    assert (Ho : In (data (h_tbl h')) (owned [h])) by (unfold owned; simpl; rewrite app_nil_r; exact Hr).
    destruct (owned_tbl [h] _ Ho) as [h2 [[E2|[]] [_ E3]]]. subst h2. exact E3.
  - intros p Hp. destruct (in_dec path_eq_dec p (refs h)) as [Hr|Hr].
    + left. rewrite (Hnone p Hr). symmetry.
      apply (inv_owned _ _ _ _ I p). unfold owned. apply in_flat_map. exists h. auto.
    + assert (Hn : ~ In p (owned c)).
      { intros Hc. destruct (Hsplit p Hc) as [X|X]; contradiction. }
      destruct (inv_rest _ _ _ _ I p Hn) as [R|R].
      * left. rewrite Hframe by exact Hr. exact R.
      * right. apply (committed_ext done s); [apply Hframe; exact Hr | exact R].
Qed.

Lemma remove_tbl_head : forall h r, NoDup (map h_tbl (h :: r)) -> remove_tbl (h_tbl h) (h :: r) = r.
Proof.
  intros h r H. simpl in H. inversion H as [|x l Hn Hd]; subst.
  unfold remove_tbl. simpl. rewrite N.eqb_refl. simpl.
  assert (G : forall l, ~ In (h_tbl h) (map h_tbl l) -> filter (fun x => negb (N.eqb (h_tbl x) (h_tbl h))) l = l).
  { induction l as [|y l IH]; intros Hy; [reflexivity|]. simpl.
    destruct (N.eqb (h_tbl y) (h_tbl h)) eqn:E.
    - apply N.eqb_eq in E. exfalso. apply Hy. left. exact E.
    - simpl. f_equal. apply IH. intros Hl. apply Hy. right. exact Hl. }
  apply G. exact Hn.
Qed.

Lemma close_all_inv : forall s0 c s, p_cont s = c -> InvP s0 s ->
  InvP s0 (close_all s c) /\ p_cont (close_all s c) = [].
Proof.
  intros s0 c. induction c as [|h r IH]; intros s Ec I.
  - simpl. unfold InvP in *. cbn [with_cont p_fs p_cont p_done]. rewrite Ec in I. auto.
  - simpl. apply IH; [reflexivity|].
    unfold InvP in *. cbn [with_cont emit p_fs p_cont p_done]. rewrite Ec in I.
    rewrite <- (remove_tbl_head h r (inv_nodup _ _ _ _ I)).
    apply close_one; [exact I | left; reflexivity].
Qed.

Lemma close_in_order_inv : forall s0 ord s, InvP s0 s ->
  InvP s0 (close_in_order s ord) /\ p_cont (close_in_order s ord) = [].
Proof.
  intros s0 ord. induction ord as [|t r IH]; intros s I.
  - simpl. apply close_all_inv; [reflexivity | exact I].
  - simpl. destruct (find (fun h => N.eqb (h_tbl h) t) (p_cont s)) as [h|] eqn:E; [|apply IH; exact I].
    apply find_some in E. destruct E as [Hh Et]. apply N.eqb_eq in Et. subst t.
    apply IH. unfold InvP in *. cbn [with_cont emit p_fs p_cont p_done]. apply close_one; assumption.
Qed.

Lemma release_inv : forall s0 s ord, InvP s0 s -> InvP s0 (release s ord) /\ p_cont (release s ord) = [].
Proof.
  intros s0 s ord I. unfold release. destruct (close_in_order_inv s0 ord s I) as [A B].
  unfold InvP in *. cbn [with_ro p_fs p_cont p_done]. auto.
Qed.

(* ---- ordering helpers --------------------------------------------------------------------------------- *)
Lemma dedupe_In : forall l x, In x (dedupe l) <-> In x l.
Proof.
  induction l as [|y l IH]; intros x; simpl; [tauto|].
  destruct (mem y l) eqn:E.
  - rewrite IH. split; [auto|]. intros [H|H]; [subst; apply mem_In; exact E | exact H].
  - simpl. rewrite IH. tauto.
Qed.

Lemma dedupe_NoDup : forall l, NoDup (dedupe l).
Proof.
  induction l as [|y l IH]; simpl; [constructor|].
  destruct (mem y l) eqn:E; [exact IH|]. constructor; [|exact IH].
  rewrite dedupe_In. intros H. apply mem_In in H. congruence.
Qed.

Lemma NoDup_app_intro : forall {A} (a b : list A), NoDup a -> NoDup b -> (forall x, In x a -> ~ In x b) -> NoDup (a ++ b).
Proof.
  induction a as [|x a IH]; intros b Ha Hb Hd; [exact Hb|].
  inversion Ha as [|y l Hn Hnd]; subst. simpl. constructor.
  - intros Hin. apply in_app_or in Hin. destruct Hin as [H|H]; [contradiction|].
    apply (Hd x); [left; reflexivity | exact H].
  - apply IH; [exact Hnd | exact Hb |]. intros z Hz. apply Hd. right. exact Hz.
Qed.

Lemma sort_by_In : forall ord l t, In t (sort_by ord l) <-> In t l.
Proof.
  intros ord l t. unfold sort_by. rewrite in_app_iff, !filter_In, dedupe_In, mem_In, negb_true_iff.
  split.
  - intros [[_ H]|[H _]]; exact H.
  - intros H. destruct (mem t ord) eqn:E; [left; split; [apply mem_In; exact E | exact H] | right; auto].
Qed.

Lemma sort_by_NoDup : forall ord l, NoDup l -> NoDup (sort_by ord l).
Proof.
  intros ord l H. unfold sort_by. apply NoDup_app_intro.
  - apply NoDup_filter. apply dedupe_NoDup.
  - apply NoDup_filter. exact H.
  - intros x Hx Hy. apply filter_In in Hx. apply filter_In in Hy.
    destruct Hx as [Hx _]. destruct Hy as [_ Hy]. rewrite dedupe_In in Hx. rewrite <- mem_In in Hx.
    rewrite Hx in Hy. discriminate.
Qed.

Lemma NoDup_nodup_b : forall l, NoDup l -> nodup_b l = true.
Proof.
  induction l as [|x l IH]; intros H; [reflexivity|].
  inversion H as [|y m Hn Hd]; subst. simpl. rewrite (IH Hd), andb_true_r.
  destruct (mem x l) eqn:E; [apply mem_In in E; contradiction | reflexivity].
Qed.

Lemma map_tid_changes : forall c l, map tid (changes c l) = l.
Proof. intros c l. unfold changes. rewrite map_map. simpl. apply map_id. Qed.

Lemma In_tbls : forall (P : handler -> bool) c t,
  In t (map h_tbl (filter P c)) <-> exists h, In h c /\ P h = true /\ h_tbl h = t.
Proof.
  intros P c t. rewrite in_map_iff. split.
  - intros [h [E Hh]]. apply filter_In in Hh. exists h. tauto.
  - intros [h [Hh [Hp E]]]. exists h. split; [exact E | apply filter_In; auto].
Qed.

Lemma refs_full : forall h, full h ->
  refs h = if h_create h then [data (h_tbl h); lockp (h_tbl h)] else [tempp (h_tbl h); lockp (h_tbl h)].
Proof.
  intros [t cr fp lk tm rl dr bd] [Hfp [Hlk [Hrl Htm]]]. simpl in *. subst. unfold refs. simpl.
  destruct cr; reflexivity.
Qed.

Lemma owned_of_tbl : forall s0 s c done h p, Inv s0 s c done -> In h c -> snd p = h_tbl h ->
  (In p (owned c) <-> In p (refs h)).
Proof.
  intros s0 s c done h p I Hh E. split.
  - intros Hp. destruct (owned_tbl c p Hp) as [h' [Hh' [Hr E']]].
    rewrite <- (nodup_inj h_tbl c h' h (inv_nodup _ _ _ _ I) Hh' Hh); [exact Hr | congruence].
  - intros Hr. unfold owned. apply in_flat_map. exists h. auto.
Qed.

(* ---- the effect of a complete COMMIT, table by table ------------------------------------------------------ *)
Lemma filter_created : forall ro cr up idle u,
  NoDup (map tid cr ++ map tid up ++ idle) -> In u cr ->
  filter (on_tbl (tid u)) (commit_ops ro cr up idle) = write_created u ++ commit_created u.
Proof.
  intros ro cr up idle u Hnd Hin. unfold commit_ops. rewrite !filter_app.
  assert (Hcr : NoDup (map tid cr)) by (apply NoDup_app_l in Hnd; exact Hnd).
  assert (Hiu : In (tid u) (map tid cr)) by (apply in_map; exact Hin).
  assert (Hrest : ~ In (tid u) (map tid up ++ idle)) by (apply (NoDup_app_disj _ _ (tid u) Hnd Hiu)).
  assert (Hnup : ~ In (tid u) (map tid up)) by (intros H; apply Hrest; apply in_or_app; auto).
  assert (Hnid : ~ In (tid u) idle) by (intros H; apply Hrest; apply in_or_app; auto).
  rewrite (filter_flat_map_one write_created tid cr u (write_created_tbl ) Hcr Hin).
  rewrite (filter_flat_map_one commit_created tid cr u commit_created_tbl Hcr Hin).
  rewrite (filter_flat_map_none write_updated tid up (tid u) (write_updated_tbl ) Hnup).
  rewrite (filter_flat_map_none (commit_updated ro) tid up (tid u) (commit_updated_tbl ro) Hnup).
  assert (Hid : filter (on_tbl (tid u)) (flat_map release_idle idle) = []).
  { apply (filter_flat_map_none release_idle (fun x => x)); [apply release_idle_tbl | rewrite map_id; exact Hnid]. }
  rewrite Hid. simpl. rewrite ?app_nil_r. reflexivity.
Qed.

Lemma commit_effect_created : forall ro cr up idle s u dc,
  NoDup (map tid cr ++ map tid up ++ idle) -> In u cr -> lookup s (data (tid u)) = Some dc ->
  let s' := run s (commit_ops ro cr up idle) in
  lookup s' (data (tid u)) = Some (new_content u) /\ lookup s' (lockp (tid u)) = None
  /\ (forall kd, kd <> KData -> kd <> KLock -> lookup s' (kd, tid u) = lookup s (kd, tid u)).
Proof.
  intros ro cr up idle s u dc Hnd Hu Hd. cbv zeta.
  assert (R : forall kd, lookup (run s (commit_ops ro cr up idle)) (kd, tid u)
                         = lookup (run s (write_created u ++ commit_created u)) (kd, tid u)).
  { intros kd. rewrite (run_filter_tbl _ s (tid u) kd) by apply commit_ops_local.
    rewrite (filter_created ro cr up idle u Hnd Hu). reflexivity. }
  unfold data, lockp. rewrite !R. rewrite run_app.
  assert (H1 : lookup (run s (write_created u)) (data (tid u)) = Some (new_content u)).
  { unfold write_created. apply (encode_result _ _ _ _ dc). exact Hd. }
  split; [|split].
  - unfold commit_created, release_lock. stp. fsn. exact H1.
  - unfold commit_created, release_lock. stp. fsn. reflexivity.
  - intros kd Hk1 Hk2. rewrite R, run_app. unfold commit_created, release_lock. stp.
    rewrite lookup_del_other by (unfold lockp; congruence).
    unfold write_created. apply encode_frame. unfold data. congruence.
Qed.

Lemma commit_effect_updated_rlock : forall ro cr up idle s u sfx,
  NoDup (map tid cr ++ map tid up ++ idle) -> In u up ->
  lookup (run s (commit_ops ro cr up idle)) (KRLock sfx, tid u) = lookup s (KRLock sfx, tid u).
Proof.
  intros ro cr up idle s u sfx Hnd Hu.
  rewrite (run_filter_tbl _ s (tid u) (KRLock sfx)) by apply commit_ops_local.
  rewrite (filter_updated ro cr up idle u Hnd Hu). apply run_frame.
  intros o Ho Hp. apply in_app_or in Ho. destruct Ho as [Ho|Ho].
  - unfold write_updated in Ho. apply encode_ops_spec in Ho. destruct Ho as [_ [_ E]]. rewrite E in Hp.
    destruct Hp as [Hp|[]]. discriminate Hp.
  - destruct ro; simpl in Ho; repeat (destruct Ho as [Ho|Ho]; [subst o; simpl in Hp; repeat (destruct Hp as [Hp|Hp]; [discriminate Hp|]); contradiction|]); contradiction.
Qed.

Lemma commit_effect_idle : forall ro cr up idle s t,
  NoDup (map tid cr ++ map tid up ++ idle) -> In t idle ->
  let s' := run s (commit_ops ro cr up idle) in
  lookup s' (tempp t) = None /\ lookup s' (lockp t) = None
  /\ (forall kd, kd <> KTemp -> kd <> KLock -> lookup s' (kd, t) = lookup s (kd, t)).
Proof.
  intros ro cr up idle s t Hnd Ht. cbv zeta.
  assert (R : forall kd, lookup (run s (commit_ops ro cr up idle)) (kd, t) = lookup (run s (release_idle t)) (kd, t)).
  { intros kd. rewrite (run_filter_tbl _ s t kd) by apply commit_ops_local.
    rewrite (filter_idle ro cr up idle t Hnd Ht). reflexivity. }
  unfold tempp, lockp. rewrite !R. unfold release_idle, release_lock. stp. split; [|split].
  - fsn. reflexivity.
  - fsn. reflexivity.
  - intros kd H1 H2. rewrite R. unfold release_idle, release_lock. stp. unfold tempp, lockp.
    rewrite lookup_del_other by congruence. rewrite lookup_del_other by congruence. reflexivity.
Qed.

(* ---- the tables of the container, split three ways --------------------------------------------------------- *)
Lemma tbls_disjoint : forall c (P Q : handler -> bool) t, NoDup (map h_tbl c) ->
  (forall h, P h = true -> Q h = true -> False) ->
  In t (map h_tbl (filter P c)) -> In t (map h_tbl (filter Q c)) -> False.
Proof.
  intros c P Q t Hnd Hex H1 H2. apply In_tbls in H1. apply In_tbls in H2.
  destruct H1 as [h1 [A1 [B1 C1]]]. destruct H2 as [h2 [A2 [B2 C2]]].
  assert (h1 = h2) by (apply (nodup_inj h_tbl c); congruence). subst h2. apply (Hex h1); assumption.
Qed.

Lemma commit_lists_nodup : forall c oc ou oi, NoDup (map h_tbl c) ->
  NoDup (map tid (changes c (sort_by oc (created_tbls c))) ++ map tid (changes c (sort_by ou (updated_tbls c)))
         ++ sort_by oi (idle_tbls c)).
Proof.
  intros c oc ou oi Hnd. rewrite !map_tid_changes.
  assert (D1 : forall x, In x (created_tbls c) -> In x (updated_tbls c) -> False).
  { intros x. unfold created_tbls, updated_tbls. apply tbls_disjoint; [exact Hnd|].
    intros h A B. apply andb_true_iff in B. destruct B as [B _]. rewrite A in B. discriminate. }
  assert (D2 : forall x, In x (created_tbls c) -> In x (idle_tbls c) -> False).
  { intros x. unfold created_tbls, idle_tbls. apply tbls_disjoint; [exact Hnd|].
    intros h A B. apply andb_true_iff in B. destruct B as [B _]. rewrite A in B. discriminate. }
  assert (D3 : forall x, In x (updated_tbls c) -> In x (idle_tbls c) -> False).
  { intros x. unfold updated_tbls, idle_tbls. apply tbls_disjoint; [exact Hnd|].
    intros h A B. apply andb_true_iff in A. apply andb_true_iff in B. destruct A as [_ A]. destruct B as [_ B].
    rewrite A in B. discriminate. }
  apply NoDup_app_intro; [apply sort_by_NoDup; apply NoDup_map_filter; exact Hnd | |].
  - apply NoDup_app_intro; [apply sort_by_NoDup; apply NoDup_map_filter; exact Hnd
                           | apply sort_by_NoDup; apply NoDup_map_filter; exact Hnd |].
    intros x Hx Hy. apply sort_by_In in Hx. apply sort_by_In in Hy. apply (D3 x Hx Hy).
  - intros x Hx Hy. apply sort_by_In in Hx. apply in_app_or in Hy. destruct Hy as [Hy|Hy]; apply sort_by_In in Hy.
    + apply (D1 x Hx Hy).
    + apply (D2 x Hx Hy).
Qed.

Lemma In_changes : forall c l u, In u (changes c l) -> In (tid u) l.
Proof. intros c l u H. unfold changes in H. apply in_map_iff in H. destruct H as [t [E Ht]]. subst u. exact Ht. Qed.

Lemma tbl_cases : forall c t, In t (map h_tbl c) ->
  In t (created_tbls c) \/ In t (updated_tbls c) \/ In t (idle_tbls c).
Proof.
  intros c t H. apply in_map_iff in H. destruct H as [h [E Hh]].
  unfold created_tbls, updated_tbls, idle_tbls. rewrite !In_tbls.
  destruct (h_create h) eqn:Ec.
  - left. exists h. auto.
  - destruct (h_dirty h) eqn:Ed.
    + right. left. exists h. rewrite Ec, Ed. auto.
    + right. right. exists h. rewrite Ec, Ed. auto.
Qed.

(* ---- COMMIT preserves the invariant --------------------------------------------------------------------------- *)
Definition content_op (o : op) : bool := match o with OTrunc _ | OWrite _ _ => true | _ => false end.

Lemma step_content_exists : forall s o p, content_op o = true -> exists_b (step s o) p = exists_b s p.
Proof.
  intros s o p H. destruct o as [q|q|q d|q|q|a b]; try discriminate H; simpl;
    (destruct (lookup s q) eqn:E; [|reflexivity]; unfold exists_b;
     destruct (path_eq_dec p q) as [Ep|Ep]; [subst p; rewrite lookup_set_same, E; reflexivity
                                            | rewrite lookup_set_other by exact Ep; reflexivity]).
Qed.

Lemma run_content_exists : forall ops s p, (forall o, In o ops -> content_op o = true) ->
  exists_b (run s ops) p = exists_b s p.
Proof.
  induction ops as [|o ops IH]; intros s p H; [reflexivity|].
  simpl. rewrite IH by (intros o' Ho'; apply H; right; exact Ho').
  apply step_content_exists. apply H. left. reflexivity.
Qed.

Lemma content_inv : forall s0 s c done ops, Inv s0 s c done ->
  (forall o, In o ops -> content_op o = true /\ forall p, In p (op_paths o) -> In p (owned c)) ->
  Inv s0 (run s ops) c done.
Proof.
  intros s0 s c done ops I H.
  assert (Hc : forall o, In o ops -> content_op o = true) by (intros o Ho; apply (H o Ho)).
  assert (Hf : forall p, ~ In p (owned c) -> lookup (run s ops) p = lookup s p).
  { intros p Hp. apply run_frame. intros o Ho Hq. apply Hp. apply (proj2 (H o Ho) p Hq). }
  constructor.
  - apply (inv_nodup _ _ _ _ I).
  - apply (inv_full _ _ _ _ I).
  - intros p Hp. destruct (inv_owned _ _ _ _ I p Hp) as [A B]. split; [exact A|].
    rewrite run_content_exists by exact Hc. exact B.
  - intros h Hh. rewrite run_content_exists by exact Hc. apply (inv_data _ _ _ _ I h Hh).
  - intros p Hp. destruct (inv_rest _ _ _ _ I p Hp) as [R|R].
    + left. rewrite Hf by exact Hp. exact R.
    + right. apply (committed_ext done s); [apply Hf; exact Hp | exact R].
Qed.

Lemma created_handler : forall s0 s c done t, Inv s0 s c done -> In t (created_tbls c) ->
  exists h, In h c /\ h_create h = true /\ h_tbl h = t /\ refs h = [data t; lockp t].
Proof.
  intros s0 s c done t I H. unfold created_tbls in H. apply In_tbls in H. destruct H as [h [Hh [Hc E]]].
  exists h. repeat split; auto. rewrite (refs_full h (inv_full _ _ _ _ I h Hh)), Hc, E. reflexivity.
Qed.

Lemma updated_or_idle_handler : forall s0 s c done t, Inv s0 s c done ->
  In t (updated_tbls c) \/ In t (idle_tbls c) ->
  exists h, In h c /\ h_create h = false /\ h_tbl h = t /\ refs h = [tempp t; lockp t].
Proof.
  intros s0 s c done t I H.
  assert (G : exists h, In h c /\ h_create h = false /\ h_tbl h = t).
  { destruct H as [H|H]; [unfold updated_tbls in H | unfold idle_tbls in H]; apply In_tbls in H;
      destruct H as [h [Hh [Hc E]]]; apply andb_true_iff in Hc; destruct Hc as [Hc _]; apply negb_true_iff in Hc;
      exists h; auto. }
  destruct G as [h [Hh [Hc E]]]. exists h. repeat split; auto.
  rewrite (refs_full h (inv_full _ _ _ _ I h Hh)), Hc, E. reflexivity.
Qed.

Lemma in_owned : forall c h p, In h c -> In p (refs h) -> In p (owned c).
Proof. intros c h p Hh Hp. unfold owned. apply in_flat_map. exists h. auto. Qed.

Lemma commit_ready_from_inv : forall s0 s c done oc ou oi, Inv s0 s c done ->
  commit_ready s (changes c (sort_by oc (created_tbls c))) (changes c (sort_by ou (updated_tbls c)))
               (sort_by oi (idle_tbls c)) = true.
Proof.
  intros s0 s c done oc ou oi I. unfold commit_ready. rewrite !andb_true_iff. repeat split.
  - apply NoDup_nodup_b. apply commit_lists_nodup. apply (inv_nodup _ _ _ _ I).
  - apply forallb_forall. intros u Hu. apply In_changes in Hu. apply sort_by_In in Hu.
    destruct (created_handler _ _ _ _ _ I Hu) as [h [Hh [_ [E Hr]]]].
    unfold held_create. rewrite <- E. rewrite (inv_data _ _ _ _ I h Hh). simpl.
    apply (inv_owned _ _ _ _ I). apply (in_owned c h); [exact Hh|]. rewrite Hr, E. simpl. auto.
  - apply forallb_forall. intros u Hu. apply In_changes in Hu. apply sort_by_In in Hu.
    destruct (updated_or_idle_handler _ _ _ _ _ I (or_introl Hu)) as [h [Hh [_ [E Hr]]]].
    unfold held_update. rewrite <- E at 1. rewrite (inv_data _ _ _ _ I h Hh). simpl.
    assert (Ot : In (tempp (tid u)) (owned c)) by (apply (in_owned c h); [exact Hh | rewrite Hr; simpl; auto]).
    assert (Ol : In (lockp (tid u)) (owned c)) by (apply (in_owned c h); [exact Hh | rewrite Hr; simpl; auto]).
    rewrite (proj2 (inv_owned _ _ _ _ I _ Ot)), (proj2 (inv_owned _ _ _ _ I _ Ol)). reflexivity.
  - apply forallb_forall. intros t Ht. apply sort_by_In in Ht.
    destruct (updated_or_idle_handler _ _ _ _ _ I (or_intror Ht)) as [h [Hh [_ [E Hr]]]].
    unfold held_update. rewrite <- E at 1. rewrite (inv_data _ _ _ _ I h Hh). simpl.
    assert (Ot : In (tempp t) (owned c)) by (apply (in_owned c h); [exact Hh | rewrite Hr; simpl; auto]).
    assert (Ol : In (lockp t) (owned c)) by (apply (in_owned c h); [exact Hh | rewrite Hr; simpl; auto]).
    rewrite (proj2 (inv_owned _ _ _ _ I _ Ot)), (proj2 (inv_owned _ _ _ _ I _ Ol)). reflexivity.
Qed.

Lemma encode_ops_content : forall p body lb o, In o (encode_ops p body lb) -> content_op o = true.
Proof.
  intros p body lb o H. unfold encode_ops in H. destruct H as [H|H]; [subst; reflexivity|].
  apply in_app_or in H. destruct H as [H|H]; [destruct body | destruct lb]; simpl in H; try contradiction;
    destruct H as [H|[]]; subst; reflexivity.
Qed.

Lemma committed_mono : forall done done' s s' p, committed done s p ->
  (forall x, In x done -> In x done') -> lookup s' p = lookup s p -> committed done' s' p.
Proof. intros done done' s s' p [t [c [A [B C]]]] Hsub E. exists t, c. rewrite E. auto. Qed.

Lemma commit_inv : forall g s0 s oc ou oi f, InvP s0 s -> InvP s0 (fst (exec_commit g s oc ou oi f)).
Proof.
  intros g s0 s oc ou oi f I. unfold exec_commit.
  set (c := p_cont s).
  set (crl := sort_by oc (created_tbls c)). set (upl := sort_by ou (updated_tbls c)). set (idl := sort_by oi (idle_tbls c)).
  set (cr := changes c crl). set (up := changes c upl).
  unfold InvP in I. fold c in I.
  destruct (match f with Some k => Nat.ltb k (length (concat (map write_created cr ++ map write_updated up))) | None => false end).
  - (* the writing phase fails after some of its calls *)
    unfold InvP. cbn [fst emit p_fs p_cont p_done]. fold c. apply content_inv; [exact I|].
    intros o Ho. apply firstn_In in Ho. apply in_concat in Ho. destruct Ho as [b [Hb Ho]].
    apply in_app_or in Hb. destruct Hb as [Hb|Hb]; apply in_map_iff in Hb; destruct Hb as [u [E Hu]]; subst b.
    + split; [apply (encode_ops_content _ _ _ _ Ho)|].
      unfold write_created in Ho. apply encode_ops_spec in Ho. destruct Ho as [_ [_ Ep]]. rewrite Ep.
      intros p [Hp|[]]. subst p. apply In_changes in Hu. apply sort_by_In in Hu.
      destruct (created_handler _ _ _ _ _ I Hu) as [h [Hh [_ [_ Hr]]]].
      apply (in_owned c h); [exact Hh | rewrite Hr; simpl; auto].
    + split; [apply (encode_ops_content _ _ _ _ Ho)|].
      unfold write_updated in Ho. apply encode_ops_spec in Ho. destruct Ho as [_ [_ Ep]]. rewrite Ep.
      intros p [Hp|[]]. subst p. apply In_changes in Hu. apply sort_by_In in Hu.
      destruct (updated_or_idle_handler _ _ _ _ _ I (or_introl Hu)) as [h [Hh [_ [_ Hr]]]].
      apply (in_owned c h); [exact Hh | rewrite Hr; simpl; auto].
  - (* the complete COMMIT *)
    unfold InvP. cbn [fst emit p_fs p_cont p_done].
    pose proof (commit_ready_from_inv s0 (p_fs s) c (p_done s) oc ou oi I) as Hready.
    fold crl upl idl cr up in Hready.
    pose proof (commit_lists_nodup c oc ou oi (inv_nodup _ _ _ _ I)) as Hnd.
    fold crl upl idl cr up in Hnd.
    set (done' := map (fun u => (tid u, new_content u)) (cr ++ up) ++ p_done s).
    assert (Hsub : forall x, In x (p_done s) -> In x done') by (intros x Hx; unfold done'; apply in_or_app; auto).
    constructor; try (intros x []; fail); [constructor|].
    intros [kd t] _.
    destruct (in_dec N.eq_dec t (map h_tbl c)) as [Hin|Hnin].
    2:{ (* a table the process holds nothing of *)
      assert (Hno : ~ In (kd, t) (owned c)) by (apply not_owned_other_tbl; exact Hnin).
      assert (Hsame : lookup (run (p_fs s) (commit_ops (c_rename_over g) cr up idl)) (kd, t) = lookup (p_fs s) (kd, t)).
      { rewrite <- (firstn_all (commit_ops (c_rename_over g) cr up idl)).
        apply crash_foreign_untouched.
        - unfold cr. rewrite map_tid_changes. intros H. apply sort_by_In in H. apply Hnin.
          unfold created_tbls in H. apply In_tbls in H. destruct H as [h [Hh [_ E]]]. rewrite <- E. apply in_map. exact Hh.
        - unfold up. rewrite map_tid_changes. intros H. apply sort_by_In in H. apply Hnin.
          unfold updated_tbls in H. apply In_tbls in H. destruct H as [h [Hh [_ E]]]. rewrite <- E. apply in_map. exact Hh.
        - intros H. apply sort_by_In in H. apply Hnin.
          unfold idle_tbls in H. apply In_tbls in H. destruct H as [h [Hh [_ E]]]. rewrite <- E. apply in_map. exact Hh. }
      destruct (inv_rest _ _ _ _ I _ Hno) as [R|R].
      - left. rewrite Hsame. exact R.
      - right. apply (committed_mono (p_done s) done' (p_fs s)); assumption. }
    destruct (tbl_cases c t Hin) as [Hc|[Hu|Hi]].
    + (* created by the transaction *)
      destruct (created_handler _ _ _ _ _ I Hc) as [h [Hh [_ [Et Hr]]]].
      set (u := mkT t (fst (body_of c t)) (snd (body_of c t))).
      assert (Hu : In u cr) by (unfold cr, changes; apply in_map_iff; exists t; split; [reflexivity | apply sort_by_In; exact Hc]).
      destruct (exists_b_true _ _ (eq_ind _ (fun x => exists_b (p_fs s) (data x) = true) (inv_data _ _ _ _ I h Hh) _ Et)) as [dc Hdc].
      destruct (commit_effect_created (c_rename_over g) cr up idl (p_fs s) u dc Hnd Hu Hdc) as [A1 [A2 A3]].
      assert (Own : forall p, snd p = t -> (In p (owned c) <-> In p [data t; lockp t])).
      { intros p Ep. rewrite <- Hr. apply (owned_of_tbl s0 (p_fs s) c (p_done s) h p I Hh). congruence. }
      destruct kd.
      * right. exists t, (new_content u). split; [reflexivity|]. split; [|exact A1].
        unfold done'. apply in_or_app. left. apply in_map_iff. exists u. split; [reflexivity | apply in_or_app; auto].
      * left. change (KLock, t) with (lockp (tid u)). rewrite A2. symmetry.
        apply (inv_owned _ _ _ _ I). apply (Own (lockp t) eq_refl). simpl. auto.
      * left. change t with (tid u) at 1. rewrite A3 by discriminate.
        apply (rest_control s0 _ c (p_done s)); [exact I | | reflexivity].
        intros H. apply (Own (KTemp, t) eq_refl) in H. simpl in H. destruct H as [H|[H|[]]]; discriminate H.
      * left. change t with (tid u) at 1. rewrite A3 by discriminate.
        apply (rest_control s0 _ c (p_done s)); [exact I | | reflexivity].
        intros H. apply (Own (KRLock sfx, t) eq_refl) in H. simpl in H. destruct H as [H|[H|[]]]; discriminate H.
    + (* updated *)
      destruct (updated_or_idle_handler _ _ _ _ _ I (or_introl Hu)) as [h [Hh [_ [Et Hr]]]].
      set (u := mkT t (fst (body_of c t)) (snd (body_of c t))).
      assert (Huu : In u up) by (unfold up, changes; apply in_map_iff; exists t; split; [reflexivity | apply sort_by_In; exact Hu]).
      destruct (commit_complete_updated (c_rename_over g) cr up idl (p_fs s) u Hready Huu) as [A1 [A2 A3]].
      assert (Own : forall p, snd p = t -> (In p (owned c) <-> In p [tempp t; lockp t])).
      { intros p Ep. rewrite <- Hr. apply (owned_of_tbl s0 (p_fs s) c (p_done s) h p I Hh). congruence. }
      destruct kd.
      * right. exists t, (new_content u). split; [reflexivity|]. split; [|exact A1].
        unfold done'. apply in_or_app. left. apply in_map_iff. exists u. split; [reflexivity | apply in_or_app; auto].
      * left. change (KLock, t) with (lockp (tid u)). rewrite A3. symmetry.
        apply (inv_owned _ _ _ _ I). apply (Own (lockp t) eq_refl). simpl. auto.
      * left. change (KTemp, t) with (tempp (tid u)). rewrite A2. symmetry.
        apply (inv_owned _ _ _ _ I). apply (Own (tempp t) eq_refl). simpl. auto.
      * left. change t with (tid u) at 1. rewrite (commit_effect_updated_rlock _ _ _ _ _ u sfx Hnd Huu).
        apply (rest_control s0 _ c (p_done s)); [exact I | | reflexivity].
        intros H. apply (Own (KRLock sfx, t) eq_refl) in H. simpl in H. destruct H as [H|[H|[]]]; discriminate H.
    + (* held but unchanged *)
      destruct (updated_or_idle_handler _ _ _ _ _ I (or_intror Hi)) as [h [Hh [_ [Et Hr]]]].
      assert (Hii : In t idl) by (apply sort_by_In; exact Hi).
      destruct (commit_effect_idle (c_rename_over g) cr up idl (p_fs s) t Hnd Hii) as [A1 [A2 A3]].
      assert (Own : forall p, snd p = t -> (In p (owned c) <-> In p [tempp t; lockp t])).
      { intros p Ep. rewrite <- Hr. apply (owned_of_tbl s0 (p_fs s) c (p_done s) h p I Hh). congruence. }
      destruct kd.
      * assert (Hno : ~ In (KData, t) (owned c)).
        { intros H. apply (Own (KData, t) eq_refl) in H. simpl in H. destruct H as [H|[H|[]]]; discriminate H. }
        assert (Hsame : lookup (run (p_fs s) (commit_ops (c_rename_over g) cr up idl)) (KData, t) = lookup (p_fs s) (KData, t)) by (apply A3; discriminate).
        destruct (inv_rest _ _ _ _ I _ Hno) as [R|R].
        -- left. rewrite Hsame. exact R.
        -- right. apply (committed_mono (p_done s) done' (p_fs s)); assumption.
      * left. change (KLock, t) with (lockp t). rewrite A2. symmetry.
        apply (inv_owned _ _ _ _ I). apply (Own (lockp t) eq_refl). simpl. auto.
      * left. change (KTemp, t) with (tempp t). rewrite A1. symmetry.
        apply (inv_owned _ _ _ _ I). apply (Own (tempp t) eq_refl). simpl. auto.
      * left. rewrite A3 by discriminate.
        apply (rest_control s0 _ c (p_done s)); [exact I | | reflexivity].
        intros H. apply (Own (KRLock sfx, t) eq_refl) in H. simpl in H. destruct H as [H|[H|[]]]; discriminate H.
Qed.

(* ---- whole runs ---------------------------------------------------------------------------------------------- *)
Lemma action_inv : forall g s0 s a, fresh s0 -> InvP s0 s -> InvP s0 (fst (exec_action g s a)).
Proof.
  intros g s0 s a Hf I. destruct a; simpl.
  - apply read_inv; assumption.
  - apply update_inv; assumption.
  - apply create_inv; assumption.
  - apply retry_read_inv; assumption.
  - apply commit_inv; assumption.
  - apply release_inv; assumption.
  - exact I.
  - exact I.
Qed.

Lemma actions_inv : forall g s0 l s, fresh s0 -> InvP s0 s -> InvP s0 (fst (run_actions g s l)).
Proof.
  intros g s0 l. induction l as [|a l IH]; intros s Hf I; [exact I|].
  simpl. pose proof (action_inv g s0 s a Hf I) as I'. destruct (exec_action g s a) as [s' ok]. simpl in I'.
  destruct ok; [apply IH; assumption | exact I'].
Qed.

Lemma init_inv : forall s0, InvP s0 (init s0).
Proof.
  intros s0. unfold InvP, init. simpl. constructor; try (intros x []; fail); [constructor|].
  intros p _. left. reflexivity.
Qed.

(* tracked: at every statement boundary of every run, every file in the directory that was not there
   before the run -- control file or created table -- is referenced by a live handler of the
   container, unless it is a table written by a completed COMMIT *)
Theorem tracked : forall g s0 prog, fresh s0 ->
  let s := fst (run_actions g (init s0) prog) in
  forall p, lookup (p_fs s) p <> lookup s0 p ->
    In p (owned (p_cont s)) \/ committed (p_done s) (p_fs s) p.
Proof.
  intros g s0 prog Hf s p Hne.
  pose proof (actions_inv g s0 prog (init s0) Hf (init_inv s0)) as I. fold s in I.
  destruct (in_dec path_eq_dec p (owned (p_cont s))) as [Ho|Ho]; [left; exact Ho|].
  destruct (inv_rest _ _ _ _ I p Ho) as [R|R]; [contradiction | right; exact R].
Qed.

Lemma handler_invariant : forall g s0 prog, fresh s0 ->
  let s := fst (run_actions g (init s0) prog) in
  NoDup (map h_tbl (p_cont s))
  /\ (forall p, In p (flat_map refs (p_cont s)) -> lookup s0 p = None /\ exists_b (p_fs s) p = true)
  /\ (forall h, In h (p_cont s) -> exists_b (p_fs s) (data (h_tbl h)) = true).
Proof.
  intros g s0 prog Hf s.
  pose proof (actions_inv g s0 prog (init s0) Hf (init_inv s0)) as I.
  exact (conj (inv_nodup _ _ _ _ I) (conj (inv_owned _ _ _ _ I) (inv_data _ _ _ _ I))).
Qed.

Lemma process_inv : forall g s0 prog fin ord, fresh s0 ->
  let s := run_process g s0 prog fin ord in InvP s0 s /\ p_cont s = [].
Proof.
  intros g s0 prog fin ord Hf. cbv zeta. unfold run_process.
  pose proof (actions_inv g s0 prog (init s0) Hf (init_inv s0)) as I.
  destruct (run_actions g (init s0) prog) as [s1 ok]. simpl in I.
  apply release_inv. destruct ok; [apply action_inv; assumption | exact I].
Qed.

(* cleanup_complete: whatever the program, wherever and however it ended *)
Theorem cleanup_complete : forall g s0 prog fin ord, fresh s0 ->
  let s := run_process g s0 prog fin ord in
  p_cont s = []
  /\ (forall p, is_control p = true -> lookup (p_fs s) p = lookup s0 p)
  /\ (forall t, lookup (p_fs s) (data t) = lookup s0 (data t)
                \/ exists c, In (t, c) (p_done s) /\ lookup (p_fs s) (data t) = Some c).
Proof.
  intros g s0 prog fin ord Hf s. destruct (process_inv g s0 prog fin ord Hf) as [I Hc]. fold s in I, Hc.
  split; [exact Hc|]. unfold InvP in I. rewrite Hc in I. split.
  - intros p Hp. apply (rest_control s0 (p_fs s) [] (p_done s)); [exact I | intros [] |].
    unfold is_control in Hp. destruct (is_data p); [discriminate | reflexivity].
  - intros t. destruct (inv_rest _ _ _ _ I (data t) (fun x => x)) as [R|[t' [c [E [A B]]]]]; [left; exact R|].
    right. inversion E; subst t'. exists c. auto.
Qed.

(* ---- reading statements ----------------------------------------------------------------------------------------- *)
Definition ro_state (s0 : fs) (s : pst) : Prop :=
  p_cont s = [] /\ p_done s = [] /\ (forall p, lookup (p_fs s) p = lookup s0 p)
  /\ forallb (fun o => negb (mutates_data o)) (p_tr s) = true.

Lemma read_ro : forall s0 s t f, fresh s0 -> ro_state s0 s -> ro_state s0 (fst (exec_read s t f)).
Proof.
  intros s0 s t f Hf [Hc [Hd [He Ht]]]. unfold exec_read.
  destruct (mem t (p_ro s) || in_cont s t); [repeat split; assumption|].
  destruct (negb (exists_b (p_fs s) (data t))); [repeat split; assumption|].
  destruct (fails f 0 || exists_b (p_fs s) (lockp t)) eqn:E0; [repeat split; assumption|].
  apply orb_false_iff in E0. destruct E0 as [_ El]. apply exists_b_false in El.
  assert (Er : lookup (p_fs s) (rlockp t) = None) by (rewrite He; apply Hf).
  assert (T : forall fp, forallb (fun o => negb (mutates_data o))
                (read_acquire t ++ close_ops (run (p_fs s) (read_acquire t)) (rd_handler t fp)) = true).
  { intros fp. unfold close_ops, rd_handler. cbn [h_fp h_create h_temp h_lock h_rlock h_tbl andb app].
    destruct fp; reflexivity. }
  assert (G : forall fp, ro_state s0 (emit (emit s (read_acquire t)) (close_ops (p_fs (emit s (read_acquire t))) (rd_handler t fp)))).
  { intros fp. unfold ro_state. cbn [emit p_fs p_cont p_done p_tr]. repeat split; try assumption.
    - intros p. rewrite net_read by assumption. apply He.
    - rewrite <- app_assoc, forallb_app, Ht. apply T. }
  destruct (fails f 1); [apply G|]. destruct (fails f 2); [apply G|].
  destruct (G true) as [A [B [C D]]]. repeat split; assumption.
Qed.

Lemma retry_ops_no_data : forall n t, forallb (fun o => negb (mutates_data o)) (repeat_ops n (rlock_retry t)) = true.
Proof.
  induction n as [|n IH]; intros t; [reflexivity|].
  change (repeat_ops (S n) (rlock_retry t)) with (rlock_retry t ++ repeat_ops n (rlock_retry t)).
  rewrite forallb_app, IH. reflexivity.
Qed.

Lemma retry_read_ro : forall s0 s t n, ro_state s0 s -> ro_state s0 (fst (exec_retry_read s t n)).
Proof.
  intros s0 s t n [Hc [Hd [He Ht]]]. unfold exec_retry_read.
  destruct (exists_b (p_fs s) (lockp t)) eqn:El; [repeat split; assumption|].
  apply exists_b_false in El. unfold ro_state. cbn [fst emit p_fs p_cont p_done p_tr]. repeat split; try assumption.
  - intros p. rewrite net_retry by exact El. apply He.
  - rewrite forallb_app, Ht. apply retry_ops_no_data.
Qed.

Lemma sort_by_nil : forall ord, sort_by ord [] = [].
Proof.
  intros ord. unfold sort_by. simpl. rewrite app_nil_r. induction (dedupe ord) as [|x l IH]; [reflexivity|]. exact IH.
Qed.

Lemma close_in_order_empty : forall ord s, p_cont s = [] -> close_in_order s ord = with_cont s [].
Proof.
  induction ord as [|t r IH]; intros s Hc; simpl; rewrite Hc; [reflexivity|]. simpl. apply IH. exact Hc.
Qed.

Lemma commit_ro : forall g s0 s oc ou oi f, ro_state s0 s -> ro_state s0 (fst (exec_commit g s oc ou oi f)).
Proof.
  intros g s0 s oc ou oi f [Hc [Hd [He Ht]]]. unfold exec_commit. rewrite Hc.
  unfold created_tbls, updated_tbls, idle_tbls. simpl. rewrite !sort_by_nil. simpl.
  destruct f as [j|]; simpl; unfold ro_state; cbn [emit p_fs p_cont p_done p_tr]; rewrite ?app_nil_r;
    repeat split; assumption.
Qed.

Lemma release_ro : forall s0 s ord, ro_state s0 s -> ro_state s0 (release s ord).
Proof.
  intros s0 s ord [Hc [Hd [He Ht]]]. unfold release. rewrite close_in_order_empty by exact Hc.
  unfold ro_state. cbn [with_ro with_cont p_fs p_cont p_done p_tr]. repeat split; assumption.
Qed.

Lemma actions_ro : forall g s0 l s, fresh s0 -> forallb is_reading l = true -> ro_state s0 s ->
  ro_state s0 (fst (run_actions g s l)).
Proof.
  intros g s0 l. induction l as [|a l IH]; intros s Hf Hr R; [exact R|].
  simpl in Hr. apply andb_true_iff in Hr. destruct Hr as [Ha Hl]. simpl.
  destruct a; try discriminate Ha; simpl.
  - pose proof (read_ro s0 s t f Hf R) as R'. destruct (exec_read s t f) as [s' ok]. simpl in R'.
    destruct ok; [apply IH; assumption | exact R'].
  - pose proof (retry_read_ro s0 s t n R) as R'. unfold exec_retry_read in *.
    destruct (exists_b (p_fs s) (lockp t)); simpl in *; apply IH; assumption.
  - exact R.
  - exact R.
Qed.

(* read_only_untouched: a program of reading statements, ended in any way, issues no call that can change
   a data file, and leaves every path of the directory as it was *)
Theorem read_only_untouched : forall g s0 prog fin ord, fresh s0 ->
  forallb is_reading prog = true -> is_commit fin = true ->
  let s := run_process g s0 prog fin ord in
  forallb (fun o => negb (mutates_data o)) (p_tr s) = true /\ (forall p, lookup (p_fs s) p = lookup s0 p).
Proof.
  intros g s0 prog fin ord Hf Hr Hfin. cbv zeta. unfold run_process.
  assert (R0 : ro_state s0 (init s0)) by (unfold ro_state, init; simpl; auto).
  pose proof (actions_ro g s0 prog (init s0) Hf Hr R0) as R.
  destruct (run_actions g (init s0) prog) as [s1 ok]. simpl in R.
  assert (R2 : ro_state s0 (if ok then fst (exec_action g s1 fin) else s1)).
  { destruct ok; [|exact R]. destruct fin; try discriminate Hfin. simpl. apply commit_ro. exact R. }
  destruct (release_ro s0 _ ord R2) as [_ [_ [He Ht]]]. split; assumption.
Qed.

(* ---- the decidable checker evaluated on the directories the harness finds ------------------------------------- *)
Lemma lookup_In : forall s p c, lookup s p = Some c -> In (p, c) s.
Proof.
  induction s as [|[q d] s IH]; intros p c H; simpl in H; [discriminate|].
  destruct (path_eqb q p) eqn:E.
  - apply path_eqb_eq in E. inversion H; subst. left. reflexivity.
  - right. apply IH. exact H.
Qed.

Lemma In_lookup : forall s p c, NoDup (map fst s) -> In (p, c) s -> lookup s p = Some c.
Proof.
  induction s as [|[q d] s IH]; intros p c Hnd Hin; [contradiction|].
  simpl in Hnd. inversion Hnd as [|x l Hn Hd]; subst. simpl. destruct Hin as [Hin|Hin].
  - inversion Hin; subst. rewrite path_eqb_refl. reflexivity.
  - destruct (path_eqb q p) eqn:E; [|apply IH; assumption].
    apply path_eqb_eq in E. subst q. exfalso. apply Hn. change p with (fst (p, c)). apply in_map. exact Hin.
Qed.

Lemma option_content_eqb_eq : forall a b, option_eqb content_eqb a b = true <-> a = b.
Proof.
  intros [a|] [b|]; simpl; split; intros H; try discriminate; try reflexivity.
  - apply content_eqb_eq in H. subst. reflexivity.
  - inversion H. apply content_eqb_eq. reflexivity.
Qed.

Lemma no_leftovers_sound : forall s0 s, no_leftovers s0 s = true ->
  forall p, is_control p = true -> lookup s p = lookup s0 p.
Proof.
  intros s0 s H p Hp. unfold no_leftovers in H. apply andb_true_iff in H. destruct H as [H1 H2].
  rewrite forallb_forall in H1, H2. unfold is_control in Hp. apply negb_true_iff in Hp.
  destruct (lookup s p) as [c|] eqn:E.
  - specialize (H1 _ (lookup_In s p c E)). simpl in H1. rewrite Hp in H1. simpl in H1.
    apply option_content_eqb_eq in H1. congruence.
  - destruct (lookup s0 p) as [c0|] eqn:E0; [|reflexivity].
    specialize (H2 _ (lookup_In s0 p c0 E0)). simpl in H2. rewrite Hp in H2. simpl in H2.
    unfold exists_b in H2. rewrite E in H2. discriminate.
Qed.

Lemma no_leftovers_complete : forall s0 s, NoDup (map fst s0) -> NoDup (map fst s) ->
  (forall p, is_control p = true -> lookup s p = lookup s0 p) -> no_leftovers s0 s = true.
Proof.
  intros s0 s N0 N H. unfold no_leftovers. apply andb_true_iff. split; apply forallb_forall; intros [p c] Hin; simpl.
  - destruct (is_data p) eqn:Ed; [reflexivity|]. simpl. apply option_content_eqb_eq.
    rewrite <- (H p) by (unfold is_control; rewrite Ed; reflexivity). apply In_lookup; assumption.
  - destruct (is_data p) eqn:Ed; [reflexivity|]. simpl. unfold exists_b.
    rewrite (H p) by (unfold is_control; rewrite Ed; reflexivity). rewrite (In_lookup s0 p c N0 Hin). reflexivity.
Qed.
