(* Proofs/C12.v -- the decidable specification checker of Harness/H12.v (r_spec_ok) implies the
   partition property of C12_ranges_partition on the observed ranges. *)
From Coq Require Import ZArith List Bool Lia.
Require Import Csvq.Model.Par Csvq.Harness.H12.
Import ListNotations.
Open Scope Z_scope.

(* the indices covered by a flat list s0,e0,s1,e1,... of half-open ranges, in that order *)
Fixpoint covered (l : list Z) : list Z :=
  match l with
  | s :: e :: t => zseq s (Z.to_nat (e - s)) ++ covered t
  | _ => []
  end.

Lemma pair_ind : forall (P : list Z -> Prop),
  P [] -> (forall x, P [x]) -> (forall s e t, P t -> P (s :: e :: t)) -> forall l, P l.
Proof.
  intros P H0 H1 H2. fix IH 1. intros [|s [|e t]]; [exact H0|apply H1|apply H2; apply IH].
Qed.

Lemma zseq_app : forall n m a, zseq a (n + m) = zseq a n ++ zseq (a + Z.of_nat n) m.
Proof.
  induction n as [|n IH]; intros m a.
  - cbn. rewrite Z.add_0_r. reflexivity.
  - cbn [Nat.add zseq app]. f_equal. rewrite IH. f_equal. f_equal. lia.
Qed.

Lemma partition_from_sound : forall l pos p, partition_from pos l = Some p ->
  pos <= p /\ covered l = zseq pos (Z.to_nat (p - pos)).
Proof.
  induction l as [| x | s e t IH] using pair_ind; intros pos p H.
  - cbn in H. inversion H; subst. split; [lia|]. rewrite Z.sub_diag. reflexivity.
  - cbn in H. discriminate.
  - cbn [partition_from] in H. cbn [covered].
    destruct (s =? e) eqn:E1.
    + apply Z.eqb_eq in E1. subst e. rewrite Z.sub_diag. cbn. apply IH. exact H.
    + destruct ((s =? pos) && (s <? e)) eqn:E2; [|discriminate].
      apply andb_true_iff in E2. destruct E2 as [E2 E3]. apply Z.eqb_eq in E2. apply Z.ltb_lt in E3. subst s.
      destruct (IH e p H) as [Hle Hc]. split; [lia|].
      rewrite Hc. replace (Z.to_nat (p - pos)) with (Z.to_nat (e - pos) + Z.to_nat (p - e))%nat by lia.
      rewrite zseq_app. f_equal. f_equal. lia.
Qed.

(* what the checker accepts: exactly Number ranges which, taken in goroutine order, enumerate
   0, 1, ..., recordLen-1 once each *)
Lemma r_spec_ok_sound : forall c, r_spec_ok c = true ->
  Z.of_nat (length (robs c)) = 2 * rn c /\ 0 <= rlen c /\ covered (robs c) = zseq 0 (Z.to_nat (rlen c)).
Proof.
  intros c H. unfold r_spec_ok in H. apply andb_true_iff in H. destruct H as [H1 H2].
  apply Z.eqb_eq in H1. split; [exact H1|].
  destruct (partition_from 0 (robs c)) as [p|] eqn:E; [|discriminate].
  apply Z.eqb_eq in H2. subst p. destruct (partition_from_sound _ _ _ E) as [Hle Hc].
  split; [exact Hle|]. rewrite Hc. rewrite Z.sub_0_r. reflexivity.
Qed.
