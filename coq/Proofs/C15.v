(* C15.v -- the statements of Properties/C15.v, assembled from ProcSim (pooled heap vs stack),
   ProcLocal (shape and domains), ProcKeep (bindings of one name), ProcFlow (control transfers). *)
From Coq Require Import Floats Lia Permutation.
Require Import Csvq.Model.Base Csvq.Model.Value Csvq.Model.Compare Csvq.Model.Arith Csvq.Model.Proc Csvq.Model.ProcSpec.
Require Import Csvq.Proofs.ProcSim Csvq.Proofs.ProcLocal Csvq.Proofs.ProcKeep Csvq.Proofs.ProcFlow Csvq.Proofs.ProcPure.
Open Scope Z_scope.

(* the statements that open a block of their own *)
Definition is_block (t : stmt) : bool :=
  match t with SIf _ _ | SCase _ _ _ | SWhile _ _ | SWhileIn _ _ _ _ => true | _ => false end.

(* ---- block_local: shape and domains ----------------------------------------------------------------- *)
Lemma block_full : forall n t s r s', is_block t = true -> exec pureM n t s = (r, s') -> full_sub s s'.
Proof.
  intros n t s r s' Hb H. destruct n as [|n]; [simpl in H; inversion H; subst; apply full_refl|].
  destruct (local_all n) as (Le & _ & _ & _ & _ & _ & _ & Lif & Lcase & Lw & Lwi).
  destruct t; try discriminate; simpl in H.
  - eapply Lif; eauto.
  - destruct v as [ve|]; [|eapply Lcase; eauto].
    destruct (eval pureM n ve s) as [[x|er|] s1] eqn:E; try solve [inversion H; subst; eapply Le; eauto].
    eapply full_trans; [eapply Le; eauto|eapply Lcase; eauto].
  - destruct (while_loop pureM n c body (push pureM s)) as [o s1] eqn:E. inversion H; subst.
    apply bracket_full. eapply Lw; eauto.
  - destruct (whilein_loop pureM n decl vars cur body (push pureM s)) as [o s1] eqn:E. inversion H; subst.
    apply bracket_full. eapply Lwi; eauto.
Qed.

Theorem block_local : forall n t s r s', is_block t = true -> exec pureM n t s = (r, s') ->
  length (frames s') = length (frames s) /\ Forall2 cell_sub (frames s') (frames s).
Proof. intros n t s r s' Hb H. pose proof (block_full n t s r s' Hb H) as F. split; [apply len_full; exact F|exact F]. Qed.

Theorem call_local : forall n fd vs s r s', call pureM n fd vs s = (r, s') ->
  length (frames s') = length (frames s) /\ Forall2 cell_sub (frames s') (frames s).
Proof.
  intros n fd vs s r s' H. destruct (local_all n) as (_ & _ & Lc & _).
  pose proof (Lc fd vs s r s' H) as F. split; [apply len_full; exact F|exact F].
Qed.

Theorem stmt_local : forall n t s r s', exec pureM n t s = (r, s') ->
  length (frames s') = length (frames s) /\ Forall2 cell_sub (tl (frames s')) (tl (frames s)).
Proof. intros n t s r s' H. destruct (local_all n) as (_ & _ & _ & _ & Lx & _). exact (Lx t s r s' H). Qed.

Theorem program_local : forall n ts s r s', exec_list pureM n ts s = (r, s') ->
  length (frames s') = length (frames s) /\ Forall2 cell_sub (tl (frames s')) (tl (frames s)).
Proof. intros n ts s r s' H. destruct (local_all n) as (_ & _ & _ & _ & _ & Lx & _). exact (Lx ts s r s' H). Qed.

(* ---- an assignment goes to the innermost block that binds the name, and nowhere else ---------------- *)
Lemma find_frame_spec : forall p fs i, find_frame p fs = Some i ->
  (exists c, nth_error fs i = Some c /\ p c = true) /\ forall j c, (j < i)%nat -> nth_error fs j = Some c -> p c = false.
Proof.
  intros p. induction fs as [|a fs IH]; intros i H; simpl in H; [discriminate|].
  destruct (p a) eqn:E.
  - inversion H; subst. split; [exists a; auto|]. intros j c Hj. lia.
  - destruct (find_frame p fs) as [i'|] eqn:E2; [|discriminate]. inversion H; subst.
    destruct (IH i' eq_refl) as [(c & Hn & Hp) Hlt]. split; [exists c; auto|].
    intros j c0 Hj Hn0. destruct j as [|j]; simpl in Hn0; [inversion Hn0; subst; exact E|]. eapply Hlt; eauto. lia.
Qed.

Theorem assignment_resolves_innermost : forall x v s o s', set_var pureM x v s = (o, s') ->
  match o with
  | None => exists i c, nth_error (frames s) i = Some c /\ has_var x c = true /\
                        (forall j c', (j < i)%nat -> nth_error (frames s) j = Some c' -> has_var x c' = false) /\
                        frames s' = list_upd i (with_vars (aset x v)) (frames s) /\ out s' = out s
  | Some e => e = XUndeclVar /\ s' = s /\ find_frame (has_var x) (frames s) = None
  end.
Proof.
  unfold set_var. intros x v s o s' H. change (view pureM s) with (frames s) in H.
  destruct (find_frame (has_var x) (frames s)) as [i|] eqn:E; inversion H; subst.
  - destruct (find_frame_spec _ _ _ E) as [(c & Hn & Hp) Hlt]. exists i, c. repeat split; auto.
  - repeat split; auto.
Qed.

(* ---- values of outer bindings: unassigned => unchanged; shadowed => unchanged ---------------------- *)
Lemma skipn_all_0 : forall A (l : list A), skipn (length l - length l) l = l.
Proof. intros. rewrite Nat.sub_diag. reflexivity. Qed.

Lemma keep_block : forall md x k n t s r s', is_block t = true -> (k + sl md <= length (frames s))%nat ->
  safe_s md x t = true -> exec pureM n t s = (r, s') -> Inv md x k s s'.
Proof.
  intros md x k n t s r s' Hb Hk Hs H. destruct n as [|n]; [simpl in H; inversion H; subst; apply Inv_refl|].
  destruct (keep_all md x k n) as (Ke & _ & _ & _ & _ & _ & _ & Kif & Kcase & Kw & Kwi).
  pose proof (sl_le md) as Hsl.
  destruct t; try discriminate; simpl in H, Hs; repeat (rewrite Bool.andb_true_iff in Hs).
  - destruct Hs as [Hs1 Hs2]. eapply Kif; eauto. lia.
  - destruct Hs as [[Hs0 Hs1] Hs2]. destruct v as [ve|]; [|eapply Kcase; eauto; lia].
    destruct (eval pureM n ve s) as [[xv|er|] s1] eqn:E; try solve [inversion H; subst; eapply Ke; eauto; lia].
    eapply Inv_trans; [eapply Ke; eauto; lia|]. eapply Kcase; eauto. erewrite len_eval; eauto. lia.
  - destruct Hs as [Hs1 Hs2]. destruct (while_loop pureM n c body (push pureM s)) as [o s1] eqn:E. inversion H; subst.
    apply bracket_inv; [lia|erewrite len_while by eauto; apply len_push|]. eapply Kw; eauto. rewrite len_push. lia.
  - destruct Hs as [Hs1 Hs2]. destruct (whilein_loop pureM n decl vars cur body (push pureM s)) as [o s1] eqn:E. inversion H; subst.
    apply bracket_inv; [lia|erewrite len_whilein by eauto; apply len_push|]. eapply Kwi; eauto. rewrite len_push. lia.
Qed.

(* a block (or a call) whose code -- and the code of every function it can reach -- never assigns,
   fetches into or disposes @x leaves EVERY binding of @x, in every block of the chain, as it was *)
Theorem unassigned_unchanged : forall x n t s r s', is_block t = true ->
  safe_s false x t = true -> store_safe false x (frames s) -> exec pureM n t s = (r, s') ->
  map (xb x) (frames s') = map (xb x) (frames s).
Proof.
  intros x n t s r s' Hb Hs Hst H.
  pose proof (keep_block false x (length (frames s)) n t s r s' Hb ltac:(simpl; lia) Hs H) as HI.
  destruct (HI (conj I Hst)) as (Hl & Hk & _). unfold bot in Hk. rewrite Hl, !Nat.sub_diag in Hk. exact Hk.
Qed.

Theorem unassigned_unchanged_call : forall x n fd vs s r s',
  safe_fd false x fd = true -> store_safe false x (frames s) -> call pureM n fd vs s = (r, s') ->
  map (xb x) (frames s') = map (xb x) (frames s).
Proof.
  intros x n fd vs s r s' Hs Hst H.
  destruct (keep_all false x (length (frames s)) n) as (_ & _ & Kc & _).
  destruct (Kc fd vs s r s' (le_n _) Hs H (conj I Hst)) as (Hl & Hk & _).
  unfold bot in Hk. rewrite Hl, !Nat.sub_diag in Hk. exact Hk.
Qed.

(* while the innermost block binds @x and nothing disposes @x, whatever the statements do -- assign @x,
   open nested blocks, call functions that assign @x (dynamic scoping), recurse -- every outer binding
   of @x keeps its value, and the innermost block still binds @x afterwards *)
Theorem shadow_preserves_outer : forall x n ts s r s' top rest,
  frames s = top :: rest -> has_var x top = true ->
  forallb (safe_s true x) ts = true -> store_safe true x (frames s) ->
  exec_list pureM n ts s = (r, s') ->
  exists top' rest', frames s' = top' :: rest' /\ length rest' = length rest /\
                     map (xb x) rest' = map (xb x) rest /\ has_var x top' = true.
Proof.
  intros x n ts s r s' top rest Hf Hx Hs Hst H.
  destruct (keep_all true x (length rest) n) as (_ & _ & _ & _ & _ & Kxl & _).
  assert (Hlen : length (frames s) = S (length rest)) by (rewrite Hf; reflexivity).
  assert (Hpre : Pre true x (length rest) s).
  { split; [|exact Hst]. simpl. split; [lia|]. exists top. rewrite Hlen.
    replace (S (length rest) - 1 - length rest)%nat with O by lia. rewrite Hf. split; auto. }
  destruct (Kxl ts s r s' ltac:(lia) Hs H Hpre) as (Hl & Hk & [HG _]).
  destruct (frames s') as [|top' rest'] eqn:E; [simpl in Hl; lia|]. simpl in Hl.
  assert (Hr : length rest' = length rest) by lia.
  exists top', rest'. repeat split; auto.
  - unfold bot in Hk. rewrite Hf in Hk. simpl length in Hk. rewrite Hr in Hk.
    replace (S (length rest) - length rest)%nat with 1%nat in Hk by lia. exact Hk.
  - simpl in HG. destruct HG as (_ & c & Hn & Hc). simpl length in Hn. rewrite Hr in Hn.
    replace (S (length rest) - 1 - length rest)%nat with O in Hn by lia. simpl in Hn. inversion Hn; subst. exact Hc.
Qed.

(* ---- call_frame_fresh ---------------------------------------------------------------------------------- *)
(* stack machine: with every argument supplied, the body starts in a new innermost block that holds
   exactly the parameters (no cursor, table or function), on top of the caller's chain as it is *)
Lemma bind_params_exact : forall n ps vs s r s1,
  length vs = length ps -> bind_params pureM n ps vs s = (r, s1) -> r = None ->
  forall top rest, frames s = top :: rest ->
  frames s1 = with_vars (fun l => rev (combine (map fst ps) vs) ++ l) top :: rest /\ out s1 = out s.
Proof.
  induction n as [|n IH]; intros ps vs s r s1 Hl H Hr top rest Hf; simpl in H; [inversion H; subst; discriminate|].
  destruct ps as [|[x d] ps]; destruct vs as [|v vs]; simpl in Hl; try discriminate.
  - inversion H; subst. rewrite Hf. destruct top; split; reflexivity.
  - unfold declare_var in H. change (view pureM s) with (frames s) in H. rewrite Hf in H. simpl top_cell in H.
    destruct (has_var x top); [inversion H; subst; discriminate|].
    inversion Hl as [Hl'].
    destruct (IH ps vs _ r s1 Hl' H Hr (with_vars (cons (x, v)) top) rest) as [Hfr Ho].
    { unfold frames. simpl. fold (frames s). rewrite Hf. reflexivity. }
    split; [|exact Ho]. rewrite Hfr. f_equal. destruct top; unfold with_vars; simpl. f_equal.
    rewrite <- app_assoc. reflexivity.
Qed.

Theorem call_frame_fresh_stack : forall n ps body vs s r s',
  length vs = length ps -> call pureM (S n) (ps, body) vs s = (r, s') ->
  (exists s1, bind_params pureM n ps vs (push pureM s) = (None, s1) /\
              frames s1 = mkCell (rev (combine (map fst ps) vs)) [] [] [] :: frames s /\ out s1 = out s /\
              exists o s2, exec_list pureM n body s1 = (o, s2) /\ r = call_result o /\ s' = pop pureM s2)
  \/ (exists e s1, bind_params pureM n ps vs (push pureM s) = (Some e, s1) /\ r = e /\ s' = pop pureM s1).
Proof.
  intros n ps body vs s r s' Hl H. simpl in H.
  destruct (bind_params pureM n ps vs (push pureM s)) as [[e|] s1] eqn:E.
  - right. exists e, s1. inversion H; subst. auto.
  - left. exists s1. split; [reflexivity|].
    destruct (bind_params_exact n ps vs (push pureM s) None s1 Hl E eq_refl empty_cell (frames s) eq_refl) as [Hf Ho].
    split; [rewrite Hf; unfold with_vars; simpl; rewrite app_nil_r; reflexivity|]. split; [exact Ho|].
    destruct (exec_list pureM n body s1) as [o s2] eqn:E2. exists o, s2. inversion H; subst. auto.
Qed.

(* pooled-heap machine: the object a CreateChild receives is not one of the live ones, and it is empty *)
Theorem call_frame_fresh_heap : forall policy h, hinv h ->
  exists id, h_chain (h_push policy h) = id :: h_chain h /\ ~ In id (h_chain h) /\
             hget id (h_heap (h_push policy h)) = empty_cell /\ hinv (h_push policy h).
Proof.
  intros policy h Hi. destruct (hinv_push policy h Hi) as [Hi' Hv].
  assert (Hc : exists id, h_chain (h_push policy h) = id :: h_chain h).
  { unfold h_push, h_alloc. destruct (policy (h_pool h)) as [i|]; [destruct (take_nth i (h_pool h)) as [[id rest]|]|]; simpl; eauto. }
  destruct Hc as [id Hc]. exists id. split; [exact Hc|].
  destruct Hi' as [Hnd _ _ _]. rewrite Hc in Hnd. simpl in Hnd. inversion Hnd; subst.
  split; [intros Hin; apply H1; apply in_or_app; left; exact Hin|]. split; [|eapply hinv_push; eauto].
  unfold h_view in Hv. rewrite Hc in Hv. simpl in Hv. inversion Hv. reflexivity.
Qed.

(* two child scopes created from the same parent chain (two goroutines evaluating two rows) while both
   are alive are different objects *)
Theorem sibling_frames_distinct : forall p1 p2 h, hinv h ->
  let h1 := h_push p1 h in
  let h2 := h_push p2 (mkH (h_heap h1) (h_chain h) (h_pool h1) (h_next h1) (h_log h1)) in
  forall id1 id2, h_chain h1 = id1 :: h_chain h -> h_chain h2 = id2 :: h_chain h -> id1 <> id2.
Proof.
  intros p1 p2 h Hi h1 h2 id1 id2 H1 H2.
  destruct (hinv_push p1 h Hi) as [[Hnd Hb _ _] _]. fold h1 in Hnd, Hb. rewrite H1 in Hnd, Hb. simpl in Hnd, Hb.
  inversion Hnd as [|? ? Hnotin _]; subst.
  assert (Hlt : (id1 < h_next h1)%N) by (apply Hb; left; reflexivity).
  unfold h2, h_push, h_alloc in H2. simpl in H2.
  destruct (p2 (h_pool h1)) as [i|].
  - destruct (take_nth i (h_pool h1)) as [[id rest]|] eqn:E; simpl in H2; inversion H2; subst.
    + destruct (take_nth_spec _ _ _ _ _ E) as (l1 & l2 & Hp & _). intros Heq; subst. apply Hnotin.
      apply in_or_app. right. rewrite Hp. apply in_or_app. right. left. reflexivity.
    + lia.
  - simpl in H2. inversion H2; subst. lia.
Qed.

(* ---- pool_inv ------------------------------------------------------------------------------------------ *)
Theorem pool_inv_stmt : forall policy n t (s : gst (heapM policy)), hinv (ms s) ->
  let s' := snd (exec (heapM policy) n t s) in
  hinv (ms s') /\ length (h_chain (ms s')) = length (h_chain (ms s)) /\
  (count_get (h_log (ms s')) + count_put (h_log (ms s)) = count_get (h_log (ms s)) + count_put (h_log (ms s')))%nat.
Proof.
  intros policy n t s Hi s'.
  destruct (heap_exec policy n t s Hi) as (E & Hi' & Ha). fold s' in Hi', Ha.
  destruct (exec pureM n t (abs policy s)) as [o p'] eqn:Ep. simpl in Ha.
  pose proof (len_exec n t _ _ _ Ep) as Hl. rewrite <- Ha in Hl. unfold frames, abs in Hl. simpl in Hl.
  unfold h_view in Hl. rewrite !map_length in Hl.
  split; [exact Hi'|]. split; [exact Hl|].
  pose proof (log_stack_counts _ _ (inv_log _ Hi')) as C1. pose proof (log_stack_counts _ _ (inv_log _ Hi)) as C2. lia.
Qed.

Theorem pool_inv_program : forall policy n prog,
  let s' := snd (run_with policy n prog) in
  hinv (ms s') /\ length (h_chain (ms s')) = 1%nat /\ count_get (h_log (ms s')) = S (count_put (h_log (ms s'))).
Proof.
  intros policy n prog s'.
  destruct (run_any_policy policy n prog) as (_ & _ & Hi & Hv). fold s' in Hi, Hv.
  destruct (run_pure n prog) as [o p'] eqn:Ep. simpl in Hv.
  pose proof (len_exec_list n prog _ _ _ Ep) as Hl. unfold frames in Hl. simpl in Hl. rewrite <- Hv in Hl.
  unfold h_view in Hl. rewrite map_length in Hl.
  split; [exact Hi|]. split; [exact Hl|].
  pose proof (log_stack_counts _ _ (inv_log _ Hi)) as C. rewrite Hl in C. lia.
Qed.

(* ---- an invocation's result depends on the caller's chain, not on the state of the pool --------------- *)
Theorem invocation_independent_of_pool : forall p1 p2 n e (s1 : gst (heapM p1)) (s2 : gst (heapM p2)),
  hinv (ms s1) -> hinv (ms s2) -> h_view (ms s1) = h_view (ms s2) -> out s1 = out s2 ->
  fst (eval (heapM p1) n e s1) = fst (eval (heapM p2) n e s2) /\
  h_view (ms (snd (eval (heapM p1) n e s1))) = h_view (ms (snd (eval (heapM p2) n e s2))) /\
  out (snd (eval (heapM p1) n e s1)) = out (snd (eval (heapM p2) n e s2)).
Proof.
  intros p1 p2 n e s1 s2 H1 H2 Hv Ho.
  destruct (heap_eval p1 n e s1 H1) as (E1 & _ & A1). destruct (heap_eval p2 n e s2 H2) as (E2 & _ & A2).
  assert (Habs : abs p1 s1 = abs p2 s2) by (unfold abs; rewrite Hv, Ho; reflexivity).
  rewrite Habs in E1, A1. split; [congruence|].
  assert (HA : abs p1 (snd (eval (heapM p1) n e s1)) = abs p2 (snd (eval (heapM p2) n e s2))) by congruence.
  unfold abs in HA. inversion HA. auto.
Qed.

(* ---- flow_spec ------------------------------------------------------------------------------------------ *)
Theorem flow_spec : forall (M : machine) (A : Type) n ts (K : konts M A) s,
  kexec_list M A n ts K s = dispatch M A (exec_list M n ts s) K.
Proof. intros M A n ts K s. destruct (flow_all M A n) as (_ & _ & _ & _ & _ & H & _). apply H. Qed.

Theorem flow_spec_call : forall (M : machine) (A : Type) n fd vs (E : econts M A) s,
  kcall M A n fd vs E s = edispatch M A (call M n fd vs s) E.
Proof. intros M A n fd vs E s. destruct (flow_all M A n) as (_ & _ & H & _). apply H. Qed.

(* ---- concurrent invocations of functions that write only their own parameters and locals ------------------ *)
(* on the pooled heap, whatever the pool does: evaluating the rows one after the other (any order of
   completion of the goroutines, at invocation granularity) gives every row the result it gets when it
   is evaluated alone from the calling scope *)
Theorem heap_rows_sequential : forall policy n f rows (s : gst (heapM policy)),
  hinv (ms s) -> store_pure (h_view (ms s)) ->
  seq_rows (heapM policy) n f rows s = call_on_rows (heapM policy) n f rows s.
Proof.
  intros policy n f rows s Hi Hst.
  assert (G : forall s1 : gst (heapM policy), hinv (ms s1) -> h_view (ms s1) = h_view (ms s) -> out s1 = out s ->
              seq_rows (heapM policy) n f rows s1 = call_on_rows (heapM policy) n f rows s).
  { induction rows as [|r rs IH]; intros s1 Hi1 Hv1 Ho1; simpl; [reflexivity|].
    destruct (eval (heapM policy) n (PCall f [PLit r]) s1) as [x s2] eqn:E.
    destruct (invocation_independent_of_pool policy policy n (PCall f [PLit r]) s1 s Hi1 Hi Hv1 Ho1) as (Ex & _ & _).
    rewrite E in Ex. simpl in Ex. rewrite Ex. f_equal.
    destruct (heap_eval policy n (PCall f [PLit r]) s1 Hi1) as (_ & Hi2 & Ha2). rewrite E in Hi2, Ha2. simpl in Hi2, Ha2.
    destruct (eval pureM n (PCall f [PLit r]) (abs policy s1)) as [xp sp] eqn:Ep. simpl in Ha2.
    assert (Hsp : sp = abs policy s1).
    { apply (pure_call_state n f [r] (abs policy s1) xp sp); [|exact Ep]. unfold frames, abs. simpl. rewrite Hv1. exact Hst. }
    rewrite Hsp in Ha2. unfold abs in Ha2. inversion Ha2 as [[Hv2 Ho2]].
    apply IH; [exact Hi2|congruence|congruence]. }
  apply G; auto.
Qed.
