(* Proofs for C16 (cursors).  The statements are collected in Properties/C16.v. *)
From Coq Require Import Lia.
Require Import Csvq.Model.Base Csvq.Model.Value Csvq.Model.Cursor.
Open Scope Z_scope.

(* ================================================================================================ *)
(* one cursor                                                                                       *)
(* ================================================================================================ *)

(* the pointer of an open cursor is between "before the first row" and "after the last row" *)
Definition cur_inv (c : cursor) : Prop :=
  match c_view c with Some v => -1 <= c_idx c <= zlen v | None => True end.

Definition in_range (len t : Z) : bool := (0 <=? t) && (t <? len).

Lemma zlen_nonneg {A} (l : list A) : 0 <= zlen l.
Proof. unfold zlen. lia. Qed.

Lemma wrap64_id z : in_int64 z = true -> wrap64 z = z.
Proof.
  unfold in_int64, wrap64, min_int64, max_int64, two63, two64. intros H.
  apply andb_prop in H. destruct H as [H1 H2].
  apply Z.leb_le in H1. apply Z.leb_le in H2.
  rewrite Z.mod_small by lia. lia.
Qed.

Lemma nth_error_in_range {A} (v : list A) t : 0 <= t < zlen v -> exists r, nth_error v (Z.to_nat t) = Some r.
Proof.
  intros H. destruct (nth_error v (Z.to_nat t)) eqn:E; [eauto|].
  apply nth_error_None in E. unfold zlen in H. lia.
Qed.

(* FETCH on an open cursor, for either arithmetic: the new pointer is the clamped target, the view and
   everything else are untouched, a record is handed out exactly when the target is a row index, and
   it is that row of the view *)
Lemma cur_fetch_clamp add k n c v c' out :
  c_view c = Some v -> cur_fetch add k n c = Some (c', out) ->
  let t := target add k n (c_idx c) (zlen v) in
  c_idx c' = clamp (zlen v) t /\ c_view c' = Some v /\ c_fetched c' = true /\
  c_src c' = c_src c /\ c_pseudo c' = c_pseudo c /\
  out = (if in_range (zlen v) t then nth_error v (Z.to_nat t) else None) /\
  (in_range (zlen v) t = true -> exists r, out = Some r /\ In r v).
Proof.
  intros Hv Hf. unfold cur_fetch in Hf. rewrite Hv in Hf. cbv zeta.
  set (t := target add k n (c_idx c) (zlen v)) in *.
  unfold clamp, in_range.
  destruct (t <? 0) eqn:E1.
  - injection Hf as <- <-. cbn. apply Z.ltb_lt in E1.
    replace (0 <=? t) with false by (symmetry; apply Z.leb_gt; lia). cbn.
    repeat split; try assumption. intros H; discriminate.
  - apply Z.ltb_ge in E1. destruct (zlen v <=? t) eqn:E2.
    + injection Hf as <- <-. cbn. apply Z.leb_le in E2.
      replace (0 <=? t) with true by (symmetry; apply Z.leb_le; lia).
      replace (t <? zlen v) with false by (symmetry; apply Z.ltb_ge; lia). cbn.
      repeat split; try assumption. intros H; discriminate.
    + injection Hf as <- <-. cbn. apply Z.leb_gt in E2.
      replace (0 <=? t) with true by (symmetry; apply Z.leb_le; lia).
      replace (t <? zlen v) with true by (symmetry; apply Z.ltb_lt; lia). cbn.
      repeat split; try assumption. intros _.
      destruct (nth_error_in_range v t ltac:(lia)) as [r Hr]. exists r. split; [exact Hr|].
      eapply nth_error_In; exact Hr.
Qed.

Lemma clamp_bounds len t : 0 <= len -> -1 <= clamp len t <= len.
Proof.
  intros H. unfold clamp. destruct (t <? 0) eqn:E1; [lia|].
  destruct (len <=? t) eqn:E2; [lia|]. apply Z.ltb_ge in E1. apply Z.leb_gt in E2. lia.
Qed.

Lemma cur_fetch_inv add k n c c' out : cur_fetch add k n c = Some (c', out) -> cur_inv c'.
Proof.
  intros Hf. destruct (c_view c) as [v|] eqn:Hv.
  - destruct (cur_fetch_clamp add k n c v c' out Hv Hf) as (Hi & Hv' & _).
    unfold cur_inv. rewrite Hv', Hi. apply clamp_bounds. apply zlen_nonneg.
  - unfold cur_fetch in Hf. rewrite Hv in Hf. discriminate.
Qed.

Lemma cur_fetch_closed add k n c : c_view c = None -> cur_fetch add k n c = None.
Proof. intros H. unfold cur_fetch. rewrite H. reflexivity. Qed.

Lemma cur_fetch_open add k n c v : c_view c = Some v -> exists c' out, cur_fetch add k n c = Some (c', out).
Proof.
  intros H. unfold cur_fetch. rewrite H.
  destruct (_ <? 0); [eauto|]. destruct (_ <=? _); eauto.
Qed.

(* the code's int arithmetic agrees with exact arithmetic unless idx + n leaves int64 *)
Lemma target_add64 k n idx len :
  (k = KRel -> in_int64 (idx + n) = true) -> target add64 k n idx len = target Z.add k n idx len.
Proof.
  intros H. destruct k; try reflexivity. cbn. unfold add64. apply wrap64_id. apply H. reflexivity.
Qed.

Lemma cur_fetch_add64 k n c :
  (k = KRel -> in_int64 (c_idx c + n) = true) -> cur_fetch add64 k n c = cur_fetch Z.add k n c.
Proof.
  intros H. unfold cur_fetch. destruct (c_view c) as [v|]; [|reflexivity].
  rewrite (target_add64 k n (c_idx c) (zlen v) H). reflexivity.
Qed.

Lemma cur_open_inv r c : cur_inv (cur_open r c).
Proof. unfold cur_inv, cur_open. cbn. pose proof (zlen_nonneg r). lia. Qed.
Lemma cur_close_inv c : cur_inv (cur_close c).
Proof. exact I. Qed.
Lemma new_cursor_inv s : cur_inv (new_cursor s).
Proof. exact I. Qed.
Lemma pseudo_cursor_inv vals : cur_inv (pseudo_cursor vals).
Proof. unfold cur_inv, pseudo_cursor. cbn. pose proof (zlen_nonneg (map (fun v => [v]) vals)). lia. Qed.

(* ================================================================================================ *)
(* cursor maps and block stacks                                                                     *)
(* ================================================================================================ *)
Lemma cm_find_set_same c y m : cm_find c m <> None -> cm_find c (cm_set c y m) = Some y.
Proof.
  induction m as [|[d x] m IH]; cbn; intros H; [congruence|].
  destruct (N.eqb d c) eqn:E; cbn; rewrite E; [reflexivity | apply IH; exact H].
Qed.
Lemma cm_find_set_other c d y m : d <> c -> cm_find c (cm_set d y m) = cm_find c m.
Proof.
  intros Hne. induction m as [|[e x] m IH]; cbn; [reflexivity|].
  destruct (N.eqb e d) eqn:E1; cbn.
  - apply N.eqb_eq in E1. subst e. destruct (N.eqb d c) eqn:E2; [apply N.eqb_eq in E2; congruence | reflexivity].
  - destruct (N.eqb e c); [reflexivity | exact IH].
Qed.
Lemma cm_find_del_other c d m : d <> c -> cm_find c (cm_del d m) = cm_find c m.
Proof.
  intros Hne. induction m as [|[e x] m IH]; cbn; [reflexivity|].
  destruct (N.eqb e d) eqn:E1; cbn.
  - apply N.eqb_eq in E1. subst e. destruct (N.eqb d c) eqn:E2; [apply N.eqb_eq in E2; congruence | reflexivity].
  - destruct (N.eqb e c); [reflexivity | exact IH].
Qed.

Lemma bl_find_set_same c y bs : bl_find c bs <> None -> bl_find c (bl_set c y bs) = Some y.
Proof.
  induction bs as [|m bs IH]; cbn; intros H; [congruence|].
  destruct (cm_find c m) eqn:E; cbn.
  - rewrite cm_find_set_same by congruence. reflexivity.
  - rewrite E. apply IH. exact H.
Qed.
Lemma bl_find_set_other c d y bs : d <> c -> bl_find c (bl_set d y bs) = bl_find c bs.
Proof.
  intros Hne. induction bs as [|m bs IH]; cbn; [reflexivity|].
  destruct (cm_find d m) eqn:E; cbn.
  - rewrite cm_find_set_other by exact Hne. reflexivity.
  - rewrite IH. reflexivity.
Qed.
Lemma bl_find_del_other c d bs : d <> c -> bl_find c (bl_del d bs) = bl_find c bs.
Proof.
  intros Hne. induction bs as [|m bs IH]; cbn; [reflexivity|].
  destruct (cm_find d m) eqn:E; cbn.
  - rewrite cm_find_del_other by exact Hne. reflexivity.
  - rewrite IH. reflexivity.
Qed.

(* ---- the invariant on whole states ---------------------------------------------------------- *)
Definition cm_inv (m : cmap) : Prop := Forall (fun p => cur_inv (snd p)) m.
Definition bl_inv (bs : list cmap) : Prop := Forall cm_inv bs.
Definition st_inv (st : state) : Prop := bl_inv (blocks st).

Lemma cm_find_inv c m x : cm_inv m -> cm_find c m = Some x -> cur_inv x.
Proof.
  induction m as [|[d y] m IH]; cbn; intros Hm Hf; [discriminate|].
  inversion Hm; subst. destruct (N.eqb d c); [injection Hf as <-; assumption | eauto].
Qed.
Lemma cm_set_inv c y m : cm_inv m -> cur_inv y -> cm_inv (cm_set c y m).
Proof.
  induction m as [|[d x] m IH]; cbn; intros Hm Hy; [constructor|].
  inversion Hm; subst. destruct (N.eqb d c); constructor; auto. apply IH; assumption.
Qed.
Lemma cm_del_inv c m : cm_inv m -> cm_inv (cm_del c m).
Proof.
  induction m as [|[d x] m IH]; cbn; intros Hm; [constructor|].
  inversion Hm; subst. destruct (N.eqb d c); [assumption|]. constructor; auto. apply IH; assumption.
Qed.
Lemma bl_find_inv c bs x : bl_inv bs -> bl_find c bs = Some x -> cur_inv x.
Proof.
  induction bs as [|m bs IH]; cbn; intros Hb Hf; [discriminate|].
  inversion Hb; subst. destruct (cm_find c m) eqn:E.
  - injection Hf as <-. eapply cm_find_inv; eauto.
  - eauto.
Qed.
Lemma bl_set_inv c y bs : bl_inv bs -> cur_inv y -> bl_inv (bl_set c y bs).
Proof.
  induction bs as [|m bs IH]; cbn; intros Hb Hy; [constructor|].
  inversion Hb; subst. destruct (cm_find c m); constructor; auto.
  - apply cm_set_inv; assumption.
  - apply IH; assumption.
Qed.
Lemma bl_del_inv c bs : bl_inv bs -> bl_inv (bl_del c bs).
Proof.
  induction bs as [|m bs IH]; cbn; intros Hb; [constructor|].
  inversion Hb; subst. destruct (cm_find c m); constructor; auto.
  - apply cm_del_inv; assumption.
  - apply IH; assumption.
Qed.

(* ================================================================================================ *)
(* every reachable state satisfies the invariant                                                    *)
(* ================================================================================================ *)
Lemma run_body_cons add s b st :
  run_body add (s :: b) st =
  match s with
  | SBreak => (st, FBreak)
  | SContinue => (st, FContinue)
  | _ => let '(st1, r) := step_simple add st s in
         match r_err r with Some e => (st1, FError e) | None => run_body add b st1 end
  end.
Proof. destruct s; reflexivity. Qed.

(* a state predicate kept by every simple statement of a class Q is kept by bodies, loops, steps *)
Section Preserve.
  Variable add : Z -> Z -> Z.
  Variable P : state -> Prop.
  Variable Q : sop -> Prop.
  Hypothesis Hsimple : forall st s, Q s -> P st -> P (fst (step_simple add st s)).

  Lemma run_body_preserves body : Forall Q body -> forall st, P st -> P (fst (run_body add body st)).
  Proof.
    induction body as [|s b IH]; intros HQ st HP; [exact HP|].
    inversion HQ as [|? ? Hs Hb]; subst. rewrite run_body_cons.
    pose proof (Hsimple st s Hs HP) as H1.
    destruct (step_simple add st s) as [st1 r] eqn:E. cbn in H1.
    destruct s; try exact HP; (destruct (r_err r); [exact H1 | apply IH; assumption]).
  Qed.

  Hypothesis Hclear : forall st, P st -> P (clear_top st).

  Lemma while_loop_preserves c into body : Forall Q body -> Q (SFetch c PNext into) ->
    forall fuel st log, P st -> P (fst (fst (while_loop add fuel c into body st log))).
  Proof.
    intros HQ HQf. induction fuel as [|fuel IH]; intros st log HP; [exact HP|].
    cbn [while_loop].
    pose proof (Hsimple (clear_top st) (SFetch c PNext into) HQf (Hclear st HP)) as H1.
    cbn [step_simple] in H1.
    destruct (do_fetch add (clear_top st) c PNext into) as [st1 r] eqn:E. cbn in H1.
    destruct (r_err r); [exact H1|]. destruct (r_row r); [|exact H1].
    pose proof (run_body_preserves body HQ st1 H1) as H2.
    destruct (run_body add body st1) as [st2 f]. cbn in H2.
    destruct f; try exact H2; apply IH; exact H2.
  Qed.
End Preserve.

Lemma do_fetch_inv add st c p into : st_inv st -> st_inv (fst (do_fetch add st c p into)).
Proof.
  unfold do_fetch, st_inv. intros H.
  destruct (pos_eval p) as [[k n]|]; [|exact H].
  destruct (bl_find c (blocks st)) as [cur|] eqn:Ef; [|exact H].
  destruct (cur_fetch add k n cur) as [[cur' out]|] eqn:Ec; [|exact H].
  assert (H0 : bl_inv (bl_set c cur' (blocks st))).
  { apply bl_set_inv; [exact H | eapply cur_fetch_inv; exact Ec]. }
  destruct out as [r|]; [|exact H0].
  destruct (length into =? length r)%nat; [|exact H0].
  destruct (assign into r _); exact H0.
Qed.

Lemma step_simple_inv add st s : st_inv st -> st_inv (fst (step_simple add st s)).
Proof.
  intros H. destruct s; cbn [step_simple].
  - (* declare *) unfold st_inv in *. destruct (blocks st) as [|m bs] eqn:Eb; cbn [fst]; [rewrite Eb; exact H|].
    destruct (cm_find c m); cbn; [rewrite Eb; exact H|].
    inversion H; subst. constructor; [|assumption]. constructor; [apply new_cursor_inv | assumption].
  - (* pseudo *) unfold st_inv in *. destruct (blocks st) as [|m bs] eqn:Eb; cbn [fst]; [rewrite Eb; exact H|].
    destruct (cm_find c m); cbn; [rewrite Eb; exact H|].
    inversion H; subst. constructor; [|assumption]. constructor; [apply pseudo_cursor_inv | assumption].
  - (* open *) destruct (bl_find c (blocks st)) as [cur|]; [|exact H].
    destruct (c_pseudo cur); [exact H|]. destruct (c_view cur); [exact H|].
    destruct (resolve st (c_src cur) arg); [exact H|]. destruct (db_get n (db st)); [|exact H].
    cbn. apply bl_set_inv; [exact H | apply cur_open_inv].
  - (* close *) destruct (bl_find c (blocks st)) as [cur|]; [|exact H].
    destruct (c_pseudo cur); [exact H|]. cbn. apply bl_set_inv; [exact H | apply cur_close_inv].
  - (* dispose *) destruct (bl_find c (blocks st)) as [cur|]; [|exact H].
    destruct (c_pseudo cur); [exact H|]. cbn. apply bl_del_inv; exact H.
  - apply do_fetch_inv; exact H.
  - destruct (bl_find c (blocks st)); exact H.
  - destruct (bl_find c (blocks st)) as [cur|]; [|exact H]. destruct (cur_in_range cur); exact H.
  - destruct (bl_find c (blocks st)) as [cur|]; [|exact H]. destruct (cur_count cur); exact H.
  - exact H.
  - cbn. constructor; [constructor | exact H].
  - unfold pop_block, st_inv in *. cbn [fst]. destruct (blocks st) as [|m [|m' bs]] eqn:Eb; try (rewrite Eb; exact H).
    cbn. inversion H; assumption.
  - exact H.
  - exact H.
Qed.

Lemma clear_top_inv st : st_inv st -> st_inv (clear_top st).
Proof.
  unfold clear_top, st_inv. destruct (blocks st) as [|m bs] eqn:Eb; intros H; [rewrite Eb; exact H|].
  cbn. inversion H; subst. constructor; [constructor | assumption].
Qed.

Lemma Forall_True {A} (l : list A) : Forall (fun _ => True) l.
Proof. induction l; constructor; auto. Qed.

Lemma step_inv add fuel st o : st_inv st -> st_inv (fst (step add fuel st o)).
Proof.
  intros H. destruct o as [s | c into body]; cbn [step].
  - apply step_simple_inv; exact H.
  - assert (Hp : st_inv (push_block st)) by (cbn; constructor; [constructor | exact H]).
    pose proof (while_loop_preserves add st_inv (fun _ => True)
                  (fun st s _ => step_simple_inv add st s) clear_top_inv c into body
                  (Forall_True body) I fuel (push_block st) [] Hp) as H1.
    destruct (while_loop add fuel c into body (push_block st) []) as [[st1 e] log]. cbn in H1 |- *.
    unfold st_inv, drop_block in *. cbn [blocks set_blocks]. destruct (blocks st1) as [|m bs]; [constructor|]. cbn. inversion H1; assumption.
Qed.

Lemma run_inv add fuel ops : forall st, st_inv st -> st_inv (run add fuel st ops).
Proof.
  induction ops as [|o ops IH]; intros st H; [exact H|].
  cbn. apply IH. apply step_inv. exact H.
Qed.

Lemma init_inv d vs p : st_inv (init_state d vs p).
Proof. cbn. constructor; constructor. Qed.

(* ================================================================================================ *)
(* errors and status expressions (direct computations)                                              *)
(* ================================================================================================ *)
Lemma state_eta st : mkSt (blocks st) (db st) (vars st) (prep st) = st.
Proof. destruct st; reflexivity. Qed.

Lemma drop_clear_push st : drop_block (clear_top (push_block st)) = st.
Proof. unfold drop_block, clear_top, push_block, set_blocks. cbn. apply state_eta. Qed.

Lemma bl_find_push c bs : bl_find c ([] :: bs) = bl_find c bs.
Proof. reflexivity. Qed.

Lemma undeclared_simple add st c s :
  bl_find c (blocks st) = None ->
  match s with
  | SOpen d _ | SClose d | SDispose d | SIsOpen d _ | SInRange d _ | SCount d => d = c
  | SFetch d p _ => d = c /\ pos_eval p <> None
  | _ => False
  end ->
  step_simple add st s = (st, err_res EUndeclared).
Proof.
  intros Hf Hs. destruct s; try contradiction; try (subst c0; cbn; rewrite Hf; reflexivity).
  destruct Hs as [-> Hp]. cbn. unfold do_fetch. destruct (pos_eval p) as [[k n]|]; [|congruence].
  rewrite Hf. reflexivity.
Qed.

Lemma fetch_bad_position add st c p into : pos_eval p = None -> step_simple add st (SFetch c p into) = (st, err_res EFetchPos).
Proof. intros H. cbn. unfold do_fetch. rewrite H. reflexivity. Qed.

Lemma while_first_fetch_error add fuel st c into body st1 r e :
  do_fetch add (clear_top (push_block st)) c PNext into = (st1, r) -> r_err r = Some e ->
  step add (S fuel) st (OWhile c into body) = (drop_block st1, mkRes (Some e) None None []).
Proof. intros H He. cbn [step while_loop]. rewrite H, He. reflexivity. Qed.

Lemma undeclared_while add fuel st c into body :
  bl_find c (blocks st) = None ->
  step add (S fuel) st (OWhile c into body) = (st, mkRes (Some EUndeclared) None None []).
Proof.
  intros Hf.
  rewrite (while_first_fetch_error add fuel st c into body (clear_top (push_block st)) (err_res EUndeclared) EUndeclared).
  - rewrite drop_clear_push. reflexivity.
  - unfold do_fetch. cbn [pos_eval].
    change (blocks (clear_top (push_block st))) with ([] :: blocks st).
    rewrite bl_find_push, Hf. reflexivity.
  - reflexivity.
Qed.

Lemma closed_simple add st c cur s :
  bl_find c (blocks st) = Some cur -> c_view cur = None ->
  match s with
  | SInRange d _ | SCount d => d = c
  | SFetch d p _ => d = c /\ pos_eval p <> None
  | _ => False
  end ->
  step_simple add st s = (st, err_res EClosed).
Proof.
  intros Hf Hv Hs. destruct s; try contradiction.
  - destruct Hs as [-> Hp]. cbn. unfold do_fetch. destruct (pos_eval p) as [[k n]|]; [|congruence].
    rewrite Hf, (cur_fetch_closed add k n cur Hv). reflexivity.
  - subst c0. cbn. rewrite Hf. unfold cur_in_range. rewrite Hv. reflexivity.
  - subst c0. cbn. rewrite Hf. unfold cur_count. rewrite Hv. reflexivity.
Qed.

Lemma closed_while add fuel st c cur into body :
  bl_find c (blocks st) = Some cur -> c_view cur = None ->
  step add (S fuel) st (OWhile c into body) = (st, mkRes (Some EClosed) None None []).
Proof.
  intros Hf Hv.
  rewrite (while_first_fetch_error add fuel st c into body (clear_top (push_block st)) (err_res EClosed) EClosed).
  - rewrite drop_clear_push. reflexivity.
  - unfold do_fetch. cbn [pos_eval].
    change (blocks (clear_top (push_block st))) with ([] :: blocks st).
    rewrite bl_find_push, Hf, (cur_fetch_closed add KNext (-1) cur Hv). reflexivity.
  - reflexivity.
Qed.

Lemma open_twice add st c cur v arg :
  bl_find c (blocks st) = Some cur -> c_view cur = Some v -> c_pseudo cur = false ->
  step_simple add st (SOpen c arg) = (st, err_res EAlreadyOpen).
Proof. intros Hf Hv Hp. cbn. rewrite Hf, Hp, Hv. reflexivity. Qed.

Lemma pseudo_refused add st c cur s :
  bl_find c (blocks st) = Some cur -> c_pseudo cur = true ->
  match s with SOpen d _ | SClose d | SDispose d => d = c | _ => False end ->
  step_simple add st s = (st, err_res EPseudo).
Proof. intros Hf Hp Hs. destruct s; try contradiction; subst c0; cbn; rewrite Hf, Hp; reflexivity. Qed.

Lemma redeclared add st c m bs x src :
  blocks st = m :: bs -> cm_find c m = Some x -> step_simple add st (SDeclare c src) = (st, err_res ERedeclared).
Proof. intros Hb Hf. cbn. rewrite Hb, Hf. reflexivity. Qed.

(* OPEN of a declared, closed, ordinary cursor whose query evaluates: the cursor takes the current
   result, pointer before the first row, nothing fetched *)
Lemma open_takes_current add st c cur arg q r :
  bl_find c (blocks st) = Some cur -> c_pseudo cur = false -> c_view cur = None ->
  resolve st (c_src cur) arg = inr q -> db_get q (db st) = Some r ->
  step_simple add st (SOpen c arg) = (set_blocks st (bl_set c (cur_open r cur) (blocks st)), ok_res) /\
  bl_find c (bl_set c (cur_open r cur) (blocks st)) = Some (cur_open r cur).
Proof.
  intros Hf Hp Hv Hr Hd. split.
  - cbn. rewrite Hf, Hp, Hv, Hr, Hd. reflexivity.
  - apply bl_find_set_same. congruence.
Qed.

(* conversely: a successful OPEN took the current result of the cursor's query *)
Lemma open_success add st c arg st1 res :
  step_simple add st (SOpen c arg) = (st1, res) -> r_err res = None ->
  exists cur q r, bl_find c (blocks st) = Some cur /\ c_view cur = None /\ resolve st (c_src cur) arg = inr q /\
    db_get q (db st) = Some r /\ st1 = set_blocks st (bl_set c (cur_open r cur) (blocks st)) /\
    bl_find c (blocks st1) = Some (cur_open r cur).
Proof.
  cbn. intros H He.
  destruct (bl_find c (blocks st)) as [cur|] eqn:Hf; [|injection H as <- <-; discriminate].
  destruct (c_pseudo cur) eqn:Hp; [injection H as <- <-; discriminate|].
  destruct (c_view cur) eqn:Hv; [injection H as <- <-; discriminate|].
  destruct (resolve st (c_src cur) arg) as [e|q] eqn:Hr; [injection H as <- <-; discriminate|].
  destruct (db_get q (db st)) as [r|] eqn:Hd; [|injection H as <- <-; discriminate].
  injection H as <- <-. exists cur, q, r. repeat split; try assumption.
  cbn. apply bl_find_set_same. congruence.
Qed.

Lemma status_is_open add st c cur neg :
  bl_find c (blocks st) = Some cur ->
  step_simple add st (SIsOpen c neg) = (st, tern_res neg (match c_view cur with Some _ => TT | None => TF end)).
Proof. intros Hf. cbn. rewrite Hf. reflexivity. Qed.

Lemma status_count add st c cur v :
  bl_find c (blocks st) = Some cur -> c_view cur = Some v ->
  step_simple add st (SCount c) = (st, val_res (VInt (zlen v))).
Proof. intros Hf Hv. cbn. rewrite Hf. unfold cur_count. rewrite Hv. reflexivity. Qed.

Lemma status_in_range add st c cur v neg :
  bl_find c (blocks st) = Some cur -> c_view cur = Some v ->
  step_simple add st (SInRange c neg) =
  (st, tern_res neg (if c_fetched cur then of_bool ((-1 <? c_idx cur) && (c_idx cur <? zlen v)) else TU)).
Proof.
  intros Hf Hv. cbn. rewrite Hf. unfold cur_in_range. rewrite Hv. destruct (c_fetched cur); reflexivity.
Qed.

(* ================================================================================================ *)
(* FETCH at the level of states                                                                     *)
(* ================================================================================================ *)
Lemma set_nth_length {A} i (x : A) l : length (set_nth i x l) = length l.
Proof. revert i. induction l as [|y l IH]; intros [|i]; cbn; auto. Qed.

Lemma assign_length into : forall r vs, length (fst (assign into r vs)) = length vs.
Proof.
  induction into as [|i into IH]; intros r vs; [reflexivity|].
  destruct r as [|v r]; [reflexivity|]. cbn [assign].
  destruct (i <? length vs)%nat; [|reflexivity]. rewrite IH. apply set_nth_length.
Qed.

(* what a FETCH on a visible open cursor does to the state *)
Lemma do_fetch_open add st c p into cur v k n :
  pos_eval p = Some (k, n) -> bl_find c (blocks st) = Some cur -> c_view cur = Some v ->
  exists cur' out,
    cur_fetch add k n cur = Some (cur', out) /\
    let '(st', res) := do_fetch add st c p into in
    blocks st' = bl_set c cur' (blocks st) /\ db st' = db st /\ prep st' = prep st /\
    length (vars st') = length (vars st) /\ r_row res = out /\ r_val res = None /\ r_log res = [] /\
    bl_find c (blocks st') = Some cur' /\
    (out = None -> vars st' = vars st /\ r_err res = None) /\
    (forall r, out = Some r -> length into <> length r -> vars st' = vars st /\ r_err res = Some EFetchLen) /\
    (forall r, out = Some r -> length into = length r ->
        vars st' = fst (assign into r (vars st)) /\ r_err res = snd (assign into r (vars st))).
Proof.
  intros Hp Hf Hv. destruct (cur_fetch_open add k n cur v Hv) as (cur' & out & Hc).
  exists cur', out. split; [exact Hc|].
  unfold do_fetch. rewrite Hp, Hf, Hc.
  assert (Hs : bl_find c (bl_set c cur' (blocks st)) = Some cur') by (apply bl_find_set_same; congruence).
  destruct out as [r|].
  - destruct (length into =? length r)%nat eqn:El.
    + apply Nat.eqb_eq in El. cbn [set_blocks vars].
      pose proof (assign_length into r (vars st)) as Hl.
      destruct (assign into r (vars st)) as [vs e] eqn:Ea. cbn in Hl |- *.
      split; [reflexivity|]. split; [reflexivity|]. split; [reflexivity|]. split; [exact Hl|].
      split; [reflexivity|]. split; [reflexivity|]. split; [reflexivity|]. split; [exact Hs|].
      split; [discriminate|]. split.
      * intros rr Hrr Hne. injection Hrr as <-. contradiction.
      * intros rr Hrr _. injection Hrr as <-. rewrite Ea. split; reflexivity.
    + apply Nat.eqb_neq in El. cbn.
      split; [reflexivity|]. split; [reflexivity|]. split; [reflexivity|]. split; [reflexivity|].
      split; [reflexivity|]. split; [reflexivity|]. split; [reflexivity|]. split; [exact Hs|].
      split; [discriminate|]. split.
      * intros rr Hrr Hne. split; reflexivity.
      * intros rr Hrr He. injection Hrr as <-. contradiction.
  - cbn.
    split; [reflexivity|]. split; [reflexivity|]. split; [reflexivity|]. split; [reflexivity|].
    split; [reflexivity|]. split; [reflexivity|]. split; [reflexivity|]. split; [exact Hs|].
    split; [intros _; split; reflexivity|]. split; intros rr Hrr; discriminate.
Qed.

(* ================================================================================================ *)
(* frame: what statements of a class Q may do to the cursors named c, in every block               *)
(* ================================================================================================ *)
(* statements that neither (re)declare, open, close, dispose c nor enter/leave a block *)
Definition keeps (c : N) (s : sop) : Prop :=
  match s with
  | SDeclare d _ | SPseudo d _ | SOpen d _ | SClose d | SDispose d => d <> c
  | SPush | SPop => False
  | _ => True
  end.
(* ... and do not fetch from c either (status expressions are harmless) *)
Definition untouched (c : N) (s : sop) : Prop :=
  keeps c s /\ match s with SFetch d _ _ => d <> c | _ => True end.

Section Frame.
  Variable add : Z -> Z -> Z.
  Variable c : N.
  Variable R : cursor -> cursor -> Prop.
  Hypothesis Rrefl : forall x, R x x.
  Hypothesis Rtrans : forall x y z, R x y -> R y z -> R x z.
  Variable Q : sop -> Prop.
  Hypothesis Qkeeps : forall s, Q s -> keeps c s.
  Hypothesis Qfetch : forall p into, Q (SFetch c p into) ->
    forall x k n x' out, cur_fetch add k n x = Some (x', out) -> R x x'.

  Definition relo (a b : option cursor) : Prop :=
    match a, b with Some x, Some y => R x y | None, None => True | _, _ => False end.
  Definition relm (m m' : cmap) : Prop := relo (cm_find c m) (cm_find c m').
  Definition relb : list cmap -> list cmap -> Prop := Forall2 relm.

  Lemma relo_refl a : relo a a.
  Proof. destruct a; cbn; auto. Qed.
  Lemma relo_trans a b d : relo a b -> relo b d -> relo a d.
  Proof. destruct a, b, d; cbn; try tauto. apply Rtrans. Qed.
  Lemma relb_refl bs : relb bs bs.
  Proof. induction bs; constructor; auto. apply relo_refl. Qed.
  Lemma relb_trans a : forall b d, relb a b -> relb b d -> relb a d.
  Proof.
    induction a as [|m a IH]; intros b d H1 H2; inversion H1; subst; inversion H2; subst; constructor.
    - eapply relo_trans; eassumption.
    - eapply IH; eassumption.
  Qed.

  Lemma relb_set_other d y bs : d <> c -> relb bs (bl_set d y bs).
  Proof.
    intros Hne. induction bs as [|m bs IH]; cbn; [constructor|].
    destruct (cm_find d m); constructor.
    - unfold relm. rewrite cm_find_set_other by exact Hne. apply relo_refl.
    - apply relb_refl.
    - apply relo_refl.
    - exact IH.
  Qed.
  Lemma relb_del_other d bs : d <> c -> relb bs (bl_del d bs).
  Proof.
    intros Hne. induction bs as [|m bs IH]; cbn; [constructor|].
    destruct (cm_find d m); constructor.
    - unfold relm. rewrite cm_find_del_other by exact Hne. apply relo_refl.
    - apply relb_refl.
    - apply relo_refl.
    - exact IH.
  Qed.
  Lemma relb_set_same x y bs : bl_find c bs = Some x -> R x y -> relb bs (bl_set c y bs).
  Proof.
    intros Hf Hr. induction bs as [|m bs IH]; cbn in *; [constructor|].
    destruct (cm_find c m) as [x0|] eqn:E.
    - injection Hf as ->. constructor; [|apply relb_refl].
      unfold relm. rewrite E, cm_find_set_same by congruence. exact Hr.
    - constructor; [apply relo_refl | apply IH; exact Hf].
  Qed.
  Lemma relb_find bs bs' : relb bs bs' -> relo (bl_find c bs) (bl_find c bs').
  Proof.
    induction 1 as [|m m' bs bs' Hm Hb IH]; cbn; [exact I|].
    unfold relm in Hm. destruct (cm_find c m), (cm_find c m'); cbn in Hm; try contradiction; auto.
  Qed.

  Lemma do_fetch_frame st d p into : Q (SFetch d p into) -> relb (blocks st) (blocks (fst (do_fetch add st d p into))).
  Proof.
    intros HQ. unfold do_fetch.
    destruct (pos_eval p) as [[k n]|]; [|apply relb_refl].
    destruct (bl_find d (blocks st)) as [cur|] eqn:Ef; [|apply relb_refl].
    destruct (cur_fetch add k n cur) as [[cur' out]|] eqn:Ec; [|apply relb_refl].
    assert (H0 : relb (blocks st) (bl_set d cur' (blocks st))).
    { destruct (N.eq_dec d c) as [->|Hne].
      - eapply relb_set_same; [exact Ef|]. eapply Qfetch; eassumption.
      - apply relb_set_other; exact Hne. }
    destruct out as [r|]; [|exact H0].
    destruct (length into =? length r)%nat; [|exact H0].
    destruct (assign into r _); exact H0.
  Qed.

  Lemma step_simple_frame st s : Q s -> relb (blocks st) (blocks (fst (step_simple add st s))).
  Proof.
    intros HQ. pose proof (Qkeeps s HQ) as Hk. destruct s; cbn [step_simple keeps] in *; try contradiction.
    - (* declare *) destruct (blocks st) as [|m bs] eqn:Eb; cbn [fst]; [rewrite Eb; constructor|].
      destruct (cm_find c0 m); cbn [fst]; [rewrite Eb; apply relb_refl|]. cbn.
      constructor; [|apply relb_refl]. unfold relm. cbn.
      replace (N.eqb c0 c) with false by (symmetry; apply N.eqb_neq; exact Hk). apply relo_refl.
    - (* pseudo *) destruct (blocks st) as [|m bs] eqn:Eb; cbn [fst]; [rewrite Eb; constructor|].
      destruct (cm_find c0 m); cbn [fst]; [rewrite Eb; apply relb_refl|]. cbn.
      constructor; [|apply relb_refl]. unfold relm. cbn.
      replace (N.eqb c0 c) with false by (symmetry; apply N.eqb_neq; exact Hk). apply relo_refl.
    - (* open *) destruct (bl_find c0 (blocks st)) as [cur|]; [|apply relb_refl].
      destruct (c_pseudo cur); [apply relb_refl|]. destruct (c_view cur); [apply relb_refl|].
      destruct (resolve st (c_src cur) arg); [apply relb_refl|]. destruct (db_get n (db st)); [|apply relb_refl].
      cbn. apply relb_set_other; exact Hk.
    - (* close *) destruct (bl_find c0 (blocks st)) as [cur|]; [|apply relb_refl].
      destruct (c_pseudo cur); [apply relb_refl|]. cbn. apply relb_set_other; exact Hk.
    - (* dispose *) destruct (bl_find c0 (blocks st)) as [cur|]; [|apply relb_refl].
      destruct (c_pseudo cur); [apply relb_refl|]. cbn. apply relb_del_other; exact Hk.
    - apply do_fetch_frame; exact HQ.
    - destruct (bl_find c0 (blocks st)); apply relb_refl.
    - destruct (bl_find c0 (blocks st)) as [cur|]; [|apply relb_refl]. destruct (cur_in_range cur); apply relb_refl.
    - destruct (bl_find c0 (blocks st)) as [cur|]; [|apply relb_refl]. destruct (cur_count cur); apply relb_refl.
    - apply relb_refl.
    - apply relb_refl.
    - apply relb_refl.
  Qed.

  (* bodies keep the depth of the stack *)
  Lemma run_body_frame body : Forall Q body -> forall st, relb (blocks st) (blocks (fst (run_body add body st))).
  Proof.
    intros HQ st.
    apply (run_body_preserves add (fun s' => relb (blocks st) (blocks s')) Q); [|exact HQ|apply relb_refl].
    intros st' s Hs H. eapply relb_trans; [exact H|]. apply step_simple_frame; exact Hs.
  Qed.

  (* a whole loop: the blocks below the loop's own block are related *)
  Lemma while_frame fuel st cw into body :
    Forall Q body -> Q (SFetch cw PNext into) ->
    relb (blocks st) (blocks (fst (step add fuel st (OWhile cw into body)))).
  Proof.
    intros HQ HQf. cbn [step].
    pose (P := fun s' : state => exists top rest, blocks s' = top :: rest /\ relb (blocks st) rest).
    assert (H1 : P (fst (fst (while_loop add fuel cw into body (push_block st) [])))).
    { apply (while_loop_preserves add P Q); try assumption.
      - intros s' s Hs (top & rest & Hb & Hr).
        pose proof (step_simple_frame s' s Hs) as Hf. rewrite Hb in Hf.
        inversion Hf as [|? top' ? rest' Hm Hrest]; subst.
        exists top', rest'. split; [congruence|]. eapply relb_trans; eassumption.
      - intros s' (top & rest & Hb & Hr). exists [], rest. split; [|exact Hr].
        unfold clear_top. rewrite Hb. reflexivity.
      - exists [], (blocks st). split; [reflexivity | apply relb_refl]. }
    destruct (while_loop add fuel cw into body (push_block st) []) as [[st1 e] log]. cbn in H1 |- *.
    destruct H1 as (top & rest & Hb & Hr). rewrite Hb. exact Hr.
  Qed.

  (* top level: statements of class Q, entering a block, loops over class-Q bodies *)
  Definition keeps_op (o : op) : Prop :=
    match o with
    | OSimple SPush => True
    | OSimple s => Q s
    | OWhile cw into body => Forall Q body /\ Q (SFetch cw PNext into)
    end.

  Lemma step_frame fuel st o : keeps_op o ->
    relo (bl_find c (blocks st)) (bl_find c (blocks (fst (step add fuel st o)))).
  Proof.
    intros Hk. destruct o as [s | cw into body].
    - destruct s; try (apply relb_find; apply step_simple_frame; exact Hk).
      cbn. apply relo_refl.
    - destruct Hk as [HQ HQf]. apply relb_find. apply while_frame; assumption.
  Qed.

  Lemma run_frame fuel ops : Forall keeps_op ops -> forall st,
    relo (bl_find c (blocks st)) (bl_find c (blocks (run add fuel st ops))).
  Proof.
    induction 1 as [|o ops Ho Hops IH]; intros st; [apply relo_refl|].
    cbn. eapply relo_trans; [apply step_frame; exact Ho | apply IH].
  Qed.
End Frame.

(* ================================================================================================ *)
(* snapshot                                                                                         *)
(* ================================================================================================ *)
(* related cursors: same view; "something was fetched" is never forgotten *)
Definition same_view (x y : cursor) : Prop :=
  c_view y = c_view x /\ (c_fetched x = true -> c_fetched y = true).

Lemma same_view_refl x : same_view x x.
Proof. split; auto. Qed.
Lemma same_view_trans x y z : same_view x y -> same_view y z -> same_view x z.
Proof. intros [H1 H2] [H3 H4]. split; [congruence | auto]. Qed.
Lemma cur_fetch_same_view add k n x x' out : cur_fetch add k n x = Some (x', out) -> same_view x x'.
Proof.
  intros Hf. destruct (c_view x) as [v|] eqn:Hv.
  - destruct (cur_fetch_clamp add k n x v x' out Hv Hf) as (_ & Hv' & Hfe & _).
    split; [congruence | auto].
  - rewrite (cur_fetch_closed add k n x Hv) in Hf. discriminate.
Qed.

(* the visible cursor c keeps its view through any history of statements that keep c *)
Lemma snapshot_run add fuel c st cur r mid :
  bl_find c (blocks st) = Some cur -> c_view cur = Some r ->
  Forall (keeps_op (keeps c)) mid ->
  exists cur', bl_find c (blocks (run add fuel st mid)) = Some cur' /\ c_view cur' = Some r /\
               (c_fetched cur = true -> c_fetched cur' = true).
Proof.
  intros Hf Hv Hk.
  pose proof (run_frame add c same_view same_view_refl same_view_trans (keeps c) (fun s H => H)
                (fun p into _ x k n x' out H => cur_fetch_same_view add k n x x' out H) fuel mid Hk st) as H.
  rewrite Hf in H. destruct (bl_find c (blocks (run add fuel st mid))) as [cur'|]; cbn in H; [|contradiction].
  exists cur'. destruct H as [H1 H2]. split; [reflexivity|]. split; [congruence | exact H2].
Qed.

(* FETCH hands out only rows of the view, the one the (clamped) target addresses *)
Lemma fetch_from_view add st c cur r p into :
  bl_find c (blocks st) = Some cur -> c_view cur = Some r ->
  let '(st', res) := step_simple add st (SFetch c p into) in
  (exists cur', bl_find c (blocks st') = Some cur' /\ c_view cur' = Some r) /\
  (forall rw, r_row res = Some rw ->
     exists k n, pos_eval p = Some (k, n) /\
       let t := target add k n (c_idx cur) (zlen r) in
       in_range (zlen r) t = true /\ nth_error r (Z.to_nat t) = Some rw /\ In rw r).
Proof.
  intros Hf Hv. cbn [step_simple].
  destruct (pos_eval p) as [[k n]|] eqn:Hp.
  - destruct (do_fetch_open add st c p into cur r k n Hp Hf Hv) as (cur' & out & Hc & H).
    destruct (do_fetch add st c p into) as [st' res].
    destruct H as (Hb & _ & _ & _ & Hrow & _ & _ & Hfind & _).
    destruct (cur_fetch_clamp add k n cur r cur' out Hv Hc) as (_ & Hv' & _ & _ & _ & Hout & Hin).
    split; [exists cur'; split; assumption|].
    intros rw Hrw. exists k, n. split; [reflexivity|]. cbv zeta in *.
    rewrite Hrow, Hout in Hrw. clear Hin Hout. revert Hrw.
    destruct (in_range (zlen r) (target add k n (c_idx cur) (zlen r))) eqn:Er; intros Hrw; [|discriminate].
    split; [reflexivity|]. split; [exact Hrw | eapply nth_error_In; exact Hrw].
  - unfold do_fetch. rewrite Hp. cbn. split; [exists cur; split; assumption | intros rw H; discriminate].
Qed.

(* ================================================================================================ *)
(* WHILE .. IN visits every remaining row exactly once, in order                                    *)
(* ================================================================================================ *)
Lemma set_nth_nth_same {A} i (x d : A) l : (i < length l)%nat -> nth i (set_nth i x l) d = x.
Proof. revert i. induction l as [|y l IH]; intros [|i] H; cbn in *; try lia; auto. apply IH. lia. Qed.
Lemma set_nth_nth_other {A} i j (x d : A) l : i <> j -> nth i (set_nth j x l) d = nth i l d.
Proof.
  revert i j. induction l as [|y l IH]; intros [|i] [|j] H; cbn; try reflexivity; try congruence.
  apply IH. congruence.
Qed.

Lemma assign_nth_other into : forall r vs i, ~ In i into -> nth i (fst (assign into r vs)) VNull = nth i vs VNull.
Proof.
  induction into as [|j into IH]; intros r vs i Hn; [reflexivity|].
  destruct r as [|v r]; [reflexivity|]. cbn [assign].
  destruct (j <? length vs)%nat; [|reflexivity].
  rewrite IH by (intros H; apply Hn; right; exact H).
  apply set_nth_nth_other. intros ->. apply Hn. left. reflexivity.
Qed.

Lemma assign_ok into : forall r vs,
  NoDup into -> Forall (fun i => (i < length vs)%nat) into -> length into = length r ->
  snd (assign into r vs) = None /\ map (fun i => nth i (fst (assign into r vs)) VNull) into = r.
Proof.
  induction into as [|j into IH]; intros r vs Hnd Hd Hl.
  - destruct r; [split; reflexivity | discriminate].
  - destruct r as [|v r]; [discriminate|]. cbn [assign].
    inversion Hnd as [|? ? Hnj Hnd']; subst. inversion Hd as [|? ? Hj Hd']; subst.
    replace (j <? length vs)%nat with true by (symmetry; apply Nat.ltb_lt; exact Hj).
    assert (Hd2 : Forall (fun i => (i < length (set_nth j v vs))%nat) into) by (rewrite set_nth_length; exact Hd').
    destruct (IH r (set_nth j v vs) Hnd' Hd2 ltac:(cbn in Hl; lia)) as [He Hm].
    split; [exact He|]. cbn [map]. rewrite Hm. f_equal.
    rewrite assign_nth_other by exact Hnj. apply set_nth_nth_same. exact Hj.
Qed.

Lemma assign_err into : forall r vs, snd (assign into r vs) = None \/ snd (assign into r vs) = Some EUndeclVar.
Proof.
  induction into as [|j into IH]; intros r vs; [left; reflexivity|].
  destruct r as [|v r]; [left; reflexivity|]. cbn [assign].
  destruct (j <? length vs)%nat; [apply IH | right; reflexivity].
Qed.

Lemma do_fetch_no_fuel add st c p into : r_err (snd (do_fetch add st c p into)) <> Some EFuel.
Proof.
  unfold do_fetch. destruct (pos_eval p) as [[k n]|]; [|discriminate].
  destruct (bl_find c (blocks st)); [|discriminate].
  destruct (cur_fetch add k n c0) as [[cur' out]|]; [|discriminate].
  destruct out as [r|]; [|discriminate].
  destruct (length into =? length r)%nat; [|discriminate].
  pose proof (assign_err into r (vars (set_blocks st (bl_set c cur' (blocks st))))) as H.
  destruct (assign into r _) as [vs e]. cbn in *. destruct H as [-> | ->]; discriminate.
Qed.

Lemma step_simple_no_fuel add st s : r_err (snd (step_simple add st s)) <> Some EFuel.
Proof.
  destruct s; cbn [step_simple]; try discriminate.
  - destruct (blocks st); [discriminate|]. destruct (cm_find c c0); discriminate.
  - destruct (blocks st); [discriminate|]. destruct (cm_find c c0); discriminate.
  - destruct (bl_find c (blocks st)) as [cur|]; [|discriminate].
    destruct (c_pseudo cur); [discriminate|]. destruct (c_view cur); [discriminate|].
    unfold resolve. destruct (c_src cur); [|destruct (prep_get s (prep st)) as [[|qb]|]]; try discriminate.
    + destruct (db_get q (db st)); discriminate.
    + destruct (db_get _ (db st)); discriminate.
  - destruct (bl_find c (blocks st)) as [cur|]; [|discriminate]. destruct (c_pseudo cur); discriminate.
  - destruct (bl_find c (blocks st)) as [cur|]; [|discriminate]. destruct (c_pseudo cur); discriminate.
  - apply do_fetch_no_fuel.
  - destruct (bl_find c (blocks st)); discriminate.
  - destruct (bl_find c (blocks st)) as [cur|]; [|discriminate]. destruct (cur_in_range cur); discriminate.
  - destruct (bl_find c (blocks st)) as [cur|]; [|discriminate]. destruct (cur_count cur); discriminate.
Qed.

Lemma run_body_no_fuel add body : forall st, snd (run_body add body st) <> FError EFuel.
Proof.
  induction body as [|s b IH]; intros st; [discriminate|].
  rewrite run_body_cons. pose proof (step_simple_no_fuel add st s) as H.
  destruct (step_simple add st s) as [st1 r]. cbn in H.
  destruct s; try discriminate; (destruct (r_err r) as [e|]; [cbn; congruence | apply IH]).
Qed.

Lemma run_body_no_break add body : Forall (fun s => s <> SBreak) body -> forall st, snd (run_body add body st) <> FBreak.
Proof.
  induction 1 as [|s b Hs Hb IH]; intros st; [discriminate|].
  rewrite run_body_cons. destruct (step_simple add st s) as [st1 r].
  destruct s; try discriminate; try congruence; (destruct (r_err r); [discriminate | apply IH]).
Qed.

Lemma do_fetch_vars_len add st c p into : length (vars (fst (do_fetch add st c p into))) = length (vars st).
Proof.
  unfold do_fetch. destruct (pos_eval p) as [[k n]|]; [|reflexivity].
  destruct (bl_find c (blocks st)); [|reflexivity].
  destruct (cur_fetch add k n c0) as [[cur' out]|]; [|reflexivity].
  destruct out as [r|]; [|reflexivity].
  destruct (length into =? length r)%nat; [|reflexivity].
  pose proof (assign_length into r (vars (set_blocks st (bl_set c cur' (blocks st))))) as H.
  destruct (assign into r _) as [vs e]. cbn in *. exact H.
Qed.

Lemma step_simple_vars_len add st s : length (vars (fst (step_simple add st s))) = length (vars st).
Proof.
  destruct s; cbn [step_simple]; try reflexivity.
  - destruct (blocks st); [reflexivity|]. destruct (cm_find c c0); reflexivity.
  - destruct (blocks st); [reflexivity|]. destruct (cm_find c c0); reflexivity.
  - destruct (bl_find c (blocks st)) as [cur|]; [|reflexivity].
    destruct (c_pseudo cur); [reflexivity|]. destruct (c_view cur); [reflexivity|].
    destruct (resolve st (c_src cur) arg); [reflexivity|]. destruct (db_get n (db st)); reflexivity.
  - destruct (bl_find c (blocks st)) as [cur|]; [|reflexivity]. destruct (c_pseudo cur); reflexivity.
  - destruct (bl_find c (blocks st)) as [cur|]; [|reflexivity]. destruct (c_pseudo cur); reflexivity.
  - apply do_fetch_vars_len.
  - destruct (bl_find c (blocks st)); reflexivity.
  - destruct (bl_find c (blocks st)) as [cur|]; [|reflexivity]. destruct (cur_in_range cur); reflexivity.
  - destruct (bl_find c (blocks st)) as [cur|]; [|reflexivity]. destruct (cur_count cur); reflexivity.
  - unfold pop_block. destruct (blocks st) as [|m [|m' bs]]; reflexivity.
Qed.

Lemma run_body_vars_len add body st : length (vars (fst (run_body add body st))) = length (vars st).
Proof.
  apply (run_body_preserves add (fun s' => length (vars s') = length (vars st)) (fun _ => True)).
  - intros st' s _ H. rewrite step_simple_vars_len. exact H.
  - apply Forall_True.
  - reflexivity.
Qed.

Lemma skipn_nth_error {A} (l : list A) : forall n x, nth_error l n = Some x -> skipn n l = x :: skipn (S n) l.
Proof.
  induction l as [|y l IH]; intros [|n] x H; cbn in *; try discriminate.
  - injection H as ->. reflexivity.
  - apply IH. exact H.
Qed.

Section Visits.
  Variable add : Z -> Z -> Z.
  Variable c : N.
  Variable into : list nat.
  Variable body : list sop.
  Variable r : list row.
  Variable nv : nat.
  Hypothesis Hnodup : NoDup into.
  Hypothesis Hdecl : Forall (fun i => (i < nv)%nat) into.
  Hypothesis Hwidth : Forall (fun rw => length rw = length into) r.
  Hypothesis Hbody : Forall (fun s => untouched c s /\ s <> SBreak) body.

  (* inside the loop: c is not declared in the loop's own block, lives below it, has view r *)
  Definition at_loop (st : state) (i : Z) : Prop :=
    exists top rest cur, blocks st = top :: rest /\ cm_find c top = None /\ bl_find c rest = Some cur /\
      c_view cur = Some r /\ c_idx cur = i /\ length (vars st) = nv.

  Lemma loop_fetch st i : at_loop st i -> -1 <= i ->
    let '(st1, res) := do_fetch add (clear_top st) c PNext into in
    r_err res = None /\
    if i + 1 <? zlen r
    then exists rw, nth_error r (Z.to_nat (i + 1)) = Some rw /\ r_row res = Some rw /\
                    map (fun j => nth j (vars st1) VNull) into = rw /\ at_loop st1 (i + 1)
    else r_row res = None /\ at_loop st1 (zlen r).
  Proof.
    intros (top & rest & cur & Hb & Ht & Hf & Hv & Hi & Hn) Hge.
    assert (Hb' : blocks (clear_top st) = [] :: rest) by (unfold clear_top; rewrite Hb; reflexivity).
    assert (Hvars : vars (clear_top st) = vars st) by (unfold clear_top; rewrite Hb; reflexivity).
    assert (Hf' : bl_find c (blocks (clear_top st)) = Some cur) by (rewrite Hb'; exact Hf).
    destruct (do_fetch_open add (clear_top st) c PNext into cur r KNext (-1) eq_refl Hf' Hv) as (cur' & out & Hc & H).
    destruct (do_fetch add (clear_top st) c PNext into) as [st1 res].
    destruct H as (Hb1 & _ & _ & Hlen & Hrow & _ & _ & _ & Hnone & _ & Hsome).
    destruct (cur_fetch_clamp add KNext (-1) cur r cur' out Hv Hc) as (Hi' & Hv' & _ & _ & _ & Hout & Hin).
    cbv zeta in *. cbn [target] in *. rewrite Hi in *.
    assert (Hb1' : blocks st1 = [] :: bl_set c cur' rest).
    { rewrite Hb1, Hb'. cbn. reflexivity. }
    assert (Hf1 : bl_find c (bl_set c cur' rest) = Some cur') by (apply bl_find_set_same; congruence).
    unfold in_range in *. unfold clamp in Hi'.
    replace (0 <=? i + 1) with true in * by (symmetry; apply Z.leb_le; lia).
    replace (i + 1 <? 0) with false in * by (symmetry; apply Z.ltb_ge; lia).
    destruct (i + 1 <? zlen r) eqn:El.
    - apply Z.ltb_lt in El. replace (zlen r <=? i + 1) with false in * by (symmetry; apply Z.leb_gt; lia).
      cbn [andb] in *. destruct (Hin eq_refl) as (rw & Hrw & Hinr).
      assert (Hw : length into = length rw).
      { rewrite Forall_forall in Hwidth. symmetry. apply Hwidth. exact Hinr. }
      destruct (Hsome rw Hrw Hw) as [Hvs He].
      assert (Hd' : Forall (fun j => (j < length (vars (clear_top st)))%nat) into) by (rewrite Hvars, Hn; exact Hdecl).
      destruct (assign_ok into rw (vars (clear_top st)) Hnodup Hd' Hw) as [Ha1 Ha2].
      split; [congruence|]. exists rw. split; [congruence|]. split; [congruence|].
      split; [rewrite Hvs; exact Ha2|].
      exists [], (bl_set c cur' rest), cur'. repeat split; try assumption; congruence.
    - apply Z.ltb_ge in El. replace (zlen r <=? i + 1) with true in * by (symmetry; apply Z.leb_le; lia).
      cbn [andb] in *. destruct (Hnone Hout) as [Hvs He].
      split; [exact He|]. split; [congruence|].
      exists [], (bl_set c cur' rest), cur'. repeat split; try assumption; congruence.
  Qed.

  Lemma loop_body st i : at_loop st i -> at_loop (fst (run_body add body st)) i.
  Proof.
    intros (top & rest & cur & Hb & Ht & Hf & Hv & Hi & Hn).
    pose proof (run_body_frame add c eq (@eq_refl cursor) (@eq_trans cursor)
                  (fun s => untouched c s /\ s <> SBreak)
                  (fun s H => proj1 (proj1 H))
                  (fun p i0 H => match proj2 (proj1 H) eq_refl with end) body Hbody st) as Hfr.
    rewrite Hb in Hfr. inversion Hfr as [|? top' ? rest' Hm Hrest Heq1 Heq2]; subst.
    exists top', rest', cur. split; [congruence|].
    unfold relm, relo in Hm. rewrite Ht in Hm. split; [destruct (cm_find c top'); [contradiction | reflexivity]|].
    apply relb_find in Hrest. unfold relo in Hrest. rewrite Hf in Hrest.
    destruct (bl_find c rest') as [cur2|]; [subst cur2|contradiction].
    repeat split; try assumption. rewrite run_body_vars_len. exact Hn.
  Qed.

  Lemma while_loop_visits : forall fuel st log i,
    at_loop st i -> -1 <= i <= zlen r -> (Z.to_nat (zlen r - i) < fuel)%nat ->
    let '(st', e, log') := while_loop add fuel c into body st log in
    e <> Some EFuel /\
    (exists k, log' = log ++ firstn k (skipn (Z.to_nat (i + 1)) r)) /\
    (e = None -> log' = log ++ skipn (Z.to_nat (i + 1)) r /\ at_loop st' (zlen r)) /\
    ((forall st0 e0, snd (run_body add body st0) <> FError e0) -> e = None).
  Proof.
    induction fuel as [|fuel IH]; intros st log i Hat Hi Hfuel; [lia|].
    cbn [while_loop].
    pose proof (loop_fetch st i Hat ltac:(lia)) as H1.
    destruct (do_fetch add (clear_top st) c PNext into) as [st1 res].
    destruct H1 as [He H1]. rewrite He.
    destruct (i + 1 <? zlen r) eqn:El.
    - apply Z.ltb_lt in El. destruct H1 as (rw & Hnth & Hrow & Hmap & Hat1). rewrite Hrow, Hmap.
      pose proof (loop_body st1 (i + 1) Hat1) as Hat2.
      pose proof (run_body_no_fuel add body st1) as Hnf.
      pose proof (run_body_no_break add body
                    (Forall_impl _ (fun s H => proj2 H) Hbody) st1) as Hnb.
      destruct (run_body add body st1) as [st2 f] eqn:Erb. cbn in Hat2, Hnf, Hnb.
      assert (Hsk : skipn (Z.to_nat (i + 1)) r = rw :: skipn (Z.to_nat (i + 1 + 1)) r).
      { rewrite (skipn_nth_error r _ rw Hnth). f_equal. f_equal. lia. }
      assert (Hrec : let '(st', e, log') := while_loop add fuel c into body st2 (log ++ [rw]) in
                     e <> Some EFuel /\
                     (exists k, log' = log ++ firstn k (skipn (Z.to_nat (i + 1)) r)) /\
                     (e = None -> log' = log ++ skipn (Z.to_nat (i + 1)) r /\ at_loop st' (zlen r)) /\
                     ((forall st0 e0, snd (run_body add body st0) <> FError e0) -> e = None)).
      { pose proof (IH st2 (log ++ [rw]) (i + 1) Hat2 ltac:(lia) ltac:(lia)) as H2.
        destruct (while_loop add fuel c into body st2 (log ++ [rw])) as [[st' e] log'].
        destruct H2 as (H2a & (k & H2b) & H2c & H2d). split; [exact H2a|]. split; [|split; [|exact H2d]].
        - exists (S k). rewrite Hsk. cbn [firstn]. rewrite H2b, <- app_assoc. reflexivity.
        - intros Hn. destruct (H2c Hn) as [H3 H4]. split; [|exact H4].
          rewrite H3, Hsk, <- app_assoc. reflexivity. }
      destruct f; try exact Hrec.
      + contradiction.
      + split; [congruence|]. split; [|split; [discriminate|]].
        * exists 1%nat. rewrite Hsk. reflexivity.
        * intros Hno. exfalso. apply (Hno st1 e). rewrite Erb. reflexivity.
    - apply Z.ltb_ge in El. destruct H1 as [Hrow Hat1]. rewrite Hrow.
      split; [discriminate|].
      assert (Hsk : skipn (Z.to_nat (i + 1)) r = []).
      { apply skipn_all2. unfold zlen in *. lia. }
      split; [exists 0%nat; rewrite app_nil_r; reflexivity|].
      split; [|reflexivity].
      intros _. rewrite Hsk, app_nil_r. split; [reflexivity | exact Hat1].
  Qed.

  Lemma while_visits fuel st cur :
    bl_find c (blocks st) = Some cur -> c_view cur = Some r -> cur_inv cur -> length (vars st) = nv ->
    (Z.to_nat (zlen r - c_idx cur) < fuel)%nat ->
    let '(st', res) := step add fuel st (OWhile c into body) in
    r_err res <> Some EFuel /\
    (exists k, r_log res = firstn k (skipn (Z.to_nat (c_idx cur + 1)) r)) /\
    (r_err res = None ->
       r_log res = skipn (Z.to_nat (c_idx cur + 1)) r /\
       exists cur', bl_find c (blocks st') = Some cur' /\ c_view cur' = Some r /\ c_idx cur' = zlen r) /\
    ((forall st0 e0, snd (run_body add body st0) <> FError e0) -> r_err res = None).
  Proof.
    intros Hf Hv Hinv Hn Hfuel. cbn [step].
    assert (Hat : at_loop (push_block st) (c_idx cur)).
    { exists [], (blocks st), cur. repeat split; assumption. }
    unfold cur_inv in Hinv. rewrite Hv in Hinv.
    pose proof (while_loop_visits fuel (push_block st) [] (c_idx cur) Hat Hinv Hfuel) as H.
    destruct (while_loop add fuel c into body (push_block st) []) as [[st1 e] log]. cbn [r_err r_log].
    destruct H as (H1 & H2 & H3 & H5). split; [exact H1|]. split; [exact H2|]. split; [|exact H5].
    intros He. destruct (H3 He) as [H4 (top & rest & cur' & Hb & _ & Hf' & Hv' & Hi' & _)].
    split; [exact H4|]. exists cur'. unfold drop_block. cbn. rewrite Hb. cbn. auto.
  Qed.
End Visits.

(* bodies made of data changes only never fail *)
Lemma run_body_changes add body : Forall (fun s => exists u, s = SChange u) body ->
  forall st, snd (run_body add body st) = FNormal.
Proof.
  induction 1 as [|s b [u ->] Hb IH]; intros st; [reflexivity|].
  rewrite run_body_cons. cbn. apply IH.
Qed.

(* ================================================================================================ *)
(* statements in the form used by Properties/C16.v                                                  *)
(* ================================================================================================ *)
Lemma pointer_invariant add fuel d vs p ops m c cur v :
  In m (blocks (run add fuel (init_state d vs p) ops)) -> In (c, cur) m -> c_view cur = Some v ->
  -1 <= c_idx cur <= zlen v.
Proof.
  intros Hm Hc Hv.
  pose proof (run_inv add fuel ops _ (init_inv d vs p)) as H. unfold st_inv, bl_inv in H.
  rewrite Forall_forall in H. specialize (H m Hm). unfold cm_inv in H. rewrite Forall_forall in H.
  specialize (H (c, cur) Hc). unfold cur_inv in H. cbn in H. rewrite Hv in H. exact H.
Qed.

(* the same for the cursor a name resolves to *)
Lemma visible_pointer_invariant add fuel d vs p ops c cur v :
  bl_find c (blocks (run add fuel (init_state d vs p) ops)) = Some cur -> c_view cur = Some v ->
  -1 <= c_idx cur <= zlen v.
Proof.
  intros Hf Hv. pose proof (run_inv add fuel ops _ (init_inv d vs p)) as H.
  pose proof (bl_find_inv c _ cur H Hf) as Hi. unfold cur_inv in Hi. rewrite Hv in Hi. exact Hi.
Qed.

Lemma snapshot add fuel st c arg st1 res mid :
  step add fuel st (OSimple (SOpen c arg)) = (st1, res) -> r_err res = None ->
  Forall (keeps_op (keeps c)) mid ->
  exists cur0 q r cur',
    bl_find c (blocks st) = Some cur0 /\ resolve st (c_src cur0) arg = inr q /\ db_get q (db st) = Some r /\
    bl_find c (blocks (run add fuel st1 mid)) = Some cur' /\ c_view cur' = Some r.
Proof.
  intros Hs He Hk. cbn [step] in Hs.
  destruct (open_success add st c arg st1 res Hs He) as (cur0 & q & r & Hf & _ & Hr & Hd & _ & Hf1).
  destruct (snapshot_run add fuel c st1 (cur_open r cur0) r mid Hf1 eq_refl Hk) as (cur' & Hf' & Hv' & _).
  exists cur0, q, r, cur'. auto.
Qed.

Lemma snapshot_rows add fuel st c arg st1 res mid p into st2 res2 rw :
  step add fuel st (OSimple (SOpen c arg)) = (st1, res) -> r_err res = None ->
  Forall (keeps_op (keeps c)) mid ->
  step add fuel (run add fuel st1 mid) (OSimple (SFetch c p into)) = (st2, res2) -> r_row res2 = Some rw ->
  exists cur0 q r,
    bl_find c (blocks st) = Some cur0 /\ resolve st (c_src cur0) arg = inr q /\ db_get q (db st) = Some r /\
    In rw r.
Proof.
  intros Hs He Hk Hf2 Hrw.
  destruct (snapshot add fuel st c arg st1 res mid Hs He Hk) as (cur0 & q & r & cur' & H1 & H2 & H3 & H4 & H5).
  exists cur0, q, r. repeat split; try assumption.
  pose proof (fetch_from_view add (run add fuel st1 mid) c cur' r p into H4 H5) as H.
  cbn [step] in Hf2. rewrite Hf2 in H. destruct H as [_ H].
  destruct (H rw Hrw) as (k & n & _ & _ & _ & Hin). exact Hin.
Qed.

(* statements that do not touch c leave the cursor c resolves to exactly as it is *)
Lemma untouched_run add fuel c mid st :
  Forall (keeps_op (untouched c)) mid -> bl_find c (blocks (run add fuel st mid)) = bl_find c (blocks st).
Proof.
  intros Hk.
  pose proof (run_frame add c eq (@eq_refl cursor) (@eq_trans cursor) (untouched c)
                (fun s H => proj1 H) (fun p i0 H => match proj2 H eq_refl with end) fuel mid Hk st) as H.
  unfold relo in H.
  destruct (bl_find c (blocks st)), (bl_find c (blocks (run add fuel st mid))); try contradiction; congruence.
Qed.

Lemma in_range_unknown_before_fetch add fuel st c arg st1 res mid neg :
  step add fuel st (OSimple (SOpen c arg)) = (st1, res) -> r_err res = None ->
  Forall (keeps_op (untouched c)) mid ->
  let st2 := run add fuel st1 mid in
  step add fuel st2 (OSimple (SInRange c neg)) = (st2, tern_res neg TU).
Proof.
  intros Hs He Hk. cbn [step] in Hs.
  destruct (open_success add st c arg st1 res Hs He) as (cur0 & q & r & _ & _ & _ & _ & _ & Hf1).
  cbv zeta. cbn [step].
  rewrite (status_in_range add _ c (cur_open r cur0) r neg); [reflexivity| |reflexivity].
  rewrite (untouched_run add fuel c mid st1 Hk). exact Hf1.
Qed.

Lemma in_range_after_fetch add fuel st c p into st1 res mid neg :
  step add fuel st (OSimple (SFetch c p into)) = (st1, res) -> r_err res = None ->
  Forall (keeps_op (keeps c)) mid ->
  let st2 := run add fuel st1 mid in
  exists cur v, bl_find c (blocks st2) = Some cur /\ c_view cur = Some v /\
    step add fuel st2 (OSimple (SInRange c neg)) =
      (st2, tern_res neg (of_bool ((-1 <? c_idx cur) && (c_idx cur <? zlen v)))).
Proof.
  intros Hs He Hk. cbn [step step_simple] in Hs. unfold do_fetch in Hs.
  destruct (pos_eval p) as [[k n]|] eqn:Hp; [|injection Hs as <- <-; discriminate].
  destruct (bl_find c (blocks st)) as [cur0|] eqn:Hf; [|injection Hs as <- <-; discriminate].
  destruct (cur_fetch add k n cur0) as [[cur1 out]|] eqn:Hc; [|injection Hs as <- <-; discriminate].
  destruct (c_view cur0) as [v|] eqn:Hv; [|rewrite (cur_fetch_closed add k n cur0 Hv) in Hc; discriminate].
  destruct (cur_fetch_clamp add k n cur0 v cur1 out Hv Hc) as (_ & Hv1 & Hfe & _).
  assert (Hf1 : bl_find c (blocks st1) = Some cur1).
  { assert (Hset : bl_find c (bl_set c cur1 (blocks st)) = Some cur1) by (apply bl_find_set_same; congruence).
    destruct out as [r|]; [|injection Hs as <- <-; exact Hset].
    destruct (length into =? length r)%nat; [|injection Hs as <- <-; exact Hset].
    destruct (assign into r _). injection Hs as <- <-. exact Hset. }
  destruct (snapshot_run add fuel c st1 cur1 v mid Hf1 Hv1 Hk) as (cur2 & Hf2 & Hv2 & Hfe2).
  cbv zeta. exists cur2, v. split; [exact Hf2|]. split; [exact Hv2|]. cbn [step].
  rewrite (status_in_range add _ c cur2 v neg Hf2 Hv2). rewrite (Hfe2 Hfe). reflexivity.
Qed.

Lemma while_fresh add fuel st c cur r into body :
  bl_find c (blocks st) = Some cur -> c_view cur = Some r -> c_idx cur = -1 ->
  NoDup into -> Forall (fun i => (i < length (vars st))%nat) into ->
  Forall (fun rw => length rw = length into) r ->
  Forall (fun s => untouched c s /\ s <> SBreak) body ->
  (S (length r) < fuel)%nat ->
  let '(st', res) := step add fuel st (OWhile c into body) in
  r_err res <> Some EFuel /\
  (exists k, r_log res = firstn k r) /\
  (r_err res = None -> r_log res = r /\
     exists cur', bl_find c (blocks st') = Some cur' /\ c_view cur' = Some r /\ c_idx cur' = zlen r) /\
  ((forall st0 e0, snd (run_body add body st0) <> FError e0) -> r_err res = None).
Proof.
  intros Hf Hv Hi Hnd Hd Hw Hb Hfuel.
  assert (Hinv : cur_inv cur).
  { unfold cur_inv. rewrite Hv, Hi. pose proof (zlen_nonneg r). lia. }
  pose proof (while_visits add c into body r (length (vars st)) Hnd Hd Hw Hb fuel st cur Hf Hv Hinv eq_refl) as H.
  rewrite Hi in H. change (Z.to_nat (-1 + 1)) with 0%nat in H. cbn [skipn] in H.
  apply H. unfold zlen. lia.
Qed.

Lemma while_fresh_changes add fuel st c cur r into body :
  bl_find c (blocks st) = Some cur -> c_view cur = Some r -> c_idx cur = -1 ->
  NoDup into -> Forall (fun i => (i < length (vars st))%nat) into ->
  Forall (fun rw => length rw = length into) r ->
  Forall (fun s => exists u, s = SChange u) body ->
  (S (length r) < fuel)%nat ->
  let '(st', res) := step add fuel st (OWhile c into body) in
  r_err res = None /\ r_log res = r /\
  exists cur', bl_find c (blocks st') = Some cur' /\ c_view cur' = Some r /\ c_idx cur' = zlen r.
Proof.
  intros Hf Hv Hi Hnd Hd Hw Hb Hfuel.
  assert (Hb' : Forall (fun s => untouched c s /\ s <> SBreak) body).
  { eapply Forall_impl; [|exact Hb]. intros s [u ->]. split; [split; exact I | discriminate]. }
  pose proof (while_fresh add fuel st c cur r into body Hf Hv Hi Hnd Hd Hw Hb' Hfuel) as H.
  destruct (step add fuel st (OWhile c into body)) as [st' res].
  destruct H as (_ & _ & H3 & H4).
  assert (He : r_err res = None).
  { apply H4. intros st0 e0. rewrite (run_body_changes add body Hb st0). discriminate. }
  split; [exact He|]. exact (H3 He).
Qed.

Lemma change_touches_no_cursor add st u :
  let '(st', res) := step_simple add st (SChange u) in
  blocks st' = blocks st /\ vars st' = vars st /\ prep st' = prep st /\ r_err res = None.
Proof. cbn. auto. Qed.

(* the code's FETCH meets the clamped-pointer specification whenever idx + n stays inside int64 *)
Lemma fetch_spec_partial k n c v c' out :
  c_view c = Some v -> (k = KRel -> in_int64 (c_idx c + n) = true) ->
  cur_fetch add64 k n c = Some (c', out) ->
  let t := target Z.add k n (c_idx c) (zlen v) in
  c_idx c' = clamp (zlen v) t /\ c_view c' = Some v /\ c_fetched c' = true /\
  c_src c' = c_src c /\ c_pseudo c' = c_pseudo c /\
  out = (if in_range (zlen v) t then nth_error v (Z.to_nat t) else None) /\
  (in_range (zlen v) t = true -> exists r, out = Some r /\ In r v).
Proof.
  intros Hv Hs Hf. rewrite (cur_fetch_add64 k n c Hs) in Hf. exact (cur_fetch_clamp Z.add k n c v c' out Hv Hf).
Qed.

Lemma fetch_spec_small k n c v c' out :
  c_view c = Some v -> cur_inv c -> zlen v < 4611686018427387904 -> -4611686018427387904 <= n <= 4611686018427387904 ->
  cur_fetch add64 k n c = Some (c', out) ->
  let t := target Z.add k n (c_idx c) (zlen v) in
  c_idx c' = clamp (zlen v) t /\ c_view c' = Some v /\ c_fetched c' = true /\
  c_src c' = c_src c /\ c_pseudo c' = c_pseudo c /\
  out = (if in_range (zlen v) t then nth_error v (Z.to_nat t) else None) /\
  (in_range (zlen v) t = true -> exists r, out = Some r /\ In r v).
Proof.
  intros Hv Hinv Hlen Hn. apply fetch_spec_partial; [exact Hv|]. intros _.
  unfold cur_inv in Hinv. rewrite Hv in Hinv.
  unfold in_int64, min_int64, max_int64, two63. apply andb_true_intro. split; apply Z.leb_le; lia.
Qed.

(* an OPEN that reports an error - an undeclared or pseudo cursor, one that is open already, a statement that is
   missing or not a single SELECT, a query that fails (also after its result was built: SELECT .. INTO of several
   records) - leaves every cursor, and everything else, as it was: in particular the cursor is still closed *)
Lemma failed_open_changes_nothing add st c arg st1 res :
  step_simple add st (SOpen c arg) = (st1, res) -> r_err res <> None -> st1 = st.
Proof.
  cbn [step_simple]. intros H Hn.
  destruct (bl_find c (blocks st)) as [cur|]; [|inversion H; reflexivity].
  destruct (c_pseudo cur); [inversion H; reflexivity|].
  destruct (c_view cur); [inversion H; reflexivity|].
  destruct (resolve st (c_src cur) arg) as [e|q]; [inversion H; reflexivity|].
  destruct (db_get q (db st)); [|inversion H; reflexivity].
  inversion H. subst res. cbn in Hn. contradiction.
Qed.
