(** * Proofs for C19: the error -> exit status mapping (Model/ExitCode.v)

    The domain of static error classes is finite (one constructor per `New…` function of
    lib/query/error.go: [length static_classes = 119]); statements about it are decided by evaluating a
    boolean checker over [static_classes] and lifted to [forall e] with [forallb_forall] and the
    completeness lemma [static_classes_complete].  The three classes whose code is computed at run time
    (EXIT n, TRIGGER ERROR n, signals) are handled by case analysis over all integers. *)
From Coq Require Import ZArith NArith List Bool Lia.
Import ListNotations.
From Csvq.Model Require Import ExitCode.
Local Open Scope Z_scope.

Lemma static_classes_length : length static_classes = 119%nat.
Proof. reflexivity. Qed.

(** every static class is in the enumeration, at its own index *)
Lemma static_classes_complete :
  forall e, is_static e = true -> nth_error static_classes (class_index e) = Some e.
Proof. intros e He; destruct e; try discriminate He; reflexivity. Qed.

Lemma static_classes_In : forall e, is_static e = true -> In e static_classes.
Proof. intros e He. eapply nth_error_In. apply static_classes_complete. exact He. Qed.

Lemma static_classes_static : forall e, In e static_classes -> is_static e = true.
Proof.
  assert (H : forallb is_static static_classes = true) by (vm_compute; reflexivity).
  intros e He. rewrite forallb_forall in H. apply H. exact He.
Qed.

(** lifting of a decidable predicate from the enumeration to all static classes *)
Lemma static_forall :
  forall p : error_class -> bool,
    forallb p static_classes = true -> forall e, is_static e = true -> p e = true.
Proof.
  intros p H e He. rewrite forallb_forall in H. apply H. apply static_classes_In. exact He.
Qed.

Definition in_codes (c : Z) : bool := existsb (Z.eqb c) documented_codes.

Lemma in_codes_In : forall c, in_codes c = true -> In c documented_codes.
Proof.
  intros c H. unfold in_codes in H. rewrite existsb_exists in H.
  destruct H as [x [Hin Heq]]. apply Z.eqb_eq in Heq. subst. exact Hin.
Qed.

(** ** every static class exits with one of the documented codes 1,2,4,8,16,32,64 *)
Lemma exit_code_static :
  forall e, is_static e = true -> In (exit_code e) documented_codes.
Proof.
  intros e He. apply in_codes_In.
  apply (static_forall (fun e => in_codes (exit_code e))); [vm_compute; reflexivity | exact He].
Qed.

(** … and that code is the one of its category constant *)
Lemma exit_code_category :
  forall e, is_static e = true -> exists c, category_of e = Some c /\ exit_code e = category_code c.
Proof.
  intros e He.
  assert (H : (match category_of e with Some c => exit_code e =? category_code c | None => false end) = true).
  { apply (static_forall (fun e => match category_of e with Some c => exit_code e =? category_code c | None => false end));
      [vm_compute; reflexivity | exact He]. }
  destruct (category_of e) as [c|]; [|discriminate H].
  exists c. split; [reflexivity | apply Z.eqb_eq; exact H].
Qed.

(** what "documented" means for each class: the manual's table (docs: command.md, Return Code) *)
Definition code_documented (e : error_class) (c : Z) : Prop :=
  match e with
  | E_ForcedExit n => c = n                          (* EXIT n: the code the program asked for *)
  | E_UserTriggeredError (Some n) => c = n           (* TRIGGER ERROR n *)
  | E_UserTriggeredError None => c = 64              (* default of triggered errors *)
  | E_SignalReceived s => c = 128 + s                (* 128+n: terminated by signal n *)
  | _ => In c documented_codes
  end.

Lemma exit_code_documented_all : forall e, code_documented e (exit_code e).
Proof.
  intros e. destruct (is_static e) eqn:Hs.
  - pose proof (exit_code_static e Hs) as H. destruct e; try discriminate Hs; exact H.
  - destruct e; try discriminate Hs; cbn.
    + reflexivity.
    + destruct code; reflexivity.
    + reflexivity.
    + vm_compute. left. reflexivity.
Qed.

(** well-formed: signal numbers are 1..64 *)
Definition wf_class (e : error_class) : Prop :=
  match e with E_SignalReceived s => 1 <= s <= 64 | _ => True end.

Lemma exit_code_zero :
  forall e, wf_class e -> exit_code e = 0 -> e = E_ForcedExit 0 \/ e = E_UserTriggeredError (Some 0).
Proof.
  intros e Hwf H0. destruct (is_static e) eqn:Hs.
  - exfalso. pose proof (exit_code_static e Hs) as Hin. rewrite H0 in Hin.
    cbn in Hin. repeat (destruct Hin as [Hin|Hin]; [discriminate Hin|]). exact Hin.
  - destruct e; try discriminate Hs.
    + left. change (code = 0) in H0. subst. reflexivity.
    + destruct code as [c|]; [right; change (c = 0) in H0; subst; reflexivity | vm_compute in H0; discriminate H0].
    + change (128 + sig = 0) in H0. change (1 <= sig <= 64) in Hwf. lia.
    + vm_compute in H0. discriminate H0.
Qed.

Definition wf_outcome (o : outcome) : Prop :=
  match o with Success => True | Failed e => wf_class e end.

Lemma process_status_range : forall o, 0 <= process_status o < 256.
Proof.
  intros o. unfold process_status. destruct (exit_request o) as [c|]; [|lia].
  apply Z.mod_pos_bound. lia.
Qed.

Lemma exit_request_failed :
  forall e, e <> E_ForcedExit 0 -> exit_request (Failed e) = Some (exit_code e).
Proof.
  intros e Hne. destruct e; try reflexivity.
  destruct code; try reflexivity. exfalso. apply Hne. reflexivity.
Qed.

(** status 0 with an error only when the program itself asked for a multiple of 256 *)
Lemma process_status_zero :
  forall o, wf_outcome o -> process_status o = 0 ->
    o = Success \/
    exists c, (o = Failed (E_ForcedExit c) \/ o = Failed (E_UserTriggeredError (Some c))) /\ c mod 256 = 0.
Proof.
  intros o Hwf H0. destruct o as [|e]; [left; reflexivity|]. right.
  destruct (is_static e) eqn:Hs.
  - exfalso. pose proof (exit_code_static e Hs) as Hin.
    assert (Hne : e <> E_ForcedExit 0) by (intro Heq; subst; discriminate Hs).
    unfold process_status in H0. rewrite (exit_request_failed e Hne) in H0.
    cbn in Hin.
    repeat (destruct Hin as [Hin|Hin]; [rewrite <- Hin in H0; vm_compute in H0; discriminate H0|]).
    exact Hin.
  - destruct e; try discriminate Hs.
    + exists code. split; [left; reflexivity|].
      destruct (Z.eq_dec code 0) as [Hz|Hnz]; [subst; reflexivity|].
      unfold process_status in H0. rewrite exit_request_failed in H0; [exact H0|].
      intro Heq. inversion Heq. contradiction.
    + destruct code as [c|].
      * exists c. split; [right; reflexivity|]. exact H0.
      * vm_compute in H0. discriminate H0.
    + exfalso. change (1 <= sig <= 64) in Hwf.
      change ((128 + sig) mod 256 = 0) in H0.
      assert (Hm : (128 + sig) mod 256 = 128 + sig) by (apply Z.mod_small; lia).
      rewrite Hm in H0. lia.
    + vm_compute in H0. discriminate H0.
Qed.

(** for every class whose code is not chosen by the program or a signal, the status seen by the parent IS
    the documented code (no truncation, never 0) *)
Lemma process_status_static :
  forall e, is_static e = true \/ e = E_Foreign \/ e = E_UserTriggeredError None ->
    process_status (Failed e) = exit_code e /\ In (exit_code e) documented_codes.
Proof.
  intros e [Hs|[He|He]].
  - pose proof (exit_code_static e Hs) as Hin. split; [|exact Hin].
    assert (Hne : e <> E_ForcedExit 0) by (intro Heq; subst; discriminate Hs).
    unfold process_status. rewrite (exit_request_failed e Hne).
    cbn in Hin.
    repeat (destruct Hin as [Hin|Hin]; [rewrite <- Hin; reflexivity|]). destruct Hin.
  - subst. vm_compute. split; [reflexivity | left; reflexivity].
  - subst. vm_compute. split; [reflexivity | do 6 right; left; reflexivity].
Qed.

(** the error number identifies the code: two constructors with the same number (the two
    FunctionArgumentLength constructors share 10402) have the same code *)
Lemma number_determines_code :
  forall e1 e2, is_static e1 = true -> is_static e2 = true ->
    error_number e1 = error_number e2 -> exit_code e1 = exit_code e2.
Proof.
  intros e1 e2 H1 H2 Hn.
  set (p := fun a => forallb (fun b =>
     match error_number a, error_number b with
     | Some x, Some y => negb (x =? y) || (exit_code a =? exit_code b)
     | _, _ => false
     end) static_classes).
  assert (Hp : p e1 = true) by (apply static_forall; [vm_compute; reflexivity | exact H1]).
  unfold p in Hp. rewrite forallb_forall in Hp. specialize (Hp e2 (static_classes_In e2 H2)).
  rewrite Hn in Hp. destruct (error_number e2) as [y|]; [|discriminate Hp].
  rewrite Z.eqb_refl in Hp. cbn in Hp. apply Z.eqb_eq. exact Hp.
Qed.

(** [class_of_number] (used by the correspondence harness) answers a class with that number *)
Lemma class_of_number_static :
  forall n p e, class_of_number n p = Some e -> is_static e = true -> error_number e = Some n.
Proof.
  intros n p e H Hs. unfold class_of_number in H.
  destruct (n =? 90640); [inversion H; subst; discriminate Hs|].
  destruct (n =? 90650); [inversion H; subst; discriminate Hs|].
  destruct ((error_signal_base <? n) && (n <=? error_signal_base + 64)); [inversion H; subst; discriminate Hs|].
  apply find_some in H. destruct H as [_ H].
  destruct (error_number e) as [m|]; [|discriminate H]. apply Z.eqb_eq in H. subst. reflexivity.
Qed.

(** error numbers of 90000 and above encode the code in their tens: 9002x -> 2, 9004x -> 4, 9008x -> 8,
    901xx -> 16, 9032x -> 32; below 90000 the code is 1 (application) or 32 (external command / http) *)
Definition band_code (n : Z) : Z :=
  let k := (n - 90000) / 10 in
  if k <? 2 then 0 else if k <? 4 then 2 else if k <? 8 then 4 else if k <? 16 then 8
  else if k <? 32 then 16 else if k <? 64 then 32 else 64.

Lemma number_band :
  forall e n, is_static e = true -> error_number e = Some n ->
    (90000 <= n -> exit_code e = band_code n) /\ (n < 90000 -> exit_code e = 1 \/ exit_code e = 32).
Proof.
  intros e n Hs Hn.
  assert (H : (match error_number e with
               | Some m => if 90000 <=? m then exit_code e =? band_code m
                           else (exit_code e =? 1) || (exit_code e =? 32)
               | None => false end) = true).
  { apply (static_forall (fun e => match error_number e with
               | Some m => if 90000 <=? m then exit_code e =? band_code m
                           else (exit_code e =? 1) || (exit_code e =? 32)
               | None => false end)); [vm_compute; reflexivity | exact Hs]. }
  rewrite Hn in H. destruct (90000 <=? n) eqn:Hb.
  - apply Z.leb_le in Hb. split; [intros _; apply Z.eqb_eq; exact H | lia].
  - apply Z.leb_gt in Hb. split; [lia|]. intros _. apply orb_true_iff in H.
    destruct H as [H|H]; apply Z.eqb_eq in H; [left|right]; exact H.
Qed.

(** the pinned table has one row per class and the rows carry exactly [exit_code] / [error_number] *)
Lemma model_table_rows :
  forall e, is_static e = true ->
    In (ctor_name e, type_name e, inl (exit_code e), inl (match error_number e with Some n => n | None => 0 end)) model_table.
Proof.
  intros e Hs. unfold model_table. apply in_or_app. left.
  change (In (static_row e) (map static_row static_classes)). apply in_map. apply static_classes_In. exact Hs.
Qed.

Lemma exit_code_static_category :
  forall e, is_static e = true ->
    In (exit_code e) documented_codes /\ exists c, category_of e = Some c /\ exit_code e = category_code c.
Proof. intros e He. split; [exact (exit_code_static e He) | exact (exit_code_category e He)]. Qed.

Lemma error_status_nonzero_static :
  forall e, is_static e = true \/ e = E_Foreign \/ e = E_UserTriggeredError None \/ (exists s, e = E_SignalReceived s /\ 1 <= s <= 64) ->
    process_status (Failed e) <> 0.
Proof.
  intros e [H|[H|[H|[s [H Hs]]]]].
  - destruct (process_status_static e (or_introl H)) as [Heq Hin]. rewrite Heq.
    intro H0. rewrite H0 in Hin. cbn in Hin. repeat (destruct Hin as [Hin|Hin]; [discriminate Hin|]). exact Hin.
  - subst. vm_compute. discriminate.
  - subst. vm_compute. discriminate.
  - subst. intro H0.
    destruct (process_status_zero (Failed (E_SignalReceived s)) Hs H0) as [Hx|[c [[Hx|Hx] _]]]; discriminate Hx.
Qed.
