(* Proofs/CopyPublish.v -- the copy / publish discipline isolates the published views from whatever
   a statement does to its working copy, including a failure after k rows (C08). *)
From Coq Require Import Lia.
Require Import Csvq.Model.Base Csvq.Model.Value Csvq.Model.CopyPublish.
Open Scope N_scope.

Local Arguments N.eqb : simpl never.

Lemma tupd_same : forall A (m : loc -> A) k v, tupd m k v k = v.
Proof. intros. unfold tupd. now rewrite N.eqb_refl. Qed.
Lemma tupd_other : forall A (m : loc -> A) k v k', k' <> k -> tupd m k v k' = m k'.
Proof. intros. unfold tupd. destruct (N.eqb_spec k' k); [contradiction | reflexivity]. Qed.

(* h' extends h0 without touching anything below n0 *)
Definition agree (n0 : loc) (h0 h' : heap) : Prop :=
  forall l, l < n0 -> recs h' l = recs h0 l /\ cells h' l = cells h0 l.

Lemma agree_refl : forall n0 h, agree n0 h h.
Proof. intros n0 h l _. auto. Qed.

(* a view that lives below n0 *)
Definition view_below (n0 : loc) (h : heap) (v : view) : Prop :=
  Forall (fun r => r < n0 /\ Forall (fun c => c < n0) (recs h r)) (vrows v).

Lemma deref_agree : forall n0 h0 h' v, view_below n0 h0 v -> agree n0 h0 h' -> deref h' v = deref h0 v.
Proof.
  intros n0 h0 h' v Hv Ha. unfold deref. f_equal. apply map_ext_in. intros r Hr.
  unfold view_below in Hv. rewrite Forall_forall in Hv. destruct (Hv r Hr) as [Hlt Hcs].
  unfold deref_row. destruct (Ha r Hlt) as [Hrec _]. rewrite Hrec.
  apply map_ext_in. intros c Hc. rewrite Forall_forall in Hcs. apply (Ha c (Hcs c Hc)).
Qed.

Lemma view_below_agree : forall n0 h0 h' v, view_below n0 h0 v -> agree n0 h0 h' -> view_below n0 h' v.
Proof.
  intros n0 h0 h' v Hv Ha. unfold view_below in *. rewrite Forall_forall in *. intros r Hr.
  destruct (Hv r Hr) as [Hlt Hcs]. split; [exact Hlt|]. destruct (Ha r Hlt) as [Hrec _]. now rewrite Hrec.
Qed.

Lemma view_below_mono : forall n0 n1 h v, n0 <= n1 -> view_below n0 h v -> view_below n1 h v.
Proof.
  intros n0 n1 h v Hle Hv. unfold view_below in *. rewrite Forall_forall in *. intros r Hr.
  destruct (Hv r Hr) as [Hlt Hcs]. split; [lia|]. rewrite Forall_forall in *. intros c Hc.
  specialize (Hcs c Hc). lia.
Qed.

(* the working view: record arrays allocated at or after n0, everything it points to allocated *)
Definition winv (n0 : loc) (h : heap) (w : view) : Prop :=
  n0 <= next h /\
  Forall (fun r => n0 <= r < next h /\ Forall (fun c => c < next h) (recs h r)) (vrows w).

(* ---- allocation -------------------------------------------------------------------------------- *)
Lemma alloc_cell_spec : forall h v h' c, alloc_cell h v = (h', c) ->
  c = next h /\ next h' = next h + 1 /\ recs h' = recs h /\ cells h' c = v /\
  (forall l, l <> next h -> cells h' l = cells h l).
Proof.
  intros h v h' c H. unfold alloc_cell in H. injection H as <- <-. cbn.
  repeat split; auto. - apply tupd_same. - intros. now apply tupd_other.
Qed.

Lemma alloc_rec_spec : forall h cs h' r, alloc_rec h cs = (h', r) ->
  r = next h /\ next h' = next h + 1 /\ cells h' = cells h /\ recs h' r = cs /\
  (forall l, l <> next h -> recs h' l = recs h l).
Proof.
  intros h cs h' r H. unfold alloc_rec in H. injection H as <- <-. cbn.
  repeat split; auto. - apply tupd_same. - intros. now apply tupd_other.
Qed.

Lemma alloc_cells_spec : forall vs h h' cs, alloc_cells h vs = (h', cs) ->
  next h <= next h' /\ recs h' = recs h /\
  (forall l, l < next h -> cells h' l = cells h l) /\
  Forall (fun c => next h <= c < next h') cs /\ map (cells h') cs = vs.
Proof.
  induction vs as [|v r IH]; intros h h' cs H; cbn [alloc_cells] in H.
  - injection H as <- <-. repeat split; auto. lia.
  - destruct (alloc_cell h v) as [h1 c] eqn:H1. destruct (alloc_cells h1 r) as [h2 cs'] eqn:H2.
    injection H as <- <-.
    destruct (alloc_cell_spec _ _ _ _ H1) as (Hc & Hn & Hr & Hcv & Hco).
    destruct (IH _ _ _ H2) as (Hn2 & Hr2 & Hc2 & Hf & Hm).
    repeat split.
    + lia.
    + congruence.
    + intros l Hl. rewrite Hc2 by lia. apply Hco. lia.
    + constructor; [lia|]. eapply Forall_impl; [|exact Hf]. cbn. intros; lia.
    + cbn. f_equal; [|exact Hm]. rewrite Hc2 by lia. exact Hcv.
Qed.

(* ---- View.Copy ----------------------------------------------------------------------------------- *)
Lemma copy_rows_spec : forall rows h h' rows' n0, copy_rows h rows = (h', rows') -> n0 <= next h ->
  (forall r, In r rows -> r < next h /\ Forall (fun c => c < next h) (recs h r)) ->
  next h <= next h' /\ agree (next h) h h' /\
  Forall (fun r => n0 <= r < next h' /\ Forall (fun c => c < next h') (recs h' r)) rows' /\
  map (deref_row h') rows' = map (deref_row h) rows.
Proof.
  induction rows as [|r rs IH]; intros h h' rows' n0 H Hn0 Hok; cbn [copy_rows] in H.
  - injection H as <- <-. split; [lia | split; [apply agree_refl | split; [constructor | reflexivity]]].
  - destruct (alloc_rec h (recs h r)) as [h1 r'] eqn:H1. destruct (copy_rows h1 rs) as [h2 rs'] eqn:H2.
    injection H as <- <-.
    destruct (alloc_rec_spec _ _ _ _ H1) as (Hr' & Hn & Hc & Hrv & Hro).
    assert (Hok1 : forall r0, In r0 rs -> r0 < next h1 /\ Forall (fun c => c < next h1) (recs h1 r0)).
    { intros r0 Hin. destruct (Hok r0 (or_intror Hin)) as [Hlt Hcs]. split; [lia|].
      rewrite Hro by lia. eapply Forall_impl; [|exact Hcs]. cbn. intros; lia. }
    destruct (IH h1 h2 rs' n0 H2 ltac:(lia) Hok1) as (Hn2 & Ha2 & Hf & Hm).
    assert (Ha : agree (next h) h h2).
    { intros l Hl. destruct (Ha2 l ltac:(lia)) as [A1 A2]. rewrite A1, A2, Hc. split; [|reflexivity].
      apply Hro. lia. }
    split; [lia | split; [exact Ha | split]].
    + constructor; [|exact Hf]. destruct (Ha2 r' ltac:(lia)) as [A1 _]. rewrite A1, Hrv.
      split; [lia|]. destruct (Hok r (or_introl eq_refl)) as [_ Hcs].
      eapply Forall_impl; [|exact Hcs]. cbn. intros; lia.
    + cbn. f_equal; [|].
      * unfold deref_row. destruct (Ha2 r' ltac:(lia)) as [A1 _]. rewrite A1, Hrv.
        destruct (Hok r (or_introl eq_refl)) as [_ Hcs]. apply map_ext_in. intros c Hin.
        rewrite Forall_forall in Hcs. apply (Ha c (Hcs c Hin)).
      * rewrite Hm. apply map_ext_in. intros r0 Hin. unfold deref_row.
        destruct (Hok r0 (or_intror Hin)) as [Hlt Hcs]. rewrite Hro by lia.
        apply map_ext_in. intros c Hc0. now rewrite Hc.
Qed.

Lemma view_copy_spec : forall h v h1 w, view_below (next h) h v -> view_copy h v = (h1, w) ->
  agree (next h) h h1 /\ winv (next h) h1 w /\ deref h1 w = deref h v.
Proof.
  intros h v h1 w Hv H. unfold view_copy in H. destruct (copy_rows h (vrows v)) as [h' rows'] eqn:Hc.
  injection H as <- <-.
  assert (Hok : forall r, In r (vrows v) -> r < next h /\ Forall (fun c => c < next h) (recs h r)).
  { unfold view_below in Hv. rewrite Forall_forall in Hv. exact Hv. }
  destruct (copy_rows_spec _ _ _ _ (next h) Hc (N.le_refl _) Hok) as (Hn & Ha & Hf & Hm).
  split; [exact Ha | split; [split; [exact Hn | exact Hf] |]]. unfold deref. cbn. now rewrite Hm.
Qed.

(* ---- the writes of a statement stay inside the copy ------------------------------------------------ *)
Lemma set_nth_In : forall A n (x : A) l y, In y (set_nth n x l) -> y = x \/ In y l.
Proof.
  induction n as [|n IH]; intros x [|a l] y H; cbn in *; try contradiction.
  - destruct H as [H | H]; [left; now symmetry | right; now right].
  - destruct H as [H | H]; [right; now left|]. apply IH in H. destruct H; [now left | right; now right].
Qed.

Lemma filter_by_In : forall A keep (l : list A) y, In y (filter_by keep l) -> In y l.
Proof.
  induction keep as [|b k IH]; intros l y H; destruct l as [|a l]; cbn in *; try contradiction; auto.
  - destruct b; contradiction.
  - destruct b; cbn in H.
    + destruct H as [H|H]; [now left | right; now apply IH].
    + right. now apply IH.
Qed.

Lemma pick_In : forall cs sel c, In c (pick cs sel) -> c = 0 \/ In c cs.
Proof.
  intros cs sel c H. unfold pick in H. apply in_map_iff in H as [n [Hn _]]. subst c.
  destruct (nth_in_or_default n cs 0); auto.
Qed.

Lemma exec_prim_inv : forall p n0 h0 h w h' w',
  winv n0 h w -> agree n0 h0 h -> exec_prim p h w = Some (h', w') ->
  winv n0 h' w' /\ agree n0 h0 h'.
Proof.
  intros p n0 h0 h w h' w' [Hn Hw] Ha H. rewrite Forall_forall in Hw.
  destruct p; cbn [exec_prim] in H.
  - (* PSetCell *)
    destruct (nth_error (vrows w) i) as [r|] eqn:Hr; [|discriminate].
    destruct (alloc_cell h v) as [h1 c] eqn:H1. injection H as <- <-.
    destruct (alloc_cell_spec _ _ _ _ H1) as (Hc & Hn1 & Hrec & Hcv & Hco).
    destruct (Hw r (nth_error_In _ _ Hr)) as [Hrr Hcs].
    split; [split; [cbn; lia|] | ].
    + rewrite Forall_forall. intros r0 Hin. destruct (Hw r0 Hin) as [Hr0 Hcs0]. cbn.
      split; [lia|]. destruct (N.eqb_spec r0 r) as [->|Hne].
      * rewrite tupd_same. rewrite Forall_forall. intros c0 Hc0. apply set_nth_In in Hc0 as [->|Hc0]; [lia|].
        rewrite Hrec in Hc0. rewrite Forall_forall in Hcs. specialize (Hcs c0 Hc0). lia.
      * rewrite tupd_other by assumption. rewrite Hrec. eapply Forall_impl; [|exact Hcs0]. cbn. intros; lia.
    + intros l Hl. cbn. destruct (Ha l Hl) as [A1 A2]. split.
      * rewrite tupd_other by lia. now rewrite Hrec.
      * rewrite Hco by lia. exact A2.
  - (* PProjectRow *)
    destruct (nth_error (vrows w) i) as [r|] eqn:Hr; [|discriminate]. injection H as <- <-.
    destruct (Hw r (nth_error_In _ _ Hr)) as [Hrr Hcs].
    split; [split; [cbn; lia|] | ].
    + rewrite Forall_forall. intros r0 Hin. destruct (Hw r0 Hin) as [Hr0 Hcs0]. cbn.
      split; [lia|]. destruct (N.eqb_spec r0 r) as [->|Hne].
      * rewrite tupd_same. rewrite Forall_forall. intros c0 Hc0. apply pick_In in Hc0 as [->|Hc0]; [lia|].
        rewrite Forall_forall in Hcs. now apply Hcs.
      * now rewrite tupd_other.
    + intros l Hl. cbn. destruct (Ha l Hl) as [A1 A2]. split; [|exact A2].
      rewrite tupd_other by lia. exact A1.
  - (* PNewRow *)
    destruct (nth_error (vrows w) i) as [r|] eqn:Hr; [|discriminate].
    destruct (alloc_cells h vs) as [h1 cs] eqn:H1.
    destruct (alloc_rec h1 (pick (recs h1 r) sel ++ cs)) as [h2 r'] eqn:H2. injection H as <- <-.
    destruct (alloc_cells_spec _ _ _ _ H1) as (Hn1 & Hrec1 & Hc1 & Hf1 & _).
    destruct (alloc_rec_spec _ _ _ _ H2) as (Hr' & Hn2 & Hc2 & Hrv & Hro).
    destruct (Hw r (nth_error_In _ _ Hr)) as [Hrr Hcs].
    split; [split; [lia|] | ].
    + rewrite Forall_forall. intros r0 Hin. cbn in Hin. apply set_nth_In in Hin as [->|Hin].
      * rewrite Hrv. split; [lia|]. apply Forall_app. split.
        -- rewrite Forall_forall. intros c0 Hc0. apply pick_In in Hc0 as [->|Hc0]; [lia|].
           rewrite Hrec1 in Hc0. rewrite Forall_forall in Hcs. specialize (Hcs c0 Hc0). lia.
        -- eapply Forall_impl; [|exact Hf1]. cbn. intros; lia.
      * destruct (Hw r0 Hin) as [Hr0 Hcs0]. split; [lia|]. rewrite Hro by lia. rewrite Hrec1.
        eapply Forall_impl; [|exact Hcs0]. cbn. intros; lia.
    + intros l Hl. destruct (Ha l Hl) as [A1 A2]. split.
      * rewrite Hro by lia. now rewrite Hrec1.
      * rewrite Hc2, Hc1 by lia. exact A2.
  - (* PAppendRow *)
    destruct (alloc_cells h vs) as [h1 cs] eqn:H1. destruct (alloc_rec h1 cs) as [h2 r] eqn:H2.
    injection H as <- <-.
    destruct (alloc_cells_spec _ _ _ _ H1) as (Hn1 & Hrec1 & Hc1 & Hf1 & _).
    destruct (alloc_rec_spec _ _ _ _ H2) as (Hr' & Hn2 & Hc2 & Hrv & Hro).
    split; [split; [lia|] | ].
    + cbn. apply Forall_app. split.
      * rewrite Forall_forall. intros r0 Hin. destruct (Hw r0 Hin) as [Hr0 Hcs0]. split; [lia|].
        rewrite Hro by lia. rewrite Hrec1. eapply Forall_impl; [|exact Hcs0]. cbn. intros; lia.
      * constructor; [|constructor]. rewrite Hrv. split; [lia|].
        eapply Forall_impl; [|exact Hf1]. cbn. intros; lia.
    + intros l Hl. destruct (Ha l Hl) as [A1 A2]. split.
      * rewrite Hro by lia. now rewrite Hrec1.
      * rewrite Hc2, Hc1 by lia. exact A2.
  - (* PKeepRows *)
    injection H as <- <-. split; [split; [exact Hn|] | exact Ha].
    rewrite Forall_forall. intros r0 Hin. cbn in Hin. apply filter_by_In in Hin. now apply Hw.
  - (* PSetHeader *)
    injection H as <- <-. split; [split; [exact Hn|] | exact Ha]. rewrite Forall_forall. exact Hw.
  - discriminate.
Qed.

Lemma run_prims_inv : forall ps n0 h0 h w h' ow,
  winv n0 h w -> agree n0 h0 h -> run_prims ps h w = (h', ow) ->
  agree n0 h0 h' /\ n0 <= next h' /\ (forall w', ow = Some w' -> winv n0 h' w').
Proof.
  induction ps as [|p r IH]; intros n0 h0 h w h' ow Hw Ha H; cbn [run_prims] in H.
  - injection H as <- <-. destruct Hw as [Hn Hf].
    split; [exact Ha | split; [exact Hn | intros w' [= <-]; split; auto]].
  - destruct (exec_prim p h w) as [[h1 w1]|] eqn:Hp.
    + destruct (exec_prim_inv _ _ _ _ _ _ _ Hw Ha Hp) as [Hw1 Ha1]. eapply IH; eauto.
    + injection H as <- <-. destruct Hw as [Hn _]. split; [exact Ha | split; [exact Hn | discriminate]].
Qed.

(* ---- the theorems ------------------------------------------------------------------------------------ *)
Lemma heap_ok_below : forall h m n v, heap_ok h m -> m n = Some v -> view_below (next h) h v.
Proof. intros h m n v Hok Hm. exact (Hok n v Hm). Qed.

(* no sequence of writes on a copy -- complete, or cut short by a failure after any number of
   rows -- changes what any published view shows *)
Lemma copy_isolates : forall h m name v h1 w ps h2 ow,
  heap_ok h m -> m name = Some v -> view_copy h v = (h1, w) -> run_prims ps h1 w = (h2, ow) ->
  forall n' v', m n' = Some v' -> deref h2 v' = deref h v'.
Proof.
  intros h m name v h1 w ps h2 ow Hok Hm Hc Hr n' v' Hm'.
  destruct (view_copy_spec _ _ _ _ (heap_ok_below _ _ _ _ Hok Hm) Hc) as (Ha1 & Hw & _).
  destruct (run_prims_inv _ _ _ _ _ _ _ Hw Ha1 Hr) as (Ha2 & _ & _).
  apply (deref_agree (next h)); [exact (heap_ok_below _ _ _ _ Hok Hm') | exact Ha2].
Qed.

Lemma winv_view_ok : forall n0 h w, winv n0 h w -> view_ok h w.
Proof.
  intros n0 h w [_ Hf]. unfold view_ok. eapply Forall_impl; [|exact Hf]. cbn. intros r [[_ H1] H2]. auto.
Qed.

Lemma vupd_same : forall m k v, vupd m k v k = v.
Proof. intros. unfold vupd. now rewrite N.eqb_refl. Qed.
Lemma vupd_other : forall m k v k', k' <> k -> vupd m k v k' = m k'.
Proof. intros. unfold vupd. destruct (N.eqb_spec k' k); [contradiction | reflexivity]. Qed.

(* a statement as a whole: if it fails nothing is published and every view shows what it showed;
   if it succeeds only its own table changes; in both cases the heap stays well-formed, so the
   statement composes with whatever follows *)
Lemma exec_stmt_spec : forall h m name ps h2 m2 ok,
  heap_ok h m -> exec_stmt view_copy name ps (h, m) = (h2, m2, ok) ->
  heap_ok h2 m2 /\
  (forall n' v', m n' = Some v' -> (ok = false \/ n' <> name) -> m2 n' = Some v' /\ deref h2 v' = deref h v') /\
  (ok = false -> forall n', m2 n' = m n').
Proof.
  intros h m name ps h2 m2 ok Hok H. cbn [exec_stmt] in H.
  destruct (m name) as [v|] eqn:Hm.
  2:{ injection H as <- <- <-.
      split; [exact Hok | split; [intros n' v' Hm' _; split; [exact Hm' | reflexivity] | intros _ n'; reflexivity]]. }
  destruct (view_copy h v) as [h1 w] eqn:Hc.
  destruct (run_prims ps h1 w) as [h3 ow] eqn:Hr.
  destruct (view_copy_spec _ _ _ _ (heap_ok_below _ _ _ _ Hok Hm) Hc) as (Ha1 & Hw & _).
  destruct (run_prims_inv _ _ _ _ _ _ _ Hw Ha1 Hr) as (Ha2 & Hn2 & Hw2).
  assert (Hold : forall n' v', m n' = Some v' -> view_ok h3 v' /\ deref h3 v' = deref h v').
  { intros n' v' Hm'. pose proof (heap_ok_below _ _ _ _ Hok Hm') as Hb. split.
    - pose proof (view_below_mono _ _ _ _ Hn2 (view_below_agree _ _ _ _ Hb Ha2)) as H1. exact H1.
    - now apply (deref_agree (next h)). }
  destruct ow as [w'|]; injection H as <- <- <-.
  - split; [|split].
    + intros n' v'. destruct (N.eqb_spec n' name) as [->|Hne].
      * rewrite vupd_same. intros [= <-]. eapply winv_view_ok. now apply Hw2.
      * rewrite vupd_other by assumption. intros Hm'. apply (Hold n' v' Hm').
    + intros n' v' Hm' Hor. destruct Hor as [Hor|Hne]; [discriminate|].
      split; [now rewrite vupd_other | apply (Hold n' v' Hm')].
    + discriminate.
  - split; [|split].
    + intros n' v' Hm'. apply (Hold n' v' Hm').
    + intros n' v' Hm' _. split; [exact Hm' | apply (Hold n' v' Hm')].
    + intros _ n'. reflexivity.
Qed.
