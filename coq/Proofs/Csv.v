(* Proofs/Csv.v -- lemmas about Model/Csv.v: the reader machine run on what the writer emits,
   the field-count bookkeeping, rectangular loads, prefix stability. *)
From Coq Require Import NArith List Lia Bool Arith.
Require Import Csvq.Model.Base Csvq.Model.Csv.
Import ListNotations.
Open Scope N_scope.
Local Arguments N.eqb : simpl never.

(* ------------------------------------------------------------------------------------------------ *)
(* generic facts                                                                                    *)
(* ------------------------------------------------------------------------------------------------ *)
Lemma str_eqb_refl s : str_eqb s s = true.
Proof. induction s as [|c r IH]; cbn; [reflexivity|]. rewrite N.eqb_refl. exact IH. Qed.
Lemma str_eqb_eq a : forall b, str_eqb a b = true -> a = b.
Proof.
  induction a as [|x a IH]; intros [|y b] H; cbn in H; try discriminate; [reflexivity|].
  apply andb_true_iff in H as [H1 H2]. apply N.eqb_eq in H1. subst. f_equal. apply IH. exact H2.
Qed.

Lemma step_sticky_recs d s c : exists more, recs (step d s c) = more ++ recs s.
Proof.
  unfold step.
  destruct (md s);
  repeat match goal with |- context [if ?b then _ else _] => destruct b end;
  unfold swallow_lf, end_record, end_field, push, setmode, fail; cbn [recs];
  try (exists []; reflexivity);
  destruct (flds s), (cur s); cbn [recs]; eauto using app_nil_l;
  try (exists []; reflexivity);
  eexists [_]; reflexivity.
Qed.

Lemma fold_sticky_recs d inp : forall s, exists more, recs (fold_left (step d) inp s) = more ++ recs s.
Proof.
  induction inp as [|c r IH]; intros s; cbn [fold_left].
  - exists []. reflexivity.
  - destruct (IH (step d s c)) as [m1 H1]. destruct (step_sticky_recs d s c) as [m2 H2].
    exists (m1 ++ m2). rewrite H1, H2, app_assoc. reflexivity.
Qed.

(* every record the machine finishes has at least one field *)
Definition nonempty_recs (l : list (list rfield)) : Prop := Forall (fun r => r <> []) l.

Lemma rev_cons_nonempty {A} (x : A) l : rev (x :: l) <> [].
Proof. cbn. intro H. apply app_eq_nil in H as [_ H]. discriminate. Qed.

Lemma step_nonempty d s c : nonempty_recs (recs s) -> nonempty_recs (recs (step d s c)).
Proof.
  intros H. unfold step.
  destruct (md s);
  repeat match goal with |- context [if ?b then _ else _] => destruct b end;
  unfold swallow_lf, end_record, end_field, push, setmode, fail; cbn [recs]; try exact H;
  destruct (flds s), (cur s); cbn [recs]; try exact H;
  (constructor; [apply rev_cons_nonempty | exact H]).
Qed.

Lemma fold_nonempty d inp : forall s, nonempty_recs (recs s) -> nonempty_recs (recs (fold_left (step d) inp s)).
Proof.
  induction inp as [|c r IH]; intros s H; cbn [fold_left]; [exact H|].
  apply IH, step_nonempty, H.
Qed.

Lemma nonempty_rev l : nonempty_recs l -> nonempty_recs (rev l).
Proof. unfold nonempty_recs. intros H. apply Forall_rev. exact H. Qed.

Lemma finish_recs s rs dt : finish s = inr (rs, dt) ->
  rs = rev (recs s) \/ exists r, r <> [] /\ rs = rev (r :: recs s).
Proof.
  unfold finish. destruct (bad s); [discriminate|].
  assert (K : (if crp s then inl EUnreadRune
               else match flds s, cur s with
                    | [], [] => inr (rev (recs s), det s)
                    | _, _ => inr (rev (recs (end_record false s)), det s)
                    end) = inr (rs, dt) ->
              rs = rev (recs s) \/ exists r, r <> [] /\ rs = rev (r :: recs s)).
  { destruct (crp s); [discriminate|]. unfold end_record.
    destruct (flds s) as [|x F], (cur s) as [|c a]; cbn [recs]; intros H; injection H as <- _;
    [left; reflexivity | right | right | right];
    (eexists; split; cycle 1; [reflexivity | ]);
    intro E; apply (f_equal (@length _)) in E; rewrite ?app_length in E; cbn in E; lia. }
  destruct (md s); try discriminate; exact K.
Qed.

Lemma tokenize_nonempty d inp rs dt : tokenize d inp = inr (rs, dt) -> nonempty_recs rs.
Proof.
  unfold tokenize. intros H.
  assert (Hs : nonempty_recs (recs (fold_left (step d) inp init))) by (apply fold_nonempty; constructor).
  apply finish_recs in H as [-> | (r & Hr & ->)].
  - apply nonempty_rev, Hs.
  - apply nonempty_rev. constructor; assumption.
Qed.

(* ------------------------------------------------------------------------------------------------ *)
(* field counts                                                                                     *)
(* ------------------------------------------------------------------------------------------------ *)
Lemma cc_strict_pos : forall rs fpr n, fpr <> O ->
  check_counts false fpr rs = Some n -> n = fpr /\ Forall (fun r : list rfield => length r = fpr) rs.
Proof.
  induction rs as [|r t IH]; intros fpr n Hp H; cbn in H.
  - inversion H. split; [reflexivity | constructor].
  - destruct (Nat.eqb fpr 0) eqn:E0; [apply Nat.eqb_eq in E0; contradiction|].
    destruct (Nat.eqb (length r) fpr) eqn:E1; [|discriminate].
    apply Nat.eqb_eq in E1. destruct (IH fpr n Hp H) as [Hn Hf]. split; [exact Hn|].
    constructor; assumption.
Qed.

Lemma cc_strict : forall rs n, nonempty_recs rs ->
  check_counts false 0 rs = Some n ->
  Forall (fun r : list rfield => length r = n) rs /\ (rs = [] -> n = O).
Proof.
  intros [|r t] n Hne H; cbn in H.
  - inversion H. split; [constructor | reflexivity].
  - inversion Hne as [|? ? Hr Ht]; subst.
    assert (Hl : length r <> O) by (destruct r; [contradiction | discriminate]).
    destruct (cc_strict_pos t (length r) n Hl H) as [Hn Hf]. subst n.
    split; [constructor; [reflexivity | exact Hf] | discriminate].
Qed.

Lemma cc_allow : forall rs fpr n,
  check_counts true fpr rs = Some n ->
  (fpr <= n)%nat /\ Forall (fun r : list rfield => (length r <= n)%nat) rs.
Proof.
  induction rs as [|r t IH]; intros fpr n H; cbn in H.
  - inversion H. split; [lia | constructor].
  - destruct (Nat.eqb fpr 0) eqn:E0.
    + apply Nat.eqb_eq in E0. subst fpr. destruct (IH _ _ H) as [H1 H2].
      split; [lia | constructor; assumption].
    + destruct (Nat.eqb (length r) fpr) eqn:E1.
      * apply Nat.eqb_eq in E1. destruct (IH _ _ H) as [H1 H2].
        split; [exact H1 | constructor; [lia | exact H2]].
      * destruct (IH _ _ H) as [H1 H2].
        split; [lia | constructor; [lia | exact H2]].
Qed.

Lemma cc_uniform : forall rs a n, n <> O ->
  Forall (fun r : list rfield => length r = n) rs -> check_counts a n rs = Some n.
Proof.
  induction rs as [|r t IH]; intros a n Hn H; cbn; [reflexivity|].
  inversion H as [|? ? Hr Ht]; subst.
  destruct (Nat.eqb (length r) 0) eqn:E0; [apply Nat.eqb_eq in E0; contradiction|].
  rewrite Nat.eqb_refl. apply IH; assumption.
Qed.

Lemma cc_uniform0 : forall rs a n, n <> O -> rs <> [] ->
  Forall (fun r : list rfield => length r = n) rs -> check_counts a 0 rs = Some n.
Proof.
  intros [|r t] a n Hn Hne H; [contradiction|]. inversion H as [|? ? Hr Ht]; subst.
  cbn. apply cc_uniform; assumption.
Qed.

(* ------------------------------------------------------------------------------------------------ *)
(* header names, padding                                                                            *)
(* ------------------------------------------------------------------------------------------------ *)
Lemma cnames_from_length n : forall i, length (cnames_from i n) = n.
Proof. induction n as [|n IH]; intros i; cbn; [reflexivity | rewrite IH; reflexivity]. Qed.
Lemma cnames_length n : length (cnames n) = n.
Proof. apply cnames_from_length. Qed.
Lemma autofill_from_length h : forall i, length (autofill_from i h) = length h.
Proof. induction h as [|x t IH]; intros i; cbn; [reflexivity|]. destruct x; cbn; rewrite IH; reflexivity. Qed.
Lemma autofill_length h : length (autofill h) = length h.
Proof. apply autofill_from_length. Qed.
Lemma pad_to_length {A} n (x : A) l : (length l <= n)%nat -> length (pad_to n x l) = n.
Proof. intros H. unfold pad_to. rewrite app_length, repeat_length. lia. Qed.

(* ------------------------------------------------------------------------------------------------ *)
(* every load is rectangular                                                                        *)
(* ------------------------------------------------------------------------------------------------ *)
Definition rectangular_table (t : table) : Prop :=
  Forall (fun r => length r = length (t_header t)) (t_rows t).

Lemma Forall_map_len {A B} (f : A -> B) (P : nat -> Prop) (l : list (list A)) :
  Forall (fun r => P (length r)) l -> Forall (fun r => P (length r)) (map (map f) l).
Proof.
  induction 1; cbn; constructor; [rewrite map_length; assumption | assumption].
Qed.

Lemma csv_load_rect o letter inp l :
  csv_load o letter inp = inr l -> rectangular_table (l_table l).
Proof.
  unfold csv_load. destruct (tokenize (r_delim o) inp) as [e|[rs d]] eqn:Et; [discriminate|].
  pose proof (tokenize_nonempty _ _ _ _ Et) as Hne.
  destruct (check_counts (r_allow_uneven o) 0 rs) as [fpr|] eqn:Ec; [|discriminate].
  destruct (r_allow_uneven o) eqn:Ea.
  - (* allow-uneven-fields: pad the header and every record to FieldsPerRecord *)
    destruct (cc_allow _ _ _ Ec) as [_ Hle].
    destruct (r_noheader o).
    + intros H. inversion H; subst; clear H. unfold rectangular_table; cbn [l_table t_header t_rows].
      rewrite autofill_length, pad_to_length by (rewrite cnames_length; lia).
      apply Forall_forall. intros r Hr. apply in_map_iff in Hr as [r0 [<- Hr0]].
      apply pad_to_length. apply in_map_iff in Hr0 as [r1 [<- Hr1]]. rewrite map_length.
      rewrite Forall_forall in Hle. apply Hle, Hr1.
    + destruct rs as [|h b].
      * intros H. inversion H; subst; clear H. unfold rectangular_table; cbn. constructor.
      * inversion Hle as [|? ? Hh Hb]; subst.
        intros H. inversion H; subst; clear H. unfold rectangular_table; cbn [l_table t_header t_rows].
        rewrite autofill_length, pad_to_length by (rewrite map_length; exact Hh).
        apply Forall_forall. intros r Hr. apply in_map_iff in Hr as [r0 [<- Hr0]].
        apply pad_to_length. apply in_map_iff in Hr0 as [r1 [<- Hr1]]. rewrite map_length.
        rewrite Forall_forall in Hb. apply Hb, Hr1.
  - (* strict: parseRecord has refused every record of another length *)
    destruct (cc_strict _ _ Hne Ec) as [Hall Hnil].
    destruct (r_noheader o).
    + intros H. inversion H; subst; clear H. unfold rectangular_table; cbn [l_table t_header t_rows].
      rewrite cnames_length. apply (Forall_map_len _ (fun n => n = fpr)). exact Hall.
    + destruct rs as [|h b].
      * intros H. inversion H; subst; clear H. unfold rectangular_table; cbn. constructor.
      * inversion Hall as [|? ? Hh Hb]; subst.
        intros H. inversion H; subst; clear H. unfold rectangular_table; cbn [l_table t_header t_rows].
        rewrite map_length. apply (Forall_map_len _ (fun n => n = length h)). exact Hb.
Qed.

(* ------------------------------------------------------------------------------------------------ *)
(* the reader on the writer's output                                                                 *)
(* ------------------------------------------------------------------------------------------------ *)
Section RoundTrip.
Variable delim : N.
Hypothesis delim_ok : delim <> DQ /\ delim <> CR /\ delim <> LF.

Notation step := (Csv.step delim).

(* a state without error *)
Definition St R F a m cp dt pd : rst := RS R F a m cp dt pd None.
(* ... and without a pending CR *)
Definition C R F a m dt : rst := RS R F a m false dt false None.

(* what the reader makes of a written field *)
Definition rf (f : wfield) : rfield := (wquoted delim f, wtext f).

(* a field the reader gets back: bare texts contain no CR/LF (delimiter and quote are excluded by
   the writer's own rule) *)
Definition good_field (f : wfield) : bool := wquoted delim f || negb (has_break (wtext f)).
Definition blank_record (r : list wfield) : bool :=
  match r with [f] => match wtext f with [] => true | _ => false end | _ => false end.
Definition good_record (r : list wfield) : bool :=
  negb (match r with [] => true | _ => false end) && negb (blank_record r) && forallb good_field r.

Lemma neq_eqb a b : a <> b -> (a =? b) = false.
Proof. intros H. apply N.eqb_neq. exact H. Qed.

Lemma DQ_facts : (DQ =? delim) = false /\ (DQ =? LF) = false /\ (DQ =? CR) = false.
Proof. destruct delim_ok as (D1 & D2 & D3). repeat split; try reflexivity. apply neq_eqb. congruence. Qed.
Lemma LF_facts : (LF =? delim) = false /\ (LF =? DQ) = false /\ (LF =? CR) = false.
Proof. destruct delim_ok as (D1 & D2 & D3). repeat split; try reflexivity. apply neq_eqb. congruence. Qed.
Lemma CR_facts : (CR =? delim) = false /\ (CR =? DQ) = false /\ (CR =? LF) = false.
Proof. destruct delim_ok as (D1 & D2 & D3). repeat split; try reflexivity. apply neq_eqb. congruence. Qed.
Lemma delim_facts : (delim =? DQ) = false /\ (delim =? LF) = false /\ (delim =? CR) = false.
Proof. destruct delim_ok as (D1 & D2 & D3). repeat split; apply neq_eqb; assumption. Qed.

(* a pending CR only matters to an LF *)
Lemma step_clean R F a m cp dt pd b c : c <> LF ->
  step (RS R F a m cp dt pd b) c = step (RS R F a m false dt false b) c.
Proof.
  intros H. apply neq_eqb in H. unfold Csv.step; cbn [md crp].
  destruct m; try reflexivity; rewrite H; cbn [andb];
  unfold end_record, end_field, push, setmode, cur_field; cbn [recs flds cur md det bad crp pend]; reflexivity.
Qed.

(* ---- plain (unquoted) text ---- *)
Definition plain (c : N) : bool := negb ((c =? delim) || (c =? DQ) || (c =? CR) || (c =? LF)).

Lemma step_plain R F a m dt c : (m = Start \/ m = Unq) -> plain c = true ->
  step (C R F a m dt) c = C R F (c :: a) Unq dt.
Proof.
  intros Hm Hp. unfold plain in Hp. apply negb_true_iff in Hp.
  repeat (apply orb_false_iff in Hp as [Hp ?]).
  unfold Csv.step, C; cbn [md crp]. destruct Hm as [-> | ->];
  rewrite H, H0, H1, Hp; cbn [andb]; reflexivity.
Qed.

Lemma fold_plain : forall s R F a m dt, (m = Start \/ m = Unq) -> forallb plain s = true ->
  fold_left step s (C R F a m dt) = C R F (rev s ++ a) (match s with [] => m | _ => Unq end) dt.
Proof.
  induction s as [|c r IH]; intros R F a m dt Hm Hs; cbn [fold_left].
  - reflexivity.
  - cbn in Hs. apply andb_true_iff in Hs as [Hc Hr].
    rewrite step_plain by assumption. rewrite IH by (auto; right; reflexivity).
    cbn [rev]. rewrite <- app_assoc. cbn. destruct r; reflexivity.
Qed.

Lemma unquoted_plain f : wquoted delim f = false -> has_break (wtext f) = false -> forallb plain (wtext f) = true.
Proof.
  unfold wquoted, has_delim_or_quote, has_break. intros Hq Hb.
  apply orb_false_iff in Hq as [_ Hq].
  induction (wtext f) as [|c r IH]; cbn in *; [reflexivity|].
  apply orb_false_iff in Hq as [Hq1 Hq2]. apply orb_false_iff in Hb as [Hb1 Hb2].
  rewrite IH by assumption. rewrite andb_true_r. unfold plain, is_break in *.
  apply orb_false_iff in Hq1 as [-> ->]. apply orb_false_iff in Hb1 as [-> ->]. reflexivity.
Qed.

(* ---- quoted text ---- *)
Lemma step_quo_dq R F a dt : step (C R F a Quo dt) DQ = C R F a QuoEsc dt.
Proof. reflexivity. Qed.
Lemma step_quoesc_dq R F a dt : step (C R F a QuoEsc dt) DQ = C R F (DQ :: a) Quo dt.
Proof. reflexivity. Qed.
Lemma step_quo_other R F a dt c : (c =? DQ) = false -> step (C R F a Quo dt) c = C R F (c :: a) Quo dt.
Proof. intros E. unfold Csv.step, C; cbn [md]. rewrite E. reflexivity. Qed.
Lemma step_start_dq R F dt : step (C R F [] Start dt) DQ = C R F [] Quo dt.
Proof.
  destruct DQ_facts as (E1 & E2 & E3).
  unfold Csv.step, C; cbn [md crp]. rewrite E2, E3, E1. cbn [andb]. rewrite N.eqb_refl. reflexivity.
Qed.

Lemma fold_dbl : forall s R F a dt,
  fold_left step (dbl s) (C R F a Quo dt) = C R F (rev s ++ a) Quo dt.
Proof.
  induction s as [|c r IH]; intros R F a dt.
  - reflexivity.
  - cbn [dbl]. destruct (c =? DQ) eqn:E.
    + apply N.eqb_eq in E; subst c. cbn [fold_left].
      rewrite step_quo_dq, step_quoesc_dq, IH. cbn [rev]. rewrite <- app_assoc. reflexivity.
    + cbn [fold_left]. rewrite step_quo_other by exact E. rewrite IH.
      cbn [rev]. rewrite <- app_assoc. reflexivity.
Qed.

(* ---- one field ---- *)
Definition after_field R F (f : wfield) dt : rst :=
  C R F (rev (wtext f))
    (if wquoted delim f then QuoEsc else match wtext f with [] => Start | _ => Unq end) dt.

Lemma fold_field R F f rest dt : good_field f = true ->
  fold_left step (wfield_str delim f ++ rest) (C R F [] Start dt) = fold_left step rest (after_field R F f dt).
Proof.
  intros Hg. rewrite fold_left_app. f_equal. unfold wfield_str, after_field.
  destruct (wquoted delim f) eqn:E.
  - cbn [fold_left]. rewrite step_start_dq.
    rewrite fold_left_app, fold_dbl. cbn [fold_left]. rewrite step_quo_dq, app_nil_r. reflexivity.
  - unfold good_field in Hg. rewrite E in Hg. cbn in Hg. apply negb_true_iff in Hg.
    rewrite fold_plain by (auto using unquoted_plain). rewrite app_nil_r. reflexivity.
Qed.

Lemma cur_after R F f dt : cur_field (after_field R F f dt) = rf f.
Proof.
  unfold after_field, cur_field, rf, C; cbn [md cur]. rewrite rev_involutive.
  destruct (wquoted delim f); [reflexivity|]. destruct (wtext f); reflexivity.
Qed.

Lemma step_delim_after R F f dt :
  step (after_field R F f dt) delim = C R (rf f :: F) [] Start dt.
Proof.
  destruct delim_facts as (E1 & E2 & E3).
  rewrite <- (cur_after R F f dt). unfold after_field.
  destruct (wquoted delim f).
  - unfold Csv.step, C; cbn [md]. rewrite E1, N.eqb_refl. reflexivity.
  - unfold Csv.step, C. destruct (wtext f); cbn [md crp]; rewrite E2, E3, N.eqb_refl; reflexivity.
Qed.

(* the state is "not blank": a field is finished or the buffer is not empty *)
Definition not_blank (F : list rfield) (f : wfield) : Prop := F <> [] \/ wtext f <> [].

Lemma end_record_after iscr R F f dt : not_blank F f ->
  end_record iscr (after_field R F f dt) =
  RS (rev (rf f :: F) :: R) [] [] Start iscr (det_or dt (if iscr then LbCR else LbLF)) (iscr && is_none dt) None.
Proof.
  intros H. rewrite <- (cur_after R F f dt). unfold end_record.
  unfold after_field at 1 2. unfold C; cbn [flds cur].
  destruct F as [|x F'].
  - destruct H as [H|H]; [congruence|].
    destruct (rev (wtext f)) eqn:Er.
    + exfalso. apply H. rewrite <- (rev_involutive (wtext f)), Er. reflexivity.
    + reflexivity.
  - destruct (rev (wtext f)); reflexivity.
Qed.

Lemma step_lf_after R F f dt : not_blank F f ->
  step (after_field R F f dt) LF = RS (rev (rf f :: F) :: R) [] [] Start false (det_or dt LbLF) false None.
Proof.
  intros H. destruct LF_facts as (E1 & E2 & E3).
  transitivity (end_record false (after_field R F f dt)); [|rewrite (end_record_after false R F f dt H); reflexivity].
  unfold after_field.
  destruct (wquoted delim f).
  - unfold Csv.step, C; cbn [md]. rewrite E2, E1, E3, N.eqb_refl. reflexivity.
  - unfold Csv.step, C. destruct (wtext f); cbn [md crp]; rewrite N.eqb_refl; reflexivity.
Qed.

Lemma step_cr_after R F f dt : not_blank F f ->
  step (after_field R F f dt) CR = RS (rev (rf f :: F) :: R) [] [] Start true (det_or dt LbCR) (is_none dt) None.
Proof.
  intros H. destruct CR_facts as (E1 & E2 & E3).
  transitivity (end_record true (after_field R F f dt)); [|rewrite (end_record_after true R F f dt H); reflexivity].
  unfold after_field.
  destruct (wquoted delim f).
  - unfold Csv.step, C; cbn [md]. rewrite E2, E1, N.eqb_refl. reflexivity.
  - unfold Csv.step, C. destruct (wtext f); cbn [md crp]; rewrite E3, N.eqb_refl; reflexivity.
Qed.

(* the state after the line break that ends a record *)
Definition after_lb (lb : linebreak) R dt : rst :=
  match lb with
  | LbLF => RS R [] [] Start false (det_or dt LbLF) false None
  | LbCR => RS R [] [] Start true (det_or dt LbCR) (is_none dt) None
  | LbCRLF => RS R [] [] Start false (det_or dt LbCRLF) false None
  end.

Lemma fold_lb_after lb R F f dt : not_blank F f ->
  fold_left step (lb_str lb) (after_field R F f dt) = after_lb lb (rev (rf f :: F) :: R) dt.
Proof.
  intros H. destruct lb; cbn [lb_str fold_left after_lb].
  - apply step_lf_after, H.
  - apply step_cr_after, H.
  - rewrite step_cr_after by exact H. unfold Csv.step; cbn [md crp]. rewrite N.eqb_refl. cbn [andb].
    unfold swallow_lf; cbn [recs flds cur md det pend bad]. destruct dt; reflexivity.
Qed.

(* ---- one record ---- *)
Fixpoint body (r : list wfield) : list wfield := match r with [] => [] | [f] => [] | f :: t => f :: body t end.
Fixpoint lastf (r : list wfield) : wfield := match r with [] => WF false [] | [f] => f | _ :: t => lastf t end.

Lemma body_last r : r <> [] -> r = body r ++ [lastf r].
Proof.
  induction r as [|f t IH]; intros H; [congruence|]. destruct t as [|g t'].
  - reflexivity.
  - cbn [body lastf app]. f_equal. apply IH. discriminate.
Qed.

Lemma fold_record_body : forall r R F rest dt, r <> [] -> forallb good_field r = true ->
  fold_left step (wrecord delim r ++ rest) (C R F [] Start dt) =
  fold_left step rest (after_field R (rev (map rf (body r)) ++ F) (lastf r) dt).
Proof.
  induction r as [|f t IH]; intros R F rest dt Hne Hg; [congruence|].
  cbn in Hg. apply andb_true_iff in Hg as [Hf Ht].
  destruct t as [|g t'].
  - cbn [wrecord body lastf map rev app]. apply fold_field. exact Hf.
  - change (wrecord delim (f :: g :: t')) with (wfield_str delim f ++ delim :: wrecord delim (g :: t')).
    rewrite <- app_assoc. rewrite fold_field by exact Hf. cbn [app fold_left].
    rewrite step_delim_after. rewrite IH by (discriminate || exact Ht).
    cbn [body lastf map rev]. rewrite <- app_assoc. reflexivity.
Qed.

Lemma good_record_inv r : good_record r = true ->
  r <> [] /\ blank_record r = false /\ forallb good_field r = true.
Proof.
  unfold good_record. intros H. apply andb_true_iff in H as [H H3]. apply andb_true_iff in H as [H1 H2].
  apply negb_true_iff in H1, H2. repeat split; try assumption. destruct r; [discriminate | discriminate].
Qed.

Lemma not_blank_last r F : r <> [] -> blank_record r = false -> not_blank (rev (map rf (body r)) ++ F) (lastf r).
Proof.
  intros Hne Hb. destruct r as [|f [|g t]]; [congruence| |].
  - right. cbn in *. destruct (wtext f); [discriminate | discriminate].
  - left. cbn [body map rev]. intro H. apply app_eq_nil in H as [H _]. apply app_eq_nil in H as [_ H]. discriminate.
Qed.

(* the first code point of a written record is never LF *)
Lemma wrecord_head r : good_record r = true -> exists c s, wrecord delim r = c :: s /\ c <> LF.
Proof.
  intros H. apply good_record_inv in H as (Hne & Hb & Hg).
  destruct r as [|f t]; [congruence|]. cbn in Hg. apply andb_true_iff in Hg as [Hf _].
  assert (Hfield : (exists c s, wfield_str delim f = c :: s /\ c <> LF) \/ (wfield_str delim f = [] /\ wtext f = [])).
  { unfold wfield_str. destruct (wquoted delim f) eqn:Eq.
    - left. eexists _, _. split; [reflexivity | discriminate].
    - unfold good_field in Hf. rewrite Eq in Hf. cbn in Hf. apply negb_true_iff in Hf.
      destruct (wtext f) as [|c s] eqn:Et; [right; split; reflexivity|].
      left. exists c, s. split; [reflexivity|]. cbn in Hf. apply orb_false_iff in Hf as [Hf _].
      unfold is_break in Hf. apply orb_false_iff in Hf as [_ Hf]. apply N.eqb_neq in Hf. exact Hf. }
  destruct t as [|g t'].
  - cbn [wrecord]. destruct Hfield as [H|[_ H]]; [exact H|]. cbn in Hb. rewrite H in Hb. discriminate.
  - change (wrecord delim (f :: g :: t')) with (wfield_str delim f ++ delim :: wrecord delim (g :: t')).
    destruct Hfield as [(c & s & -> & Hc)|[-> _]].
    + eexists _, _. split; [reflexivity | exact Hc].
    + eexists _, _. split; [reflexivity|]. destruct delim_ok as (_ & _ & D). exact D.
Qed.

(* a record from any record-start state (a CR may be pending), up to its last field *)
Lemma fold_record r R rest cp dt pd : good_record r = true ->
  fold_left step (wrecord delim r ++ rest) (St R [] [] Start cp dt pd) =
  fold_left step rest (after_field R (rev (map rf (body r))) (lastf r) dt).
Proof.
  intros H. destruct (wrecord_head r H) as (c & s & Hw & Hc).
  apply good_record_inv in H as (Hne & Hb & Hg).
  transitivity (fold_left step (wrecord delim r ++ rest) (C R [] [] Start dt)).
  - rewrite Hw. cbn [app fold_left]. unfold St, C. rewrite step_clean by exact Hc. reflexivity.
  - rewrite fold_record_body by assumption. rewrite app_nil_r. reflexivity.
Qed.

Lemma record_fields r : r <> [] -> rev (rf (lastf r) :: rev (map rf (body r))) = map rf r.
Proof.
  intros H. rewrite (body_last r H) at 3. rewrite map_app. cbn [rev map]. rewrite rev_involutive. reflexivity.
Qed.

(* a record and the line break after it *)
Lemma fold_record_lb r lb R rest cp dt pd : good_record r = true ->
  fold_left step (wrecord delim r ++ lb_str lb ++ rest) (St R [] [] Start cp dt pd) =
  fold_left step rest (after_lb lb (map rf r :: R) dt).
Proof.
  intros H. rewrite fold_record by exact H. apply good_record_inv in H as (Hne & Hb & Hg).
  rewrite fold_left_app. rewrite fold_lb_after.
  - rewrite record_fields by exact Hne. reflexivity.
  - rewrite <- (app_nil_r (rev (map rf (body r)))). apply not_blank_last; assumption.
Qed.

Lemma after_lb_is_start lb R dt : exists cp pd, after_lb lb R dt = St R [] [] Start cp (det_or dt lb) pd.
Proof. destruct lb; cbn; eexists _, _; reflexivity. Qed.

(* ---- many records, each followed by the line break ---- *)
Fixpoint wterminated (lb : linebreak) (rs : list (list wfield)) : str :=
  match rs with [] => [] | r :: t => wrecord delim r ++ lb_str lb ++ wterminated lb t end.

Lemma wrecords_snoc lb : forall rs r, wrecords delim lb (rs ++ [r]) = wterminated lb rs ++ wrecord delim r.
Proof.
  induction rs as [|x t IH]; intros r; [reflexivity|].
  cbn [app wterminated]. rewrite <- !app_assoc. rewrite <- IH.
  destruct (t ++ [r]) eqn:E; [destruct t; discriminate|]. reflexivity.
Qed.

Definition det_after {A} (dt : option linebreak) (lb : linebreak) (rs : list A) : option linebreak :=
  match rs with [] => dt | _ => det_or dt lb end.

Lemma det_or_idem dt lb lb' : det_or (det_or dt lb) lb' = det_or dt lb.
Proof. destruct dt; reflexivity. Qed.

Lemma fold_terminated lb : forall rs R rest cp dt pd, forallb good_record rs = true ->
  exists cp' pd',
  fold_left step (wterminated lb rs ++ rest) (St R [] [] Start cp dt pd) =
  fold_left step rest (St (rev (map (map rf) rs) ++ R) [] [] Start cp' (det_after dt lb rs) pd').
Proof.
  induction rs as [|r t IH]; intros R rest cp dt pd H.
  - exists cp, pd. reflexivity.
  - cbn in H. apply andb_true_iff in H as [Hr Ht].
    cbn [wterminated]. rewrite <- !app_assoc. rewrite fold_record_lb by exact Hr.
    destruct (after_lb_is_start lb (map rf r :: R) dt) as (cp1 & pd1 & ->).
    destruct (IH (map rf r :: R) rest cp1 (det_or dt lb) pd1 Ht) as (cp2 & pd2 & ->).
    exists cp2, pd2. f_equal. unfold St. f_equal.
    + cbn [map rev]. rewrite <- app_assoc. reflexivity.
    + destruct t; cbn [det_after]; [reflexivity | apply det_or_idem].
Qed.

(* ---- a whole file: records joined by lb, then the appended line break (if any) ---- *)
Definition det_file (lb : linebreak) (n_before_last : nat) (tail : option linebreak) : option linebreak :=
  match n_before_last with
  | O => tail
  | S _ => Some lb
  end.

Lemma finish_after R F f dt : not_blank F f ->
  finish (after_field R F f dt) = inr (rev (rev (rf f :: F) :: R), dt).
Proof.
  intros H. pose proof (end_record_after false R F f dt H) as He.
  unfold finish. unfold after_field at 1 2 3. unfold C; cbn [bad md crp].
  assert (Hm : forall X Y : rerr + (list (list rfield) * option linebreak),
    match (if wquoted delim f then QuoEsc else match wtext f with [] => Start | _ :: _ => Unq end) with
    | Quo => X | _ => Y end = Y).
  { intros X Y. destruct (wquoted delim f); [reflexivity|]. destruct (wtext f); reflexivity. }
  rewrite Hm. fold (C R F (rev (wtext f)) (if wquoted delim f then QuoEsc else match wtext f with [] => Start | _ :: _ => Unq end) dt).
  fold (after_field R F f dt). rewrite He. cbn [recs flds cur det].
  unfold after_field, C; cbn [flds cur det].
  destruct F as [|x F'].
  - destruct H as [H|H]; [congruence|]. destruct (rev (wtext f)) eqn:Er.
    + exfalso. apply H. rewrite <- (rev_involutive (wtext f)), Er. reflexivity.
    + reflexivity.
  - destruct (rev (wtext f)); reflexivity.
Qed.

Lemma finish_after_lb lb R dt : lb <> LbCR -> finish (after_lb lb R dt) = inr (rev R, det_or dt lb).
Proof. destruct lb; intros H; [reflexivity | congruence | reflexivity]. Qed.

Theorem tokenize_written lb rs r tail :
  forallb good_record (rs ++ [r]) = true -> tail <> Some LbCR ->
  tokenize delim (wrecords delim lb (rs ++ [r]) ++ tail_str tail) =
  inr (map (map rf) (rs ++ [r]), det_file lb (length rs) tail).
Proof.
  intros Hg Ht. rewrite forallb_app in Hg. apply andb_true_iff in Hg as [Hrs Hr].
  cbn in Hr. rewrite andb_true_r in Hr.
  unfold tokenize. rewrite wrecords_snoc, <- app_assoc.
  change init with (St [] [] [] Start false None false).
  destruct (fold_terminated lb rs [] (wrecord delim r ++ tail_str tail) false None false Hrs) as (cp & pd & ->).
  rewrite app_nil_r.
  assert (Hdet : det_file lb (length rs) tail =
                 match tail with None => det_after None lb rs | Some l => det_or (det_after None lb rs) l end).
  { destruct rs; destruct tail; reflexivity. }
  destruct tail as [l|]; cbn [tail_str].
  - rewrite <- (app_nil_r (lb_str l)). rewrite fold_record_lb by exact Hr. cbn [fold_left].
    rewrite finish_after_lb by congruence. rewrite Hdet. cbn [rev]. rewrite rev_involutive, map_app. reflexivity.
  - rewrite fold_record by exact Hr. cbn [fold_left].
    pose proof (good_record_inv r Hr) as (Hne & Hb & _).
    rewrite finish_after by (rewrite <- (app_nil_r (rev (map rf (body r)))); apply not_blank_last; assumption).
    rewrite record_fields by exact Hne. rewrite Hdet. cbn [rev]. rewrite rev_involutive, map_app. reflexivity.
Qed.

(* CR directly before the end of input is an error, whatever was written *)
Lemma tokenize_cr_tail lb rs r :
  forallb good_record (rs ++ [r]) = true ->
  tokenize delim (wrecords delim lb (rs ++ [r]) ++ [CR]) = inl EUnreadRune.
Proof.
  intros Hg. rewrite forallb_app in Hg. apply andb_true_iff in Hg as [Hrs Hr].
  cbn in Hr. rewrite andb_true_r in Hr.
  unfold tokenize. rewrite wrecords_snoc, <- app_assoc.
  change init with (St [] [] [] Start false None false).
  destruct (fold_terminated lb rs [] (wrecord delim r ++ [CR]) false None false Hrs) as (cp & pd & ->).
  change [CR] with (lb_str LbCR ++ []). rewrite fold_record_lb by exact Hr. reflexivity.
Qed.

(* prefix stability: whatever follows a sequence of well-spelled records, each ended by the line
   break, the reader returns exactly these records first (or an error) *)
Theorem tokenize_prefix lb rs rest recs' dt :
  forallb good_record rs = true ->
  tokenize delim (wterminated lb rs ++ rest) = inr (recs', dt) ->
  firstn (length rs) recs' = map (map rf) rs.
Proof.
  intros Hg. unfold tokenize. change init with (St [] [] [] Start false None false).
  destruct (fold_terminated lb rs [] rest false None false Hg) as (cp & pd & ->).
  rewrite app_nil_r. set (s0 := St (rev (map (map rf) rs)) [] [] Start cp (det_after None lb rs) pd).
  destruct (fold_sticky_recs delim rest s0) as [more Hm].
  set (s := fold_left step rest s0) in *.
  assert (Hlen : length rs = length (rev (recs s0))) by (unfold s0, St; cbn [recs]; rewrite rev_involutive, map_length; reflexivity).
  assert (Hkey : forall l, (exists m, l = m ++ recs s0) -> firstn (length rs) (rev l) = map (map rf) rs).
  { intros l [m ->]. rewrite rev_app_distr, Hlen, firstn_app, Nat.sub_diag, firstn_all. cbn [firstn].
    rewrite app_nil_r. unfold s0, St; cbn [recs]. apply rev_involutive. }
  intros H. apply finish_recs in H as [-> | (x & _ & ->)]; apply Hkey.
  - exists more. exact Hm.
  - exists (x :: more). rewrite Hm. reflexivity.
Qed.

End RoundTrip.

(* ------------------------------------------------------------------------------------------------ *)
(* from tokens to tables: csvq's writer options and loader                                          *)
(* ------------------------------------------------------------------------------------------------ *)
Definition delim_ok (d : N) : Prop := d <> DQ /\ d <> CR /\ d <> LF.

(* a table as csvq holds it: every record as long as the header, at least one column *)
Definition well_shaped (hdr : list str) (rows : list (list cell)) : Prop :=
  hdr <> [] /\ Forall (fun r => length r = length hdr) rows.

(* every record csvq hands to the writer is one the reader gets back (see good_record) *)
Definition spellable (o : wopts) (hdr : list str) (rows : list (list cell)) : bool :=
  forallb (good_record (o_delim o)) (csv_wrows o hdr rows).

Lemma field_value_rf d f : field_value false (rf d f) = readback d f.
Proof. unfold rf, readback. destruct (wquoted d f); [destruct (wtext f); reflexivity|]. destruct (wtext f); reflexivity. Qed.

Lemma split_last {A} (l : list A) : l <> [] -> exists l' x, l = l' ++ [x].
Proof.
  induction l as [|a t IH]; intros H; [congruence|]. destruct t as [|b t'].
  - exists [], a. reflexivity.
  - destruct IH as (l' & x & E); [discriminate|]. exists (a :: l'), x. rewrite E. reflexivity.
Qed.

Definition lines_written (o : wopts) (rows : list (list cell)) : nat :=
  (if o_noheader o then 0 else 1) + length rows.

(* the line break the loader detects in a written file *)
Definition detected_written (o : wopts) (tail : option linebreak) (rows : list (list cell)) : option linebreak :=
  det_file (o_lb o) (lines_written o rows - 1) tail.

Lemma wrows_lengths o hdr rows : well_shaped hdr rows ->
  Forall (fun r : list rfield => length r = length hdr) (map (map (rf (o_delim o))) (csv_wrows o hdr rows)).
Proof.
  intros [_ Hrows]. unfold csv_wrows. rewrite map_app. apply Forall_app. split.
  - destruct (o_noheader o); cbn; constructor; [rewrite !map_length; reflexivity | constructor].
  - rewrite map_map. apply Forall_forall. intros r Hr. apply in_map_iff in Hr as [r0 [<- Hr0]].
    rewrite !map_length. rewrite Forall_forall in Hrows. apply Hrows, Hr0.
Qed.

Theorem csv_roundtrip_general o tail hdr rows letter bytes :
  delim_ok (o_delim o) -> well_shaped hdr rows -> spellable o hdr rows = true -> tail <> Some LbCR ->
  csv_file o tail hdr rows = Some bytes ->
  csv_load (ropts_of o) letter bytes =
    inr (LD (expected_table o hdr rows) (detected_written o tail rows) (enclosed_all (o_delim o) letter bytes)).
Proof.
  intros Hd Hw Hs Ht Hf.
  unfold csv_file in Hf. destruct (csv_encode o hdr rows) as [s|] eqn:Ee; [|discriminate].
  inversion Hf; subst bytes; clear Hf.
  unfold csv_encode in Ee.
  assert (Hne : csv_wrows o hdr rows <> []).
  { unfold csv_wrows. destruct (o_noheader o); [|discriminate]. destruct rows; [discriminate | discriminate]. }
  assert (Es : s = wrecords (o_delim o) (o_lb o) (csv_wrows o hdr rows)).
  { destruct (o_noheader o); [destruct rows; [discriminate|]|]; inversion Ee; reflexivity. }
  clear Ee. subst s.
  destruct (split_last _ Hne) as (rs & r & Ers).
  unfold csv_load, ropts_of; cbn [r_delim r_noheader r_without_null r_allow_uneven].
  unfold spellable in Hs. rewrite Ers in *.
  rewrite (tokenize_written (o_delim o) Hd (o_lb o) rs r tail Hs Ht).
  pose proof (wrows_lengths o hdr rows Hw) as Hlen. rewrite Ers in Hlen.
  destruct Hw as [Hh Hrows]. assert (Hn : length hdr <> O) by (destruct hdr; [congruence | discriminate]).
  rewrite (cc_uniform0 _ false (length hdr) Hn) by (try exact Hlen; destruct rs; discriminate).
  assert (Hdet : det_file (o_lb o) (length rs) tail = detected_written o tail rows).
  { unfold detected_written, lines_written. f_equal.
    assert (E : (length (csv_wrows o hdr rows) = length rs + 1)%nat) by (rewrite Ers, app_length; reflexivity).
    unfold csv_wrows in E. rewrite app_length, map_length in E.
    destruct (o_noheader o); cbn [length] in *; lia. }
  rewrite Hdet. rewrite <- Ers. clear Ers Hlen Hs Hne Hdet.
  assert (Hr_eq : forall rows0, map (map (field_value false)) (map (map (rf (o_delim o))) (map (map (cell_field o)) rows0))
                  = map (map (fun c => readback (o_delim o) (cell_field o c))) rows0).
  { intros rows0. rewrite !map_map. apply map_ext. intros row. rewrite !map_map. apply map_ext.
    intros c. apply field_value_rf. }
  unfold expected_table, csv_wrows.
  destruct (o_noheader o); cbn [app map].
  - rewrite Hr_eq. reflexivity.
  - rewrite Hr_eq. rewrite !map_map. cbn [snd rf wtext header_field]. rewrite map_id. reflexivity.
Qed.
