(* Proofs for C05: each data-changing statement makes exactly the specified edit. *)
From Coq Require Import ZArith List Bool Lia Floats.
Require Import Csvq.Model.Base Csvq.Model.Value Csvq.Model.Compare Csvq.Model.Arith Csvq.Model.Expr
               Csvq.Model.Key Csvq.Model.SortVal Csvq.Model.Query Csvq.Model.Dml.
Require Import Csvq.Proofs.Query.
Import ListNotations.
Open Scope Z_scope.
Local Arguments Z.add : simpl never.
Local Arguments Z.of_nat : simpl never.

(* ---- INSERT: the old rows are untouched, the new rows are appended in the order given ---------- *)
Lemma insert_spec strict t fields values t' n :
  exec strict t (SInsert fields values) = Ok (t', n) ->
  exists vss, eval_values fields values = Ok vss /\
              twidth t' = twidth t /\
              trows t' = trows t ++ map (build_row (twidth t) fields) vss /\
              n = Z.of_nat (length values).
Proof.
  simpl. destruct (eval_values fields values) as [vss|] eqn:E; simpl; [|discriminate].
  intros H. inversion H. subst. exists vss. repeat split; auto.
  f_equal. unfold eval_values in E. apply mapM_length in E. exact E.
Qed.

Lemma build_row_length w fields vals : length (build_row w fields vals) = w.
Proof. unfold build_row. rewrite map_length, seq_length. reflexivity. Qed.

(* a listed column gets the given value, every other column NULL *)
Lemma build_row_nth w fields vals j : (j < w)%nat ->
  nth j (build_row w fields vals) VNull =
  match index_of j fields 0 with Some p => nth p vals VNull | None => VNull end.
Proof.
  intros H. unfold build_row.
  set (f := fun j0 : nat => match index_of j0 fields 0 with Some p => nth p vals VNull | None => VNull end).
  rewrite (nth_indep (map f (seq 0 w)) VNull (f 0%nat)) by (rewrite map_length, seq_length; exact H).
  rewrite map_nth. rewrite seq_nth by exact H. reflexivity.
Qed.

(* ---- UPDATE -------------------------------------------------------------------------------------- *)
Lemma set_nth_length {A} i (x : A) l : length (set_nth i x l) = length l.
Proof. revert i. induction l as [|y l IH]; intros [|i]; simpl; auto. Qed.

Lemma set_nth_other {A} i j (x d : A) l : i <> j -> nth j (set_nth i x l) d = nth j l d.
Proof.
  revert i j. induction l as [|y l IH]; intros [|i] [|j] H; simpl; auto; try congruence.
Qed.

Lemma fold_set_nth_length (vs : list (nat * val)) r :
  length (fold_left (fun acc iv => set_nth (fst iv) (snd iv) acc) vs r) = length r.
Proof. revert r. induction vs as [|v vs IH]; intros r; simpl; [reflexivity|]. rewrite IH. apply set_nth_length. Qed.

Lemma fold_set_nth_other (vs : list (nat * val)) r j :
  (forall iv, In iv vs -> fst iv <> j) ->
  nth j (fold_left (fun acc iv => set_nth (fst iv) (snd iv) acc) vs r) VNull = nth j r VNull.
Proof.
  revert r. induction vs as [|v vs IH]; intros r H; simpl; [reflexivity|].
  rewrite IH by (intros iv Hiv; apply H; right; exact Hiv).
  apply set_nth_other. apply H. left. reflexivity.
Qed.

Lemma mapM_fst_sets sets r vs :
  mapM (fun se : nat * expr => do v <- eval r (snd se); Ok (fst se, v)) sets = Ok vs -> map fst vs = map fst sets.
Proof.
  revert vs. induction sets as [|s sets IH]; simpl; intros vs H; [inversion H; reflexivity|].
  destruct (eval r (snd s)); simpl in H; [|discriminate].
  destruct (mapM _ sets) as [vs'|] eqn:E; simpl in H; [|discriminate].
  inversion H. simpl. f_equal. apply IH. reflexivity.
Qed.

(* an updated row keeps its length and every column that is not in the SET list *)
Lemma update_row_frame sets r r' :
  update_row sets r = Ok r' ->
  length r' = length r /\ forall j, ~ In j (map fst sets) -> nth j r' VNull = nth j r VNull.
Proof.
  unfold update_row. destruct (mapM _ sets) as [vs|] eqn:E; simpl; [|discriminate].
  intros H. inversion H. subst. split; [apply fold_set_nth_length|].
  intros j Hj. apply fold_set_nth_other. intros iv Hiv Heq. apply Hj.
  rewrite <- (mapM_fst_sets sets r vs E). apply in_map_iff. exists iv. auto.
Qed.

(* UPDATE keeps the number and order of rows; a row changes only if its condition is TRUE, and then only
   in the SET columns; the count is the number of rows whose condition is TRUE *)
Lemma update_rows_spec sets wh : forall rows rows' n,
  update_rows sets wh rows = Ok (rows', n) ->
  length rows' = length rows /\
  n = Z.of_nat (length (filter (fun r => match wh with None => true | Some c => match eval r c with Ok v => is_true v | Err _ => false end end) rows)) /\
  forall k r r', nth_error rows k = Some r -> nth_error rows' k = Some r' ->
     (match wh with None => true | Some c => match eval r c with Ok v => is_true v | Err _ => false end end = false -> r' = r) /\
     length r' = length r /\ (forall j, ~ In j (map fst sets) -> nth j r' VNull = nth j r VNull).
Proof.
  induction rows as [|r rows IH]; simpl; intros rows' n H.
  - inversion H. subst. split; [reflexivity|]. split; [reflexivity|]. intros k r r' H1. destruct k; discriminate.
  - destruct (match wh with None => Ok true | Some c => do v <- eval r c; Ok (is_true v) end) as [hit|] eqn:Eh; simpl in H; [|discriminate].
    destruct (if hit then update_row sets r else Ok r) as [r1|] eqn:Er; simpl in H; [|discriminate].
    destruct (update_rows sets wh rows) as [[rest cnt]|] eqn:Erest; simpl in H; [|discriminate].
    inversion H. subst. clear H.
    destruct (IH rest cnt eq_refl) as [L [C F]].
    assert (Hhit : match wh with None => true | Some c => match eval r c with Ok v => is_true v | Err _ => false end end = hit).
    { destruct wh as [c|]; [|inversion Eh; reflexivity]. destruct (eval r c); simpl in Eh; [inversion Eh; reflexivity | discriminate]. }
    split; [simpl; f_equal; exact L|]. split.
    + rewrite Hhit. rewrite C. destruct hit; cbn [length]; rewrite ?Nat2Z.inj_succ; lia.
    + intros k r0 r0' H1 H2. destruct k as [|k]; simpl in H1, H2.
      * inversion H1 as [E1]. inversion H2 as [E2]. rewrite <- E1, <- E2. rewrite Hhit. destruct hit.
        -- destruct (update_row_frame sets r r1 Er) as [A B]. split; [discriminate|]. split; [exact A | exact B].
        -- inversion Er. split; [reflexivity|]. split; [reflexivity|]. reflexivity.
      * apply (F k r0 r0' H1 H2).
Qed.

(* ---- DELETE: exactly the non-matching rows, in order -------------------------------------------- *)
Definition hit_of (wh : option expr) (r : row) : bool :=
  match wh with None => true | Some c => match eval r c with Ok v => is_true v | Err _ => false end end.

Lemma delete_rows_spec wh : forall rows rows' n,
  delete_rows wh rows = Ok (rows', n) ->
  rows' = filter (fun r => negb (hit_of wh r)) rows /\ n = Z.of_nat (length (filter (hit_of wh) rows)).
Proof.
  induction rows as [|r rows IH]; intros rows' n H.
  - simpl in H. inversion H. split; reflexivity.
  - cbn [delete_rows] in H.
    destruct (match wh with None => Ok true | Some c => do v <- eval r c; Ok (is_true v) end) as [hit|] eqn:Eh; cbn [bind] in H; [|discriminate].
    destruct (delete_rows wh rows) as [[rest cnt]|] eqn:Erest; cbn [bind] in H; [|discriminate].
    destruct (IH rest cnt eq_refl) as [A B].
    assert (Hhit : hit_of wh r = hit).
    { unfold hit_of. destruct wh as [c|]; [|inversion Eh; reflexivity]. destruct (eval r c); simpl in Eh; [inversion Eh; reflexivity | discriminate]. }
    cbn [filter]. rewrite Hhit. destruct hit; cbn [fst snd] in H; injection H as E1 E2; subst rows' n; cbn [negb length].
    + split; [exact A|]. rewrite Nat2Z.inj_succ, B. lia.
    + split; [f_equal; exact A | exact B].
Qed.

(* ---- ALTER --------------------------------------------------------------------------------------- *)
(* ADD: removing the inserted columns again gives the old row: the other cells and their order are
   untouched *)
Fixpoint remove_at {A} (pos n : nat) (l : list A) : list A :=
  match pos, l with
  | O, _ => skipn n l
  | S p, [] => []
  | S p, y :: l' => y :: remove_at p n l'
  end.

Lemma remove_insert_at {A} pos (xs l : list A) : (pos <= length l)%nat -> remove_at pos (length xs) (insert_at pos xs l) = l.
Proof.
  revert l. induction pos as [|p IH]; intros l H; simpl.
  - rewrite skipn_app. rewrite Nat.sub_diag. rewrite skipn_all. reflexivity.
  - destruct l as [|y l]; simpl in *; [lia|]. f_equal. apply IH. lia.
Qed.

Lemma insert_at_length {A} pos (xs l : list A) : (pos <= length l)%nat -> length (insert_at pos xs l) = (length l + length xs)%nat.
Proof.
  revert l. induction pos as [|p IH]; intros l H; simpl.
  - rewrite app_length. lia.
  - destruct l as [|y l]; simpl in *; [lia|]. rewrite IH by lia. reflexivity.
Qed.

(* DROP: the kept cells are the cells at the positions not dropped, in order *)
Lemma drop_cols_spec idxs r :
  drop_cols idxs r = map snd (filter (fun ic => negb (existsb (Nat.eqb (fst ic)) idxs)) (combine (seq 0 (length r)) r)).
Proof. reflexivity. Qed.

Lemma drop_cols_nil r : drop_cols [] r = r.
Proof.
  unfold drop_cols. simpl.
  assert (G : forall n (l : list val), map snd (filter (fun _ : nat * val => true) (combine (seq n (length l)) l)) = l).
  { intros n l. revert n. induction l as [|x l IH]; intros n; simpl; [reflexivity|]. rewrite IH. reflexivity. }
  apply G.
Qed.

(* ---- histories ------------------------------------------------------------------------------------ *)
Lemma run_history_app strict t a b : run_history strict t (a ++ b) = run_history strict (run_history strict t a) b.
Proof. unfold run_history. apply fold_left_app. Qed.

Lemma run_history_cons strict t s ss : run_history strict t (s :: ss) = run_history strict (step strict t s) ss.
Proof. reflexivity. Qed.

(* a failing statement changes nothing (the table-level half of C08) *)
Lemma step_failure_noop strict t s e : exec strict t s = Err e -> step strict t s = t.
Proof. unfold step. intros ->. reflexivity. Qed.

(* ---- REPLACE ------------------------------------------------------------------------------------ *)
Lemma fold_set_nth_cols_length (upd : list nat) (n r : row) :
  length (fold_left (fun acc f => set_nth f (nth f n VNull) acc) upd r) = length r.
Proof. revert r. induction upd as [|f upd IH]; intros r; simpl; [reflexivity|]. rewrite IH. apply set_nth_length. Qed.

Lemma fold_set_nth_cols_other (upd : list nat) (n r : row) j : ~ In j upd ->
  nth j (fold_left (fun acc f => set_nth f (nth f n VNull) acc) upd r) VNull = nth j r VNull.
Proof.
  revert r. induction upd as [|f upd IH]; intros r H; simpl; [reflexivity|].
  rewrite IH by (intros Hin; apply H; right; exact Hin).
  apply set_nth_other. intros E. apply H. left. exact E.
Qed.

Lemma nth_error_combine_fst {A B} (l : list A) (l' : list B) i a b x :
  nth_error (combine l l') i = Some (a, b) -> nth_error l i = Some x -> a = x.
Proof.
  revert l' i. induction l as [|y l IH]; intros l' i E H; [destruct i; discriminate|].
  destruct l' as [|h0 l']; [destruct i; discriminate|]. destruct i as [|i]; simpl in *.
  - inversion E. inversion H. congruence.
  - eapply IH; eassumption.
Qed.

Lemma nth_error_map_combine {A B C} (f : A * B -> C) (l : list A) (l' : list B) i x y :
  nth_error (map f (combine l l')) i = Some y -> nth_error l i = Some x -> exists b, y = f (x, b).
Proof.
  revert l' i. induction l as [|a l IH]; intros l' i E H; [destruct i; discriminate|].
  destruct l' as [|h0 l']; [destruct i; discriminate|]. destruct i as [|i]; simpl in *.
  - inversion E. inversion H. subst. eexists. reflexivity.
  - eapply IH; eassumption.
Qed.

(* REPLACE keeps every existing row in its place; an existing row changes at most in the listed
   non-key columns; the given rows that matched no existing row are appended in the order given *)
Theorem replace_rows_spec strict w fields keys news rows :
  let out := fst (replace_rows strict w fields keys news rows) in
  let upd := filter (fun f => negb (existsb (Nat.eqb f) keys)) fields in
  exists kept app,
    out = kept ++ app /\ length kept = length rows /\
    (forall i r r', nth_error rows i = Some r -> nth_error kept i = Some r' ->
        length r' = length r /\ forall j, ~ In j upd -> nth j r' VNull = nth j r VNull) /\
    (exists sel : list (nat * row),
        app = map snd sel /\
        sel = filter (fun jn => negb (existsb (Nat.eqb (fst jn))
                 (flat_map (fun h => match h with Some j => [j] | None => [] end)
                           (map (fun r => first_match (key_of strict keys r) (map (key_of strict keys) news) 0) rows))))
                     (combine (seq 0 (length news)) news)).
Proof.
  cbv zeta. unfold replace_rows. cbn [fst].
  set (nkeys := map (key_of strict keys) news).
  set (hits := map (fun r => first_match (key_of strict keys r) nkeys 0) rows).
  set (upd := filter (fun f => negb (existsb (Nat.eqb f) keys)) fields).
  eexists. eexists. split; [reflexivity|]. split.
  - rewrite map_length, combine_length. unfold hits. rewrite map_length. apply Nat.min_id.
  - split.
    + intros i r r' Hr Hr'.
      destruct (nth_error_map_combine _ _ _ _ _ _ Hr' Hr) as [h Eh]. subst r'.
      destruct h as [j|]; cbn [fst snd].
      * split; [apply fold_set_nth_cols_length | intros j0 Hj; apply fold_set_nth_cols_other; exact Hj].
      * split; [reflexivity | intros; reflexivity].
    + eexists. split; reflexivity.
Qed.
