(* C05: multi-table DELETE / UPDATE over two joined tables.  The joined rows that take part are exactly the
   pairs (i, j) on which ON and WHERE are TRUE; DELETE removes from a target table exactly the rows that
   take part (the others stay, in order; a table that is not a target is untouched); UPDATE keeps number and
   order of p's rows, leaves the rows that take part in no kept pair unchanged and never touches c. *)
From Coq Require Import ZArith List Bool Lia Floats.
Require Import Csvq.Model.Base Csvq.Model.Value Csvq.Model.Compare Csvq.Model.Arith Csvq.Model.Expr
               Csvq.Model.Key Csvq.Model.SortVal Csvq.Model.Query Csvq.Model.Dml.
Require Import Csvq.Proofs.Query Csvq.Proofs.Dml.
Import ListNotations.
Local Open Scope nat_scope.

(* the pair (p, c) takes part: ON is TRUE and WHERE is TRUE on the joined row *)
Definition takes_part (on wh : option expr) (p c : row) : Prop :=
  cond_true on (p ++ c) = Ok true /\ cond_true wh (p ++ c) = Ok true.

Lemma hits_row_spec on wh i p : forall cs j hs, hits_row on wh i p cs j = Ok hs ->
  forall a b, In (a, b) hs <-> a = i /\ exists k c, b = j + k /\ nth_error cs k = Some c /\ takes_part on wh p c.
Proof.
  induction cs as [|c cs IH]; intros j hs H a b; cbn [hits_row] in H.
  - inversion H. split; [intros []|]. intros (_ & k & c & _ & E & _). destruct k; discriminate.
  - destruct (cond_true on (p ++ c)) as [x|e] eqn:E1; cbn [bind] in H; [|discriminate].
    destruct (if x then cond_true wh (p ++ c) else Ok false) as [y|e] eqn:E2; cbn [bind] in H; [|discriminate].
    destruct (hits_row on wh i p cs (S j)) as [rest|e] eqn:E3; cbn [bind] in H; [|discriminate].
    inversion H as [Hh]. clear H. specialize (IH (S j) rest E3 a b).
    assert (Head : takes_part on wh p c <-> x && y = true).
    { unfold takes_part. rewrite E1. split.
      - intros [X Y]. inversion X. subst x. rewrite Y in E2. inversion E2. reflexivity.
      - intros XY. apply andb_true_iff in XY. destruct XY; subst x y. split; [reflexivity|exact E2]. }
    assert (Split : (a = i /\ exists k c0, b = j + k /\ nth_error (c :: cs) k = Some c0 /\ takes_part on wh p c0) <->
                    ((a = i /\ b = j /\ takes_part on wh p c) \/ In (a, b) rest)).
    { rewrite IH. split.
      - intros (Ea & k & c0 & Eb & Hn & Ht). destruct k as [|k].
        + left. inversion Hn. subst c0. split; [exact Ea|]. split; [lia|exact Ht].
        + right. split; [exact Ea|]. exists k, c0. split; [lia|]. split; [exact Hn|exact Ht].
      - intros [(Ea & Eb & Ht)|(Ea & k & c0 & Eb & Hn & Ht)].
        + split; [exact Ea|]. exists 0, c. split; [lia|]. split; [reflexivity|exact Ht].
        + split; [exact Ea|]. exists (S k), c0. split; [lia|]. split; [exact Hn|exact Ht]. }
    rewrite Split. destruct (x && y) eqn:Exy.
    + split.
      * intros [E|Hin]; [left|right; exact Hin]. inversion E. subst. split; [reflexivity|]. split; [reflexivity|]. apply Head. reflexivity.
      * intros [(Ea & Eb & _)|Hin]; [left; subst; reflexivity|right; exact Hin].
    + split; [intros Hin; right; exact Hin|]. intros [(_ & _ & Ht)|Hin]; [|exact Hin].
      apply Head in Ht. discriminate.
Qed.

Lemma hits_from_spec on wh cs : forall ps i hs, hits_from on wh ps cs i = Ok hs ->
  forall a b, In (a, b) hs <-> exists k p c, a = i + k /\ nth_error ps k = Some p /\ nth_error cs b = Some c /\ takes_part on wh p c.
Proof.
  induction ps as [|p ps IH]; intros i hs H a b; cbn [hits_from] in H.
  - inversion H. split; [intros []|]. intros (k & p & c & _ & E & _). destruct k; discriminate.
  - destruct (hits_row on wh i p cs 0) as [h1|e] eqn:E1; cbn [bind] in H; [|discriminate].
    destruct (hits_from on wh ps cs (S i)) as [h2|e] eqn:E2; cbn [bind] in H; [|discriminate].
    inversion H. clear H. rewrite in_app_iff, (hits_row_spec on wh i p cs 0 h1 E1 a b), (IH (S i) h2 E2 a b).
    split.
    + intros [(Ea & k & c & Eb & Hn & Ht)|(k & p0 & c & Ea & Hp & Hc & Ht)].
      * exists 0, p, c. cbn in Eb. subst b. split; [lia|]. split; [reflexivity|]. split; [exact Hn|exact Ht].
      * exists (S k), p0, c. split; [lia|]. split; [exact Hp|]. split; [exact Hc|exact Ht].
    + intros (k & p0 & c & Ea & Hp & Hc & Ht). destruct k as [|k].
      * left. inversion Hp. subst p0. split; [lia|]. exists b, c. split; [reflexivity|]. split; [exact Hc|exact Ht].
      * right. exists k, p0, c. split; [lia|]. split; [exact Hp|]. split; [exact Hc|exact Ht].
Qed.

(* the kept joined rows are exactly the pairs on which ON and WHERE are TRUE *)
Theorem join_hits_spec on wh ps cs hs : join_hits on wh ps cs = Ok hs ->
  forall i j, In (i, j) hs <-> exists p c, nth_error ps i = Some p /\ nth_error cs j = Some c /\ takes_part on wh p c.
Proof.
  intros H i j. unfold join_hits in H. rewrite (hits_from_spec on wh cs ps 0 hs H i j).
  split.
  - intros (k & p & c & Ei & Hp & Hc & Ht). cbn in Ei. subst k. exists p, c. auto.
  - intros (p & c & Hp & Hc & Ht). exists i, p, c. auto.
Qed.

Lemma nodup_nat_in l x : In x (nodup_nat l) <-> In x l.
Proof.
  induction l as [|y l IH]; [reflexivity|]. cbn [nodup_nat].
  destruct (existsb (Nat.eqb y) l) eqn:E.
  - rewrite IH. split; [intros H; right; exact H|]. intros [Ey|H]; [|exact H]. subst.
    apply existsb_exists in E. destruct E as (z & Hz & Ez). apply Nat.eqb_eq in Ez. subst. exact Hz.
  - cbn [In]. rewrite IH. reflexivity.
Qed.

(* what remove_idx keeps: the rows whose index is not listed, in order *)
Lemma remove_idx_spec idxs (rows : list row) :
  remove_idx idxs rows = map snd (filter (fun ir => negb (existsb (Nat.eqb (fst ir)) idxs)) (combine (seq 0 (length rows)) rows)).
Proof. reflexivity. Qed.

Lemma nodup_nat_NoDup l : NoDup (nodup_nat l).
Proof.
  induction l as [|y l IH]; [constructor|]. cbn [nodup_nat].
  destruct (existsb (Nat.eqb y) l) eqn:E; [exact IH|]. constructor; [|exact IH].
  rewrite nodup_nat_in. intros Hin.
  assert (X : existsb (Nat.eqb y) l = true) by (apply existsb_exists; exists y; split; [exact Hin|apply Nat.eqb_refl]).
  congruence.
Qed.

(* a row of p (of c) takes part in some kept joined row *)
Definition p_takes_part on wh (ps cs : list row) (i : nat) : Prop :=
  exists p c j, nth_error ps i = Some p /\ nth_error cs j = Some c /\ takes_part on wh p c.
Definition c_takes_part on wh (ps cs : list row) (j : nat) : Prop :=
  exists p c i, nth_error ps i = Some p /\ nth_error cs j = Some c /\ takes_part on wh p c.

(* multi-table DELETE: from each target table exactly the rows that take part in a kept joined row are
   removed (the others stay, in order), the count is their number; a table that is not a target is untouched *)
Theorem delete_join_spec tp tc on wh ps cs ps' np cs' nc :
  delete_join tp tc on wh ps cs = Ok ((ps', np), (cs', nc)) ->
  (if tp then exists idx, (forall i, In i idx <-> p_takes_part on wh ps cs i) /\ NoDup idx /\
                          ps' = remove_idx idx ps /\ np = Z.of_nat (length idx)
   else ps' = ps /\ np = 0%Z) /\
  (if tc then exists idx, (forall j, In j idx <-> c_takes_part on wh ps cs j) /\ NoDup idx /\
                          cs' = remove_idx idx cs /\ nc = Z.of_nat (length idx)
   else cs' = cs /\ nc = 0%Z).
Proof.
  unfold delete_join. destruct (join_hits on wh ps cs) as [hs|e] eqn:H; cbn [bind]; [|discriminate].
  intros E. pose proof (join_hits_spec on wh ps cs hs H) as S.
  split.
  - destruct tp; inversion E; [|split; reflexivity].
    exists (nodup_nat (map fst hs)). split; [|split; [apply nodup_nat_NoDup|split; reflexivity]].
    intros i. rewrite nodup_nat_in, in_map_iff. split.
    + intros ([a b] & Ea & Hin). cbn in Ea. subst a. apply S in Hin. destruct Hin as (p & c & Hp & Hc & Ht).
      exists p, c, b. auto.
    + intros (p & c & j & Hp & Hc & Ht). exists (i, j). split; [reflexivity|]. apply S. exists p, c. auto.
  - destruct tc; inversion E; [|split; reflexivity].
    exists (nodup_nat (map snd hs)). split; [|split; [apply nodup_nat_NoDup|split; reflexivity]].
    intros j. rewrite nodup_nat_in, in_map_iff. split.
    + intros ([a b] & Eb & Hin). cbn in Eb. subst b. apply S in Hin. destruct Hin as (p & c & Hp & Hc & Ht).
      exists p, c, a. auto.
    + intros (p & c & i & Hp & Hc & Ht). exists (i, j). split; [reflexivity|]. apply S. exists p, c. auto.
Qed.

(* the same over any join kind: a row is removed from a target table iff its position occurs (in the position
   column of that table) in a joined row that ON and WHERE keep; the joined rows are those of the join
   theorems of C03 over the rows extended by their position *)
Definition occurs_at (n : nat) (kept : list row) (i : nat) : Prop :=
  exists r z, In r kept /\ nth_error r n = Some (VInt z) /\ Z.to_nat z = i.

Lemma in_flat_idx n kept i : In i (flat_map (idx_at n) kept) <-> occurs_at n kept i.
Proof.
  rewrite in_flat_map. unfold occurs_at, idx_at. split.
  - intros (r & Hr & Hi). destruct (nth_error r n) as [v|] eqn:E; [|destruct Hi].
    destruct v as [|z|f|s|b|t|nn]; try (destruct Hi; fail). destruct Hi as [<-|[]]. exists r, z. auto.
  - intros (r & z & Hr & E & <-). exists r. split; [exact Hr|]. rewrite E. left. reflexivity.
Qed.

Theorem delete_join_k_spec k tp tc lw rw on wh ps cs ps' np cs' nc :
  delete_join_k k tp tc lw rw on wh ps cs = Ok ((ps', np), (cs', nc)) ->
  exists kept,
    kept_join_rows k lw rw on wh ps cs = Ok kept /\
    (if tp then exists idx, (forall i, In i idx <-> occurs_at lw kept i) /\ NoDup idx /\
                            ps' = remove_idx idx ps /\ np = Z.of_nat (length idx)
     else ps' = ps /\ np = 0%Z) /\
    (if tc then exists idx, (forall j, In j idx <-> occurs_at (S lw + rw) kept j) /\ NoDup idx /\
                            cs' = remove_idx idx cs /\ nc = Z.of_nat (length idx)
     else cs' = cs /\ nc = 0%Z).
Proof.
  unfold delete_join_k. destruct (kept_join_rows k lw rw on wh ps cs) as [kept|e]; cbn [bind]; [|discriminate].
  intros E. exists kept. split; [reflexivity|]. split.
  - destruct tp; inversion E; [|split; reflexivity].
    eexists. split; [|split; [apply nodup_nat_NoDup|split; reflexivity]].
    intros i. rewrite nodup_nat_in. apply in_flat_idx.
  - destruct tc; inversion E; [|split; reflexivity].
    eexists. split; [|split; [apply nodup_nat_NoDup|split; reflexivity]].
    intros j. rewrite nodup_nat_in. apply in_flat_idx.
Qed.

(* the position column of the rows handed to the join holds the position *)
Lemma with_idx_nth (rows : list row) i r :
  nth_error rows i = Some r -> nth_error (with_idx rows) i = Some (r ++ [VInt (Z.of_nat i)]).
Proof.
  unfold with_idx. intros H.
  assert (E : nth_error (combine (seq 0 (length rows)) rows) i = Some (i, r)).
  { assert (G : forall (l : list row) n k x, nth_error l k = Some x ->
                 nth_error (combine (seq n (length l)) l) k = Some ((n + k)%nat, x)).
    { induction l as [|y l IH]; intros n k x Hk; [destruct k; discriminate|].
      destruct k as [|k]; cbn in Hk |- *.
      - inversion Hk. now rewrite Nat.add_0_r.
      - rewrite (IH (S n) k x Hk). f_equal. f_equal. lia. }
    exact (G rows 0%nat i r H). }
  exact (map_nth_error (fun ir : nat * row => snd ir ++ [VInt (Z.of_nat (fst ir))]) i _ E).
Qed.

(* multi-table UPDATE: number and order of p's rows are kept and the rows that take part in no kept joined row
   are unchanged (c is not an output at all) *)
Lemma update_join_loop_frame sets ps cs : forall hs done acc out n,
  update_join_loop sets ps cs hs done acc = Ok (out, n) ->
  length out = length acc /\ (forall i, ~ In i (map fst hs) -> nth i out [] = nth i acc []).
Proof.
  induction hs as [|[i j] hs IH]; intros done acc out n H; cbn [update_join_loop] in H.
  - inversion H. split; [reflexivity|]. intros; reflexivity.
  - destruct (update_row sets (nth i ps [] ++ nth j cs [])) as [r'|e]; cbn [bind] in H; [|discriminate].
    destruct (existsb (Nat.eqb i) done); [discriminate|].
    destruct (IH _ _ _ _ H) as [L F]. split.
    + rewrite L. apply set_nth_length.
    + intros k Hk. rewrite F by (intros X; apply Hk; right; exact X).
      apply set_nth_other. intros X. apply Hk. left. cbn. exact X.
Qed.

Lemma set_nth_same_dml {A} i (x d : A) l : (i < length l)%nat -> nth i (set_nth i x l) d = x.
Proof.
  revert i. induction l as [|y l IH]; intros i Hi; [cbn in Hi; lia|].
  destruct i as [|i]; cbn [set_nth nth]; [reflexivity|]. apply IH. cbn in Hi. lia.
Qed.

(* what the loop writes: every kept joined row (i, j) gives row i of p the columns of p of the updated joined
   row; no row of p is hit twice (that is the error "ambiguous"), and the count is the number of kept joined rows *)
Lemma update_join_loop_values sets ps cs : forall hs done acc out n,
  update_join_loop sets ps cs hs done acc = Ok (out, n) ->
  NoDup (map fst hs) /\ (forall i, In i (map fst hs) -> ~ In i done) /\
  n = Z.of_nat (length done + length hs) /\
  (forall i j, In (i, j) hs -> (i < length acc)%nat ->
     exists r', update_row sets (nth i ps [] ++ nth j cs []) = Ok r' /\
                nth i out [] = firstn (length (nth i ps [])) r').
Proof.
  induction hs as [|[i j] hs IH]; intros done acc out n H; cbn [update_join_loop] in H.
  - inversion H. repeat split; [constructor|intros i []|cbn; f_equal; lia|intros i j []].
  - destruct (update_row sets (nth i ps [] ++ nth j cs [])) as [r'|e] eqn:Er; cbn [bind] in H; [|discriminate].
    destruct (existsb (Nat.eqb i) done) eqn:Ed; [discriminate|].
    destruct (IH _ _ _ _ H) as (ND & Dj & Hn & Hv).
    destruct (update_join_loop_frame sets ps cs hs (i :: done) _ out n H) as [L F].
    assert (Hi : ~ In i (map fst hs)) by (intros X; apply (Dj i X); left; reflexivity).
    assert (Hd : ~ In i done).
    { intros X. assert (existsb (Nat.eqb i) done = true) by (apply existsb_exists; exists i; split; [exact X|apply Nat.eqb_refl]). congruence. }
    repeat split.
    + cbn [map fst]. constructor; assumption.
    + intros k [<-|Hk]; [exact Hd|]. intros X. apply (Dj k Hk). right. exact X.
    + rewrite Hn. cbn [length]. f_equal. lia.
    + intros a b [E|Hin] Ha.
      * inversion E; subst a b. exists r'. split; [exact Er|].
        rewrite (F i Hi). apply set_nth_same_dml. exact Ha.
      * apply Hv; [exact Hin|]. rewrite set_nth_length. exact Ha.
Qed.

(* multi-table UPDATE, the values: a row of p that takes part in a kept joined row takes part in exactly one (or
   the statement fails), and it becomes the p-columns of that joined row after the SET items were applied to it
   as it was before the statement; the count is the number of such rows *)
Theorem update_join_values sets on wh ps cs ps' n :
  update_join sets on wh ps cs = Ok (ps', n) ->
  exists hs, join_hits on wh ps cs = Ok hs /\ NoDup (map fst hs) /\ n = Z.of_nat (length hs) /\
    forall i j, In (i, j) hs ->
      exists r', update_row sets (nth i ps [] ++ nth j cs []) = Ok r' /\
                 nth i ps' [] = firstn (length (nth i ps [])) r'.
Proof.
  unfold update_join. destruct (join_hits on wh ps cs) as [hs|e] eqn:H; cbn [bind]; [|discriminate].
  intros E. exists hs. split; [reflexivity|].
  destruct (update_join_loop_values sets ps cs hs [] ps ps' n E) as (ND & _ & Hn & Hv).
  split; [exact ND|]. split; [exact Hn|].
  intros i j Hin. apply Hv; [exact Hin|].
  apply (join_hits_spec on wh ps cs hs H) in Hin. destruct Hin as (p & c & Hp & _).
  apply nth_error_Some. congruence.
Qed.

Theorem update_join_frame sets on wh ps cs ps' n :
  update_join sets on wh ps cs = Ok (ps', n) ->
  length ps' = length ps /\
  (forall i, ~ p_takes_part on wh ps cs i -> nth i ps' [] = nth i ps []).
Proof.
  unfold update_join. destruct (join_hits on wh ps cs) as [hs|e] eqn:H; cbn [bind]; [|discriminate].
  intros E. destruct (update_join_loop_frame sets ps cs hs [] ps ps' n E) as [L F].
  split; [exact L|]. intros i Hn. apply F. intros Hin. apply Hn.
  apply in_map_iff in Hin. destruct Hin as ([a b] & Ea & Hin). cbn in Ea. subst a.
  apply (join_hits_spec on wh ps cs hs H) in Hin. destruct Hin as (p & c & Hp & Hc & Ht). exists p, c, b. auto.
Qed.
