(* Proofs/Escape.v -- round trip of option.EscapeString / UnescapeString and of the identifier pair. *)
From Coq Require Import Lia.
Require Import Csvq.Model.Base Csvq.Model.Escape.
Open Scope N_scope.

Local Ltac neq_case c n := destruct (N.eqb_spec c n) as [->|?].

(* unescaping what escape_rune wrote for one rune, from the clean state, gives the rune back and
   leaves the clean state *)
Lemma unescape_loop_escape_rune_s : forall c rest,
  unescape_loop c_squote c_squote (escape_rune c_squote c ++ rest) false 0
  = c :: unescape_loop c_squote c_squote rest false 0.
Proof.
  intros c rest. unfold escape_rune.
  neq_case c c_bel; [reflexivity|].
  neq_case c c_bs; [reflexivity|].
  neq_case c c_ff; [reflexivity|].
  neq_case c c_lf; [reflexivity|].
  neq_case c c_cr; [reflexivity|].
  neq_case c c_tab; [reflexivity|].
  neq_case c c_vt; [reflexivity|].
  neq_case c c_squote; [reflexivity|].
  neq_case c c_bslash; [reflexivity|].
  cbn [app unescape_loop]. cbn [N.ltb N.compare N.eqb andb].
  destruct (N.eqb_spec c c_bslash) as [->|_]; [congruence|].
  destruct (N.eqb_spec c c_squote) as [->|_]; [congruence|].
  reflexivity.
Qed.

Lemma unescape_loop_escape_rune_i : forall c rest,
  unescape_loop c_btick c_btick (escape_rune c_btick c ++ rest) false 0
  = c :: unescape_loop c_btick c_btick rest false 0.
Proof.
  intros c rest. unfold escape_rune.
  neq_case c c_bel; [reflexivity|].
  neq_case c c_bs; [reflexivity|].
  neq_case c c_ff; [reflexivity|].
  neq_case c c_lf; [reflexivity|].
  neq_case c c_cr; [reflexivity|].
  neq_case c c_tab; [reflexivity|].
  neq_case c c_vt; [reflexivity|].
  neq_case c c_btick; [reflexivity|].
  neq_case c c_bslash; [reflexivity|].
  cbn [app unescape_loop]. cbn [N.ltb N.compare N.eqb andb].
  destruct (N.eqb_spec c c_bslash) as [->|_]; [congruence|].
  destruct (N.eqb_spec c c_btick) as [->|_]; [congruence|].
  reflexivity.
Qed.

Lemma unescape_escape_string_app : forall s rest,
  unescape_loop c_squote c_squote (escape_string s ++ rest) false 0
  = s ++ unescape_loop c_squote c_squote rest false 0.
Proof.
  induction s as [|c s IH]; intros rest; [reflexivity|].
  unfold escape_string, escape_with in *. cbn [flat_map].
  rewrite <- app_assoc, unescape_loop_escape_rune_s, IH. reflexivity.
Qed.

Lemma unescape_escape_identifier_app : forall s rest,
  unescape_loop c_btick c_btick (escape_identifier s ++ rest) false 0
  = s ++ unescape_loop c_btick c_btick rest false 0.
Proof.
  induction s as [|c s IH]; intros rest; [reflexivity|].
  unfold escape_identifier, escape_with in *. cbn [flat_map].
  rewrite <- app_assoc, unescape_loop_escape_rune_i, IH. reflexivity.
Qed.

Lemma unescape_escape_string : forall s, unescape_string (escape_string s) c_squote = s.
Proof.
  intros s. unfold unescape_string.
  rewrite <- (app_nil_r (escape_string s)), unescape_escape_string_app. cbn. apply app_nil_r.
Qed.

Lemma unescape_escape_identifier : forall s, unescape_identifier (escape_identifier s) c_btick = s.
Proof.
  intros s. unfold unescape_identifier.
  rewrite <- (app_nil_r (escape_identifier s)), unescape_escape_identifier_app. cbn. apply app_nil_r.
Qed.

(* with the double quotation mark as `quote` (a text scanned from "..." in the default mode) the
   round trip fails: the mark is not escaped by EscapeString but is special to UnescapeString *)
Lemma unescape_escape_string_dquote_fails :
  unescape_string (escape_string [97; c_dquote]) c_dquote <> [97; c_dquote].
Proof. vm_compute. discriminate. Qed.
