(** * Proofs about the fixed-length loader model (Model/Fixed.v): shape and termination *)
Require Import Csvq.Model.Base Csvq.Model.Value Csvq.Model.Conv Csvq.Model.Fixed.
From Coq Require Import Lia.
Open Scope Z_scope.

(** ** shape: every record has one cell per delimiter position *)
Lemma read_fields_length :
  forall ps inp rp dp le wn acc rec rest rp' le',
    read_fields ps inp rp dp le wn acc = PFields rec rest rp' le' ->
    length rec = (length acc + length ps)%nat.
Proof.
  induction ps as [|p ps IH]; intros inp rp dp le wn acc rec rest rp' le' H; cbn [read_fields] in H.
  - inversion H; subst. rewrite rev_length. cbn. lia.
  - destruct ((p <? 0) || (p <=? dp)) eqn:Hv; [discriminate H|].
    destruct le.
    + apply IH in H. cbn [length] in *. lia.
    + destruct (read_field inp rp p []) as [e|buf inp' rp2 le2] eqn:Hf; [discriminate H|].
      apply IH in H. cbn [length] in *. lia.
Qed.

Lemma parse_record_length :
  forall ps single wn inp rec rest,
    parse_record ps single wn inp = ROk rec rest -> length rec = length ps.
Proof.
  intros ps single wn inp rec rest H. unfold parse_record in H.
  destruct (read_fields ps inp 0 0 false wn []) as [e|rec0 inp' rp le] eqn:Hf; [discriminate H|].
  apply read_fields_length in Hf. cbn [length] in Hf.
  destruct (negb single && negb le).
  - destruct (skip_line inp' rp); [discriminate H|]. inversion H; subst. exact Hf.
  - inversion H; subst. exact Hf.
Qed.

Lemma read_all_rows :
  forall fuel ps single wn inp acc rows,
    read_all fuel ps single wn inp acc = LOk rows ->
    Forall (fun r => length r = length ps) acc ->
    Forall (fun r => length r = length ps) rows.
Proof.
  induction fuel as [|f IH]; intros ps single wn inp acc rows H Hacc; cbn [read_all] in H; [discriminate H|].
  destruct (parse_record ps single wn inp) as [e|rec inp'] eqn:Hp.
  - destruct e; try discriminate H. inversion H; subst.
    apply Forall_rev. exact Hacc.
  - eapply IH; [exact H|]. constructor; [|exact Hacc].
    eapply parse_record_length. exact Hp.
Qed.

Lemma autofill_length : forall h i, length (autofill i h) = length h.
Proof. induction h as [|w h IH]; intros i; cbn [autofill length]; [reflexivity | rewrite IH; reflexivity]. Qed.

Lemma default_names_length : forall n i, length (default_names i n) = n.
Proof. induction n as [|n IH]; intros i; cbn [default_names length]; [reflexivity | rewrite IH; reflexivity]. Qed.

(** fixed_load_rectangular: whatever the positions, options and input, a loaded table has one header name
    and one cell in every record per delimiter position *)
Lemma fixed_load_rect :
  forall ps single noheader wn inp t,
    fixed_load ps single noheader wn inp = FLTable t ->
    length (t_header t) = length ps /\ rectangular t.
Proof.
  intros ps single noheader wn inp t H. unfold fixed_load in H.
  set (hdr := if negb noheader && negb single
              then match parse_record ps single true inp with
                   | ROk rec rest => inr (Some (map cell_text rec), rest)
                   | RErr PE_EOF => inr (None, [])
                   | RErr e => inl e
                   end
              else inr (None, inp)) in H.
  assert (Hh : forall names rest, hdr = inr (Some names, rest) -> length names = length ps).
  { intros names rest Heq. unfold hdr in Heq.
    destruct (negb noheader && negb single); [|discriminate Heq].
    destruct (parse_record ps single true inp) as [e|rec rest0] eqn:Hp.
    - destruct e; discriminate Heq.
    - inversion Heq; subst. rewrite map_length. eapply parse_record_length. exact Hp. }
  destruct hdr as [e|[h rest]] eqn:Hhdr; [discriminate H|].
  destruct (read_all (S (length rest)) ps single wn rest []) as [e| |rows] eqn:Hr; try discriminate H.
  inversion H; subst t. clear H.
  assert (Hlen : length (autofill 1 match h with Some names => names | None => default_names 1 (length ps) end) = length ps).
  { rewrite autofill_length. destruct h as [names|].
    - apply (Hh names rest). reflexivity.
    - apply default_names_length. }
  split; [exact Hlen|].
  unfold rectangular. cbn [t_rows t_header]. rewrite Hlen.
  eapply read_all_rows; [exact Hr | constructor].
Qed.

(** ** progress and termination *)
Lemma step_newline_le :
  forall c rest b rest', step_newline c rest = Some (b, rest') -> (length rest' <= length rest)%nat.
Proof.
  intros c rest b rest' H. unfold step_newline in H.
  destruct (c =? 13)%N.
  - destruct rest as [|c2 r]; [discriminate H|].
    destruct (c2 =? 10)%N; inversion H; subst; cbn [length]; lia.
  - destruct (c =? 10)%N; inversion H; subst; lia.
Qed.

Lemma read_field_le :
  forall inp rp dp buf buf' rest rp' le,
    read_field inp rp dp buf = FDone buf' rest rp' le -> (length rest <= length inp)%nat.
Proof.
  induction inp as [|c inp IH]; intros rp dp buf buf' rest rp' le H; cbn [read_field] in H.
  - destruct (rp <? dp).
    + destruct (rp <? 1); [discriminate H|]. inversion H; subst. lia.
    + inversion H; subst. lia.
  - destruct (rp <? dp).
    + destruct (step_newline c inp) as [[b r']|] eqn:Hs; [|discriminate H].
      destruct b.
      * inversion H; subst. apply step_newline_le in Hs. cbn [length]. lia.
      * destruct (dp <? rp + utf8_len c); [discriminate H|].
        apply IH in H. cbn [length]. lia.
    + inversion H; subst. lia.
Qed.

(** the first field of a record (nothing consumed yet, a valid first position) consumes at least one rune *)
Lemma read_field_first :
  forall inp rp dp buf buf' rest rp' le,
    rp < 1 -> rp < dp ->
    read_field inp rp dp buf = FDone buf' rest rp' le -> (length rest < length inp)%nat.
Proof.
  intros inp rp dp buf buf' rest rp' le H1 Hd H.
  destruct inp as [|c inp]; cbn [read_field] in H.
  - assert (Hb : (rp <? dp) = true) by (apply Z.ltb_lt; exact Hd). rewrite Hb in H.
    assert (Hb1 : (rp <? 1) = true) by (apply Z.ltb_lt; exact H1). rewrite Hb1 in H. discriminate H.
  - assert (Hb : (rp <? dp) = true) by (apply Z.ltb_lt; exact Hd). rewrite Hb in H.
    destruct (step_newline c inp) as [[b r']|] eqn:Hs; [|discriminate H].
    destruct b.
    + inversion H; subst. apply step_newline_le in Hs. cbn [length]. lia.
    + destruct (dp <? rp + utf8_len c); [discriminate H|].
      apply read_field_le in H. cbn [length]. lia.
Qed.

Lemma read_fields_le :
  forall ps inp rp dp le wn acc rec rest rp' le',
    read_fields ps inp rp dp le wn acc = PFields rec rest rp' le' -> (length rest <= length inp)%nat.
Proof.
  induction ps as [|p ps IH]; intros inp rp dp le wn acc rec rest rp' le' H; cbn [read_fields] in H.
  - inversion H; subst. lia.
  - destruct ((p <? 0) || (p <=? dp)); [discriminate H|].
    destruct le.
    + eapply IH. exact H.
    + destruct (read_field inp rp p []) as [e|buf inp' rp2 le2] eqn:Hf; [discriminate H|].
      apply read_field_le in Hf. apply IH in H. lia.
Qed.

Lemma skip_line_le :
  forall inp rp rest, skip_line inp rp = SDone rest -> (length rest <= length inp)%nat.
Proof.
  induction inp as [|c inp IH]; intros rp rest H; cbn [skip_line] in H.
  - destruct (rp <? 1); [discriminate H|]. inversion H; subst. lia.
  - destruct (step_newline c inp) as [[b r']|] eqn:Hs; [|discriminate H].
    destruct b.
    + inversion H; subst. apply step_newline_le in Hs. cbn [length]. lia.
    + apply IH in H. cbn [length]. lia.
Qed.

Lemma skip_line_first :
  forall inp rp rest, rp < 1 -> skip_line inp rp = SDone rest -> (length rest < length inp)%nat.
Proof.
  intros inp rp rest H1 H. destruct inp as [|c inp]; cbn [skip_line] in H.
  - assert (Hb : (rp <? 1) = true) by (apply Z.ltb_lt; exact H1). rewrite Hb in H. discriminate H.
  - destruct (step_newline c inp) as [[b r']|] eqn:Hs; [|discriminate H].
    destruct b.
    + inversion H; subst. apply step_newline_le in Hs. cbn [length]. lia.
    + apply skip_line_le in H. cbn [length]. lia.
Qed.

(** parse_record_progress: unless the reader is in single-line mode with an empty position list, every
    record that is returned has consumed at least one rune *)
Lemma parse_record_progress :
  forall ps single wn inp rec rest,
    ps <> [] \/ single = false ->
    parse_record ps single wn inp = ROk rec rest -> (length rest < length inp)%nat.
Proof.
  intros ps single wn inp rec rest Hc H. unfold parse_record in H.
  destruct ps as [|p ps].
  - destruct Hc as [Hc|Hc]; [exfalso; apply Hc; reflexivity|]. subst single.
    cbn [read_fields rev negb andb] in H.
    destruct (skip_line inp 0) as [e|r] eqn:Hs; [discriminate H|].
    inversion H; subst. eapply skip_line_first; [|exact Hs]. lia.
  - cbn [read_fields] in H.
    destruct ((p <? 0) || (p <=? 0)) eqn:Hv; [discriminate H|].
    apply orb_false_iff in Hv. destruct Hv as [_ Hv]. apply Z.leb_gt in Hv.
    destruct (read_field inp 0 p []) as [e|buf inp' rp2 le2] eqn:Hf; [discriminate H|].
    assert (Hlt : (length inp' < length inp)%nat) by (eapply read_field_first; [| |exact Hf]; lia).
    destruct (read_fields ps inp' rp2 p le2 wn [cell_of wn buf]) as [e|rec0 inp2 rp3 le3] eqn:Hr; [discriminate H|].
    apply read_fields_le in Hr.
    destruct (negb single && negb le3).
    + destruct (skip_line inp2 rp3) as [e|r] eqn:Hs; [discriminate H|].
      inversion H; subst. apply skip_line_le in Hs. lia.
    + inversion H; subst. lia.
Qed.

Lemma read_all_enough_fuel :
  forall fuel ps single wn inp acc,
    ps <> [] \/ single = false ->
    (length inp < fuel)%nat ->
    read_all fuel ps single wn inp acc <> LOutOfFuel.
Proof.
  induction fuel as [|f IH]; intros ps single wn inp acc Hc Hlt; [lia|].
  cbn [read_all].
  destruct (parse_record ps single wn inp) as [e|rec inp'] eqn:Hp.
  - destruct e; discriminate.
  - apply IH; [exact Hc|]. apply (parse_record_progress _ _ _ _ _ _ Hc) in Hp. lia.
Qed.

(** fixed_load terminates (never out of fuel) unless single-line mode meets an empty position list *)
Lemma fixed_load_terminates :
  forall ps single noheader wn inp,
    ps <> [] \/ single = false ->
    fixed_load ps single noheader wn inp <> FLOutOfFuel.
Proof.
  intros ps single noheader wn inp Hc H. unfold fixed_load in H.
  destruct (if negb noheader && negb single
            then match parse_record ps single true inp with
                 | ROk rec rest => inr (Some (map cell_text rec), rest)
                 | RErr PE_EOF => inr (None, [])
                 | RErr e => inl e
                 end
            else inr (None, inp)) as [e|[h rest]]; [discriminate H|].
  destruct (read_all (S (length rest)) ps single wn rest []) as [e| |rows] eqn:Hr; try discriminate H.
  eapply read_all_enough_fuel; [exact Hc| |exact Hr]. lia.
Qed.
