(* FloatFacts.v -- the few facts about binary64 comparison the value layer needs, derived from the
   specification of the primitive operations in Coq.Floats.FloatAxioms. *)
From Coq Require Import ZArith Floats Bool Lia.
Require Import Csvq.Model.Base Csvq.Model.Value Csvq.Model.Compare.

Definition fcmp (a b : float) : option comparison := SFcompare (Prim2SF a) (Prim2SF b).

Lemma SFcompare_swap x y : SFcompare y x = option_map CompOpp (SFcompare x y).
Proof.
  destruct x as [sx|sx| |sx mx ex], y as [sy|sy| |sy my ey]; simpl; try reflexivity;
    try (destruct sx; reflexivity); try (destruct sy; reflexivity);
    try (destruct sx, sy; reflexivity).
  destruct sx, sy; simpl; try reflexivity;
    change (Pos.compare_cont Eq my mx) with (Pos.compare my mx);
    change (Pos.compare_cont Eq mx my) with (Pos.compare mx my).
  - rewrite (Z.compare_antisym ex ey). destruct (ex ?= ey)%Z; simpl; try reflexivity.
    rewrite (Pos.compare_antisym mx my). reflexivity.
  - rewrite (Z.compare_antisym ex ey). destruct (ex ?= ey)%Z; simpl; try reflexivity.
    rewrite (Pos.compare_antisym mx my). destruct (mx ?= my)%positive; reflexivity.
Qed.

Lemma fcmp_swap a b : fcmp b a = option_map CompOpp (fcmp a b).
Proof. apply SFcompare_swap. Qed.

Lemma eqb_fcmp a b : PrimFloat.eqb a b = match fcmp a b with Some Eq => true | _ => false end.
Proof. rewrite FloatAxioms.eqb_spec. reflexivity. Qed.
Lemma ltb_fcmp a b : PrimFloat.ltb a b = match fcmp a b with Some Lt => true | _ => false end.
Proof. rewrite FloatAxioms.ltb_spec. reflexivity. Qed.

Lemma SFcompare_refl x : SFcompare x x = match x with S754_nan => None | _ => Some Eq end.
Proof.
  destruct x as [s|s| |s m e]; simpl; try reflexivity; try (destruct s; reflexivity).
  destruct s; change (Pos.compare_cont Eq m m) with (Pos.compare m m); rewrite Z.compare_refl, Pos.compare_refl; reflexivity.
Qed.

Lemma is_nan_spec a : is_nan a = match Prim2SF a with S754_nan => true | _ => false end.
Proof.
  unfold is_nan. rewrite eqb_fcmp. unfold fcmp. rewrite SFcompare_refl.
  destruct (Prim2SF a); reflexivity.
Qed.

Lemma SFcompare_none x y :
  SFcompare x y = None ->
  (match x with S754_nan => true | _ => false end || match y with S754_nan => true | _ => false end) = true.
Proof.
  destruct x as [sx|sx| |sx mx ex], y as [sy|sy| |sy my ey]; simpl; intros H; try reflexivity; try discriminate.
Qed.

Lemma SFcompare_some x y c :
  SFcompare x y = Some c ->
  (match x with S754_nan => true | _ => false end || match y with S754_nan => true | _ => false end) = false.
Proof.
  destruct x as [sx|sx| |sx mx ex], y as [sy|sy| |sy my ey]; simpl; intros H; try reflexivity; try discriminate.
Qed.

(* compare_float is the four-way reading of the IEEE comparison *)
Lemma compare_float_char a b :
  compare_float a b = match fcmp a b with
                      | None => CNotEq | Some Eq => CEq | Some Lt => CLess | Some Gt => CGreater end.
Proof.
  unfold compare_float. rewrite !is_nan_spec, eqb_fcmp, ltb_fcmp. unfold fcmp.
  destruct (SFcompare (Prim2SF a) (Prim2SF b)) as [c|] eqn:E.
  - rewrite (SFcompare_some _ _ _ E). destruct c; reflexivity.
  - rewrite (SFcompare_none _ _ E). reflexivity.
Qed.

Definition swap_res r := match r with CLess => CGreater | CGreater => CLess | x => x end.

Lemma compare_float_swap a b : compare_float b a = swap_res (compare_float a b).
Proof.
  rewrite !compare_float_char, fcmp_swap. destruct (fcmp a b) as [[| |]|]; reflexivity.
Qed.

Lemma compare_int_swap a b : compare_int b a = swap_res (compare_int a b).
Proof.
  unfold compare_int.
  destruct (Z.eqb_spec a b), (Z.eqb_spec b a), (Z.ltb_spec a b), (Z.ltb_spec b a); simpl; try reflexivity; lia.
Qed.

Lemma str_cmp_swap : forall a b, str_cmp b a = CompOpp (str_cmp a b).
Proof.
  induction a as [|x a IH]; destruct b as [|y b]; simpl; auto.
  rewrite (N.compare_antisym x y). destruct (N.compare x y); simpl; auto.
Qed.
