(* FloatFacts.v -- the few facts about binary64 comparison the value layer needs, derived from the
   specification of the primitive operations in Coq.Floats.FloatAxioms. *)
From Coq Require Import ZArith Floats Bool Lia.
Require Import Csvq.Model.Base Csvq.Model.Value Csvq.Model.Compare.

Definition fcmp (a b : float) : option comparison := SFcompare (Prim2SF a) (Prim2SF b).

Lemma SFcompare_swap x y : SFcompare y x = option_map CompOpp (SFcompare x y).
Proof.
  destruct x as [sx|sx| |sx mx ex], y as [sy|sy| |sy my ey]; simpl; try reflexivity;
    try (destruct sx; reflexivity); try (destruct sy; reflexivity);
    try (destruct sx, sy; reflexivity).
  destruct sx, sy; simpl; try reflexivity;
    change (Pos.compare_cont Eq my mx) with (Pos.compare my mx);
    change (Pos.compare_cont Eq mx my) with (Pos.compare mx my).
  - rewrite (Z.compare_antisym ex ey). destruct (ex ?= ey)%Z; simpl; try reflexivity.
    rewrite (Pos.compare_antisym mx my). reflexivity.
  - rewrite (Z.compare_antisym ex ey). destruct (ex ?= ey)%Z; simpl; try reflexivity.
    rewrite (Pos.compare_antisym mx my). destruct (mx ?= my)%positive; reflexivity.
Qed.

Lemma fcmp_swap a b : fcmp b a = option_map CompOpp (fcmp a b).
Proof. apply SFcompare_swap. Qed.

Lemma eqb_fcmp a b : PrimFloat.eqb a b = match fcmp a b with Some Eq => true | _ => false end.
Proof. rewrite FloatAxioms.eqb_spec. reflexivity. Qed.
Lemma ltb_fcmp a b : PrimFloat.ltb a b = match fcmp a b with Some Lt => true | _ => false end.
Proof. rewrite FloatAxioms.ltb_spec. reflexivity. Qed.

Lemma SFcompare_refl x : SFcompare x x = match x with S754_nan => None | _ => Some Eq end.
Proof.
  destruct x as [s|s| |s m e]; simpl; try reflexivity; try (destruct s; reflexivity).
  destruct s; change (Pos.compare_cont Eq m m) with (Pos.compare m m); rewrite Z.compare_refl, Pos.compare_refl; reflexivity.
Qed.

Lemma is_nan_spec a : is_nan a = match Prim2SF a with S754_nan => true | _ => false end.
Proof.
  unfold is_nan. rewrite eqb_fcmp. unfold fcmp. rewrite SFcompare_refl.
  destruct (Prim2SF a); reflexivity.
Qed.

Lemma SFcompare_none x y :
  SFcompare x y = None ->
  (match x with S754_nan => true | _ => false end || match y with S754_nan => true | _ => false end) = true.
Proof.
  destruct x as [sx|sx| |sx mx ex], y as [sy|sy| |sy my ey]; simpl; intros H; try reflexivity; try discriminate.
Qed.

Lemma SFcompare_some x y c :
  SFcompare x y = Some c ->
  (match x with S754_nan => true | _ => false end || match y with S754_nan => true | _ => false end) = false.
Proof.
  destruct x as [sx|sx| |sx mx ex], y as [sy|sy| |sy my ey]; simpl; intros H; try reflexivity; try discriminate.
Qed.

(* compare_float is the four-way reading of the IEEE comparison *)
Lemma compare_float_char a b :
  compare_float a b = match fcmp a b with
                      | None => CNotEq | Some Eq => CEq | Some Lt => CLess | Some Gt => CGreater end.
Proof.
  unfold compare_float. rewrite !is_nan_spec, eqb_fcmp, ltb_fcmp. unfold fcmp.
  destruct (SFcompare (Prim2SF a) (Prim2SF b)) as [c|] eqn:E.
  - rewrite (SFcompare_some _ _ _ E). destruct c; reflexivity.
  - rewrite (SFcompare_none _ _ E). reflexivity.
Qed.

Definition swap_res r := match r with CLess => CGreater | CGreater => CLess | x => x end.

Lemma compare_float_swap a b : compare_float b a = swap_res (compare_float a b).
Proof.
  rewrite !compare_float_char, fcmp_swap. destruct (fcmp a b) as [[| |]|]; reflexivity.
Qed.

Lemma compare_int_swap a b : compare_int b a = swap_res (compare_int a b).
Proof.
  unfold compare_int.
  destruct (Z.eqb_spec a b), (Z.eqb_spec b a), (Z.ltb_spec a b), (Z.ltb_spec b a); simpl; try reflexivity; lia.
Qed.

Lemma str_cmp_swap : forall a b, str_cmp b a = CompOpp (str_cmp a b).
Proof.
  induction a as [|x a IH]; destruct b as [|y b]; simpl; auto.
  rewrite (N.compare_antisym x y). destruct (N.compare x y); simpl; auto.
Qed.

(* ---- float_same is "equal, with all NaNs identified" ------------------------------------------ *)
Lemma SFcompare_eq_same x y :
  SFcompare x y = Some Eq ->
  match x, y with
  | S754_zero _, S754_zero _ => True
  | _, _ => x = y
  end.
Proof.
  destruct x as [sx|sx| |sx mx ex], y as [sy|sy| |sy my ey]; simpl; intros H; try exact I; try discriminate;
    try (destruct sx; discriminate); try (destruct sy; discriminate).
  - destruct sx, sy; try discriminate; reflexivity.
  - destruct sx, sy; try discriminate.
    + destruct (Z.compare_spec ex ey) as [E|L|G]; try discriminate. subst.
      change (Pos.compare_cont Eq mx my) with (Pos.compare mx my) in H.
      destruct (Pos.compare_spec mx my) as [E|L|G]; try discriminate. subst. reflexivity.
    + destruct (Z.compare_spec ex ey) as [E|L|G]; try discriminate. subst.
      change (Pos.compare_cont Eq mx my) with (Pos.compare mx my) in H.
      destruct (Pos.compare_spec mx my) as [E|L|G]; try discriminate. subst. reflexivity.
Qed.

Lemma float_same_spec a b :
  float_same a b = true <-> (is_nan a = true /\ is_nan b = true) \/ (is_nan a = false /\ a = b).
Proof.
  unfold float_same. split.
  - destruct (is_nan a) eqn:Na; [intros H; left; auto|].
    destruct (is_nan b) eqn:Nb; [discriminate|].
    intros H. apply andb_true_iff in H. destruct H as [He Hs]. right. split; [reflexivity|].
    rewrite eqb_fcmp in He. unfold fcmp in He. unfold f_signbit in Hs.
    apply Prim2SF_inj.
    destruct (SFcompare (Prim2SF a) (Prim2SF b)) as [[| |]|] eqn:C; try discriminate.
    pose proof (SFcompare_eq_same _ _ C) as S.
    destruct (Prim2SF a) as [sa|sa| |sa ma ea], (Prim2SF b) as [sb|sb| |sb mb eb]; try exact S.
    destruct sa, sb; try discriminate; reflexivity.
  - intros [[Na Nb]|[Na E]].
    + rewrite Na. exact Nb.
    + subst b. rewrite Na. apply andb_true_iff. split.
      * unfold is_nan in Na. apply negb_false_iff in Na. exact Na.
      * destruct (f_signbit a); reflexivity.
Qed.

Lemma float_same_refl a : float_same a a = true.
Proof. apply float_same_spec. destruct (is_nan a) eqn:N; [left; auto | right; auto]. Qed.
Lemma float_same_sym a b : float_same a b = float_same b a.
Proof.
  destruct (float_same a b) eqn:E1, (float_same b a) eqn:E2; try reflexivity.
  - apply float_same_spec in E1. assert (float_same b a = true); [|congruence].
    apply float_same_spec. destruct E1 as [[H1 H2]|[H1 H2]]; [left; auto | subst; right; auto].
  - apply float_same_spec in E2. assert (float_same a b = true); [|congruence].
    apply float_same_spec. destruct E2 as [[H1 H2]|[H1 H2]]; [left; auto | subst; right; auto].
Qed.
Lemma float_same_trans a b c : float_same a b = true -> float_same b c = true -> float_same a c = true.
Proof.
  intros H1 H2. apply float_same_spec in H1. apply float_same_spec in H2. apply float_same_spec.
  destruct H1 as [[A B]|[A ->]], H2 as [[C D]|[C E]]; try (left; split; assumption); try congruence;
    try (right; split; assumption).
Qed.
