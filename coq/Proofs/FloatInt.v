(* Float and integer arithmetic agree on integral operands (C06): for integers a, b with
   |a|, |b|, |a op b| < 2^53 and op in {+, -, *}, the float64 operation on float64(a), float64(b)
   is finite and its real value is exactly a op b.  Through Flocq (binary64 = binary_float 53 1024). *)
From Coq Require Import ZArith Reals Floats Lia Lra.
From Flocq Require Import Core.Core IEEE754.BinarySingleNaN IEEE754.PrimFloat.
Require Import Csvq.Model.Base Csvq.Model.Value Csvq.Model.Arith.
Open Scope Z_scope.

Notation fexp64 := (SpecFloat.fexp prec emax).
Notation rnd := (round radix2 fexp64 (round_mode mode_NE)).

Lemma int_format z : Z.abs z < 2 ^ 53 -> generic_format radix2 fexp64 (IZR z).
Proof.
  intros Hz.
  replace (IZR z) with (F2R (Float radix2 z 0)) by (unfold F2R; simpl; ring).
  apply generic_format_F2R. intros Hnz.
  unfold cexp.
  assert (Hm : (mag radix2 (F2R (Float radix2 z 0)) <= 53)%Z).
  { apply mag_le_bpow.
    - apply F2R_neq_0. exact Hnz.
    - rewrite <- F2R_Zabs. unfold F2R; simpl. rewrite Rmult_1_r.
      change (bpow radix2 53) with (IZR (2 ^ 53)). apply IZR_lt. exact Hz. }
  unfold SpecFloat.fexp, SpecFloat.emin, prec, emax. lia.
Qed.

Lemma rnd_int z : Z.abs z < 2 ^ 53 -> rnd (IZR z) = IZR z.
Proof. intros H. apply round_generic; [apply valid_rnd_N | apply int_format; exact H]. Qed.

Lemma small_lt_emax z : Z.abs z < 2 ^ 53 -> (Rabs (IZR z) < bpow radix2 emax)%R.
Proof.
  intros H. rewrite <- abs_IZR. apply Rlt_trans with (IZR (2 ^ 53)).
  - apply IZR_lt; exact H.
  - change (bpow radix2 emax) with (IZR (2 ^ 1024)). apply IZR_lt. reflexivity.
Qed.

(* the binary64 image of float64(z) for a small integer z: finite, with real value z *)
Definition fB (z : Z) := Prim2B (z2f z).

Lemma of_uint63_B n : 0 <= n < 2 ^ 53 ->
  B2R (Prim2B (PrimFloat.of_uint63 (Uint63.of_Z n))) = IZR n /\
  is_finite (Prim2B (PrimFloat.of_uint63 (Uint63.of_Z n))) = true.
Proof.
  intros Hn. rewrite of_int63_equiv.
  assert (E : Uint63.to_Z (Uint63.of_Z n) = n).
  { rewrite Uint63.of_Z_spec. apply Z.mod_small. change Uint63.wB with (2 ^ 63). lia. }
  rewrite E.
  pose proof (binary_normalize_correct prec emax Hprec Hmax mode_NE n 0 false) as C.
  cbv zeta in C.
  replace (F2R (Float radix2 n 0)) with (IZR n) in C by (unfold F2R; simpl; ring).
  rewrite rnd_int in C by (rewrite Z.abs_eq; lia).
  rewrite Rlt_bool_true in C by (apply small_lt_emax; rewrite Z.abs_eq; lia).
  destruct C as (C1 & C2 & _). split; assumption.
Qed.

Lemma fB_correct z : Z.abs z < 2 ^ 53 -> B2R (fB z) = IZR z /\ is_finite (fB z) = true.
Proof.
  intros Hz. unfold fB, z2f.
  destruct (Z.eqb_spec z min_int64) as [E|_].
  { exfalso. subst z. unfold min_int64, two63 in Hz. simpl in Hz. lia. }
  destruct (Z.ltb_spec z 0) as [Hn|Hp].
  - rewrite opp_equiv. rewrite B2R_Bopp, is_finite_Bopp.
    destruct (of_uint63_B (- z) ltac:(lia)) as [A B]. rewrite A, B. split; [|reflexivity].
    rewrite opp_IZR. ring.
  - apply of_uint63_B. lia.
Qed.

Theorem plus_agree a b :
  Z.abs a < 2 ^ 53 -> Z.abs b < 2 ^ 53 -> Z.abs (a + b) < 2 ^ 53 ->
  B2R (Prim2B (PrimFloat.add (z2f a) (z2f b))) = IZR (a + b) /\
  is_finite (Prim2B (PrimFloat.add (z2f a) (z2f b))) = true.
Proof.
  intros Ha Hb Hab. rewrite add_equiv. fold (fB a). fold (fB b).
  destruct (fB_correct a Ha) as [A1 A2]. destruct (fB_correct b Hb) as [B1 B2].
  pose proof (Bplus_correct prec emax Hprec Hmax mode_NE (fB a) (fB b) A2 B2) as C.
  rewrite A1, B1, <- plus_IZR in C.
  rewrite rnd_int in C by exact Hab.
  rewrite Rlt_bool_true in C by (apply small_lt_emax; exact Hab).
  destruct C as (C1 & C2 & _). split; assumption.
Qed.

Theorem minus_agree a b :
  Z.abs a < 2 ^ 53 -> Z.abs b < 2 ^ 53 -> Z.abs (a - b) < 2 ^ 53 ->
  B2R (Prim2B (PrimFloat.sub (z2f a) (z2f b))) = IZR (a - b) /\
  is_finite (Prim2B (PrimFloat.sub (z2f a) (z2f b))) = true.
Proof.
  intros Ha Hb Hab. rewrite sub_equiv. fold (fB a). fold (fB b).
  destruct (fB_correct a Ha) as [A1 A2]. destruct (fB_correct b Hb) as [B1 B2].
  pose proof (Bminus_correct prec emax Hprec Hmax mode_NE (fB a) (fB b) A2 B2) as C.
  rewrite A1, B1, <- minus_IZR in C.
  rewrite rnd_int in C by exact Hab.
  rewrite Rlt_bool_true in C by (apply small_lt_emax; exact Hab).
  destruct C as (C1 & C2 & _). split; assumption.
Qed.

Theorem mult_agree a b :
  Z.abs a < 2 ^ 53 -> Z.abs b < 2 ^ 53 -> Z.abs (a * b) < 2 ^ 53 ->
  B2R (Prim2B (PrimFloat.mul (z2f a) (z2f b))) = IZR (a * b) /\
  is_finite (Prim2B (PrimFloat.mul (z2f a) (z2f b))) = true.
Proof.
  intros Ha Hb Hab. rewrite mul_equiv. fold (fB a). fold (fB b).
  destruct (fB_correct a Ha) as [A1 A2]. destruct (fB_correct b Hb) as [B1 B2].
  pose proof (Bmult_correct prec emax Hprec Hmax mode_NE (fB a) (fB b)) as C.
  rewrite A1, B1, <- mult_IZR in C.
  rewrite rnd_int in C by exact Hab.
  rewrite Rlt_bool_true in C by (apply small_lt_emax; exact Hab).
  destruct C as (C1 & C2 & _). rewrite A2, B2 in C2. split; assumption.
Qed.
