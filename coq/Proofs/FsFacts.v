(* FsFacts.v -- lemmas about the finite-map file system of Model/Fs.v (used by C10 and C11). *)
From Coq Require Import Lia.
Require Import Csvq.Model.Base Csvq.Model.Fs.

Lemma kind_eqb_eq : forall a b, kind_eqb a b = true <-> a = b.
Proof.
  intros a b; destruct a, b; simpl; split; intros H; try discriminate; try reflexivity.
  - apply N.eqb_eq in H. subst. reflexivity.
  - inversion H. apply N.eqb_refl.
Qed.

Lemma path_eqb_eq : forall a b, path_eqb a b = true <-> a = b.
Proof.
  intros [ka ta] [kb tb]. unfold path_eqb. simpl. rewrite andb_true_iff, kind_eqb_eq, N.eqb_eq.
  split; [intros [H1 H2]; subst; reflexivity | intros H; inversion H; auto].
Qed.

Lemma path_eqb_refl : forall a, path_eqb a a = true.
Proof. intros a. apply path_eqb_eq. reflexivity. Qed.

Lemma path_eqb_neq : forall a b, a <> b -> path_eqb a b = false.
Proof.
  intros a b H. destruct (path_eqb a b) eqn:E; [|reflexivity].
  apply path_eqb_eq in E. contradiction.
Qed.

Lemma path_eq_dec : forall a b : path, {a = b} + {a <> b}.
Proof.
  intros a b. destruct (path_eqb a b) eqn:E.
  - left. apply path_eqb_eq. exact E.
  - right. intros H. apply path_eqb_eq in H. congruence.
Qed.

Lemma lookup_del_same : forall s p, lookup (del s p) p = None.
Proof.
  induction s as [|[q c] s IH]; intros p; simpl; [reflexivity|].
  destruct (path_eqb q p) eqn:E; [apply IH|]. simpl. rewrite E. apply IH.
Qed.

Lemma lookup_del_other : forall s p q, p <> q -> lookup (del s q) p = lookup s p.
Proof.
  induction s as [|[r c] s IH]; intros p q H; simpl; [reflexivity|].
  destruct (path_eqb r q) eqn:E.
  - apply path_eqb_eq in E. subst r. rewrite (path_eqb_neq q p) by congruence. apply IH. exact H.
  - simpl. destruct (path_eqb r p); [reflexivity|]. apply IH. exact H.
Qed.

Lemma lookup_set_same : forall s p c, lookup (set s p c) p = Some c.
Proof. intros. unfold set. simpl. rewrite path_eqb_refl. reflexivity. Qed.

Lemma lookup_set_other : forall s p q c, p <> q -> lookup (set s q c) p = lookup s p.
Proof.
  intros s p q c H. unfold set. simpl. rewrite (path_eqb_neq q p) by congruence.
  apply lookup_del_other. exact H.
Qed.

(* the binding of p after one call, as a function of the bindings before *)
Lemma step_frame : forall s o p, ~ In p (op_paths o) -> lookup (step s o) p = lookup s p.
Proof.
  intros s o p H. destruct o as [q|q|q d|q|q|a b]; simpl in *.
  - assert (p <> q) by (intros E; apply H; left; congruence).
    destruct (lookup s q); [reflexivity|]. apply lookup_set_other. assumption.
  - assert (p <> q) by (intros E; apply H; left; congruence).
    destruct (lookup s q); [|reflexivity]. apply lookup_set_other. assumption.
  - assert (p <> q) by (intros E; apply H; left; congruence).
    destruct (lookup s q); [|reflexivity]. apply lookup_set_other. assumption.
  - reflexivity.
  - assert (p <> q) by (intros E; apply H; left; congruence).
    apply lookup_del_other. assumption.
  - assert (p <> a) by (intros E; apply H; left; congruence).
    assert (p <> b) by (intros E; apply H; right; left; congruence).
    destruct (lookup s a); [|reflexivity].
    rewrite lookup_set_other by assumption. apply lookup_del_other. assumption.
Qed.

Lemma run_app : forall a b s, run s (a ++ b) = run (run s a) b.
Proof. intros. unfold run. apply fold_left_app. Qed.

Lemma run_frame : forall ops s p, (forall o, In o ops -> ~ In p (op_paths o)) -> lookup (run s ops) p = lookup s p.
Proof.
  induction ops as [|o ops IH]; intros s p H; [reflexivity|].
  simpl. rewrite IH by (intros o' Ho'; apply H; right; exact Ho').
  apply step_frame. apply H. left. reflexivity.
Qed.

Lemma firstn_In : forall {A} (l : list A) k x, In x (firstn k l) -> In x l.
Proof.
  induction l as [|a l IH]; intros k x H; destruct k; simpl in *; try contradiction.
  destruct H as [H|H]; [left; exact H | right; apply (IH k); exact H].
Qed.

(* ---- table locality -------------------------------------------------------------------------- *)
Definition agree_on (t : N) (s s' : fs) : Prop := forall kd, lookup s (kd, t) = lookup s' (kd, t).

Lemma step_other_tbl : forall s o t, op_local o = true -> op_tbl o <> t -> agree_on t (step s o) s.
Proof.
  intros s o t Hl Ht kd. apply step_frame.
  destruct o as [q|q|q d|q|q|a b]; simpl in *; intros H;
    repeat (destruct H as [H|H]; [subst; simpl in *; try congruence|]); try contradiction.
  apply N.eqb_eq in Hl. congruence.
Qed.

Lemma step_agree : forall s s' o t, op_local o = true -> op_tbl o = t ->
  agree_on t s s' -> agree_on t (step s o) (step s' o).
Proof.
  intros s s' o t Hl Ht Ha kd.
  assert (Hp : forall q, snd q = t -> lookup s q = lookup s' q).
  { intros [k' t'] Hq. simpl in Hq. subst t'. apply Ha. }
  destruct o as [q|q|q d|q|q|a b]; simpl in *.
  - rewrite <- (Hp q Ht). destruct (lookup s q); [apply Ha|].
    destruct (path_eq_dec (kd, t) q) as [E|E].
    + subst q. rewrite !lookup_set_same. reflexivity.
    + rewrite !lookup_set_other by exact E. apply Ha.
  - rewrite <- (Hp q Ht). destruct (lookup s q); [|apply Ha].
    destruct (path_eq_dec (kd, t) q) as [E|E].
    + subst q. rewrite !lookup_set_same. reflexivity.
    + rewrite !lookup_set_other by exact E. apply Ha.
  - rewrite <- (Hp q Ht). destruct (lookup s q); [|apply Ha].
    destruct (path_eq_dec (kd, t) q) as [E|E].
    + subst q. rewrite !lookup_set_same. reflexivity.
    + rewrite !lookup_set_other by exact E. apply Ha.
  - apply Ha.
  - destruct (path_eq_dec (kd, t) q) as [E|E].
    + subst q. rewrite !lookup_del_same. reflexivity.
    + rewrite !lookup_del_other by exact E. apply Ha.
  - rewrite <- (Hp a Ht). destruct (lookup s a); [|apply Ha].
    destruct (path_eq_dec (kd, t) b) as [E|E].
    + subst b. rewrite !lookup_set_same. reflexivity.
    + rewrite !lookup_set_other by exact E.
      destruct (path_eq_dec (kd, t) a) as [E2|E2].
      * subst a. rewrite !lookup_del_same. reflexivity.
      * rewrite !lookup_del_other by exact E2. apply Ha.
Qed.

Definition on_tbl (t : N) (o : op) : bool := N.eqb (op_tbl o) t.

Lemma run_filter_agree : forall ops s s' t, forallb op_local ops = true ->
  agree_on t s s' -> agree_on t (run s ops) (run s' (filter (on_tbl t) ops)).
Proof.
  induction ops as [|o ops IH]; intros s s' t Hl Ha; [exact Ha|].
  simpl in Hl. apply andb_true_iff in Hl. destruct Hl as [Hlo Hl].
  simpl. unfold on_tbl at 1. destruct (N.eqb (op_tbl o) t) eqn:E.
  - apply N.eqb_eq in E. simpl. apply IH; [exact Hl|]. apply step_agree; assumption.
  - apply N.eqb_neq in E. apply IH; [exact Hl|].
    intros kd. rewrite (step_other_tbl s o t Hlo E kd). apply Ha.
Qed.

Lemma run_filter_tbl : forall ops s t kd, forallb op_local ops = true ->
  lookup (run s ops) (kd, t) = lookup (run s (filter (on_tbl t) ops)) (kd, t).
Proof. intros. apply run_filter_agree; [assumption|]. intros k'. reflexivity. Qed.

Lemma filter_firstn : forall {A} (P : A -> bool) l k, exists k', filter P (firstn k l) = firstn k' (filter P l).
Proof.
  induction l as [|a l IH]; intros k.
  - exists 0%nat. destruct k; reflexivity.
  - destruct k as [|k]; [exists 0%nat; reflexivity|].
    simpl. destruct (IH k) as [k' Hk']. destruct (P a).
    + exists (S k'). simpl. rewrite Hk'. reflexivity.
    + exists k'. exact Hk'.
Qed.

Lemma forallb_firstn : forall {A} (P : A -> bool) l k, forallb P l = true -> forallb P (firstn k l) = true.
Proof.
  intros A P l k H. apply forallb_forall. intros x Hx.
  rewrite forallb_forall in H. apply H. apply (firstn_In l k). exact Hx.
Qed.

(* filter of a flat_map whose blocks are each about one table *)
Lemma filter_flat_map_none : forall {A} (f : A -> list op) (key : A -> N) l t,
  (forall x o, In o (f x) -> op_tbl o = key x) -> ~ In t (map key l) ->
  filter (on_tbl t) (flat_map f l) = [].
Proof.
  intros A f key l t Hf. induction l as [|a l IH]; intros Hn; [reflexivity|].
  simpl. rewrite filter_app. rewrite IH by (intros H; apply Hn; right; exact H).
  rewrite app_nil_r.
  assert (Hk : key a <> t) by (intros H; apply Hn; left; exact H).
  assert (G : forall l', (forall o, In o l' -> op_tbl o = key a) -> filter (on_tbl t) l' = []).
  { induction l' as [|o l' IHl]; intros H; [reflexivity|]. simpl. unfold on_tbl at 1.
    rewrite (H o (or_introl eq_refl)). apply N.eqb_neq in Hk. rewrite Hk.
    apply IHl. intros o' Ho'. apply H. right. exact Ho'. }
  apply G. intros o Ho. apply (Hf a o Ho).
Qed.

Lemma filter_all : forall l t, (forall o, In o l -> op_tbl o = t) -> filter (on_tbl t) l = l.
Proof.
  induction l as [|o l IH]; intros t H; [reflexivity|]. simpl. unfold on_tbl at 1.
  rewrite (H o (or_introl eq_refl)), N.eqb_refl. f_equal. apply IH. intros o' Ho'. apply H. right. exact Ho'.
Qed.

Lemma filter_flat_map_one : forall {A} (f : A -> list op) (key : A -> N) l u,
  (forall x o, In o (f x) -> op_tbl o = key x) -> NoDup (map key l) -> In u l ->
  filter (on_tbl (key u)) (flat_map f l) = f u.
Proof.
  intros A f key l u Hf. induction l as [|a l IH]; intros Hnd Hin; [contradiction|].
  simpl in Hnd. inversion Hnd as [|x y Hna Hnd']; subst.
  simpl. rewrite filter_app. destruct Hin as [Hin|Hin].
  - subst a. rewrite (filter_flat_map_none f key l (key u) Hf Hna), app_nil_r.
    apply filter_all. intros o Ho. apply (Hf u o Ho).
  - rewrite IH by assumption.
    assert (Hk : key a <> key u).
    { intros E. apply Hna. rewrite E. apply in_map. exact Hin. }
    assert (G : filter (on_tbl (key u)) (f a) = []).
    { assert (G' : forall l', (forall o, In o l' -> op_tbl o = key a) -> filter (on_tbl (key u)) l' = []).
      { induction l' as [|o l' IHl]; intros H; [reflexivity|]. simpl. unfold on_tbl at 1.
        rewrite (H o (or_introl eq_refl)). apply N.eqb_neq in Hk. rewrite Hk.
        apply IHl. intros o' Ho'. apply H. right. exact Ho'. }
      apply G'. intros o Ho. apply (Hf a o Ho). }
    rewrite G. reflexivity.
Qed.

(* ---- small list facts over N ----------------------------------------------------------------- *)
Lemma mem_In : forall t l, mem t l = true <-> In t l.
Proof.
  intros t l. unfold mem. rewrite existsb_exists. split.
  - intros [x [Hx E]]. apply N.eqb_eq in E. subst. exact Hx.
  - intros H. exists t. split; [exact H | apply N.eqb_refl].
Qed.

Lemma nodup_b_NoDup : forall l, nodup_b l = true -> NoDup l.
Proof.
  induction l as [|x l IH]; intros H; [constructor|].
  simpl in H. apply andb_true_iff in H. destruct H as [H1 H2]. constructor.
  - intros Hin. apply mem_In in Hin. rewrite Hin in H1. discriminate.
  - apply IH. exact H2.
Qed.

Lemma NoDup_app_l : forall {A} (a b : list A), NoDup (a ++ b) -> NoDup a.
Proof.
  induction a as [|x a IH]; intros b H; [constructor|].
  inversion H as [|y l Hn Hd]; subst. constructor.
  - intros Hin. apply Hn. apply in_or_app. left. exact Hin.
  - apply (IH b). exact Hd.
Qed.

Lemma NoDup_app_r : forall {A} (a b : list A), NoDup (a ++ b) -> NoDup b.
Proof.
  induction a as [|x a IH]; intros b H; [exact H|].
  inversion H; subst. apply IH. assumption.
Qed.

Lemma NoDup_app_disj : forall {A} (a b : list A) x, NoDup (a ++ b) -> In x a -> ~ In x b.
Proof.
  induction a as [|y a IH]; intros b x H Hin; [contradiction|].
  inversion H as [|z l Hn Hd]; subst. destruct Hin as [Hin|Hin].
  - subst y. intros Hb. apply Hn. apply in_or_app. right. exact Hb.
  - apply IH; assumption.
Qed.

Lemma exists_b_true : forall s p, exists_b s p = true -> exists c, lookup s p = Some c.
Proof. intros s p H. unfold exists_b in H. destruct (lookup s p) as [c|]; [exists c; reflexivity | discriminate]. Qed.

Lemma content_eqb_eq : forall a b, content_eqb a b = true <-> a = b.
Proof.
  unfold content_eqb. induction a as [|x a IH]; intros [|y b]; simpl; split; intros H; try discriminate; try reflexivity.
  - apply andb_true_iff in H. destruct H as [H1 H2]. apply N.eqb_eq in H1. apply IH in H2. subst. reflexivity.
  - inversion H; subst. rewrite N.eqb_refl. simpl. apply IH. reflexivity.
Qed.

Lemma lookup_In_key : forall s p c, lookup s p = Some c -> exists c', In (p, c') s.
Proof.
  induction s as [|[q d] s IH]; intros p c H; simpl in H; [discriminate|].
  destruct (path_eqb q p) eqn:E.
  - apply path_eqb_eq in E. subst q. exists d. left. reflexivity.
  - destruct (IH p c H) as [c' Hc']. exists c'. right. exact Hc'.
Qed.

Lemma lookup_filter_data : forall s p, is_data p = true ->
  lookup (filter (fun e => is_data (fst e)) s) p = lookup s p.
Proof.
  induction s as [|[q d] s IH]; intros p Hp; [reflexivity|].
  simpl. destruct (is_data q) eqn:Eq; simpl.
  - destruct (path_eqb q p); [reflexivity | apply IH; exact Hp].
  - destruct (path_eqb q p) eqn:E; [|apply IH; exact Hp].
    apply path_eqb_eq in E. subst q. congruence.
Qed.

Lemma lookup_filter_control : forall s p, is_data p = false ->
  lookup (filter (fun e => is_data (fst e)) s) p = None.
Proof.
  induction s as [|[q d] s IH]; intros p Hp; [reflexivity|].
  simpl. destruct (is_data q) eqn:Eq; simpl; [|apply IH; exact Hp].
  destruct (path_eqb q p) eqn:E; [|apply IH; exact Hp].
  apply path_eqb_eq in E. subst q. congruence.
Qed.
